package main

// waitsites.go -- property C05 (b): the table of BLOCKING STATEMENTS on the outbound call
// path, extracted from the Go source on every run (Gen/GenWaitSites.v).
//
// Root set: the functions a caller's goroutine executes between BeginCall and the last
// argument reader's Close (waitEntries below), plus forwardPeerFrame (the connection
// reader goroutine handing frames to the caller), closed under the STATIC call graph:
// direct calls, method calls, calls through interfaces declared in package tchannel
// (resolved to every implementing type of the package), deferred calls and function
// literals.  NOT followed: `go` statements (another goroutine), calls through function
// values (connectionEvents, onRemoved, handlers) other than the dialer.
//
// A wait site is
//   select   a select statement without default; exits from its comm clauses:
//              <-X.Done() with X a context.Context          -> ctx
//              <-E.c with E an errNotifier                    -> errLatch
//              anything else                                  -> data
//   chanop   a channel send / receive / range outside any select   (exits: data only)
//   lock     X.Lock()/RLock() on a mutex that SOME function of the package holds across
//            network I/O (region Lock..Unlock / Lock..defer Unlock contains a call that
//            reaches a network I/O statement)                       (exits: none)
//   dial     a call of a function VALUE returning net.Conn (the dialer); exit ctx iff a
//            context.Context is passed to it
//   netio    a statement that reads/writes a net.Conn (method Read/Write on a net.Conn, or
//            a net.Conn passed where an io.Reader/io.Writer is expected); exit
//            connDeadline iff a function that reads ctx.Deadline() and passes a non-zero time to
//            SetDeadline on a net.Conn was called with a context earlier in the same function, or -- recursively -- before every call site of
//            the function inside the root set
//   other    sync.WaitGroup.Wait, sync.Cond.Wait, time.Sleep           (exits: none)
//
// This is a syntactic approximation (trusted base of C05): it does not prove that the
// code reaches the exits in time, only that no blocking statement on the path lacks one.

import (
	"bytes"
	"fmt"
	"go/ast"
	"go/token"
	"go/types"
	"path/filepath"
	"sort"
	"strings"
)

// API entry points of an outbound call (caller goroutine), and the frame hand-over.
var waitEntries = []string{
	"Channel.BeginCall", "SubChannel.BeginCall", "Peer.BeginCall",
	"OutboundCall.Arg2Writer", "OutboundCall.Arg3Writer",
	"fragmentingWriter.Write", "fragmentingWriter.Flush", "fragmentingWriter.Close",
	"OutboundCall.Response", "OutboundCallResponse.Arg2Reader", "OutboundCallResponse.Arg3Reader",
	"fragmentingReader.Read", "fragmentingReader.Close",
	"ArgWriteHelper.Write", "ArgReadHelper.Read",
	"messageExchangeSet.forwardPeerFrame",
}

type waitSite struct {
	fn, pos, kind, text string
	exits               []string
	at                  token.Pos
}

type wsAnalysis struct {
	t        *translator
	info     *types.Info
	decl     map[*types.Func]*ast.FuncDecl
	name     map[*types.Func]string
	callees  map[*types.Func][]*types.Func
	netSeed  map[*types.Func]bool // function contains a direct net I/O statement
	netIO    map[*types.Func]bool // ... or reaches one
	setsDl   map[*types.Func]bool // function (transitively) sets a deadline on a net.Conn and takes a context
	ioLocks  map[types.Object]string
	closure  map[*types.Func]bool
	guarded  map[*types.Func]bool
	named    []*types.Named
	connType types.Type
}

func isNamed(tp types.Type, pkg, name string) bool {
	if p, ok := tp.(*types.Pointer); ok {
		tp = p.Elem()
	}
	n, ok := tp.(*types.Named)
	if !ok || n.Obj() == nil || n.Obj().Name() != name {
		return false
	}
	if n.Obj().Pkg() == nil {
		return pkg == ""
	}
	return n.Obj().Pkg().Path() == pkg || strings.HasSuffix(n.Obj().Pkg().Path(), "/"+pkg)
}

func isNetConn(tp types.Type) bool { return tp != nil && isNamed(tp, "net", "Conn") }
func isContext(tp types.Type) bool { return tp != nil && isNamed(tp, "context", "Context") }
func isIOStream(tp types.Type) bool {
	return tp != nil && (isNamed(tp, "io", "Reader") || isNamed(tp, "io", "Writer") || isNamed(tp, "io", "ReadWriter"))
}

func (a *wsAnalysis) typeOf(e ast.Expr) types.Type {
	if tv, ok := a.info.Types[e]; ok {
		return tv.Type
	}
	return nil
}

// static callees of one call expression
func (a *wsAnalysis) calleesOf(call *ast.CallExpr) []*types.Func {
	fun := call.Fun
	for {
		if p, ok := fun.(*ast.ParenExpr); ok {
			fun = p.X
			continue
		}
		break
	}
	switch f := fun.(type) {
	case *ast.Ident:
		if fn, ok := a.info.Uses[f].(*types.Func); ok {
			return []*types.Func{fn}
		}
	case *ast.SelectorExpr:
		if sel, ok := a.info.Selections[f]; ok {
			fn, ok := sel.Obj().(*types.Func)
			if !ok {
				return nil // field of function type: not followed
			}
			recv := sel.Recv()
			if p, ok := recv.(*types.Pointer); ok {
				recv = p.Elem()
			}
			if n, ok := recv.(*types.Named); ok {
				if iface, ok := n.Underlying().(*types.Interface); ok && n.Obj().Pkg() == a.t.pkg.Types {
					var out []*types.Func
					for _, cand := range a.named {
						if _, isI := cand.Underlying().(*types.Interface); isI {
							continue
						}
						var impl types.Type
						if types.Implements(cand, iface) {
							impl = cand
						} else if types.Implements(types.NewPointer(cand), iface) {
							impl = types.NewPointer(cand)
						} else {
							continue
						}
						if m := types.NewMethodSet(impl).Lookup(fn.Pkg(), fn.Name()); m != nil {
							if mf, ok := m.Obj().(*types.Func); ok {
								out = append(out, mf)
							}
						}
					}
					return out
				}
			}
			return []*types.Func{fn}
		}
		if fn, ok := a.info.Uses[f.Sel].(*types.Func); ok {
			return []*types.Func{fn}
		}
	}
	return nil
}

// walk visits every node of body that executes in the goroutine running body: the
// call of a `go` statement is skipped (its argument expressions are still evaluated here).
func walkSameGoroutine(body ast.Node, visit func(n ast.Node) bool) {
	ast.Inspect(body, func(n ast.Node) bool {
		if g, ok := n.(*ast.GoStmt); ok {
			for _, arg := range g.Call.Args {
				walkSameGoroutine(arg, visit)
			}
			return false
		}
		if n == nil {
			return false
		}
		return visit(n)
	})
}

// direct network I/O in a call expression: "dial", "netio" or ""
func (a *wsAnalysis) netKind(call *ast.CallExpr) string {
	// a function VALUE (not a declared function/method) whose result includes net.Conn
	if len(a.calleesOf(call)) == 0 {
		if sig, ok := a.typeOf(call.Fun).(*types.Signature); ok {
			for i := 0; i < sig.Results().Len(); i++ {
				if isNetConn(sig.Results().At(i).Type()) {
					return "dial"
				}
			}
		}
	}
	if sel, ok := call.Fun.(*ast.SelectorExpr); ok {
		if (sel.Sel.Name == "Read" || sel.Sel.Name == "Write") && isNetConn(a.typeOf(sel.X)) {
			return "netio"
		}
	}
	// a net.Conn handed over as a plain byte stream
	if sig, ok := a.typeOf(call.Fun).(*types.Signature); ok {
		for i, arg := range call.Args {
			if !isNetConn(a.typeOf(arg)) {
				continue
			}
			var pt types.Type
			if i < sig.Params().Len() {
				pt = sig.Params().At(i).Type()
			} else if sig.Variadic() && sig.Params().Len() > 0 {
				pt = sig.Params().At(sig.Params().Len() - 1).Type()
			}
			if isIOStream(pt) {
				return "netio"
			}
		}
	}
	return ""
}

// isDeadlineCall: X.SetDeadline(d) on a net.Conn with d not the zero time.Time{} (a reset)
func (a *wsAnalysis) isDeadlineCall(call *ast.CallExpr) bool {
	if sel, ok := call.Fun.(*ast.SelectorExpr); ok {
		switch sel.Sel.Name {
		case "SetDeadline", "SetReadDeadline", "SetWriteDeadline":
			if !isNetConn(a.typeOf(sel.X)) || len(call.Args) != 1 {
				return false
			}
			if cl, ok := call.Args[0].(*ast.CompositeLit); ok && len(cl.Elts) == 0 {
				return false
			}
			return true
		}
	}
	return false
}

// isCtxDeadlineCall: ctx.Deadline() on a context.Context
func (a *wsAnalysis) isCtxDeadlineCall(call *ast.CallExpr) bool {
	if sel, ok := call.Fun.(*ast.SelectorExpr); ok && sel.Sel.Name == "Deadline" {
		return isContext(a.typeOf(sel.X))
	}
	return false
}

func (a *wsAnalysis) hasCtxArg(call *ast.CallExpr) bool {
	for _, arg := range call.Args {
		if isContext(a.typeOf(arg)) {
			return true
		}
	}
	return false
}

func (a *wsAnalysis) hasCtxParam(fn *types.Func) bool {
	sig := fn.Type().(*types.Signature)
	for i := 0; i < sig.Params().Len(); i++ {
		if isContext(sig.Params().At(i).Type()) {
			return true
		}
	}
	return false
}

func newWsAnalysis(t *translator) *wsAnalysis {
	a := &wsAnalysis{t: t, info: t.pkg.TypesInfo, decl: map[*types.Func]*ast.FuncDecl{}, name: map[*types.Func]string{},
		callees: map[*types.Func][]*types.Func{}, netSeed: map[*types.Func]bool{}, netIO: map[*types.Func]bool{},
		setsDl: map[*types.Func]bool{}, ioLocks: map[types.Object]string{}, closure: map[*types.Func]bool{}, guarded: map[*types.Func]bool{}}
	scope := t.pkg.Types.Scope()
	for _, n := range scope.Names() {
		if tn, ok := scope.Lookup(n).(*types.TypeName); ok {
			if nm, ok := tn.Type().(*types.Named); ok {
				a.named = append(a.named, nm)
			}
		}
	}
	for name, fd := range t.funcs {
		fname := filepath.Base(t.fset.Position(fd.Pos()).Filename)
		if strings.HasSuffix(fname, "_test.go") || strings.HasPrefix(fname, "zz_verif") || strings.HasPrefix(fname, "verif_point") || fd.Body == nil {
			continue
		}
		if fn, ok := a.info.Defs[fd.Name].(*types.Func); ok {
			a.decl[fn] = fd
			a.name[fn] = name
		}
	}
	// call graph, seeds
	// directDl: the function itself reads the context's deadline and sets it on a connection
	directDl := map[*types.Func]bool{}
	for fn, fd := range a.decl {
		seen := map[*types.Func]bool{}
		setsConn, readsCtx := false, false
		walkSameGoroutine(fd.Body, func(n ast.Node) bool {
			call, ok := n.(*ast.CallExpr)
			if !ok {
				return true
			}
			for _, c := range a.calleesOf(call) {
				if _, ours := a.decl[c]; ours && !seen[c] {
					seen[c] = true
					a.callees[fn] = append(a.callees[fn], c)
				}
			}
			if a.netKind(call) != "" {
				a.netSeed[fn] = true
			}
			if a.isDeadlineCall(call) {
				setsConn = true
			}
			if a.isCtxDeadlineCall(call) {
				readsCtx = true
			}
			return true
		})
		if setsConn && readsCtx {
			directDl[fn] = true
		}
		sort.Slice(a.callees[fn], func(i, j int) bool { return a.name[a.callees[fn][i]] < a.name[a.callees[fn][j]] })
	}
	// netIO = reaches a seed; setsDl = reaches a SetDeadline and takes a context
	reach := func(seed map[*types.Func]bool) map[*types.Func]bool {
		out := map[*types.Func]bool{}
		for f := range seed {
			out[f] = true
		}
		for changed := true; changed; {
			changed = false
			for fn := range a.decl {
				if out[fn] {
					continue
				}
				for _, c := range a.callees[fn] {
					if out[c] {
						out[fn] = true
						changed = true
						break
					}
				}
			}
		}
		return out
	}
	a.netIO = reach(a.netSeed)
	for fn := range reach(directDl) {
		if a.hasCtxParam(fn) {
			a.setsDl[fn] = true
		}
	}
	return a
}

// lockTarget: for `X.Lock()` / `X.RLock()` on a sync mutex returns the object naming the
// mutex (the field or variable; for an embedded mutex the object of X itself).
func (a *wsAnalysis) lockTarget(call *ast.CallExpr, names ...string) (types.Object, string, bool) {
	sel, ok := call.Fun.(*ast.SelectorExpr)
	if !ok {
		return nil, "", false
	}
	match := false
	for _, n := range names {
		if sel.Sel.Name == n {
			match = true
		}
	}
	if !match {
		return nil, "", false
	}
	s, ok := a.info.Selections[sel]
	if !ok {
		return nil, "", false
	}
	fn, ok := s.Obj().(*types.Func)
	if !ok || fn.Pkg() == nil || fn.Pkg().Path() != "sync" {
		return nil, "", false
	}
	var obj types.Object
	switch x := sel.X.(type) {
	case *ast.SelectorExpr:
		if xs, ok := a.info.Selections[x]; ok {
			obj = xs.Obj()
		}
	case *ast.Ident:
		// embedded mutex (p.Lock() with `sync.RWMutex` embedded in *p's type): name the type
		if tp := a.typeOf(x); tp != nil {
			if p, ok := tp.(*types.Pointer); ok {
				tp = p.Elem()
			}
			if n, ok := tp.(*types.Named); ok {
				obj = n.Obj()
			}
		}
		if obj == nil {
			obj = a.info.Uses[x]
		}
	}
	if obj == nil {
		return nil, "", false
	}
	return obj, a.t.src(sel.X), true
}

// ioLockScan: which mutexes are held across network I/O anywhere in the package.
func (a *wsAnalysis) ioLockScan() {
	for fn, fd := range a.decl {
		var scanBlock func(list []ast.Stmt)
		regionHasIO := func(stmts []ast.Stmt) bool {
			found := false
			for _, s := range stmts {
				walkSameGoroutine(s, func(n ast.Node) bool {
					if call, ok := n.(*ast.CallExpr); ok {
						if a.netKind(call) != "" {
							found = true
						}
						for _, c := range a.calleesOf(call) {
							if a.netIO[c] {
								found = true
							}
						}
					}
					return !found
				})
			}
			return found
		}
		scanBlock = func(list []ast.Stmt) {
			for i, s := range list {
				if es, ok := s.(*ast.ExprStmt); ok {
					if call, ok := es.X.(*ast.CallExpr); ok {
						if obj, _, ok := a.lockTarget(call, "Lock", "RLock"); ok {
							// region: up to the matching Unlock statement of this block, else (defer) the rest
							end := len(list)
							for j := i + 1; j < len(list); j++ {
								if es2, ok := list[j].(*ast.ExprStmt); ok {
									if c2, ok := es2.X.(*ast.CallExpr); ok {
										if o2, _, ok := a.lockTarget(c2, "Unlock", "RUnlock"); ok && o2 == obj {
											end = j
											break
										}
									}
								}
							}
							if regionHasIO(list[i+1 : end]) {
								if old, ok := a.ioLocks[obj]; !ok || a.name[fn] < old {
									a.ioLocks[obj] = a.name[fn]
								}
							}
						}
					}
				}
				// nested blocks
				ast.Inspect(s, func(n ast.Node) bool {
					if n == s {
						return true
					}
					switch b := n.(type) {
					case *ast.BlockStmt:
						scanBlock(b.List)
						return false
					case *ast.CaseClause:
						scanBlock(b.Body)
						return false
					case *ast.CommClause:
						scanBlock(b.Body)
						return false
					case *ast.FuncLit:
						scanBlock(b.Body.List)
						return false
					}
					return true
				})
			}
		}
		scanBlock(fd.Body.List)
	}
}

func (a *wsAnalysis) computeClosure() {
	byName := map[string]*types.Func{}
	for fn, n := range a.name {
		byName[n] = fn
	}
	var work []*types.Func
	for _, e := range waitEntries {
		fn, ok := byName[e]
		if !ok {
			failf("wait sites: entry point %s not found in the source", e)
		}
		a.closure[fn] = true
		work = append(work, fn)
	}
	for len(work) > 0 {
		fn := work[len(work)-1]
		work = work[:len(work)-1]
		for _, c := range a.callees[fn] {
			if !a.closure[c] {
				a.closure[c] = true
				work = append(work, c)
			}
		}
	}
}

// deadlineBefore: does fd set a context-derived deadline on a connection before pos?
func (a *wsAnalysis) deadlineBefore(fd *ast.FuncDecl, pos token.Pos) bool {
	found := false
	walkSameGoroutine(fd.Body, func(n ast.Node) bool {
		call, ok := n.(*ast.CallExpr)
		if !ok || call.Pos() >= pos {
			return true
		}
		for _, c := range a.calleesOf(call) {
			if a.setsDl[c] && a.hasCtxArg(call) {
				found = true
			}
		}
		return true
	})
	return found
}

// guarded(f): every call site of f inside the root set lies after a deadline was set in the
// caller, or the caller is itself guarded.  Greatest fixpoint would accept cycles; we take
// the least fixpoint (a cycle without an outside guard is unguarded).
func (a *wsAnalysis) computeGuarded() {
	entry := map[*types.Func]bool{}
	byName := map[string]*types.Func{}
	for fn, n := range a.name {
		byName[n] = fn
	}
	for _, e := range waitEntries {
		entry[byName[e]] = true
	}
	type site struct {
		caller *types.Func
		pos    token.Pos
	}
	sites := map[*types.Func][]site{}
	for fn := range a.closure {
		walkSameGoroutine(a.decl[fn].Body, func(n ast.Node) bool {
			if call, ok := n.(*ast.CallExpr); ok {
				for _, c := range a.calleesOf(call) {
					if a.closure[c] {
						sites[c] = append(sites[c], site{fn, call.Pos()})
					}
				}
			}
			return true
		})
	}
	for changed := true; changed; {
		changed = false
		for fn := range a.closure {
			if a.guarded[fn] || entry[fn] || len(sites[fn]) == 0 {
				continue
			}
			all := true
			for _, s := range sites[fn] {
				if !(a.guarded[s.caller] || a.deadlineBefore(a.decl[s.caller], s.pos)) {
					all = false
					break
				}
			}
			if all {
				a.guarded[fn] = true
				changed = true
			}
		}
	}
}

func (a *wsAnalysis) oneLine(n ast.Node) string {
	s := a.t.src(n)
	s = strings.Join(strings.Fields(s), " ")
	if len(s) > 90 {
		s = s[:90] + "..."
	}
	return strings.ReplaceAll(strings.ReplaceAll(s, "(*", "( *"), "*)", "* )")
}

func (a *wsAnalysis) commExit(comm ast.Stmt) string {
	var recv ast.Expr
	switch c := comm.(type) {
	case *ast.ExprStmt:
		if u, ok := c.X.(*ast.UnaryExpr); ok && u.Op == token.ARROW {
			recv = u.X
		}
	case *ast.AssignStmt:
		if len(c.Rhs) == 1 {
			if u, ok := c.Rhs[0].(*ast.UnaryExpr); ok && u.Op == token.ARROW {
				recv = u.X
			}
		}
	}
	if recv == nil {
		return "XData" // a send
	}
	if call, ok := recv.(*ast.CallExpr); ok {
		if sel, ok := call.Fun.(*ast.SelectorExpr); ok && sel.Sel.Name == "Done" && isContext(a.typeOf(sel.X)) {
			return "XCtx"
		}
		if sel, ok := call.Fun.(*ast.SelectorExpr); ok && sel.Sel.Name == "After" {
			return "XTimer"
		}
	}
	if sel, ok := recv.(*ast.SelectorExpr); ok {
		if tp := a.typeOf(sel.X); tp != nil && isNamed(tp, a.t.pkg.Types.Path(), "errNotifier") && sel.Sel.Name == "c" {
			return "XErrLatch"
		}
		if sel.Sel.Name == "C" && (isNamed(a.typeOf(sel.X), "time", "Timer") || isNamed(a.typeOf(sel.X), "time", "Ticker")) {
			return "XTimer"
		}
	}
	return "XData"
}

func (a *wsAnalysis) sitesOf(fn *types.Func) []waitSite {
	fd := a.decl[fn]
	var out []waitSite
	add := func(n ast.Node, kind string, exits []string) {
		p := a.t.fset.Position(n.Pos())
		out = append(out, waitSite{fn: a.name[fn], pos: fmt.Sprintf("%s:%d", filepath.Base(p.Filename), p.Line), kind: kind, text: a.oneLine(n), exits: exits, at: n.Pos()})
	}
	inSelectComm := map[ast.Node]bool{}
	walkSameGoroutine(fd.Body, func(n ast.Node) bool {
		switch s := n.(type) {
		case *ast.SelectStmt:
			hasDefault := false
			var exits []string
			seen := map[string]bool{}
			for _, c := range s.Body.List {
				cc := c.(*ast.CommClause)
				if cc.Comm == nil {
					hasDefault = true
					continue
				}
				inSelectComm[cc.Comm] = true
				if e := a.commExit(cc.Comm); !seen[e] {
					seen[e] = true
					exits = append(exits, e)
				}
			}
			if !hasDefault {
				sort.Strings(exits)
				add(s, "WSelect", exits)
			}
		case *ast.SendStmt:
			if !inSelectComm[s] {
				add(s, "WChanOp", []string{"XData"})
			}
		case *ast.ExprStmt:
			if inSelectComm[s] {
				return false
			}
		case *ast.AssignStmt:
			if inSelectComm[s] {
				return false
			}
		case *ast.UnaryExpr:
			if s.Op == token.ARROW {
				add(s, "WChanOp", []string{"XData"})
			}
		case *ast.RangeStmt:
			if _, ok := a.typeOf(s.X).Underlying().(*types.Chan); ok {
				add(s, "WChanOp", []string{"XData"})
			}
		case *ast.CallExpr:
			if obj, _, ok := a.lockTarget(s, "Lock", "RLock"); ok {
				if _, held := a.ioLocks[obj]; held {
					add(s, "WLock", nil)
				}
			}
			switch a.netKind(s) {
			case "dial":
				if a.hasCtxArg(s) {
					add(s, "WDial", []string{"XCtx"})
				} else {
					add(s, "WDial", nil)
				}
			case "netio":
				if a.guarded[fn] || a.deadlineBefore(fd, s.Pos()) {
					add(s, "WNetIO", []string{"XConnDeadline"})
				} else {
					add(s, "WNetIO", nil)
				}
			}
			for _, c := range a.calleesOf(s) {
				if c.Pkg() != nil && ((c.Pkg().Path() == "sync" && c.Name() == "Wait") || (c.Pkg().Path() == "time" && c.Name() == "Sleep")) {
					add(s, "WOther", nil)
				}
			}
		}
		return true
	})
	return out
}

// waitSites writes Gen/GenWaitSites.v.
func (t *translator) waitSites(w *bytes.Buffer) (nsites, nfuncs int) {
	a := newWsAnalysis(t)
	a.ioLockScan()
	a.computeClosure()
	a.computeGuarded()
	var fns []*types.Func
	for fn := range a.closure {
		fns = append(fns, fn)
	}
	sort.Slice(fns, func(i, j int) bool { return a.name[fns[i]] < a.name[fns[j]] })
	var sites []waitSite
	for _, fn := range fns {
		ss := a.sitesOf(fn)
		sort.SliceStable(ss, func(i, j int) bool { return ss[i].at < ss[j].at })
		sites = append(sites, ss...)
	}
	fmt.Fprintf(w, "From Verif Require Import Spec.WaitSpec.\n\n")
	fmt.Fprintf(w, "(* Blocking statements of the outbound call path (go2v/waitsites.go).\n   entry points: %s\n   root set (static call-graph closure, go statements and function values not followed): %d functions *)\n",
		strings.Join(waitEntries, ", "), len(fns))
	fmt.Fprintf(w, "Definition wait_sites : list wsite := [\n")
	for i, s := range sites {
		sep := ";"
		if i == len(sites)-1 {
			sep = ""
		}
		fmt.Fprintf(w, "  (* %s %s: %s *)\n  mkWsite %s %s [%s]%s\n", s.pos, s.fn, s.text, strlit(s.fn), s.kind, strings.Join(s.exits, "; "), sep)
	}
	fmt.Fprintf(w, "].\n\n")
	// mutexes held across network I/O (anywhere in the package)
	var locks []string
	for obj, holder := range a.ioLocks {
		locks = append(locks, fmt.Sprintf("%s (held across network I/O in %s)", obj.Name(), holder))
	}
	sort.Strings(locks)
	fmt.Fprintf(w, "(* mutexes held across network I/O somewhere in the package: %s *)\n", strings.Join(locks, "; "))
	fmt.Fprintf(w, "Definition io_lock_count : Z := %d.\n\n", len(locks))
	fmt.Fprintf(w, "Definition wait_root_set : list (list Z) := [\n")
	for i, fn := range fns {
		sep := ";"
		if i == len(fns)-1 {
			sep = ""
		}
		fmt.Fprintf(w, "  (* %s *) %s%s\n", a.name[fn], strlit(a.name[fn]), sep)
	}
	fmt.Fprintf(w, "].\n")
	return len(sites), len(fns)
}

// waitSitesSafe: a failure of the wait-site extraction (an entry point of the call API is
// gone) must break property C05 only, not every property sharing this translator: the
// table is then written with a single site without exits, which refutes C05_wait_exits.
func (t *translator) waitSitesSafe(w *bytes.Buffer, repo string) (nsites, nfuncs int) {
	defer func() {
		if r := recover(); r != nil {
			f, ok := r.(failure)
			if !ok {
				panic(r)
			}
			w.Reset()
			fmt.Fprintf(w, header, repo)
			fmt.Fprintf(w, "From Verif Require Import Spec.WaitSpec.\n\n(* EXTRACTION FAILED: %s *)\n", strings.ReplaceAll(f.msg, "*)", "* )"))
			fmt.Fprintf(w, "Definition wait_sites : list wsite := [mkWsite [] WOther []].\nDefinition io_lock_count : Z := -1.\nDefinition wait_root_set : list (list Z) := [].\n")
			fmt.Printf("go2v: WAIT-SITE EXTRACTION FAILED: %s\n", f.msg)
			nsites, nfuncs = 0, 0
		}
	}()
	return t.waitSites(w)
}
