package main

// C08 (clause b, "no response with a gap") -- relay.go: what the relay does with a frame of a
// call it has already failed / entombed.  Three decisions are regenerated on every run into
// Gen/GenRelayGate.v and proved equal to the decisions of the relay models
// (Proofs/RelayGapP.v: Model/RelayItems.v INcChk / IRcvChk / IFailGet / IEntomb, Model/RelayFwd.v
// receive / handle_other):
//
//	relayReceiveGate   Relayer.Receive, every statement between the lookup
//	                   `item, stopped, ok := items.Get(id, finished)` and the first statement that
//	                   reports or enqueues: 0 = not found (the caller fails its own item),
//	                   1 = the frame is swallowed, 2 = the frame goes on to the send queue
//	relayNonCallGate   Relayer.handleNonCallReq, the same region: 0 = errUnknownID,
//	                   1 = swallowed, 2 = forwarded to the destination's Receive
//	relayFailItem      Relayer.failRelayItem after its lookup: 0 = nothing happens, otherwise
//	                   1 + [1: error frame sent] + [2: call.Failed] + [4: call.End] + [8: decrementPending],
//	                   reached only through Entomb (marker `ok` is bound by the Entomb statement)
//
// The anchors contain the stop-timer argument of the lookups (`finished` / `true`): the models
// stop the timer exactly there.  A statement inserted into one of the regions, a changed
// condition, a dropped Entomb, a changed anchor: the definition changes or is not generated,
// and RelayGapP.v no longer compiles.
func init() {
	gateS := map[string]string{
		"verifPoint(...":              "",
		"r.logger.WithFields(...":     "",
		"items.logger.WithFields(...": "",
	}
	targets = append(targets, []Target{
		{Func: "Relayer.Receive", Out: "relayReceiveGate", File: "GenRelayGate", Soft: true, RetIdx: 0,
			Params: "(ok : bool) (item_tomb : bool) (finished : bool) (stopped : bool)", Ret: "Z",
			Stmt: "item, stopped, ok := items.Get(id, finished", After: true, Until: "if fType == responseFrame", Rest: "2",
			Hints:  map[string]string{"item.tomb": "item_tomb", "false": "0", "true": "1"},
			SHints: gateS},
		{Func: "Relayer.handleNonCallReq", Out: "relayNonCallGate", File: "GenRelayGate", Soft: true, RetIdx: 1,
			Params: "(ok : bool) (item_tomb : bool) (finished : bool) (stopped : bool)", Ret: "Z",
			Stmt: "item, stopped, ok := items.Get(f.Header.ID, finished", After: true, Until: "switch f.messageType()", Rest: "2",
			Hints:  map[string]string{"item.tomb": "item_tomb", "errUnknownID": "0", "nil": "1"},
			SHints: gateS},
		{Func: "Relayer.failRelayItem", Out: "relayFailItem", File: "GenRelayGate", Soft: true,
			Params: "(found : bool) (stopped : bool) (entomb_ok : bool) (orig : bool) (source_slow : bool)", Ret: "Z",
			Stmt: "item, stopped, found := items.Get(id, true", After: true, NakedRet: "0",
			Pre:   "let sent := 0 in let failed := 0 in let ended := 0 in let dec := 0 in",
			Rest:  "(1 + sent + failed + ended + dec)",
			Hints: map[string]string{"item.isOriginator": "orig", "reason != _relayErrorSourceConnSlow": "(negb source_slow)"},
			SHints: merge(gateS, map[string]string{
				"item, ok := items.Entomb(id, _relayTombTTL)": "let ok := entomb_ok in",
				"r.conn.SendSystemError(id, item.span,...":    "let sent := 1 in",
				"item.call.Failed(reason)":                    "let failed := 2 in",
				"item.call.End()":                             "let ended := 4 in",
				"r.decrementPending()":                        "let dec := 8 in",
			})},
	}...)
}
