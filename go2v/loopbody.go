package main

// Loop bodies as statement targets (C19): the statements of ONE iteration of a `for` loop,
// selected with Stmt (+ After), translated to a Gallina term that says how the iteration ends.
//
//   continue              => Hints["stmt:continue"]   (terminal: the tail is not translated)
//   return  (no results)  => Hints["stmt:return"]     (terminal)
//   v++ / v--             => let v := wrap(v ± 1) in   (fixed-width arithmetic of v's type)
//
// The two terminal forms are opt-in per target (without the hint the statement stays outside
// the subset and the translation fails as before); the hint text is printed in the Gen file
// with the other hints.  Falling off the end of the body is the target's Rest, as for every
// statement target.  Nothing is said about the loop itself: the theorems over the generated
// definition are about one iteration, the hand model iterates it.

import (
	"go/ast"
	"go/token"
)

func (c *fnctx) stmtLoopExt(list []ast.Stmt, rest string) (string, bool) {
	switch x := list[0].(type) {
	case *ast.BranchStmt:
		if x.Tok == token.CONTINUE && x.Label == nil {
			if h, ok := c.tg.Hints["stmt:continue"]; ok {
				return h, true
			}
		}
	case *ast.ReturnStmt:
		if len(x.Results) == 0 {
			if h, ok := c.tg.Hints["stmt:return"]; ok {
				return h, true
			}
		}
	case *ast.CommClause:
		// `case v := <-ch:` selected as a statement target: what is done with a value taken off the
		// channel (the communication itself is not translated)
		return c.stmts(append(append([]ast.Stmt{}, x.Body...), list[1:]...), rest), true
	case *ast.IncDecStmt:
		id, ok := x.X.(*ast.Ident)
		if !ok {
			return "", false
		}
		name := coqIdent(id.Name)
		if r, ok := c.tg.Renames[id.Name]; ok {
			name = r
		}
		op := " + 1"
		if x.Tok == token.DEC {
			op = " - 1"
		}
		return "let " + name + " := " + wrapFor(c.typeOf(x.X), "("+name+op+")") + " in\n  " + c.stmts(list[1:], rest), true
	}
	return "", false
}

// C19 -- one iteration of the health-check loop and of the idle sweep's closing loop.
func init() {
	targetImports["GenHealthLoop"] = []string{"Gen.GenRetry", "Gen.GenFrame"}
	targets = append(targets, []Target{
		// health.go healthCheck: everything that follows `cancel()` in the loop body, i.e. from
		// `c.healthCheckHistory.add(err == nil)` to the end of the iteration.
		// Result (consecutiveFailures', how, added): how = 0 the loop goes on (continue / end of the
		// body), 1 the goroutine returns without closing, 2 it returns after c.close(...);
		// added = the value put into the health history.  err is ping's error; is_invalid_state =
		// (err == ErrInvalidConnectionState); debugEnabled = c.log.Enabled(LogLevelDebug) -- a
		// PARAMETER: the theorem over this definition is for both values, so a statement that
		// moves under a logging guard changes the definition for one of them.  Logging calls are
		// dropped; the refusing / closing branches must contain the statements named in the
		// stmt-hints (a missing one leaves its marker unbound and the Gen file does not compile).
		{Func: "Connection.healthCheck", Out: "healthIterBody", File: "GenHealthLoop", Soft: true,
			Params: "(consecutiveFailures : Z) (err : goerr) (is_invalid_state : bool) (failuresToClose : Z) (debugEnabled : bool)",
			Ret:    "Z * Z * bool",
			Stmt:   "cancel()", After: true,
			Pre:  "let closed := 0 in",
			Rest: "(consecutiveFailures, 0, added)",
			Hints: merge(errHints, map[string]string{
				"call:GetSystemErrorCode":          "GetSystemErrorCode",
				"err == ErrInvalidConnectionState": "is_invalid_state",
				"opts.FailuresToClose":             "failuresToClose",
				"c.log.Enabled(LogLevelDebug)":     "debugEnabled",
				"stmt:continue":                    "(consecutiveFailures, 0, added)",
				"stmt:return":                      "(consecutiveFailures, 1 + closed, added)",
			}),
			SHints: map[string]string{
				"c.healthCheckHistory.add(err == nil)": "let added := (e_nil err) in",
				"c.log.Debug(...":                      "",
				"c.log.WithFields(...":                 "",
				"c.close(...":                          "let closed := 1 in",
			}},
		// idle_sweep.go checkIdleConnections: the body of the closing loop after its first schedule
		// point.  The schedule points are the instants: t = 1 at idle.sweep.check, +1 at every
		// further verifPoint; act / pend / idle give what conn.IsActive(), conn.hasPendingCalls(),
		// is.isIdle(conn, now) return when evaluated at an instant.  Result: 0 = the connection is
		// skipped, t > 0 = conn.close(...) is called at instant t.
		{Func: "idleSweep.checkIdleConnections", Out: "sweepLoopBody", File: "GenHealthLoop", Soft: true,
			Params: "(act pend idle : Z -> bool)", Ret: "Z",
			Stmt: "verifPoint(\"idle.sweep.check\"", After: true,
			Pre:  "let t := 1 in let closed_at := 0 in",
			Rest: "closed_at",
			Hints: map[string]string{
				"conn.IsActive()":        "(act t)",
				"conn.hasPendingCalls()": "(pend t)",
				"is.isIdle(conn, now)":   "(idle t)",
				"stmt:continue":          "0",
			},
			SHints: map[string]string{
				"verifPoint(...":     "let t := t + 1 in",
				"conn.log.Error(...": "",
				"conn.close(...":     "let closed_at := t in",
			}},
		// connection.go: the activity stamps.  stampOnRead / stampOnWrite: the new value of
		// lastActivityRead / lastActivityWrite after a frame of type mt (now_unix = c.timeNow().UnixNano()).
		{Func: "Connection.updateLastActivityRead", Out: "stampOnRead", File: "GenHealthLoop", Soft: true,
			Params: "(mt : Z) (now_unix : Z) (stamp : Z)", Ret: "Z",
			Stmt: "if isMessageTypeCall(frame) {", Rest: "stamp",
			Hints:  map[string]string{"isMessageTypeCall(frame)": "(isMessageTypeCall mt)"},
			SHints: map[string]string{"c.lastActivityRead.Store(c.timeNow().UnixNano())": "let stamp := now_unix in"}},
		{Func: "Connection.updateLastActivityWrite", Out: "stampOnWrite", File: "GenHealthLoop", Soft: true,
			Params: "(mt : Z) (now_unix : Z) (stamp : Z)", Ret: "Z",
			Stmt: "if isMessageTypeCall(frame) {", Rest: "stamp",
			Hints:  map[string]string{"isMessageTypeCall(frame)": "(isMessageTypeCall mt)"},
			SHints: map[string]string{"c.lastActivityWrite.Store(c.timeNow().UnixNano())": "let stamp := now_unix in"}},
		// ... and the two places that apply them.  writeFrames, what is done with a frame taken off
		// sendCh: (was c.updateLastActivityWrite(f) executed when f.WriteOut is called, 0 = the loop
		// goes on / 1 = the goroutine returns); debugEnabled is a parameter as in healthIterBody.
		{Func: "Connection.writeFrames", Out: "writeFrameTaken", File: "GenHealthLoop", Soft: true,
			Params: "(debugEnabled : bool) (write_ok : bool)", Ret: "Z * Z",
			Stmt: "case f := <-c.sendCh:", Pre: "let stamped := 0 in", Rest: "(stamped_at_write, 0)",
			Hints: map[string]string{"c.log.Enabled(LogLevelDebug)": "debugEnabled", "err != nil": "(negb err_nil)",
				"stmt:return": "(stamped_at_write, 1)"},
			SHints: map[string]string{
				"c.log.Debugf(...":             "",
				"c.updateLastActivityWrite(f)": "let stamped := 1 in",
				"err := f.WriteOut(c.conn)":    "let stamped_at_write := stamped in let err_nil := write_ok in",
				"c.opts.FramePool.Release(f)":  "",
				"c.connectionError(...":        "",
				"c.closeNetwork()":             "",
			}},
		// readFrames, one iteration from the frame's allocation: -1 = the body could not be read (the
		// goroutine returns), else whether c.updateLastActivityRead(frame) was executed when the
		// frame is handed to handleFrameNoRelay / handleFrameRelay.
		{Func: "Connection.readFrames", Out: "readFrameBody", File: "GenHealthLoop", Soft: true,
			Params: "(read_ok : bool)", Ret: "Z",
			Stmt: "frame := c.opts.FramePool.Get()", After: true,
			Pre: "let stamped := 0 in", Rest: "handled_after_stamp",
			Hints: map[string]string{"frame.ReadBody(headerBuf, c.conn)": "read_ok", "err != nil": "(negb err)",
				"stmt:return": "(-1)"},
			SHints: map[string]string{
				"handleErr(err)":                  "",
				"c.opts.FramePool.Release(frame)": "",
				"c.updateLastActivityRead(frame)": "let stamped := 1 in",
				"var releaseFrame bool":           "",
				"if c.relay == nil {...":          "let handled_after_stamp := stamped in",
				"if releaseFrame {...":            "",
				"verifPoint(...":                  "",
			}},
	}...)
}
