package main

// C17 -- what peer selection is FED with, and where the chosen peer is RECORDED, on the call
// paths that carry a RequestState (Gen/GenC17Calls.v).
//
// The clause "each attempt sees ... the peers already tried, and sub-channel calls avoid those
// peers while untried ones exist" rests on three small pieces of code outside retry.go:
//
//   SubChannel.BeginCall   peer, err := c.peers.Get(callOptions.RequestState.PrevSelectedPeers())
//   Channel.BeginCall      p := ch.RootPeers().GetOrAdd(hostPort); p.BeginCall(...)
//   Peer.BeginCall         callOptions.RequestState.AddSelectedPeer(p.HostPort()) before anything can fail
//
// and on the clients handing the attempt's RequestState down (thrift/client.go, json/call.go:
// `RequestState: rs` in the CallOptions).  They are translated here on every run -- the WHOLE
// function, as a Gallina function over the rest of the system given as parameters (the peer
// list's Get, the peer's BeginCall, the connection) -- and Proofs/C17CallsP.v proves each equal
// to the corresponding function of Model/C17Calls.v.  An edit that feeds Get anything else than
// the request's selected set (only on a retry, only from the second attempt on, nil, a copy
// taken earlier, ...), that moves / guards / drops the recording, or that stops handing the
// RequestState down changes the generated term and breaks that proof obligation.
//
// Value representation (coq/theories/Base/C17CallSem.v, trusted like every hint):
//   *RequestState  option c17rs   (nil = None; the fields Attempt and SelectedPeers; the map is
//                  seen as the list of its keys, a nil map as []), by VALUE
//   *CallOptions   option (option c17rs)   (nil = None; otherwise its RequestState field)
//   *Peer          its host:port
//   error          Z (0 = nil)
// A method that mutates the RequestState through the pointer (`x.AddSelectedPeer(hp)` as a
// statement) is "the value afterwards, stored back where the pointer was read from".
//
// Extensions of the decision-function translator used by the targets of this file only
// (stmtC17Ext, called from the statement chain of main.go):
//   * `a, b := call(...)` where the call is hinted ("method:T.M" / "call:f")  =>  let '(a, b) := ... in
//   * `recv.M(args)` as a statement with a hint "effect:T.M" => g: the receiver expression gets
//     the value (g recv args); recv is a variable, or X.F with a hint "setfield:T.F" => setter
//   * `var v T` without a value: Go's zero value of a pointer / map / integer / boolean
//   * hints BY TYPE, added before the function is translated: X == nil / X != nil for X of type
//     *CallOptions / *RequestState, X.RequestState, X.SelectedPeers, X.Attempt -- so that a
//     refactoring that renames a local keeps translating, and an edit that reads the fields
//     directly is translated (and then fails the PROOF, not the translation).

import (
	"go/ast"
	"go/token"
	"go/types"
	"sort"
	"strings"
)

const c17GenFile = "GenC17Calls"

func c17NamedOf(tp types.Type) (name string, ptr bool) {
	if tp == nil {
		return "", false
	}
	if p, ok := tp.(*types.Pointer); ok {
		tp = p.Elem()
		ptr = true
	}
	if n, ok := tp.(*types.Named); ok {
		return n.Obj().Name(), ptr
	}
	return "", false
}

var c17HintsDone = map[*fnctx]bool{}

// c17TypeHints adds the by-type hints for the function being translated.
func (c *fnctx) c17TypeHints() {
	if c17HintsDone[c] || c.fd == nil || c.fd.Body == nil {
		return
	}
	c17HintsDone[c] = true
	if c.tg.Hints == nil {
		c.tg.Hints = map[string]string{}
	}
	// a private copy: the static hint maps are shared between targets
	c.tg.Hints = merge(c.tg.Hints)
	var sels []*ast.SelectorExpr
	var bins []*ast.BinaryExpr
	ast.Inspect(c.fd.Body, func(n ast.Node) bool {
		switch x := n.(type) {
		case *ast.SelectorExpr:
			sels = append(sels, x)
		case *ast.BinaryExpr:
			if x.Op == token.EQL || x.Op == token.NEQ {
				bins = append(bins, x)
			}
		}
		return true
	})
	// inner selectors first
	sort.SliceStable(sels, func(i, j int) bool { return len(c.t.src(sels[i])) < len(c.t.src(sels[j])) })
	base := func(e ast.Expr) (string, bool) {
		e = stripParens(e)
		if h, ok := c.tg.Hints[c.t.src(e)]; ok {
			return h, true
		}
		if id, ok := e.(*ast.Ident); ok && id.Name != "nil" && id.Name != "_" {
			if r, ok := c.tg.Renames[id.Name]; ok {
				return r, true
			}
			return coqIdent(id.Name), true
		}
		return "", false
	}
	for _, s := range sels {
		src := c.t.src(s)
		if _, ok := c.tg.Hints[src]; ok {
			continue
		}
		tn, ptr := c17NamedOf(c.typeOf(s.X))
		if !ptr {
			continue
		}
		b, ok := base(s.X)
		if !ok {
			continue
		}
		switch tn + "." + s.Sel.Name {
		case "CallOptions.RequestState":
			c.tg.Hints[src] = "(c17_co_rs " + b + ")"
		case "RequestState.SelectedPeers":
			c.tg.Hints[src] = "(c17_rs_sel " + b + ")"
		case "RequestState.Attempt":
			c.tg.Hints[src] = "(c17_rs_attempt " + b + ")"
		}
	}
	for _, x := range bins {
		src := c.t.src(x)
		if _, ok := c.tg.Hints[src]; ok {
			continue
		}
		var other ast.Expr
		switch {
		case isNilIdent(x.Y):
			other = x.X
		case isNilIdent(x.X):
			other = x.Y
		default:
			continue
		}
		tn, ptr := c17NamedOf(c.typeOf(other))
		if !ptr || (tn != "CallOptions" && tn != "RequestState") {
			continue
		}
		b, ok := base(other)
		if !ok {
			continue
		}
		if x.Op == token.EQL {
			c.tg.Hints[src] = "(go_isnil " + b + ")"
		} else {
			c.tg.Hints[src] = "(negb (go_isnil " + b + "))"
		}
	}
}

func (c *fnctx) c17Name(e ast.Expr, at ast.Stmt) string {
	id, ok := e.(*ast.Ident)
	if !ok {
		failf("%s: unsupported left-hand side %q in %s", c.t.pos(at), c.t.src(e), c.tg.Func)
	}
	if id.Name == "_" {
		return "_"
	}
	if r, ok := c.tg.Renames[id.Name]; ok {
		return r
	}
	return coqIdent(id.Name)
}

// stmtC17Ext: the statement forms added for the targets of GenC17Calls (see the file comment).
func (c *fnctx) stmtC17Ext(list []ast.Stmt, rest string) (string, bool) {
	if c.tg.File != c17GenFile || len(list) == 0 {
		return "", false
	}
	c.c17TypeHints()
	s := list[0]
	tail := func() string { return c.stmts(list[1:], rest) }
	switch x := s.(type) {
	case *ast.AssignStmt:
		if len(x.Lhs) < 2 || len(x.Rhs) != 1 || (x.Tok != token.DEFINE && x.Tok != token.ASSIGN) {
			return "", false
		}
		call, ok := stripParens(x.Rhs[0]).(*ast.CallExpr)
		if !ok {
			return "", false
		}
		names := []string{}
		for _, l := range x.Lhs {
			names = append(names, c.c17Name(l, s))
		}
		return "let '(" + strings.Join(names, ", ") + ") := " + c.expr(call) + " in\n  " + tail(), true
	case *ast.ExprStmt:
		call, ok := stripParens(x.X).(*ast.CallExpr)
		if !ok {
			return "", false
		}
		sel, ok := call.Fun.(*ast.SelectorExpr)
		if !ok {
			return "", false
		}
		tn, _ := c17NamedOf(c.typeOf(sel.X))
		g, ok := c.tg.Hints["effect:"+tn+"."+sel.Sel.Name]
		if tn == "" || !ok {
			return "", false
		}
		parts := []string{g, c.expr(sel.X)}
		for _, a := range call.Args {
			parts = append(parts, c.expr(a))
		}
		newv := "(" + strings.Join(parts, " ") + ")"
		recv := stripParens(sel.X)
		if id, ok := recv.(*ast.Ident); ok {
			return "let " + c.c17Name(id, s) + " := " + newv + " in\n  " + tail(), true
		}
		if rs, ok := recv.(*ast.SelectorExpr); ok {
			on, _ := c17NamedOf(c.typeOf(rs.X))
			if setter, ok := c.tg.Hints["setfield:"+on+"."+rs.Sel.Name]; ok {
				if id, ok := stripParens(rs.X).(*ast.Ident); ok {
					nm := c.c17Name(id, s)
					return "let " + nm + " := (" + setter + " " + nm + " " + newv + ") in\n  " + tail(), true
				}
			}
		}
		failf("%s: %q mutates %q, which is neither a variable nor a declared field of a variable, in %s", c.t.pos(s), c.t.src(call), c.t.src(sel.X), c.tg.Func)
	case *ast.DeclStmt:
		gd, ok := x.Decl.(*ast.GenDecl)
		if !ok || gd.Tok != token.VAR {
			return "", false
		}
		pre := ""
		for _, sp := range gd.Specs {
			vs := sp.(*ast.ValueSpec)
			if len(vs.Values) != 0 {
				if len(vs.Values) != len(vs.Names) {
					failf("%s: unsupported declaration %q in %s", c.t.pos(s), c.t.src(s), c.tg.Func)
				}
				for i, id := range vs.Names {
					pre += "let " + c.c17Name(id, s) + " := " + c.expr(vs.Values[i]) + " in\n  "
				}
				continue
			}
			for _, id := range vs.Names {
				tp := c.t.pkg.TypesInfo.Defs[id].Type()
				var zero string
				switch u := tp.Underlying().(type) {
				case *types.Pointer:
					zero = "None"
				case *types.Map:
					zero = "(@nil (list Z))"
				case *types.Basic:
					switch {
					case u.Info()&types.IsBoolean != 0:
						zero = "false"
					case u.Info()&types.IsInteger != 0:
						zero = "0"
					}
				case *types.Interface:
					if c.tg.ErrNil != "" {
						zero = "0"
					}
				}
				if zero == "" {
					failf("%s: zero value of %v (declaration %q) in %s", c.t.pos(s), tp, c.t.src(s), c.tg.Func)
				}
				pre += "let " + c.c17Name(id, s) + " := " + zero + " in\n  "
			}
		}
		return pre + tail(), true
	}
	return "", false
}

var c17RsHints = map[string]string{
	"method:RequestState.PrevSelectedPeers": "c17PrevSelectedPeers",
	"method:RequestState.RetryCount":        "c17RetryCount",
	"call:len":                              "zlen",
}

var c17CallHints = merge(c17RsHints, map[string]string{
	"defaultCallOptions":                  "c17_default_co",
	"effect:RequestState.AddSelectedPeer": "c17_add_selected_peer",
	"setfield:CallOptions.RequestState":   "c17_co_set_rs",
	"method:Peer.HostPort":                "c17_peer_hostport",
	"method:Peer.BeginCall":               "c17_call_begin peer_begin_call",
	"nil":                                 "no_call",
})

func init() {
	targetImports[c17GenFile] = []string{"Base.GoErr", "Base.C17CallSem"}
	targets = append(targets, []Target{
		// retry.go: the two nil-safe accessors the call paths use
		{Func: "RequestState.PrevSelectedPeers", Out: "c17PrevSelectedPeers", File: c17GenFile, Soft: true,
			Params: "(rs : option c17rs)", Ret: "list (list Z)",
			Hints: merge(c17RsHints, map[string]string{"nil": "(@nil (list Z))"})},
		{Func: "RequestState.RetryCount", Out: "c17RetryCount", File: c17GenFile, Soft: true,
			Params: "(rs : option c17rs)", Ret: "Z", Hints: c17RsHints},
		// peer.go Peer.BeginCall, the whole function.  validate = what validateCall returns,
		// get_connection = what p.GetConnection returns, conn_begin_call = Connection.beginCall.
		// Result: (the call options afterwards -- i.e. the RequestState they point to --, (call, err))
		{Func: "Peer.BeginCall", Out: "c17PeerBeginCall", File: c17GenFile, Soft: true, IO: true, KeepRets: true, // KeepRets: a later `conn, err :=` re-declares err (re-bound by its own let)
			Params: "{K C : Type} (validate : Z) (get_connection : K * Z) (conn_begin_call : K -> option (option c17rs) -> C * Z) (no_call : C) (p : list Z) (ctx serviceName methodName : unit) (callOptions : option (option c17rs))",
			Ret:    "option (option c17rs) * (C * Z)", RetFmt: "(callOptions, %s)", ErrNil: "Z.eqb 0",
			Hints: merge(c17CallHints, map[string]string{
				"call:validateCall":           "c17_validate validate",
				"method:Peer.GetConnection":   "c17_get_conn get_connection",
				"method:Connection.beginCall": "c17_conn_begin conn_begin_call",
			})},
		// subchannel.go SubChannel.BeginCall, the whole function.  peers_get = c.peers.Get (the
		// selection, given the previously selected set), peer_begin_call = Peer.BeginCall of the peer chosen
		{Func: "SubChannel.BeginCall", Out: "c17SubChannelBeginCall", File: c17GenFile, Soft: true, IO: true,
			Params: "{P C : Type} (peers_get : list (list Z) -> P * Z) (peer_begin_call : P -> option (option c17rs) -> C * Z) (no_call : C) (ctx methodName : unit) (callOptions : option (option c17rs))",
			Ret:    "C * Z", ErrNil: "Z.eqb 0",
			Hints: merge(c17CallHints, map[string]string{
				"c.peers":             "peers_get",
				"method:PeerList.Get": "c17_call1",
				"c.ServiceName()":     "tt",
			})},
		// channel.go Channel.BeginCall, the whole function.  get_or_add = ch.RootPeers().GetOrAdd
		{Func: "Channel.BeginCall", Out: "c17ChannelBeginCall", File: c17GenFile, Soft: true, IO: true,
			Params: "{P C : Type} (get_or_add : list Z -> P) (peer_begin_call : P -> option (option c17rs) -> C * Z) (ctx serviceName methodName : unit) (hostPort : list Z) (callOptions : option (option c17rs))",
			Ret:    "C * Z", ErrNil: "Z.eqb 0",
			Hints: merge(c17CallHints, map[string]string{
				"ch.RootPeers()":               "get_or_add",
				"method:RootPeerList.GetOrAdd": "c17_call1",
			})},
		// the retrying clients hand the attempt's RequestState down: the RequestState entry of the
		// CallOptions literal inside the function given to RunWithRetry
		{Func: "client.Call", Pkg: "thrift", Out: "c17ThriftCallRequestState", File: c17GenFile, Soft: true, KeyVal: "RequestState",
			Params: "(rs : option c17rs)", Ret: "option c17rs"},
		{Func: "Client.Call", Pkg: "json", Out: "c17JsonCallRequestState", File: c17GenFile, Soft: true, KeyVal: "RequestState",
			Params: "(rs : option c17rs)", Ret: "option c17rs"},
	}...)
}
