// go2v: translate constants and loop-free decision functions of /repo's Go source into
// Gallina definitions (coq/theories/Gen/*.v).  Anything outside the supported subset is
// a translator error (exit 2 with the declaration named), never a guess.
//
// usage: go2v -repo /repo -out /verif/coq/theories/Gen
package main

import (
	"bytes"
	"flag"
	"fmt"
	"go/ast"
	"go/constant"
	"go/printer"
	"go/token"
	"go/types"
	"os"
	"path/filepath"
	"sort"
	"strings"

	"golang.org/x/tools/go/packages"
)

type failure struct{ msg string }

func failf(format string, args ...interface{}) {
	panic(failure{fmt.Sprintf(format, args...)})
}

type translator struct {
	pkg   *packages.Package
	fset  *token.FileSet
	funcs map[string]*ast.FuncDecl // "Recv.Name" or "Name"
}

func newTranslator(p *packages.Package) *translator {
	t := &translator{pkg: p, fset: p.Fset, funcs: map[string]*ast.FuncDecl{}}
	for _, f := range p.Syntax {
		for _, d := range f.Decls {
			fd, ok := d.(*ast.FuncDecl)
			if !ok {
				continue
			}
			name := fd.Name.Name
			if fd.Recv != nil && len(fd.Recv.List) == 1 {
				rt := fd.Recv.List[0].Type
				if st, ok := rt.(*ast.StarExpr); ok {
					rt = st.X
				}
				if id, ok := rt.(*ast.Ident); ok {
					name = id.Name + "." + name
				}
			}
			t.funcs[name] = fd
		}
	}
	t.registerVarFuncs() // tracetargets.go: func literals in the composite literal of a package variable, as "var.field"
	return t
}

func (t *translator) src(n ast.Node) string {
	var b bytes.Buffer
	printer.Fprint(&b, t.fset, n)
	return b.String()
}

func (t *translator) pos(n ast.Node) string {
	p := t.fset.Position(n.Pos())
	return fmt.Sprintf("%s:%d", filepath.Base(p.Filename), p.Line)
}

// ---------------------------------------------------------------- constants

func coqIdent(s string) string {
	s = strings.ReplaceAll(s, ".", "_")
	if strings.HasPrefix(s, "_") {
		s = "u" + s
	}
	return s
}

func zlit(v constant.Value) (string, bool) {
	if v.Kind() != constant.Int {
		if v.Kind() == constant.Float {
			if iv := constant.ToInt(v); iv.Kind() == constant.Int {
				v = iv
			} else {
				return "", false
			}
		} else {
			return "", false
		}
	}
	s := v.ExactString()
	if strings.HasPrefix(s, "-") {
		return "(" + s + ")", true
	}
	return s, true
}

func strlit(s string) string {
	parts := make([]string, 0, len(s))
	for i := 0; i < len(s); i++ {
		parts = append(parts, fmt.Sprintf("%d", s[i]))
	}
	return "[" + strings.Join(parts, "; ") + "]"
}

// emitConsts writes every package-level integer / string / bool constant of the package.
func (t *translator) emitConsts(prefix string, w *bytes.Buffer) int {
	scope := t.pkg.Types.Scope()
	names := scope.Names()
	sort.Strings(names)
	n := 0
	for _, name := range names {
		c, ok := scope.Lookup(name).(*types.Const)
		if !ok {
			continue
		}
		id := prefix + coqIdent(name)
		switch c.Val().Kind() {
		case constant.Int:
			lit, _ := zlit(c.Val())
			fmt.Fprintf(w, "Definition %s : Z := %s.\n", id, lit)
			n++
		case constant.Float:
			if lit, ok := zlit(c.Val()); ok {
				fmt.Fprintf(w, "Definition %s : Z := %s.\n", id, lit)
				n++
			}
		case constant.String:
			fmt.Fprintf(w, "Definition %s : list Z := %s.\n", id, strlit(constant.StringVal(c.Val())))
			n++
		case constant.Bool:
			fmt.Fprintf(w, "Definition %s : bool := %v.\n", id, constant.BoolVal(c.Val()))
			n++
		}
	}
	return n
}

// emitVarField writes the constant value of field `field` in the composite literal that
// initialises package variable `name` (e.g. defaultRetryOptions.MaxAttempts).
func (t *translator) emitVarField(name, field string, w *bytes.Buffer) {
	for _, f := range t.pkg.Syntax {
		for _, d := range f.Decls {
			gd, ok := d.(*ast.GenDecl)
			if !ok || gd.Tok != token.VAR {
				continue
			}
			for _, sp := range gd.Specs {
				vs := sp.(*ast.ValueSpec)
				for i, id := range vs.Names {
					if id.Name != name || i >= len(vs.Values) {
						continue
					}
					e := vs.Values[i]
					if u, ok := e.(*ast.UnaryExpr); ok && u.Op == token.AND {
						e = u.X
					}
					cl, ok := e.(*ast.CompositeLit)
					if !ok {
						failf("var %s is not initialised by a composite literal", name)
					}
					for _, el := range cl.Elts {
						kv, ok := el.(*ast.KeyValueExpr)
						if !ok {
							continue
						}
						if k, ok := kv.Key.(*ast.Ident); ok && k.Name == field {
							tv := t.pkg.TypesInfo.Types[kv.Value]
							if tv.Value == nil {
								failf("var %s.%s is not constant", name, field)
							}
							lit, ok := zlit(tv.Value)
							if !ok {
								failf("var %s.%s is not an integer", name, field)
							}
							fmt.Fprintf(w, "Definition v_%s_%s : Z := %s. (* %s *)\n", name, field, lit, t.pos(kv))
							return
						}
					}
					failf("var %s has no field %s in its literal", name, field)
				}
			}
		}
	}
	failf("package variable %s not found", name)
}

// ---------------------------------------------------------------- functions

// Target names one Go function to translate.
type Target struct {
	Func      string            // "RetryOn.CanRetry"
	Out       string            // Gallina name
	Params    string            // Gallina binder text, e.g. "(r : Z) (code : Z)"
	Ret       string            // "bool" | "Z" | "option Z" ... (informational; emitted as the result type)
	Hints     map[string]string // Go expression source -> Gallina expression
	SHints    map[string]string // Go statement source -> Gallina let-prefix ("" = drop the statement)
	Panics    bool              // results wrapped in option; panic(...) => None
	RetIdx    int               // for multi-value returns: which result to keep
	File      string            // Gen file that receives the definition (default: targetFile[Out], else GenFuncs)
	AssignRet string            // an assignment to this lvalue (source text) is the function's result
	Renames   map[string]string // Go local/param name -> Gallina name
	// Statement targets: translate only ONE statement of the function (the unique statement,
	// searched through nested blocks and function literals, whose source text starts with Stmt).
	// Rest is the Gallina term for "control falls out of the statement", Pre a Gallina
	// let-prefix put in front (e.g. the zero value of a `var` declared before the statement).
	Stmt string
	Rest string
	Pre  string
	// Soft: a translation failure of this target does not abort go2v; the definition is
	// left out of the Gen file (with the reason in a comment), so only the Coq files of the
	// property that uses it stop compiling.
	Soft bool
	// Pkg: package (by name) that holds Func; default "tchannel" (the root package).
	Pkg string
	// After (with Stmt): translate the statements that FOLLOW the selected statement in its
	// enclosing block, up to the end of that block (Rest = falling out of the block; "" when the
	// block is the function body and must end in a return).
	After bool
	// Until (with After): the translated statements stop BEFORE the first following statement
	// whose source text starts with Until (it must exist); falling out there = Rest.
	Until string
	// NakedRet: the Gallina term of a `return` without results (functions without result values).
	NakedRet string
	// Extensions of records.go: declared non-local lvalues (Go source text -> Gallina variable),
	// type assertions (asserted type -> {is-function, value-function}), the nil test of
	// interface values, and "only the value of this composite-literal key".
	LVals   map[string]string
	Asserts map[string][2]string
	ErrNil  string
	KeyVal  string
	// Extensions of mapext.go: maps as state variables (Go source text of a map-typed expression
	// -> Gallina variable of type gmap, Base/GoMap.v) and a format for every returned value
	// ("%s" = the translated result expression), e.g. "(peersByHostPort, %s)".
	Maps   map[string]string
	RetFmt string
	// VoidRet: for a function without results: the Gallina term a naked `return` (and falling off
	// the end of the body) yields, e.g. the final value of a state variable.
	VoidRet string
	// NakedRetW (C10 dispatch targets): as NakedRet, but the term is passed through c.ret (result
	// wrapping of the target), and for a whole-function target it is also what falling off the end
	// of a result-less body stands for.
	NakedRetW string
	// Extensions of iotargets.go (C01, the io.Writer / io.Reader loops): LoopBody (with Stmt selecting a
	// condition-less `for {` statement): the translated statements are the BODY of that loop, i.e. one
	// iteration (Rest = the end of the body is reached: the loop goes round again).  IO: opt-in for
	// multi-result returns as tuples, compound assignments `v += e`, re-slicing `s = s[e:]` of a slice
	// variable and `if L = e; cond {` over a declared lvalue (see iotargets.go).
	LoopBody bool
	IO       bool
	// CallTrace (calltrace.go): call expression (source text) -> marker appended to the trace
	// variable `tr` by the statement that evaluates the call.
	CallTrace map[string]string
	// SelArms (C11 exit targets, go2v/c11targets.go): opt-in translation of `select` statements.
	// Go source text of a comm clause's communication (`<-ctx.Done()`, `ch <- v`, `v := <-ch`) ->
	// Gallina bool "this clause is the one that runs".  Clauses are tried in source order; a
	// `default` clause (or, without one, SelElse = "no listed clause": blocked for ever) ends the
	// chain.  A comm clause without an entry is a translation failure.
	SelArms map[string]string
	SelElse string
	// KeepRets: an SHint must not swallow a `return`: a statement matched by an SHint that
	// contains a return statement is a translation failure (an early return added inside a
	// dropped logging/statistics block would otherwise be invisible).
	KeepRets bool
}

type fnctx struct {
	t   *translator
	tg  *Target
	fd  *ast.FuncDecl
	tmp int
	// records.go
	derefd   map[string]string   // pointer variable -> variable bound to its content in the current statement
	override map[ast.Expr]string // expressions already translated (under their dereference bindings)
	noExt    map[ast.Stmt]bool   // statements handed back to the standard translation
}

func newFnctx(t *translator, tg *Target, fd *ast.FuncDecl) *fnctx {
	return &fnctx{t: t, tg: tg, fd: fd, derefd: map[string]string{}, override: map[ast.Expr]string{}, noExt: map[ast.Stmt]bool{}}
}

func (c *fnctx) hint(e ast.Node) (string, bool) {
	s, ok := c.tg.Hints[c.t.src(e)]
	if !ok {
		s, ok = c.hintMap(e) // mapext.go
	}
	return s, ok
}

func intWidth(tp types.Type) (bits int, signed bool, ok bool) {
	b, isb := tp.Underlying().(*types.Basic)
	if !isb {
		return 0, false, false
	}
	switch b.Kind() {
	case types.Int8:
		return 8, true, true
	case types.Int16:
		return 16, true, true
	case types.Int32:
		return 32, true, true
	case types.Int64, types.Int:
		return 64, true, true
	case types.Uint8:
		return 8, false, true
	case types.Uint16:
		return 16, false, true
	case types.Uint32:
		return 32, false, true
	case types.Uint64, types.Uint, types.Uintptr:
		return 64, false, true
	}
	return 0, false, false
}

func wrapFor(tp types.Type, e string) string {
	bits, signed, ok := intWidth(tp)
	if !ok {
		return e
	}
	if signed {
		return fmt.Sprintf("(wrapS %d %s)", bits, e)
	}
	return fmt.Sprintf("(wrapU %d %s)", bits, e)
}

func isBool(tp types.Type) bool {
	b, ok := tp.Underlying().(*types.Basic)
	return ok && b.Info()&types.IsBoolean != 0
}

func isString(tp types.Type) bool {
	b, ok := tp.Underlying().(*types.Basic)
	return ok && b.Info()&types.IsString != 0
}

func (c *fnctx) typeOf(e ast.Expr) types.Type {
	tv, ok := c.t.pkg.TypesInfo.Types[e]
	if !ok {
		return nil
	}
	return tv.Type
}

func (c *fnctx) expr(e ast.Expr) string {
	if s, ok := c.hint(e); ok {
		return s
	}
	if s, ok := c.exprExt(e); ok {
		return s
	}
	info := c.t.pkg.TypesInfo
	if tv, ok := info.Types[e]; ok && tv.Value != nil {
		switch tv.Value.Kind() {
		case constant.Int, constant.Float:
			if lit, ok := zlit(tv.Value); ok {
				// keep the name visible when it is a plain constant identifier
				if id, isid := e.(*ast.Ident); isid {
					if _, isc := info.Uses[id].(*types.Const); isc && info.Uses[id].Pkg() == c.t.pkg.Types {
						return "c_" + coqIdent(id.Name)
					}
				}
				return lit
			}
		case constant.Bool:
			if constant.BoolVal(tv.Value) {
				return "true"
			}
			return "false"
		case constant.String:
			return strlit(constant.StringVal(tv.Value))
		}
	}
	switch x := e.(type) {
	case *ast.ParenExpr:
		return c.expr(x.X)
	case *ast.Ident:
		if x.Name == "true" || x.Name == "false" {
			return x.Name
		}
		if r, ok := c.tg.Renames[x.Name]; ok {
			return r
		}
		return coqIdent(x.Name)
	case *ast.UnaryExpr:
		switch x.Op {
		case token.NOT:
			return "(negb " + c.expr(x.X) + ")"
		case token.SUB:
			return wrapFor(c.typeOf(e), "(- "+c.expr(x.X)+")")
		}
	case *ast.BinaryExpr:
		l, r := c.expr(x.X), c.expr(x.Y)
		lt := c.typeOf(x.X)
		switch x.Op {
		case token.LAND:
			return "(" + l + " && " + r + ")"
		case token.LOR:
			return "(" + l + " || " + r + ")"
		case token.EQL, token.NEQ:
			var eq string
			switch {
			case lt != nil && isBool(lt):
				eq = "(Bool.eqb " + l + " " + r + ")"
			case lt != nil && isString(lt):
				eq = "(bytes_eqb " + l + " " + r + ")"
			default:
				if _, _, ok := intWidth(lt); !ok {
					failf("%s: comparison of unsupported type %v in %s", c.t.pos(e), lt, c.t.src(e))
				}
				eq = "(" + l + " =? " + r + ")"
			}
			if x.Op == token.NEQ {
				return "(negb " + eq + ")"
			}
			return eq
		case token.LSS:
			return "(" + l + " <? " + r + ")"
		case token.LEQ:
			return "(" + l + " <=? " + r + ")"
		case token.GTR:
			return "(" + l + " >? " + r + ")"
		case token.GEQ:
			return "(" + l + " >=? " + r + ")"
		case token.ADD:
			return wrapFor(c.typeOf(e), "("+l+" + "+r+")")
		case token.SUB:
			return wrapFor(c.typeOf(e), "("+l+" - "+r+")")
		case token.MUL:
			return wrapFor(c.typeOf(e), "("+l+" * "+r+")")
		case token.QUO:
			return wrapFor(c.typeOf(e), "(Z.quot "+l+" "+r+")")
		case token.REM:
			return wrapFor(c.typeOf(e), "(Z.rem "+l+" "+r+")")
		case token.AND:
			return "(Z.land " + l + " " + r + ")"
		case token.OR:
			return "(Z.lor " + l + " " + r + ")"
		case token.XOR:
			return "(Z.lxor " + l + " " + r + ")"
		case token.SHL:
			return wrapFor(c.typeOf(e), "(Z.shiftl "+l+" "+r+")")
		case token.SHR:
			return "(Z.shiftr " + l + " " + r + ")"
		}
	case *ast.CallExpr:
		// conversion?
		if tv, ok := info.Types[x.Fun]; ok && tv.IsType() && len(x.Args) == 1 {
			at := c.typeOf(x.Args[0])
			if _, _, ok := intWidth(tv.Type); ok {
				if _, _, ok2 := intWidth(at); ok2 {
					return wrapFor(tv.Type, c.expr(x.Args[0]))
				}
			}
			failf("%s: unsupported conversion %s", c.t.pos(e), c.t.src(e))
		}
		// call to another translated function: must be hinted by name
		fn := c.t.src(x.Fun)
		if g, ok := c.tg.Hints["call:"+fn]; ok {
			args := []string{}
			for _, a := range x.Args {
				args = append(args, c.expr(a))
			}
			if sel, ok := x.Fun.(*ast.SelectorExpr); ok {
				if _, ok := c.tg.Hints["recv:"+fn]; ok {
					args = append([]string{c.expr(sel.X)}, args...)
				}
			}
			return "(" + g + " " + strings.Join(args, " ") + ")"
		}
	}
	failf("%s: unsupported expression %q in %s (add a hint)", c.t.pos(e), c.t.src(e), c.tg.Func)
	return ""
}

func (c *fnctx) ret(s string) string {
	if c.tg.RetFmt != "" {
		s = fmt.Sprintf(c.tg.RetFmt, s)
	}
	if c.tg.Panics {
		return "(Some " + s + ")"
	}
	return s
}

// stmts translates a statement list; rest is the Gallina term for "what happens after
// this list falls through" ("" = falling through is impossible / an error).
func (c *fnctx) stmts(list []ast.Stmt, rest string) string {
	if len(list) == 0 {
		if rest == "" {
			failf("%s: control reaches the end of %s without return", c.t.pos(c.fd), c.tg.Func)
		}
		return rest
	}
	s := list[0]
	tail := func() string { return c.stmts(list[1:], rest) }
	stext := c.t.src(s)
	pre, ok := c.tg.SHints[stext]
	if !ok {
		// a hint key ending in "..." matches any statement that starts with the text before it
		for k, v := range c.tg.SHints {
			if strings.HasSuffix(k, "...") && strings.HasPrefix(stext, strings.TrimSuffix(k, "...")) {
				pre, ok = v, true
			}
		}
	}
	if ok && pre == "inline-closure" {
		// `f(func() T { body; return v })` as a statement: the body runs in place (the callee only
		// adds locking); a trailing return of the literal is dropped.  Opt-in by SHint.
		if es, isE := s.(*ast.ExprStmt); isE {
			if call, isC := es.X.(*ast.CallExpr); isC && len(call.Args) == 1 {
				if fl, isF := call.Args[0].(*ast.FuncLit); isF && len(fl.Type.Params.List) == 0 {
					body := append([]ast.Stmt(nil), fl.Body.List...)
					if n := len(body); n > 0 {
						if _, isR := body[n-1].(*ast.ReturnStmt); isR {
							body = body[:n-1]
						}
					}
					for _, b := range body {
						if _, isR := b.(*ast.ReturnStmt); isR {
							failf("%s: inline-closure: return inside the closure body of %q", c.t.pos(s), c.tg.Func)
						}
					}
					return c.stmts(append(body, list[1:]...), rest)
				}
			}
		}
		failf("%s: inline-closure hint on a statement that is not a call with one parameterless func literal: %q", c.t.pos(s), stext)
	}
	if ok {
		if c.tg.KeepRets {
			c.checkNoReturnInside(s) // c11targets.go
		}
		if pre == "" {
			return tail()
		}
		return pre + " " + tail()
	}
	if out, ok := c.stmtC17Ext(list, rest); ok { // c17calls.go (targets of GenC17Calls only)
		return out
	}
	if out, ok := c.stmtIOExt(list, rest); ok { // iotargets.go (opt-in: Target.IO)
		return out
	}
	if out, ok := c.stmtTrace(list, rest); ok { // calltrace.go
		return out
	}
	if out, ok := c.stmtMap(list, rest); ok { // mapext.go
		return out
	}
	if out, ok := c.stmtExt(list, rest); ok {
		return out
	}
	if out, ok := c.stmtLoopExt(list, rest); ok {
		return out
	}
	switch x := s.(type) {
	case *ast.ReturnStmt:
		if len(x.Results) == 0 {
			if c.tg.VoidRet != "" {
				return c.tg.VoidRet
			}
			if c.tg.NakedRet != "" {
				return c.tg.NakedRet
			}
			if c.tg.NakedRetW != "" {
				return c.ret(c.tg.NakedRetW)
			}
			failf("%s: naked return", c.t.pos(s))
		}
		idx := 0
		if len(x.Results) > 1 {
			idx = c.tg.RetIdx
		}
		return c.ret(c.expr(x.Results[idx]))
	case *ast.ExprStmt:
		if call, ok := x.X.(*ast.CallExpr); ok {
			if id, ok := call.Fun.(*ast.Ident); ok && id.Name == "panic" {
				if !c.tg.Panics {
					failf("%s: panic in non-Panics target %s", c.t.pos(s), c.tg.Func)
				}
				return "None"
			}
		}
		failf("%s: unsupported statement %q (add an SHint)", c.t.pos(s), c.t.src(s))
	case *ast.AssignStmt:
		if len(x.Lhs) != 1 || len(x.Rhs) != 1 {
			failf("%s: unsupported multi-assignment %q (add an SHint)", c.t.pos(s), c.t.src(s))
		}
		if c.tg.AssignRet != "" && c.t.src(x.Lhs[0]) == c.tg.AssignRet && x.Tok == token.ASSIGN {
			return c.ret(c.expr(x.Rhs[0]))
		}
		id, ok := x.Lhs[0].(*ast.Ident)
		if !ok {
			failf("%s: assignment to non-local %q", c.t.pos(s), c.t.src(s))
		}
		name := coqIdent(id.Name)
		if r, ok := c.tg.Renames[id.Name]; ok {
			name = r
		}
		var rhs string
		switch x.Tok {
		case token.DEFINE, token.ASSIGN:
			rhs = c.expr(x.Rhs[0])
		default:
			failf("%s: unsupported assignment op %q", c.t.pos(s), c.t.src(s))
		}
		return "let " + name + " := " + rhs + " in\n  " + tail()
	case *ast.IfStmt:
		if x.Init != nil {
			// only `if v := expr; cond {` is supported: a let around the if.  The let also
			// scopes over the translated tail, so the tail must not mention another variable
			// of the same name.
			as, ok := x.Init.(*ast.AssignStmt)
			if ok && as.Tok == token.DEFINE && len(as.Lhs) > 1 && len(as.Rhs) == 1 {
				// `if a, _, ok := call(...); cond {`: a multi-value call in the init.  The call must be
				// hinted (by its source text) with a Gallina tuple of the same arity; blanks stay blanks.
				h, hinted := c.hint(as.Rhs[0])
				if !hinted {
					failf("%s: multi-value if init %q needs a hint for %q (a Gallina tuple)", c.t.pos(s), c.t.src(x.Init), c.t.src(as.Rhs[0]))
				}
				names := []string{}
				for _, l := range as.Lhs {
					id, isID := l.(*ast.Ident)
					if !isID {
						failf("%s: unsupported if init %q", c.t.pos(s), c.t.src(s))
					}
					if id.Name == "_" {
						names = append(names, "_")
						continue
					}
					c.checkNoCapture(id, list[1:])
					name := coqIdent(id.Name)
					if r, ok := c.tg.Renames[id.Name]; ok {
						name = r
					}
					names = append(names, name)
				}
				return "let '(" + strings.Join(names, ", ") + ") := " + h + " in\n  " +
					c.stmts(append([]ast.Stmt{&ast.IfStmt{If: x.If, Cond: x.Cond, Body: x.Body, Else: x.Else}}, list[1:]...), rest)
			}
			if !ok || as.Tok != token.DEFINE || len(as.Lhs) != 1 || len(as.Rhs) != 1 {
				failf("%s: unsupported if init %q (add an SHint)", c.t.pos(s), c.t.src(s))
			}
			id, ok := as.Lhs[0].(*ast.Ident)
			if !ok {
				failf("%s: unsupported if init %q", c.t.pos(s), c.t.src(s))
			}
			if c.tg.KeepRets {
				c.checkNoCaptureSel(id, list[1:]) // c11targets.go: fields and re-declarations are not captures
			} else {
				c.checkNoShadow(id, list[1:])
			}
			name := coqIdent(id.Name)
			if r, ok := c.tg.Renames[id.Name]; ok {
				name = r
			}
			return "let " + name + " := " + c.expr(as.Rhs[0]) + " in\n  " +
				c.stmts(append([]ast.Stmt{&ast.IfStmt{If: x.If, Cond: x.Cond, Body: x.Body, Else: x.Else}}, list[1:]...), rest)
		}
		after := tail
		// Assignments inside branches that fall through need a join: we handle only the
		// common shape `if c { v = e }` (single assignment, no else) by a conditional let.
		if x.Else == nil && len(x.Body.List) == 1 {
			if as, ok := x.Body.List[0].(*ast.AssignStmt); ok && as.Tok == token.ASSIGN && len(as.Lhs) == 1 {
				if id, ok := as.Lhs[0].(*ast.Ident); ok {
					name := coqIdent(id.Name)
					if r, ok := c.tg.Renames[id.Name]; ok {
						name = r
					}
					return "let " + name + " := if " + c.expr(x.Cond) + " then " + c.expr(as.Rhs[0]) + " else " + name + " in\n  " + after()
				}
			}
		}
		var restTerm string
		needRest := !terminates(x.Body.List) || x.Else == nil || !terminatesStmt(x.Else)
		if needRest {
			restTerm = after()
		}
		thenT := c.stmts(x.Body.List, restTerm)
		var elseT string
		switch el := x.Else.(type) {
		case nil:
			elseT = restTerm
		case *ast.BlockStmt:
			elseT = c.stmts(el.List, restTerm)
		case *ast.IfStmt:
			elseT = c.stmts([]ast.Stmt{el}, restTerm)
		}
		return "if " + c.expr(x.Cond) + " then " + thenT + "\n  else " + elseT
	case *ast.SwitchStmt:
		var tag string
		tagT := types.Type(nil)
		if x.Init != nil {
			// only `switch t := expr; t {` is supported
			as, ok := x.Init.(*ast.AssignStmt)
			if !ok || len(as.Lhs) != 1 {
				failf("%s: unsupported switch init", c.t.pos(s))
			}
			name := coqIdent(as.Lhs[0].(*ast.Ident).Name)
			return "let " + name + " := " + c.expr(as.Rhs[0]) + " in\n  " +
				c.stmts(append([]ast.Stmt{&ast.SwitchStmt{Tag: x.Tag, Body: x.Body, Switch: x.Switch}}, list[1:]...), rest)
		}
		if x.Tag != nil {
			tag = c.expr(x.Tag)
			tagT = c.typeOf(x.Tag)
		}
		restTerm := ""
		needRest := false
		hasDefault := false
		for _, cc := range x.Body.List {
			cl := cc.(*ast.CaseClause)
			if cl.List == nil {
				hasDefault = true
			}
			if !terminates(cl.Body) {
				needRest = true
			}
			for _, b := range cl.Body {
				if br, ok := b.(*ast.BranchStmt); ok && br.Tok == token.FALLTHROUGH {
					failf("%s: fallthrough", c.t.pos(s))
				}
			}
		}
		if !hasDefault {
			needRest = true
		}
		if needRest {
			restTerm = tail()
		}
		var deflt = restTerm
		type arm struct{ cond, body string }
		arms := []arm{}
		for _, cc := range x.Body.List {
			cl := cc.(*ast.CaseClause)
			body := c.stmts(caseBody(cl.Body), restTerm)
			if cl.List == nil {
				deflt = body
				continue
			}
			conds := []string{}
			for _, ce := range cl.List {
				if x.Tag == nil {
					conds = append(conds, c.expr(ce))
				} else if tagT != nil && isBool(tagT) {
					conds = append(conds, "(Bool.eqb "+tag+" "+c.expr(ce)+")")
				} else {
					conds = append(conds, "("+tag+" =? "+c.expr(ce)+")")
				}
			}
			arms = append(arms, arm{strings.Join(conds, " || "), body})
		}
		if deflt == "" {
			failf("%s: switch without default falls off the end", c.t.pos(s))
		}
		out := deflt
		for i := len(arms) - 1; i >= 0; i-- {
			out = "if " + arms[i].cond + " then " + arms[i].body + "\n  else " + out
		}
		return out
	case *ast.BlockStmt:
		return c.stmts(append(append([]ast.Stmt{}, x.List...), list[1:]...), rest)
	case *ast.SelectStmt:
		if c.tg.SelArms != nil {
			return c.selectStmt(x, list, rest) // c11targets.go
		}
	}
	failf("%s: unsupported statement %q in %s", c.t.pos(s), c.t.src(s), c.tg.Func)
	return ""
}

// caseBody: an unlabelled `break` directly in a case clause ends the clause (control falls out
// of the switch); a break nested deeper is not supported (it reaches stmts and fails there).
func caseBody(body []ast.Stmt) []ast.Stmt {
	for i, b := range body {
		if br, ok := b.(*ast.BranchStmt); ok && br.Tok == token.BREAK && br.Label == nil {
			return body[:i]
		}
	}
	return body
}

// checkNoShadow fails when the statements mention an identifier with the name of def that
// denotes a different object (the let introduced for def would capture it).
func (c *fnctx) checkNoShadow(def *ast.Ident, tail []ast.Stmt) {
	obj := c.t.pkg.TypesInfo.Defs[def]
	for _, s := range tail {
		ast.Inspect(s, func(n ast.Node) bool {
			if id, ok := n.(*ast.Ident); ok && id.Name == def.Name {
				if o := c.t.pkg.TypesInfo.Uses[id]; o != nil && o != obj {
					failf("%s: %q introduced by an if/switch init would capture a different variable at %s", c.t.pos(def), def.Name, c.t.pos(id))
				}
			}
			return true
		})
	}
}

// checkNoCapture: as checkNoShadow, but a same-named variable that is DECLARED inside the tail
// (`v, ok := g()` after `if _, ok := f(); ok {...}`) is accepted: Go scoping guarantees that every
// use of it follows its declaring statement, whose translation (a let, or the let of its SHint --
// hints are part of the trusted base and printed in the Gen file) re-binds the name first.
func (c *fnctx) checkNoCapture(def *ast.Ident, tail []ast.Stmt) {
	if len(tail) == 0 {
		return
	}
	obj := c.t.pkg.TypesInfo.Defs[def]
	start, end := tail[0].Pos(), tail[len(tail)-1].End()
	for _, s := range tail {
		ast.Inspect(s, func(n ast.Node) bool {
			if id, ok := n.(*ast.Ident); ok && id.Name == def.Name {
				if o := c.t.pkg.TypesInfo.Uses[id]; o != nil && o != obj && !(o.Pos() >= start && o.Pos() < end) {
					failf("%s: %q introduced by an if init would capture a different variable at %s", c.t.pos(def), def.Name, c.t.pos(id))
				}
			}
			return true
		})
	}
}

func terminatesStmt(s ast.Stmt) bool {
	switch x := s.(type) {
	case *ast.ReturnStmt:
		return true
	case *ast.BlockStmt:
		return terminates(x.List)
	case *ast.ExprStmt:
		if call, ok := x.X.(*ast.CallExpr); ok {
			if id, ok := call.Fun.(*ast.Ident); ok && id.Name == "panic" {
				return true
			}
		}
	case *ast.IfStmt:
		return x.Else != nil && terminates(x.Body.List) && terminatesStmt(x.Else)
	case *ast.SwitchStmt:
		hasDefault := false
		for _, cc := range x.Body.List {
			cl := cc.(*ast.CaseClause)
			if cl.List == nil {
				hasDefault = true
			}
			if !terminates(cl.Body) {
				return false
			}
		}
		return hasDefault
	}
	return false
}

func terminates(list []ast.Stmt) bool {
	return len(list) > 0 && terminatesStmt(list[len(list)-1])
}

// findStmt returns the unique statement of fd (nested blocks and function literals included)
// whose source text starts with prefix.
func (t *translator) findStmt(fd *ast.FuncDecl, prefix string, name string) ast.Stmt {
	var found []ast.Stmt
	ast.Inspect(fd.Body, func(n ast.Node) bool {
		if st, ok := n.(ast.Stmt); ok {
			if _, isBlock := st.(*ast.BlockStmt); !isBlock && strings.HasPrefix(t.src(st), prefix) {
				found = append(found, st)
				return false
			}
		}
		return true
	})
	if len(found) != 1 {
		failf("%s: %d statements of %s start with %q (exactly one expected)", t.pos(fd), len(found), name, prefix)
	}
	return found[0]
}

// stmtsAfter returns the statements that follow sel in the block that directly contains it.
func (t *translator) stmtsAfter(fd *ast.FuncDecl, sel ast.Stmt, name string) []ast.Stmt {
	var out []ast.Stmt
	found := false
	ast.Inspect(fd.Body, func(n ast.Node) bool {
		var list []ast.Stmt
		switch b := n.(type) {
		case *ast.BlockStmt:
			list = b.List
		case *ast.CaseClause:
			list = b.Body
		}
		for i, st := range list {
			if st == sel {
				out = append([]ast.Stmt(nil), list[i+1:]...)
				found = true
			}
		}
		return !found
	})
	if !found || len(out) == 0 {
		failf("%s: no statements follow the selected statement of %s", t.pos(fd), name)
	}
	return out
}

func (t *translator) emitFunc(tg *Target, w *bytes.Buffer) {
	fd, ok := t.funcs[tg.Func]
	if !ok {
		failf("function %s not found in package %s", tg.Func, t.pkg.PkgPath)
	}
	if fd.Body == nil {
		failf("function %s has no body", tg.Func)
	}
	var scope ast.Node = fd.Body
	var sel ast.Stmt
	var selList []ast.Stmt
	if tg.Stmt != "" {
		sel = t.findStmt(fd, tg.Stmt, tg.Func)
		scope = sel
		selList = []ast.Stmt{sel}
		if tg.LoopBody {
			selList, scope = t.loopBodyOf(sel, tg) // iotargets.go
		}
		if tg.After {
			selList = t.stmtsAfter(fd, sel, tg.Func)
			if tg.Until != "" {
				cut := -1
				for i, st := range selList {
					if strings.HasPrefix(t.src(st), tg.Until) {
						cut = i
						break
					}
				}
				if cut < 0 {
					failf("%s: no statement of %s after the selected one starts with %q", t.pos(fd), tg.Func, tg.Until)
				}
				selList = selList[:cut]
			}
			scope = &ast.BlockStmt{List: selList}
		}
	}
	ast.Inspect(scope, func(n ast.Node) bool {
		switch n.(type) {
		case *ast.SelectStmt, *ast.SendStmt:
			if tg.SelArms != nil {
				return true // opt-in: select statements as a chain of hinted clauses (c11targets.go)
			}
			failf("%s: %s contains a loop/go/defer/select/send: outside the translated subset", t.pos(n), tg.Func)
		case *ast.ForStmt, *ast.RangeStmt, *ast.GoStmt, *ast.DeferStmt:
			failf("%s: %s contains a loop/go/defer/select/send: outside the translated subset", t.pos(n), tg.Func)
		}
		return true
	})
	c := newFnctx(t, tg, fd)
	var body string
	var kv *ast.KeyValueExpr
	if tg.KeyVal != "" {
		kv = t.keyValExpr(fd, tg.KeyVal, tg.Func)
		body = c.ret(c.expr(kv.Value))
	} else if sel != nil {
		body = c.stmts(selList, tg.Rest)
		if tg.Pre != "" {
			body = tg.Pre + "\n  " + body
		}
	} else {
		end := tg.VoidRet
		if tg.NakedRetW != "" && fd.Type.Results == nil {
			end = c.ret(tg.NakedRetW)
		}
		body = c.stmts(fd.Body.List, end)
	}
	p := t.fset.Position(fd.Pos())
	e := t.fset.Position(fd.End())
	fmt.Fprintf(w, "\n(* from %s:%d-%d  func %s\n", filepath.Base(p.Filename), p.Line, e.Line, tg.Func)
	if sel != nil {
		sp := t.fset.Position(sel.Pos())
		se := t.fset.Position(sel.End())
		if tg.After {
			fmt.Fprintf(w, "   the statements AFTER the statement at lines %d-%d (to the end of its block), which starts with: %s\n   falling out of the block  =>  %s\n", sp.Line, se.Line, tg.Stmt, tg.Rest)
			if tg.Until != "" {
				fmt.Fprintf(w, "   up to (not including) the statement that starts with: %s\n", tg.Until)
			}
		} else {
			what := "statement"
			if tg.LoopBody {
				what = "ONE ITERATION (the body) of the loop"
			}
			fmt.Fprintf(w, "   %s at lines %d-%d starting with: %s\n   falling out of it  =>  %s\n", what, sp.Line, se.Line, tg.Stmt, tg.Rest)
		}
		if tg.Pre != "" {
			fmt.Fprintf(w, "   prefix: %s\n", tg.Pre)
		}
		if tg.NakedRet != "" {
			fmt.Fprintf(w, "   return without results  =>  %s\n", tg.NakedRet)
		}
	}
	if tg.NakedRet != "" {
		fmt.Fprintf(w, "   a return without results (and the end of a body without results)  =>  %s\n", tg.NakedRet)
	}
	if tg.NakedRet != "" {
		fmt.Fprintf(w, "   a result-less return  =>  %s\n", tg.NakedRet)
	}
	if kv != nil {
		fmt.Fprintf(w, "   only the value of the composite-literal entry at line %d: %s\n", t.fset.Position(kv.Pos()).Line, t.src(kv))
	}
	for _, k := range sortedKeys(tg.LVals) {
		fmt.Fprintf(w, "   lvalue: %s  =>  %s\n", k, tg.LVals[k])
	}
	akeys := []string{}
	for k := range tg.Asserts {
		akeys = append(akeys, k)
	}
	sort.Strings(akeys)
	for _, k := range akeys {
		fmt.Fprintf(w, "   assertion: x.(%s)  =>  ok = %s x, value = %s x\n", k, tg.Asserts[k][0], tg.Asserts[k][1])
	}
	if tg.ErrNil != "" {
		fmt.Fprintf(w, "   nil test of interface values: %s\n", tg.ErrNil)
	}
	for _, k := range sortedKeys(tg.Maps) {
		fmt.Fprintf(w, "   map (state variable): %s  =>  %s\n", k, tg.Maps[k])
	}
	if tg.VoidRet != "" {
		fmt.Fprintf(w, "   a return without value / the end of the body yields  %s\n", tg.VoidRet)
	}
	if tg.RetFmt != "" {
		fmt.Fprintf(w, "   every returned value v is  %s\n", strings.ReplaceAll(tg.RetFmt, "%s", "v"))
	}
	for _, k := range sortedKeys(tg.CallTrace) {
		fmt.Fprintf(w, "   traced call: %s  =>  the statement that evaluates it appends %s to tr\n", k, tg.CallTrace[k])
	}
	for _, k := range sortedKeys(tg.SelArms) {
		fmt.Fprintf(w, "   select clause: case %s  =>  runs iff %s\n", k, tg.SelArms[k])
	}
	if tg.SelArms != nil && tg.SelElse != "" {
		fmt.Fprintf(w, "   select without default, no listed clause runs  =>  %s\n", tg.SelElse)
	}
	if tg.KeepRets {
		fmt.Fprintf(w, "   no statement replaced by a stmt-hint contains a return\n")
	}
	keys := []string{}
	for k := range tg.Hints {
		keys = append(keys, k)
	}
	sort.Strings(keys)
	for _, k := range keys {
		fmt.Fprintf(w, "   hint: %s  =>  %s\n", k, tg.Hints[k])
	}
	keys = keys[:0]
	for k := range tg.SHints {
		keys = append(keys, k)
	}
	sort.Strings(keys)
	for _, k := range keys {
		fmt.Fprintf(w, "   stmt-hint: %s  =>  %s\n", strings.ReplaceAll(k, "\n", " "), tg.SHints[k])
	}
	fmt.Fprintf(w, "*)\n")
	ret := tg.Ret
	fmt.Fprintf(w, "Definition %s %s : %s :=\n  %s.\n", tg.Out, tg.Params, ret, body)
}

// emitFuncSoft: as emitFunc, but a translation failure of a Soft target only leaves the
// definition out (the Coq files that use it then fail to compile, naming it).
func (t *translator) emitFuncSoft(tg *Target, w *bytes.Buffer) {
	if !tg.Soft {
		t.emitFunc(tg, w)
		return
	}
	var tmp bytes.Buffer
	defer func() {
		if r := recover(); r != nil {
			f, ok := r.(failure)
			if !ok {
				panic(r)
			}
			fmt.Fprintf(w, "\n(* NOT TRANSLATED: %s -- %s *)\n", tg.Out, strings.ReplaceAll(f.msg, "*)", "* )"))
			fmt.Printf("go2v: NOT TRANSLATED (soft target) %s: %s\n", tg.Out, f.msg)
		}
	}()
	t.emitFunc(tg, &tmp)
	w.Write(tmp.Bytes())
}

// ---------------------------------------------------------------- site tables

// siteTable lists every call of the given selector names (e.g. "Release", "Get" on a
// FramePool-typed receiver) or every go statement, as (file, function, line-in-function, text).
func (t *translator) goSites(w *bytes.Buffer, name string) int {
	type site struct{ file, fn, text string }
	var sites []site
	for _, f := range t.pkg.Syntax {
		fname := filepath.Base(t.fset.Position(f.Pos()).Filename)
		if strings.HasSuffix(fname, "_test.go") || strings.HasPrefix(fname, "zz_verif") {
			continue
		}
		for _, d := range f.Decls {
			fd, ok := d.(*ast.FuncDecl)
			if !ok || fd.Body == nil {
				continue
			}
			fn := fd.Name.Name
			if fd.Recv != nil && len(fd.Recv.List) == 1 {
				rt := fd.Recv.List[0].Type
				if st, ok := rt.(*ast.StarExpr); ok {
					rt = st.X
				}
				if id, ok := rt.(*ast.Ident); ok {
					fn = id.Name + "." + fn
				}
			}
			ast.Inspect(fd.Body, func(n ast.Node) bool {
				if g, ok := n.(*ast.GoStmt); ok {
					sites = append(sites, site{fname, fn, t.src(g.Call.Fun)})
				}
				return true
			})
		}
	}
	sort.Slice(sites, func(i, j int) bool {
		if sites[i].file != sites[j].file {
			return sites[i].file < sites[j].file
		}
		if sites[i].fn != sites[j].fn {
			return sites[i].fn < sites[j].fn
		}
		return sites[i].text < sites[j].text
	})
	fmt.Fprintf(w, "Definition %s : list (list Z * list Z) := [\n", name)
	for i, s := range sites {
		sep := ";"
		if i == len(sites)-1 {
			sep = ""
		}
		txt := s.text
		if len(txt) > 60 {
			txt = txt[:60]
		}
		txt = strings.ReplaceAll(txt, "\n", " ")
		fmt.Fprintf(w, "  (* %s %s: go %s *) (%s, %s)%s\n", s.file, s.fn, strings.ReplaceAll(txt, "*)", "* )"), strlit(s.fn), strlit(firstLine(s.text)), sep)
	}
	fmt.Fprintf(w, "].\n")
	return len(sites)
}

func firstLine(s string) string {
	if i := strings.IndexByte(s, '\n'); i >= 0 {
		s = s[:i]
	}
	if len(s) > 40 {
		s = s[:40]
	}
	return s
}

// poolSites: every call x.Release(...) / x.Get() where x's type is FramePool.
func (t *translator) poolSites(w *bytes.Buffer, name string) int {
	type site struct {
		file, fn, kind string
	}
	var sites []site
	info := t.pkg.TypesInfo
	for _, f := range t.pkg.Syntax {
		fname := filepath.Base(t.fset.Position(f.Pos()).Filename)
		if strings.HasSuffix(fname, "_test.go") || strings.HasPrefix(fname, "zz_verif") {
			continue
		}
		for _, d := range f.Decls {
			fd, ok := d.(*ast.FuncDecl)
			if !ok || fd.Body == nil {
				continue
			}
			fn := fd.Name.Name
			if fd.Recv != nil && len(fd.Recv.List) == 1 {
				rt := fd.Recv.List[0].Type
				if st, ok := rt.(*ast.StarExpr); ok {
					rt = st.X
				}
				if id, ok := rt.(*ast.Ident); ok {
					fn = id.Name + "." + fn
				}
			}
			ast.Inspect(fd.Body, func(n ast.Node) bool {
				call, ok := n.(*ast.CallExpr)
				if !ok {
					return true
				}
				sel, ok := call.Fun.(*ast.SelectorExpr)
				if !ok {
					return true
				}
				if sel.Sel.Name != "Release" && sel.Sel.Name != "Get" {
					return true
				}
				tv, ok := info.Types[sel.X]
				if !ok {
					return true
				}
				if named, ok := tv.Type.(*types.Named); ok && named.Obj().Name() == "FramePool" {
					sites = append(sites, site{fname, fn, sel.Sel.Name})
				}
				return true
			})
		}
	}
	sort.Slice(sites, func(i, j int) bool {
		a, b := sites[i], sites[j]
		if a.file != b.file {
			return a.file < b.file
		}
		if a.fn != b.fn {
			return a.fn < b.fn
		}
		return a.kind < b.kind
	})
	fmt.Fprintf(w, "Definition %s : list (list Z * list Z) := [\n", name)
	for i, s := range sites {
		sep := ";"
		if i == len(sites)-1 {
			sep = ""
		}
		fmt.Fprintf(w, "  (* %s %s: %s *) (%s, %s)%s\n", s.file, s.fn, s.kind, strlit(s.fn), strlit(s.kind), sep)
	}
	fmt.Fprintf(w, "].\n")
	return len(sites)
}

// ---------------------------------------------------------------- driver

const header = `(* GENERATED by /verif/go2v from the Go source under %s -- do not edit.
   Regenerated on every check run; theorems are stated over these definitions. *)
From Coq Require Import ZArith List Bool.
From Verif Require Import Base.Wrap.
Import ListNotations.
Local Open Scope Z_scope.
Local Open Scope bool_scope.

`

func writeIfChanged(path string, data []byte) {
	old, err := os.ReadFile(path)
	if err == nil && bytes.Equal(old, data) {
		return
	}
	if err := os.WriteFile(path, data, 0o644); err != nil {
		failf("write %s: %v", path, err)
	}
}

func load(repo string, pattern string) *packages.Package {
	cfg := &packages.Config{
		Mode: packages.NeedName | packages.NeedFiles | packages.NeedSyntax | packages.NeedTypes | packages.NeedTypesInfo | packages.NeedImports | packages.NeedDeps,
		Dir:  repo,
	}
	pkgs, err := packages.Load(cfg, pattern)
	if err != nil {
		failf("load %s: %v", pattern, err)
	}
	if len(pkgs) != 1 {
		failf("load %s: %d packages", pattern, len(pkgs))
	}
	if len(pkgs[0].Errors) > 0 {
		failf("load %s: %v", pattern, pkgs[0].Errors[0])
	}
	return pkgs[0]
}

// loadMany loads several packages of the repository in one type-checking universe.
func loadMany(repo string, patterns []string) []*packages.Package {
	cfg := &packages.Config{
		Mode: packages.NeedName | packages.NeedFiles | packages.NeedSyntax | packages.NeedTypes | packages.NeedTypesInfo | packages.NeedImports | packages.NeedDeps,
		Dir:  repo,
	}
	pkgs, err := packages.Load(cfg, patterns...)
	if err != nil {
		failf("load %v: %v", patterns, err)
	}
	if len(pkgs) != len(patterns) {
		failf("load %v: %d packages", patterns, len(pkgs))
	}
	for _, p := range pkgs {
		if len(p.Errors) > 0 {
			failf("load %s: %v", p.PkgPath, p.Errors[0])
		}
	}
	return pkgs
}

func main() {
	repo := flag.String("repo", "/repo", "repository root")
	out := flag.String("out", "", "output directory for Gen/*.v")
	flag.Parse()
	status := 0
	defer func() { os.Exit(status) }()
	defer func() {
		if r := recover(); r != nil {
			if f, ok := r.(failure); ok {
				fmt.Fprintf(os.Stderr, "go2v: TRANSLATION FAILED: %s\n", f.msg)
				status = 2
				return
			}
			panic(r)
		}
	}()
	if *out == "" {
		failf("missing -out")
	}
	os.MkdirAll(*out, 0o755)

	all := loadMany(*repo, mPackages)
	byName := map[string]*packages.Package{}
	for _, p := range all {
		byName[p.Name] = p
	}
	if byName["tchannel"] == nil || byName["typed"] == nil {
		failf("packages tchannel / typed not loaded")
	}
	root := newTranslator(byName["tchannel"])

	// GenConsts.v
	var w bytes.Buffer
	fmt.Fprintf(&w, header, *repo)
	n := root.emitConsts("c_", &w)
	for _, vf := range varFields {
		root.emitVarField(vf[0], vf[1], &w)
		n++
	}
	typed := newTranslator(byName["typed"])
	n += typed.emitConsts("c_typed_", &w)
	writeIfChanged(filepath.Join(*out, "GenConsts.v"), w.Bytes())
	fmt.Printf("go2v: GenConsts.v %d constants\n", n)

	// GenFuncs_*.v
	byFile := map[string][]*Target{}
	trByPkg := map[string]*translator{}
	order := []string{}
	for i := range targets {
		tg := &targets[i]
		f := tg.File
		if f == "" {
			f = targetFile[tg.Out]
		}
		if f == "" {
			f = "GenFuncs"
		}
		if _, ok := byFile[f]; !ok {
			order = append(order, f)
		}
		byFile[f] = append(byFile[f], tg)
	}
	for _, f := range order {
		var w bytes.Buffer
		fmt.Fprintf(&w, header, *repo)
		fmt.Fprintf(&w, "From Verif Require Import Gen.GenConsts.\n")
		for _, imp := range targetImports[f] {
			fmt.Fprintf(&w, "From Verif Require Import %s.\n", imp)
		}
		for _, rs := range sortedKeys(recordStructs) {
			if recordStructs[rs] == f {
				root.emitRecord(rs, &w)
			}
		}
		for _, vr := range varRecords {
			if recordStructs[vr[1]] == f {
				root.emitVarRecord(vr[0], vr[1], &w)
			}
		}
		for _, tg := range byFile[f] {
			tr := root
			if tg.Pkg != "" && tg.Pkg != "tchannel" {
				if byName[tg.Pkg] == nil {
					failf("target %s: package %s not loaded (mPackages)", tg.Out, tg.Pkg)
				}
				if trByPkg[tg.Pkg] == nil {
					trByPkg[tg.Pkg] = newTranslator(byName[tg.Pkg])
				}
				tr = trByPkg[tg.Pkg]
			}
			tr.emitFuncSoft(tg, &w)
		}
		writeIfChanged(filepath.Join(*out, f+".v"), w.Bytes())
		fmt.Printf("go2v: %s.v %d functions\n", f, len(byFile[f]))
	}

	// GenHelperCensus.v (C10): Close / SendSystemError / Flush calls of the helper layers (helptargets.go)
	emitHelperCensus(byName, *repo, *out)

	// GenSites.v
	w.Reset()
	fmt.Fprintf(&w, header, *repo)
	ng := root.goSites(&w, "go_sites")
	np := root.poolSites(&w, "pool_sites")
	writeIfChanged(filepath.Join(*out, "GenSites.v"), w.Bytes())
	fmt.Printf("go2v: GenSites.v %d go statements, %d pool sites\n", ng, np)

	// GenCkSites.v (C02): every operation on a pooled checksum object (cksites.go)
	w.Reset()
	fmt.Fprintf(&w, header, *repo)
	nck := root.ckSites(&w, "ck_sites")
	writeIfChanged(filepath.Join(*out, "GenCkSites.v"), w.Bytes())
	fmt.Printf("go2v: GenCkSites.v %d pooled-checksum sites\n", nck)

	// GenRelaySites.v (C09): relayItems.Get / relayTimer.Stop / Relayer.pending / decrementPending sites (relaysites.go)
	w.Reset()
	fmt.Fprintf(&w, header, *repo)
	nrs := root.relaySites(&w)
	writeIfChanged(filepath.Join(*out, "GenRelaySites.v"), w.Bytes())
	fmt.Printf("go2v: GenRelaySites.v %d Get sites, %d Stop sites, %d pending uses, %d decrementPending calls\n", nrs["get"], nrs["stop"], nrs["pending"], nrs["calls"])

	// GenRelayIdSites.v (C08): where message ids travel in the relay files -- id arguments, id stores, frames
	// handed on before / after the header rewrite, failRelayItem and SendSystemError sites (relayidsites.go)
	w.Reset()
	fmt.Fprintf(&w, header, *repo)
	nridm := root.relayIdSitesSafe(&w)
	writeIfChanged(filepath.Join(*out, "GenRelayIdSites.v"), w.Bytes())
	fmt.Printf("go2v: GenRelayIdSites.v %d id arguments, %d id stores, %d frame hand-overs, %d fail sites, %d SendSystemError sites\n", nridm["args"], nridm["stores"], nridm["frames"], nridm["fails"], nridm["syserrs"])

	// GenWaitSites.v (C05): blocking statements of the outbound call path (waitsites.go)
	w.Reset()
	fmt.Fprintf(&w, header, *repo)
	nw, nf := root.waitSitesSafe(&w, *repo)
	writeIfChanged(filepath.Join(*out, "GenWaitSites.v"), w.Bytes())
	fmt.Printf("go2v: GenWaitSites.v %d wait sites in %d functions\n", nw, nf)

	// GenCtxSites.v (C20): every consumer of a context's end with the error it returns (ctxsites.go)
	w.Reset()
	fmt.Fprintf(&w, header, *repo)
	ncx := root.ctxSitesSafe(&w, *repo)
	writeIfChanged(filepath.Join(*out, "GenCtxSites.v"), w.Bytes())
	fmt.Printf("go2v: GenCtxSites.v %d context-end branches\n", ncx)

	// GenLockProgs.v (C05): lock programs, mutex table, lock acquisitions of the call path (lockprogs.go)
	w.Reset()
	fmt.Fprintf(&w, header, *repo)
	nlp, nlm, nls := root.lockProgsSafe(&w, *repo)
	writeIfChanged(filepath.Join(*out, "GenLockProgs.v"), w.Bytes())
	fmt.Printf("go2v: GenLockProgs.v %d lock programs, %d mutexes, %d lock acquisitions on the caller's path\n", nlp, nlm, nls)

	// GenFrameSites.v (C01): NewFrame call sites, FramePool implementations (framesites.go)
	w.Reset()
	fmt.Fprintf(&w, header, *repo)
	fmt.Fprintf(&w, "From Verif Require Import Gen.GenConsts.\n\n")
	nfs, nfp := frameSitesSafe(&w, *repo, root)
	writeIfChanged(filepath.Join(*out, "GenFrameSites.v"), w.Bytes())
	fmt.Printf("go2v: GenFrameSites.v %d NewFrame sites, %d FramePool implementations\n", nfs, nfp)

	// GenC01RelSites.v (C01): every call that can give back the frame a reader is parsed into (c01relsites.go)
	w.Reset()
	fmt.Fprintf(&w, header, *repo)
	nc01r, nc01f := root.c01RelSites(&w)
	writeIfChanged(filepath.Join(*out, "GenC01RelSites.v"), w.Bytes())
	fmt.Printf("go2v: GenC01RelSites.v %d release sites, %d releasing functions\n", nc01r, nc01f)

	// GenLockSkel.v (C16): lock / return skeletons of the get-or-create functions (mapext.go)
	w.Reset()
	fmt.Fprintf(&w, header, *repo)
	nsk := root.lockSkeletons(&w)
	writeIfChanged(filepath.Join(*out, "GenLockSkel.v"), w.Bytes())
	fmt.Printf("go2v: GenLockSkel.v %d lock skeletons\n", nsk)

	// GenLockSites.v (C04): read / write sites of the mutex-protected state with the locks held (locksites.go)
	w.Reset()
	fmt.Fprintf(&w, header, *repo)
	nls, nlw := root.lockSitesSafe(&w, *repo)
	writeIfChanged(filepath.Join(*out, "GenLockSites.v"), w.Bytes())
	fmt.Printf("go2v: GenLockSites.v %d access sites of %d protected fields, %d lock wrappers\n", nls, len(lkFields), nlw)

	// GenSyncPools.v (C04): every sync.Pool and every Get / Put / put-wrapper call site (syncpools.go)
	w.Reset()
	fmt.Fprintf(&w, header, *repo)
	nspd, nsps, nspw := syncPoolSitesSafe(&w, *repo)
	writeIfChanged(filepath.Join(*out, "GenSyncPools.v"), w.Bytes())
	fmt.Printf("go2v: GenSyncPools.v %d sync.Pools, %d Get / Put sites, %d put wrappers\n", nspd, nsps, nspw)

	// GenC04Reader.v (C04): statement structure of the reader's fragment fetch and every consultation of an
	// exchange's error channel (c04reader.go)
	w.Reset()
	fmt.Fprintf(&w, header, *repo)
	fmt.Fprintf(&w, "From Verif Require Import Spec.C04ReaderSpec.\n")
	nc04p, nc04s := root.c04ReaderSafe(&w)
	writeIfChanged(filepath.Join(*out, "GenC04Reader.v"), w.Bytes())
	fmt.Printf("go2v: GenC04Reader.v %d reader programs, %d error-channel sites\n", nc04p, nc04s)

	// GenFrameUse.v (C12): uses of a frame relative to its hand-over, per function (frameuse.go)
	w.Reset()
	fmt.Fprintf(&w, header, *repo)
	fmt.Fprintf(&w, "From Verif Require Import Spec.FrameUseSpec.\n\n")
	nfu, nfx := root.frameUseSafe(&w, *repo)
	writeIfChanged(filepath.Join(*out, "GenFrameUse.v"), w.Bytes())
	fmt.Printf("go2v: GenFrameUse.v %d frame-use rows, %d hand-over sites\n", nfu, nfx)

	// GenCtxFlow.v (C14): which context the retrying clients hand down; the stop / notify / watch
	// statements of the connection-failure path (ctxflow.go)
	w.Reset()
	fmt.Fprintf(&w, header, *repo)
	ncx, ncl := ctxFlowSites(&w, *repo, root.pkg.PkgPath)
	nst, nnt, nwt := root.connFailSites(&w)
	writeIfChanged(filepath.Join(*out, "GenCtxFlow.v"), w.Bytes())
	fmt.Printf("go2v: GenCtxFlow.v %d context hand-over sites below %d RunWithRetry attempt functions, %d stopExchanges sites, %d stopExchanges statements, %d watcher calls\n", ncx, ncl, nst, nnt, nwt)

	// GenReqStatePool.v (C17): life cycle of the pooled RequestState: pool sites, uses of the holding variables, reset per field (rspool.go)
	w.Reset()
	fmt.Fprintf(&w, header, *repo)
	nrp, nru, nrf := root.reqStatePoolSafe(&w, *repo)
	writeIfChanged(filepath.Join(*out, "GenReqStatePool.v"), w.Bytes())
	fmt.Printf("go2v: GenReqStatePool.v %d pool sites, %d uses of a pooled RequestState, %d fields\n", nrp, nru, nrf)

	// GenReplySites.v (C06): the id expression of every response message the library builds (replyids.go)
	w.Reset()
	fmt.Fprintf(&w, header, *repo)
	fmt.Fprintf(&w, "From Coq Require Import String.\nFrom Verif Require Import Gen.GenConsts Gen.GenReplyIds.\n")
	nri, nrs0 := root.emitRidSites(&w)
	nrt := root.emitRidTable(&w)
	writeIfChanged(filepath.Join(*out, "GenReplySites.v"), w.Bytes())
	fmt.Printf("go2v: GenReplySites.v %d reply-id site lists, %d not translated, %d rows in the table of id-writing sites\n", nri, nrs0, nrt)

	// GenPoolReset.v (C03): every sync.Pool with the resets between two users of a pooled object (poolreset.go)
	w.Reset()
	fmt.Fprintf(&w, header, *repo)
	fmt.Fprintf(&w, "From Verif Require Import Spec.PoolSpec.\n\n")
	npl, npg, npp, npf := poolResetSafe(&w, *repo, all)
	writeIfChanged(filepath.Join(*out, "GenPoolReset.v"), w.Bytes())
	fmt.Printf("go2v: GenPoolReset.v %d pools, %d Get sites, %d Put sites, %d pooled fields\n", npl, npg, npp, npf)

	// GenMexProg.v (C05): forwardPeerFrame / recvPeerFrame of mex.go as channel programs (chanprog.go)
	w.Reset()
	fmt.Fprintf(&w, header, *repo)
	fmt.Fprintf(&w, "From Coq Require Import List.\nFrom Verif Require Import Spec.ChanProg.\nImport ListNotations.\n")
	ncp := root.chanProgsSafe(&w)
	writeIfChanged(filepath.Join(*out, "GenMexProg.v"), w.Bytes())
	fmt.Printf("go2v: GenMexProg.v %d channel programs\n", ncp)

	// GenC15Score.v (C15): statement structure of the functions that change a peer's scoring attributes,
	// lock-region tables of the PeerList functions that compute / store a score, census (c15score.go)
	w.Reset()
	fmt.Fprintf(&w, header, *repo)
	fmt.Fprintf(&w, "From Coq Require Import ZArith List String.\nFrom Verif Require Import Spec.C15ScoreSpec.\nImport ListNotations.\nLocal Open Scope Z_scope.\nLocal Open Scope string_scope.\n")
	nc15p, nc15r, nc15c := root.c15ScoreSafe(&w)
	writeIfChanged(filepath.Join(*out, "GenC15Score.v"), w.Bytes())
	fmt.Printf("go2v: GenC15Score.v %d statement structures, %d lock-region tables, %d census rows\n", nc15p, nc15r, nc15c)

	// GenTypedBuf.v, GenMessages.v ...: byte-buffer methods and message codecs (methods.go)
	emitMethodFiles(all, *repo, *out)
}
