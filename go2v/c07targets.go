package main

// C07, third strengthening (GenClose3.v) -- channel.go: the places of the channel close state
// machine that were modelled by hand only.
//
//	(1) Channel.Serve: the whole Lock region up to `go ch.serve()` as a function of the two state
//	    variables it reads and writes (mutable.l != nil, mutable.state): result
//	    (error, listener set afterwards, state afterwards); error 0 nil, 1 errAlreadyListening,
//	    2 errInvalidStateForOp.  The two assignments are translated (declared lvalues), not hinted.
//	(2) Channel.ListenAndServe: the test of mutable.l under the read lock (1 errAlreadyListening,
//	    0 goes on to net.Listen / Serve).
//	(3) Channel.removeClosedConn: which connections are removed (test) and that the removal is the
//	    delete under the lock.
//	(4) Channel.connectionCloseStateChange from the schedule point chan.closeStateChange.enter to the
//	    schedule point chan.closeStateChange.afterRead: the ORDER "removeClosedConn(c), THEN
//	    chState := ch.State()" -- the read of the channel state mentions the marker bound by the
//	    removal, so a read that is hoisted above the removal (or above the enter point) leaves a
//	    variable unbound and the file does not compile -- and the state test that ends the callback
//	    (0 = return, otherwise the state read).
//	(5) Channel.Close: the decision taken on len(mutable.conns) == 0 under the lock:
//	    (state afterwards, channelClosed).
func init() {
	targets = append(targets, []Target{
		{Func: "Channel.Serve", Out: "chanServe", File: "GenClose3", Soft: true,
			Params: "(has_l : bool) (cur : Z)", Ret: "Z * bool * Z",
			Stmt: "defer mutable.Unlock()", After: true, Until: "go ch.serve()",
			Rest: "(0, has_l, cur)", RetFmt: "(%s, has_l, cur)",
			LVals: map[string]string{"mutable.state": "cur", "mutable.l": "has_l"},
			Hints: map[string]string{
				"mutable.l != nil":     "has_l",
				"tnet.Wrap(l)":         "true",
				"errAlreadyListening":  "1",
				"errInvalidStateForOp": "2",
			},
			SHints: map[string]string{
				"mutable.peerInfo.HostPort = l.Addr().String()": "",
				"mutable.peerInfo.IsEphemeral = false":          "",
				"ch.log = ch.log.WithFields(...":                "",
				"ch.log.Info(...":                               "",
			}},
		{Func: "Channel.ListenAndServe", Out: "chanListenTest", File: "GenClose3", Soft: true,
			Params: "(has_l : bool)", Ret: "Z",
			Stmt: "if mutable.l != nil {", Rest: "0",
			Hints:  map[string]string{"mutable.l != nil": "has_l", "errAlreadyListening": "1"},
			SHints: map[string]string{"mutable.RUnlock()": ""}},
		{Func: "Channel.removeClosedConn", Out: "chanRemoveTest", File: "GenClose3", Soft: true,
			Params: "(connState : Z)", Ret: "Z",
			Stmt: "if c.readState() != connectionClosed {", Rest: "1", NakedRetW: "0",
			Hints: map[string]string{"c.readState()": "connState"}},
		{Func: "Channel.removeClosedConn", Out: "chanRemoveDeletes", File: "GenClose3", Soft: true,
			Params: "", Ret: "Z",
			Stmt: "if c.readState() != connectionClosed {", After: true, Rest: "deleted",
			SHints: map[string]string{
				"verifPoint(...":                     "",
				"ch.mutable.Lock()":                  "let locked := 1 in",
				"delete(ch.mutable.conns, c.connID)": "let deleted := locked in",
				"ch.mutable.Unlock()":                "",
			}},
		{Func: "Channel.connectionCloseStateChange", Out: "chanCallbackRead", File: "GenClose3", Soft: true,
			Params: "(cur : Z)", Ret: "Z",
			Stmt: "verifPoint(\"chan.closeStateChange.enter\"", After: true, Until: "verifPoint(\"chan.closeStateChange.afterRead\"",
			Rest: "chState", NakedRetW: "0",
			Hints: map[string]string{"ch.State()": "(cur + removed)"},
			SHints: map[string]string{
				"ch.removeClosedConn(c)": "let removed := 0 in",
				"if peer, ok := ch.RootPeers().Get(c.remotePeerInfo.HostPort); ok {...":     "",
				"if c.outboundHP != \"\" && c.outboundHP != c.remotePeerInfo.HostPort {...": "",
			}},
		{Func: "Channel.Close", Out: "chanCloseEmpty", File: "GenClose3", Soft: true,
			Params: "(nconns : Z) (cur : Z)", Ret: "Z * bool",
			Stmt: "if len(ch.mutable.conns) == 0 {", Pre: "let channelClosed := false in", Rest: "(cur, channelClosed)",
			LVals: map[string]string{"ch.mutable.state": "cur"},
			Hints: map[string]string{"len(ch.mutable.conns)": "nconns"}},
	}...)
}
