package main

// framesites.go -- property C01: where frames come from and how large they are
// (Gen/GenFrameSites.v, regenerated on every run).
//
// The size theorem of C01 ("every frame emitted is at most 65535 bytes") takes the room
// of a fragment from the Payload length of the frame the FramePool hands out.  This file
// extracts, from EVERY non-test file of EVERY package of the repository,
//
//   NewFrame body        the three slice expressions of frame.go NewFrame (length of the
//                        buffer, bounds of Payload and headerBuffer) as Gallina terms
//   newframe_sites       every call of tchannel.NewFrame: the VALUE of its argument (it must
//                        be a constant expression; anything else is recorded as -1) and
//                        whether the frame is receive-only (bound to a local variable that
//                        is only used as v.ReadIn / v.ReadBody / v.Header / v.SizedPayload)
//   frame_literal_sites  every composite literal / new() of type tchannel.Frame
//   frame_field_writes   every assignment to Frame.Payload / .buffer / .headerBuffer
//                        (class 0 = inside NewFrame, 1 = `= nil`, 9 = anything else)
//   payload_wrap_sites   every typed.NewWriteBuffer(x) / wbuf.Wrap(x) whose argument mentions
//                        a Frame's Payload (class 0 = the whole Payload, 9 = a sub-slice)
//   pool_impls           every named type implementing tchannel.FramePool: what Get returns
//                        (0 fresh NewFrame, 1 received from a chan *Frame, 2 taken from a
//                        sync.Pool, 9 other), what Release stores (1 = its parameter, 9 =
//                        another value) and whether Release assigns Frame fields
//   syncpool_news        every sync.Pool literal whose New returns a *Frame: what it returns
//
// Proofs/FramePoolP.v proves from these tables that every frame any pool hands out has
// len(Payload) = MaxFramePayloadSize; a changed or added site breaks that obligation.
// Syntactic, type-resolved (go/types); trusted base of C01 together with the translator.

import (
	"bytes"
	"fmt"
	"go/ast"
	"go/token"
	"go/types"
	"path/filepath"
	"sort"
	"strings"

	"golang.org/x/tools/go/packages"
)

const fsRootPath = "github.com/uber/tchannel-go"

type fsSite struct {
	where string // pkgdir/file.go:Func
	text  string
	val   string
	flag  bool
	cls   []int
	cls2  []int
}

type fsCtx struct {
	repo  string
	pkgs  []*packages.Package
	root  *packages.Package
	frame *types.Named // tchannel.Frame
	pool  *types.Named // tchannel.FramePool
	newFr types.Object // tchannel.NewFrame
}

func fsIsTest(name string) bool {
	return strings.HasSuffix(name, "_test.go") || strings.HasPrefix(name, "zz_verif")
}

func (c *fsCtx) rel(p *packages.Package, pos token.Pos) string {
	fn := p.Fset.Position(pos).Filename
	r, err := filepath.Rel(c.repo, fn)
	if err != nil {
		return filepath.Base(fn)
	}
	return r
}

func fsFuncName(fd *ast.FuncDecl) string {
	fn := fd.Name.Name
	if fd.Recv != nil && len(fd.Recv.List) == 1 {
		rt := fd.Recv.List[0].Type
		if st, ok := rt.(*ast.StarExpr); ok {
			rt = st.X
		}
		if id, ok := rt.(*ast.Ident); ok {
			fn = id.Name + "." + fn
		}
	}
	return fn
}

// isFrameT: T is tchannel.Frame or *tchannel.Frame
func (c *fsCtx) isFrameT(t types.Type) bool {
	if t == nil {
		return false
	}
	if p, ok := t.(*types.Pointer); ok {
		t = p.Elem()
	}
	n, ok := t.(*types.Named)
	return ok && n.Obj() == c.frame.Obj()
}

func (c *fsCtx) isNewFrameCall(p *packages.Package, e ast.Expr) (*ast.CallExpr, bool) {
	call, ok := ast.Unparen(e).(*ast.CallExpr)
	if !ok {
		return nil, false
	}
	var id *ast.Ident
	switch f := ast.Unparen(call.Fun).(type) {
	case *ast.Ident:
		id = f
	case *ast.SelectorExpr:
		id = f.Sel
	}
	if id == nil {
		return nil, false
	}
	return call, p.TypesInfo.Uses[id] == c.newFr
}

func fsSyncPoolMethod(p *packages.Package, call *ast.CallExpr, name string) bool {
	sel, ok := ast.Unparen(call.Fun).(*ast.SelectorExpr)
	if !ok || sel.Sel.Name != name {
		return false
	}
	fn, ok := p.TypesInfo.Uses[sel.Sel].(*types.Func)
	if !ok || fn.Pkg() == nil || fn.Pkg().Path() != "sync" {
		return false
	}
	sig := fn.Type().(*types.Signature)
	if sig.Recv() == nil {
		return false
	}
	rt := sig.Recv().Type()
	if pt, ok := rt.(*types.Pointer); ok {
		rt = pt.Elem()
	}
	n, ok := rt.(*types.Named)
	return ok && n.Obj().Name() == "Pool"
}

// classify the value of a *Frame expression inside function body `body`
func (c *fsCtx) classify(p *packages.Package, body ast.Node, e ast.Expr, depth int) []int {
	e = ast.Unparen(e)
	if depth > 4 {
		return []int{9}
	}
	if _, ok := c.isNewFrameCall(p, e); ok {
		return []int{0}
	}
	switch x := e.(type) {
	case *ast.UnaryExpr:
		if x.Op == token.ARROW {
			if ch, ok := p.TypesInfo.TypeOf(x.X).Underlying().(*types.Chan); ok && c.isFrameT(ch.Elem()) {
				return []int{1}
			}
		}
	case *ast.TypeAssertExpr:
		if call, ok := ast.Unparen(x.X).(*ast.CallExpr); ok && fsSyncPoolMethod(p, call, "Get") && c.isFrameT(p.TypesInfo.TypeOf(x.Type)) {
			return []int{2}
		}
	case *ast.Ident:
		obj := p.TypesInfo.Uses[x]
		if obj == nil {
			obj = p.TypesInfo.Defs[x]
		}
		v, ok := obj.(*types.Var)
		if !ok || v.IsField() || v.Parent() == nil || v.Parent() == v.Pkg().Scope() {
			return []int{9}
		}
		var out []int
		found := false
		ast.Inspect(body, func(n ast.Node) bool {
			switch s := n.(type) {
			case *ast.AssignStmt:
				for i, l := range s.Lhs {
					id, ok := l.(*ast.Ident)
					if !ok {
						continue
					}
					o := p.TypesInfo.Defs[id]
					if o == nil {
						o = p.TypesInfo.Uses[id]
					}
					if o != obj {
						continue
					}
					found = true
					if len(s.Rhs) == len(s.Lhs) {
						out = append(out, c.classify(p, body, s.Rhs[i], depth+1)...)
					} else {
						out = append(out, 9)
					}
				}
			case *ast.ValueSpec:
				for i, id := range s.Names {
					if p.TypesInfo.Defs[id] != obj {
						continue
					}
					found = true
					if i < len(s.Values) {
						out = append(out, c.classify(p, body, s.Values[i], depth+1)...)
					} else {
						out = append(out, 9) // zero value: a nil frame
					}
				}
			case *ast.UnaryExpr:
				if s.Op == token.AND {
					if id, ok := ast.Unparen(s.X).(*ast.Ident); ok && p.TypesInfo.Uses[id] == obj {
						out = append(out, 9) // address taken: assigned elsewhere
					}
				}
			}
			return true
		})
		if !found {
			return []int{9} // parameter or captured variable
		}
		return out
	}
	return []int{9}
}

func fsUniq(xs []int) []int {
	sort.Ints(xs)
	out := xs[:0]
	for i, x := range xs {
		if i == 0 || x != xs[i-1] {
			out = append(out, x)
		}
	}
	return out
}

func fsZList(xs []int) string {
	parts := []string{}
	for _, x := range xs {
		parts = append(parts, fmt.Sprint(x))
	}
	return "[" + strings.Join(parts, "; ") + "]"
}

func fsComment(s string) string {
	s = strings.ReplaceAll(s, "\n", " ")
	s = strings.ReplaceAll(s, "*)", "* )")
	s = strings.ReplaceAll(s, "(*", "( *")
	if len(s) > 90 {
		s = s[:90]
	}
	return s
}

// frameField: sel selects the field Payload / buffer / headerBuffer of a tchannel.Frame
func (c *fsCtx) frameField(p *packages.Package, e ast.Expr) (string, bool) {
	sel, ok := ast.Unparen(e).(*ast.SelectorExpr)
	if !ok {
		return "", false
	}
	v, ok := p.TypesInfo.Uses[sel.Sel].(*types.Var)
	if !ok || !v.IsField() || v.Pkg() == nil || v.Pkg().Path() != fsRootPath {
		return "", false
	}
	switch v.Name() {
	case "Payload", "buffer", "headerBuffer":
	default:
		return "", false
	}
	if !c.isFrameT(p.TypesInfo.TypeOf(sel.X)) {
		return "", false
	}
	return v.Name(), true
}

func (c *fsCtx) mentionsPayload(p *packages.Package, e ast.Expr) bool {
	found := false
	ast.Inspect(e, func(n ast.Node) bool {
		if x, ok := n.(ast.Expr); ok {
			if f, ok := c.frameField(p, x); ok && f == "Payload" {
				found = true
			}
		}
		return true
	})
	return found
}

// recvOnly: the NewFrame call is the sole right-hand side of `v := NewFrame(..)` and every
// other use of v in the function is v.ReadIn / v.ReadBody / v.Header / v.SizedPayload.
func (c *fsCtx) recvOnly(p *packages.Package, fd *ast.FuncDecl, call *ast.CallExpr) bool {
	var obj types.Object
	ast.Inspect(fd.Body, func(n ast.Node) bool {
		if s, ok := n.(*ast.AssignStmt); ok && s.Tok == token.DEFINE && len(s.Lhs) == 1 && len(s.Rhs) == 1 && ast.Unparen(s.Rhs[0]) == ast.Expr(call) {
			if id, ok := s.Lhs[0].(*ast.Ident); ok {
				obj = p.TypesInfo.Defs[id]
			}
		}
		return true
	})
	if obj == nil {
		return false
	}
	allowed := map[*ast.Ident]bool{}
	ast.Inspect(fd.Body, func(n ast.Node) bool {
		if sel, ok := n.(*ast.SelectorExpr); ok {
			if id, ok := ast.Unparen(sel.X).(*ast.Ident); ok && p.TypesInfo.Uses[id] == obj {
				switch sel.Sel.Name {
				case "ReadIn", "ReadBody", "Header", "SizedPayload":
					allowed[id] = true
				}
			}
		}
		return true
	})
	ok := true
	ast.Inspect(fd.Body, func(n ast.Node) bool {
		if id, isid := n.(*ast.Ident); isid && p.TypesInfo.Uses[id] == obj && !allowed[id] {
			ok = false
		}
		return true
	})
	return ok
}

func frameSites(w *bytes.Buffer, repo string, root *translator) (nsites, npools int) {
	cfg := &packages.Config{
		Mode: packages.NeedName | packages.NeedFiles | packages.NeedSyntax | packages.NeedTypes | packages.NeedTypesInfo | packages.NeedImports | packages.NeedDeps,
		Dir:  repo,
	}
	pkgs, err := packages.Load(cfg, "./...")
	if err != nil {
		failf("framesites: load ./...: %v", err)
	}
	c := &fsCtx{repo: repo}
	for _, p := range pkgs {
		if len(p.Errors) > 0 {
			failf("framesites: load %s: %v", p.PkgPath, p.Errors[0])
		}
		if p.PkgPath == fsRootPath {
			c.root = p
		}
	}
	if c.root == nil {
		failf("framesites: package %s not among ./...", fsRootPath)
	}
	sort.Slice(pkgs, func(i, j int) bool { return pkgs[i].PkgPath < pkgs[j].PkgPath })
	c.pkgs = pkgs
	sc := c.root.Types.Scope()
	fo, _ := sc.Lookup("Frame").(*types.TypeName)
	po, _ := sc.Lookup("FramePool").(*types.TypeName)
	c.newFr = sc.Lookup("NewFrame")
	if fo == nil || po == nil || c.newFr == nil {
		failf("framesites: Frame / FramePool / NewFrame not declared in %s", fsRootPath)
	}
	c.frame = fo.Type().(*types.Named)
	c.pool = po.Type().(*types.Named)
	poolIface, ok := c.pool.Underlying().(*types.Interface)
	if !ok {
		failf("framesites: FramePool is not an interface")
	}

	// ---- NewFrame body
	rootT := newTranslator(c.root)
	nf := rootT.funcs["NewFrame"]
	if nf == nil || nf.Body == nil || nf.Type.Params == nil || len(nf.Type.Params.List) != 1 || len(nf.Type.Params.List[0].Names) != 1 {
		failf("framesites: NewFrame(payloadCapacity int) not found")
	}
	param := nf.Type.Params.List[0].Names[0].Name
	fc := &fnctx{t: rootT, tg: &Target{Func: "NewFrame", Renames: map[string]string{param: "payloadCapacity"}}, fd: nf}
	var bufLen string
	bounds := map[string][2]string{}
	nassign := map[string]int{}
	for _, st := range nf.Body.List {
		as, ok := st.(*ast.AssignStmt)
		if !ok || len(as.Lhs) != 1 || len(as.Rhs) != 1 {
			continue
		}
		field, ok := c.frameField(c.root, as.Lhs[0])
		if !ok {
			continue
		}
		nassign[field]++
		rhs := ast.Unparen(as.Rhs[0])
		switch field {
		case "buffer":
			call, ok := rhs.(*ast.CallExpr)
			if !ok || len(call.Args) != 2 {
				failf("%s: NewFrame: buffer is not make([]byte, n)", rootT.pos(as))
			}
			if id, isid := ast.Unparen(call.Fun).(*ast.Ident); !isid || id.Name != "make" {
				failf("%s: NewFrame: buffer is not make([]byte, n)", rootT.pos(as))
			}
			bufLen = fc.expr(call.Args[1])
		case "Payload", "headerBuffer":
			sl, ok := rhs.(*ast.SliceExpr)
			if !ok || sl.Slice3 {
				failf("%s: NewFrame: %s is not a two-index slice of the buffer", rootT.pos(as), field)
			}
			if f2, ok := c.frameField(c.root, sl.X); !ok || f2 != "buffer" {
				failf("%s: NewFrame: %s is not a slice of f.buffer", rootT.pos(as), field)
			}
			lo, hi := "0", "(NewFrame_buffer_len payloadCapacity)"
			if sl.Low != nil {
				lo = fc.expr(sl.Low)
			}
			if sl.High != nil {
				hi = fc.expr(sl.High)
			}
			bounds[field] = [2]string{lo, hi}
		}
	}
	for _, f := range []string{"buffer", "Payload", "headerBuffer"} {
		if nassign[f] != 1 {
			failf("framesites: NewFrame assigns f.%s %d times at statement level (want 1)", f, nassign[f])
		}
	}
	p0 := c.root.Fset.Position(nf.Pos())
	fmt.Fprintf(w, "(* from frame.go:%d  func NewFrame(%s int): f.buffer = make([]byte, E); f.Payload = f.buffer[lo:hi];\n   f.headerBuffer = f.buffer[lo:hi] (an absent bound is 0 / len(f.buffer)) *)\n", p0.Line, param)
	fmt.Fprintf(w, "Definition NewFrame_buffer_len (payloadCapacity : Z) : Z := %s.\n", bufLen)
	fmt.Fprintf(w, "Definition NewFrame_payload_lo (payloadCapacity : Z) : Z := %s.\n", bounds["Payload"][0])
	fmt.Fprintf(w, "Definition NewFrame_payload_hi (payloadCapacity : Z) : Z := %s.\n", bounds["Payload"][1])
	fmt.Fprintf(w, "Definition NewFrame_header_lo (payloadCapacity : Z) : Z := %s.\n", bounds["headerBuffer"][0])
	fmt.Fprintf(w, "Definition NewFrame_header_hi (payloadCapacity : Z) : Z := %s.\n\n", bounds["headerBuffer"][1])

	// ---- site tables over every non-test file of every package
	var sites, lits, writes, wraps, pools, spools []fsSite
	for _, p := range pkgs {
		info := p.TypesInfo
		for _, f := range p.Syntax {
			if fsIsTest(filepath.Base(p.Fset.Position(f.Pos()).Filename)) {
				continue
			}
			file := c.rel(p, f.Pos())
			// every NewFrame call must sit inside a function declaration
			ast.Inspect(f, func(n ast.Node) bool {
				if _, ok := n.(*ast.FuncDecl); ok {
					return false
				}
				if e, ok := n.(ast.Expr); ok {
					if call, ok := c.isNewFrameCall(p, e); ok {
						sites = append(sites, fsSite{where: file + ":<package level>", text: root.srcOf(p, call), val: "(-1)"})
					}
				}
				return true
			})
			// NewFrame used as a function VALUE (not called on the spot): its later calls are invisible
			called := map[*ast.Ident]bool{}
			ast.Inspect(f, func(n ast.Node) bool {
				if call, ok := n.(*ast.CallExpr); ok {
					switch fn := ast.Unparen(call.Fun).(type) {
					case *ast.Ident:
						called[fn] = true
					case *ast.SelectorExpr:
						called[fn.Sel] = true
					}
				}
				return true
			})
			ast.Inspect(f, func(n ast.Node) bool {
				if id, ok := n.(*ast.Ident); ok && info.Uses[id] == c.newFr && !called[id] {
					sites = append(sites, fsSite{where: file + ":<NewFrame as a value>", text: "NewFrame", val: "(-1)"})
				}
				return true
			})
			for _, d := range f.Decls {
				fd, ok := d.(*ast.FuncDecl)
				if !ok || fd.Body == nil {
					continue
				}
				where := file + ":" + fsFuncName(fd)
				inNewFrame := p == c.root && fd == c.rootDecl("NewFrame")
				ast.Inspect(fd.Body, func(n ast.Node) bool {
					switch x := n.(type) {
					case *ast.CallExpr:
						if call, ok := c.isNewFrameCall(p, x); ok {
							s := fsSite{where: where, text: root.srcOf(p, call), val: "(-1)"}
							if len(call.Args) == 1 {
								if tv, ok := info.Types[call.Args[0]]; ok && tv.Value != nil {
									if lit, ok := zlit(tv.Value); ok {
										s.val = lit
									}
								}
							}
							s.flag = c.recvOnly(p, fd, call)
							sites = append(sites, s)
						}
						// new(Frame)
						if id, ok := ast.Unparen(x.Fun).(*ast.Ident); ok && id.Name == "new" && len(x.Args) == 1 {
							if _, isb := info.Uses[id].(*types.Builtin); isb && c.isFrameT(info.TypeOf(x.Args[0])) {
								if _, isptr := info.TypeOf(x.Args[0]).(*types.Pointer); !isptr {
									lits = append(lits, fsSite{where: where, text: root.srcOf(p, x)})
								}
							}
						}
						// write buffers over a frame payload
						if sel, ok := ast.Unparen(x.Fun).(*ast.SelectorExpr); ok && (sel.Sel.Name == "NewWriteBuffer" || sel.Sel.Name == "Wrap") && len(x.Args) == 1 {
							if fn, ok := info.Uses[sel.Sel].(*types.Func); ok && fn.Pkg() != nil && fn.Pkg().Path() == fsRootPath+"/typed" && c.mentionsPayload(p, x.Args[0]) {
								isWrite := sel.Sel.Name == "NewWriteBuffer"
								if sel.Sel.Name == "Wrap" {
									if sig := fn.Type().(*types.Signature); sig.Recv() != nil {
										isWrite = strings.Contains(sig.Recv().Type().String(), "WriteBuffer")
									}
								}
								if isWrite {
									cls := 9
									a := ast.Unparen(x.Args[0])
									if sl, ok := a.(*ast.SliceExpr); ok && sl.Low == nil && sl.High == nil && !sl.Slice3 {
										a = ast.Unparen(sl.X)
									}
									if f2, ok := c.frameField(p, a); ok && f2 == "Payload" {
										cls = 0
									}
									wraps = append(wraps, fsSite{where: where, text: root.srcOf(p, x), cls: []int{cls}})
								}
							}
						}
					case *ast.CompositeLit:
						if t := info.TypeOf(x); t != nil {
							if _, isptr := t.(*types.Pointer); !isptr && c.isFrameT(t) {
								lits = append(lits, fsSite{where: where, text: root.srcOf(p, x)})
							}
						}
						// sync.Pool{New: func() interface{} { return <*Frame> }}
						if n, ok := info.TypeOf(x).(*types.Named); ok && n.Obj().Pkg() != nil && n.Obj().Pkg().Path() == "sync" && n.Obj().Name() == "Pool" {
							for _, el := range x.Elts {
								kv, ok := el.(*ast.KeyValueExpr)
								if !ok {
									continue
								}
								if k, ok := kv.Key.(*ast.Ident); !ok || k.Name != "New" {
									continue
								}
								fl, ok := ast.Unparen(kv.Value).(*ast.FuncLit)
								if !ok {
									continue
								}
								var cls []int
								isFrame := false
								ast.Inspect(fl.Body, func(m ast.Node) bool {
									if inner, ok := m.(*ast.FuncLit); ok && inner != fl {
										return false
									}
									if r, ok := m.(*ast.ReturnStmt); ok && len(r.Results) == 1 {
										if c.isFrameT(info.TypeOf(r.Results[0])) {
											isFrame = true
											cls = append(cls, c.classify(p, fl.Body, r.Results[0], 0)...)
										}
									}
									return true
								})
								if isFrame {
									spools = append(spools, fsSite{where: where, text: "sync.Pool{New: ...}", cls: fsUniq(cls)})
								}
							}
						}
					case *ast.AssignStmt:
						for i, l := range x.Lhs {
							field, ok := c.frameField(p, l)
							if !ok {
								continue
							}
							cls := 9
							if inNewFrame {
								cls = 0
							} else if len(x.Rhs) == len(x.Lhs) {
								if id, ok := ast.Unparen(x.Rhs[i]).(*ast.Ident); ok && id.Name == "nil" {
									if _, isnil := info.Uses[id].(*types.Nil); isnil {
										cls = 1
									}
								}
							}
							writes = append(writes, fsSite{where: where, text: field, cls: []int{cls}})
						}
					case *ast.UnaryExpr:
						// &f.Payload: the field can then be assigned anywhere
						if x.Op == token.AND {
							if field, ok := c.frameField(p, x.X); ok {
								writes = append(writes, fsSite{where: where, text: "&" + field, cls: []int{9}})
							}
						}
					}
					return true
				})
			}
		}
		// ---- FramePool implementations declared in this package
		for _, name := range p.Types.Scope().Names() {
			tn, ok := p.Types.Scope().Lookup(name).(*types.TypeName)
			if !ok || tn.IsAlias() {
				continue
			}
			if _, isIface := tn.Type().Underlying().(*types.Interface); isIface {
				continue
			}
			T := tn.Type()
			if !types.Implements(T, poolIface) && !types.Implements(types.NewPointer(T), poolIface) {
				continue
			}
			if fsIsTest(filepath.Base(p.Fset.Position(tn.Pos()).Filename)) {
				continue
			}
			s := fsSite{where: c.rel(p, tn.Pos()) + ":" + name, text: name}
			for _, mname := range []string{"Get", "Release"} {
				fd := fsMethodDecl(p, name, mname)
				if fd == nil || fd.Body == nil {
					// promoted through embedding: not analysable here
					if mname == "Get" {
						s.cls = []int{9}
					} else {
						s.cls2 = []int{9}
					}
					continue
				}
				if mname == "Get" {
					ast.Inspect(fd.Body, func(m ast.Node) bool {
						if _, ok := m.(*ast.FuncLit); ok {
							return false
						}
						if r, ok := m.(*ast.ReturnStmt); ok {
							if len(r.Results) != 1 {
								s.cls = append(s.cls, 9)
							} else {
								s.cls = append(s.cls, c.classify(p, fd.Body, r.Results[0], 0)...)
							}
						}
						return true
					})
					if len(s.cls) == 0 {
						s.cls = []int{9}
					}
					s.cls = fsUniq(s.cls)
					continue
				}
				// Release(f): what is stored for a later Get
				var par types.Object
				if fd.Type.Params != nil && len(fd.Type.Params.List) == 1 && len(fd.Type.Params.List[0].Names) == 1 {
					par = p.TypesInfo.Defs[fd.Type.Params.List[0].Names[0]]
				}
				isPar := func(e ast.Expr) int {
					if id, ok := ast.Unparen(e).(*ast.Ident); ok && par != nil && p.TypesInfo.Uses[id] == par {
						return 1
					}
					return 9
				}
				ast.Inspect(fd.Body, func(m ast.Node) bool {
					switch y := m.(type) {
					case *ast.SendStmt:
						if c.isFrameT(p.TypesInfo.TypeOf(y.Value)) {
							s.cls2 = append(s.cls2, isPar(y.Value))
						}
					case *ast.CallExpr:
						if fsSyncPoolMethod(p, y, "Put") && len(y.Args) == 1 {
							s.cls2 = append(s.cls2, isPar(y.Args[0]))
						} else if id, ok := ast.Unparen(y.Fun).(*ast.Ident); ok && id.Name == "append" {
							for _, a := range y.Args[1:] {
								if c.isFrameT(p.TypesInfo.TypeOf(a)) {
									s.cls2 = append(s.cls2, isPar(a))
								}
							}
						}
					case *ast.AssignStmt:
						for i, l := range y.Lhs {
							if _, ok := c.frameField(p, l); ok {
								s.flag = true
								continue
							}
							if len(y.Rhs) == len(y.Lhs) && c.isFrameT(p.TypesInfo.TypeOf(y.Rhs[i])) {
								if _, isid := l.(*ast.Ident); isid && y.Tok == token.DEFINE {
									continue // a local alias; its later uses are classified where stored
								}
								s.cls2 = append(s.cls2, isPar(y.Rhs[i]))
							}
						}
					}
					return true
				})
				s.cls2 = fsUniq(s.cls2)
			}
			pools = append(pools, s)
		}
	}

	emit := func(name, typ string, ss []fsSite, row func(s fsSite) string) {
		sort.SliceStable(ss, func(i, j int) bool {
			if ss[i].where != ss[j].where {
				return ss[i].where < ss[j].where
			}
			return ss[i].text < ss[j].text
		})
		fmt.Fprintf(w, "Definition %s : list (%s) := [\n", name, typ)
		for i, s := range ss {
			sep := ";"
			if i == len(ss)-1 {
				sep = ""
			}
			fmt.Fprintf(w, "  (* %s: %s *) %s%s\n", fsComment(s.where), fsComment(s.text), row(s), sep)
		}
		fmt.Fprintf(w, "].\n\n")
	}
	b := func(x bool) string {
		if x {
			return "true"
		}
		return "false"
	}
	fmt.Fprintf(w, "(* (where, argument value (-1: not a constant), receive-only) *)\n")
	emit("newframe_sites", "list Z * Z * bool", sites, func(s fsSite) string {
		return fmt.Sprintf("(%s, %s, %s)", strlit(s.where), s.val, b(s.flag))
	})
	fmt.Fprintf(w, "(* composite literals / new() of type Frame *)\n")
	emit("frame_literal_sites", "list Z", lits, func(s fsSite) string { return strlit(s.where) })
	fmt.Fprintf(w, "(* assignments to Frame.Payload/.buffer/.headerBuffer: (where, class) 0 in NewFrame, 1 = nil, 9 other *)\n")
	emit("frame_field_writes", "list Z * Z", writes, func(s fsSite) string {
		return fmt.Sprintf("(%s, %d)", strlit(s.where), s.cls[0])
	})
	fmt.Fprintf(w, "(* write buffers over a frame payload: (where, class) 0 = the whole Payload, 9 = a sub-slice *)\n")
	emit("payload_wrap_sites", "list Z * Z", wraps, func(s fsSite) string {
		return fmt.Sprintf("(%s, %d)", strlit(s.where), s.cls[0])
	})
	fmt.Fprintf(w, "(* FramePool implementations: (type, Get return classes, Release store classes, Release assigns Frame fields) *)\n")
	emit("pool_impls", "list Z * list Z * list Z * bool", pools, func(s fsSite) string {
		return fmt.Sprintf("(%s, %s, %s, %s)", strlit(s.text), fsZList(s.cls), fsZList(s.cls2), b(s.flag))
	})
	fmt.Fprintf(w, "(* sync.Pool literals whose New returns a *Frame: (where, return classes) *)\n")
	emit("syncpool_news", "list Z * list Z", spools, func(s fsSite) string {
		return fmt.Sprintf("(%s, %s)", strlit(s.where), fsZList(s.cls))
	})
	return len(sites), len(pools)
}

func (c *fsCtx) rootDecl(name string) *ast.FuncDecl {
	for _, f := range c.root.Syntax {
		for _, d := range f.Decls {
			if fd, ok := d.(*ast.FuncDecl); ok && fd.Recv == nil && fd.Name.Name == name {
				return fd
			}
		}
	}
	return nil
}

func fsMethodDecl(p *packages.Package, typ, method string) *ast.FuncDecl {
	for _, f := range p.Syntax {
		for _, d := range f.Decls {
			fd, ok := d.(*ast.FuncDecl)
			if !ok || fd.Recv == nil || fd.Name.Name != method || len(fd.Recv.List) != 1 {
				continue
			}
			rt := fd.Recv.List[0].Type
			if st, ok := rt.(*ast.StarExpr); ok {
				rt = st.X
			}
			if id, ok := rt.(*ast.Ident); ok && id.Name == typ {
				return fd
			}
		}
	}
	return nil
}

func (t *translator) srcOf(p *packages.Package, n ast.Node) string {
	return (&translator{fset: p.Fset}).src(n)
}

// frameSitesSafe: a failure of the extraction breaks C01 only (the file then lacks the
// definitions Proofs/FramePoolP.v needs), not every property sharing the translator.
func frameSitesSafe(w *bytes.Buffer, repo string, root *translator) (nsites, npools int) {
	defer func() {
		if r := recover(); r != nil {
			msg := fmt.Sprint(r)
			if f, ok := r.(failure); ok {
				msg = f.msg
			}
			w.Reset()
			fmt.Fprintf(w, header, repo)
			fmt.Fprintf(w, "(* EXTRACTION FAILED: %s *)\n", fsComment(msg))
			fmt.Printf("go2v: FRAME-SITE EXTRACTION FAILED: %s\n", msg)
			nsites, npools = 0, 0
		}
	}()
	return frameSites(w, repo, root)
}
