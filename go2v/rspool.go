package main

// rspool.go (C17): the life cycle of the pooled RequestState, regenerated on every run as
// Gen/GenReqStatePool.v.
//
// The RequestState of a RunWithRetry comes out of the package-level sync.Pool
// `requestStatePool` and goes back into it; between the two it must belong to that run alone
// ("each attempt sees its attempt number and the peers already tried").  Four tables:
//
//   rsp_sites   every reference to the pool variable in the non-test source, in source order,
//               as (enclosing function, kind, detail, guard)
//                 Decl   the declaration; detail = what its New function returns
//                 Get    pool.Get();   detail = the variable the element is bound to
//                 Put    pool.Put(x);  detail = x
//                 Ref    any other mention (the pool escapes: address taken, passed, assigned)
//   rsp_uses    every occurrence of a variable that HOLDS an element of the pool, in the
//               functions that hold one: the function that binds the result of Get (the
//               "getter") and every function that binds the result of a call of a getter;
//               rows (function, kind, detail, guard), kinds
//                 Def      the binding;                       detail = right-hand side
//                 Reset    *v = ...;                          detail = right-hand side
//                 SetField v.F = e / v.F op= e;               detail = "F = e"
//                 IncField v.F++ / v.F--;                     detail = "F++"
//                 Method   v.M(args);                         detail = "M(args)"
//                 Read     v.F read;                          detail = "v.F"
//                 Return   return v
//                 Put      argument of pool.Put;              detail = the pool
//                 Pass     argument of any other call;        detail = the call
//                 Other    anything else (aliasing, capture); detail = the enclosing node
//   rsp_fields  the fields of the element struct, in declaration order
//   rsp_reset   per field, what the getter leaves in it on every path from Get to its return:
//                 "zero"      reset to Go's zero value (whole-struct assignment of a composite
//                             literal that does not mention the field)
//                 an expression  assigned unconditionally (literal key or v.F = e)
//                 "kept"      NOT written: whatever the previous holder left is still there
//                 "cond:..."  written only under a condition
//
// guard: the conditions enclosing the occurrence inside its function, outermost first, joined
// by " && " ("!(c)" for an else branch, "case ..." for switch/select clauses, "for", "range",
// "defer", "go", "func" for a function literal) -- a Put that loses its `defer`, moves into the
// loop or into a closure changes its row.  Line numbers are not part of a row.

import (
	"bytes"
	"fmt"
	"go/ast"
	"go/token"
	"go/types"
	"path/filepath"
	"sort"
	"strings"
)

const (
	rspPoolVar = "requestStatePool"
	rspStruct  = "RequestState"
)

type rspRow struct {
	file                  string
	pos                   int
	fn, kind, detail, grd string
}

// rspGuard: the guard of the innermost node of an ancestor stack (stack[0] = function body).
func (t *translator) rspGuard(stack []ast.Node) string {
	var g []string
	for i := 0; i+1 < len(stack); i++ {
		p, c := stack[i], stack[i+1]
		switch x := p.(type) {
		case *ast.IfStmt:
			cond := t.oneLine(x.Cond)
			if c == ast.Node(x.Body) {
				g = append(g, cond)
			} else if x.Else != nil && c == ast.Node(x.Else) {
				g = append(g, "!("+cond+")")
			}
		case *ast.ForStmt:
			if x.Init == nil || c != ast.Node(x.Init) {
				g = append(g, "for")
			}
		case *ast.RangeStmt:
			if c == ast.Node(x.Body) {
				g = append(g, "range")
			}
		case *ast.CaseClause:
			inBody := false
			for _, s := range x.Body {
				if ast.Node(s) == c {
					inBody = true
				}
			}
			if inBody {
				if len(x.List) == 0 {
					g = append(g, "default")
				} else {
					var ps []string
					for _, e := range x.List {
						ps = append(ps, t.oneLine(e))
					}
					g = append(g, "case "+strings.Join(ps, ", "))
				}
			}
		case *ast.CommClause:
			inBody := false
			for _, s := range x.Body {
				if ast.Node(s) == c {
					inBody = true
				}
			}
			if inBody {
				if x.Comm == nil {
					g = append(g, "default")
				} else {
					g = append(g, "case "+t.oneLine(x.Comm))
				}
			}
		case *ast.DeferStmt:
			g = append(g, "defer")
		case *ast.GoStmt:
			g = append(g, "go")
		case *ast.FuncLit:
			g = append(g, "func")
		}
	}
	return strings.Join(g, " && ")
}

// rspWalk calls visit(node, ancestors including node) for every node below root, in source order.
func rspWalk(root ast.Node, visit func(n ast.Node, stack []ast.Node)) {
	var stack []ast.Node
	ast.Inspect(root, func(n ast.Node) bool {
		if n == nil {
			stack = stack[:len(stack)-1]
			return false
		}
		stack = append(stack, n)
		visit(n, stack)
		return true
	})
}

func rspFuncName(fd *ast.FuncDecl) string {
	fn := fd.Name.Name
	if fd.Recv != nil && len(fd.Recv.List) == 1 {
		rt := fd.Recv.List[0].Type
		if st, ok := rt.(*ast.StarExpr); ok {
			rt = st.X
		}
		if id, ok := rt.(*ast.Ident); ok {
			fn = id.Name + "." + fn
		}
	}
	return fn
}

func (t *translator) reqStatePool(w *bytes.Buffer) (nsites, nuses, nfields int) {
	info := t.pkg.TypesInfo
	scope := t.pkg.Types.Scope()
	poolObj := scope.Lookup(rspPoolVar)
	if poolObj == nil {
		failf("rspool: package variable %s not found", rspPoolVar)
	}
	stObj := scope.Lookup(rspStruct)
	if stObj == nil {
		failf("rspool: type %s not found", rspStruct)
	}
	st, ok := stObj.Type().Underlying().(*types.Struct)
	if !ok {
		failf("rspool: %s is not a struct", rspStruct)
	}
	var fields []string
	for i := 0; i < st.NumFields(); i++ {
		fields = append(fields, st.Field(i).Name())
	}

	isPool := func(e ast.Expr) bool {
		id, ok := e.(*ast.Ident)
		return ok && info.Uses[id] == poolObj
	}
	// pool.Get() / pool.Put(x)
	poolCall := func(n ast.Node) (string, *ast.CallExpr) {
		call, ok := n.(*ast.CallExpr)
		if !ok {
			return "", nil
		}
		sel, ok := call.Fun.(*ast.SelectorExpr)
		if !ok || !isPool(sel.X) {
			return "", nil
		}
		if sel.Sel.Name == "Get" || sel.Sel.Name == "Put" {
			return sel.Sel.Name, call
		}
		return "", nil
	}
	type fnInfo struct {
		file string
		fd   *ast.FuncDecl
		name string
	}
	var fns []fnInfo
	var sites []rspRow
	for _, f := range t.pkg.Syntax {
		fname := filepath.Base(t.fset.Position(f.Pos()).Filename)
		if strings.HasSuffix(fname, "_test.go") || strings.HasPrefix(fname, "zz_verif") {
			continue
		}
		for _, d := range f.Decls {
			switch x := d.(type) {
			case *ast.FuncDecl:
				if x.Body != nil {
					fns = append(fns, fnInfo{fname, x, rspFuncName(x)})
				}
			case *ast.GenDecl:
				// the declaration of the pool: what New returns
				for _, sp := range x.Specs {
					vs, ok := sp.(*ast.ValueSpec)
					if !ok {
						continue
					}
					for i, nm := range vs.Names {
						if info.Defs[nm] != poolObj {
							// another package-level variable that mentions the pool
							if i < len(vs.Values) {
								ast.Inspect(vs.Values[i], func(n ast.Node) bool {
									if id, ok := n.(*ast.Ident); ok && info.Uses[id] == poolObj {
										sites = append(sites, rspRow{fname, int(id.Pos()), "var " + nm.Name, "Ref", t.oneLine(vs.Values[i]), ""})
									}
									return true
								})
							}
							continue
						}
						detail := "no New"
						if i < len(vs.Values) {
							detail = "New not found: " + t.oneLine(vs.Values[i])
							ast.Inspect(vs.Values[i], func(n ast.Node) bool {
								kv, ok := n.(*ast.KeyValueExpr)
								if !ok {
									return true
								}
								if k, ok := kv.Key.(*ast.Ident); ok && k.Name == "New" {
									detail = "New: " + t.oneLine(kv.Value)
									if fl, ok := kv.Value.(*ast.FuncLit); ok && len(fl.Body.List) == 1 {
										if rt, ok := fl.Body.List[0].(*ast.ReturnStmt); ok && len(rt.Results) == 1 {
											detail = "New returns " + t.oneLine(rt.Results[0])
										}
									}
								}
								return true
							})
						}
						sites = append(sites, rspRow{fname, int(nm.Pos()), "var", "Decl", detail, ""})
					}
				}
			}
		}
	}

	// pass 1: pool sites; variables bound to the result of Get; getters (functions returning such a variable)
	type holder struct {
		fn  fnInfo
		obj types.Object
	}
	var holders []holder
	getters := map[types.Object]bool{}
	for _, fi := range fns {
		var bound []types.Object
		consumed := map[*ast.Ident]bool{}
		rspWalk(fi.fd.Body, func(n ast.Node, stack []ast.Node) {
			if kind, call := poolCall(n); call != nil {
				sel := call.Fun.(*ast.SelectorExpr)
				consumed[sel.X.(*ast.Ident)] = true
				detail := ""
				if kind == "Put" {
					var as []string
					for _, a := range call.Args {
						as = append(as, t.oneLine(a))
					}
					detail = strings.Join(as, ", ")
				} else {
					detail = "<unbound>"
					// v := pool.Get()... / v = pool.Get()...
					for i := len(stack) - 2; i >= 0; i-- {
						if as, ok := stack[i].(*ast.AssignStmt); ok {
							if len(as.Lhs) == 1 && len(as.Rhs) == 1 {
								if id, ok := as.Lhs[0].(*ast.Ident); ok {
									detail = id.Name
									o := info.Defs[id]
									if o == nil {
										o = info.Uses[id]
									}
									if o != nil {
										bound = append(bound, o)
									}
								} else {
									detail = "<stored> " + t.oneLine(as.Lhs[0])
								}
							}
							break
						}
						if _, ok := stack[i].(ast.Stmt); ok {
							break
						}
					}
				}
				sites = append(sites, rspRow{fi.file, int(call.Pos()), fi.name, kind, detail, t.rspGuard(append([]ast.Node{}, stack...))})
				return
			}
			if id, ok := n.(*ast.Ident); ok && info.Uses[id] == poolObj && !consumed[id] {
				parent := ast.Node(id)
				if len(stack) >= 2 {
					parent = stack[len(stack)-2]
				}
				// the X of pool.Get / pool.Put is visited after the call: skip it
				if sel, ok := parent.(*ast.SelectorExpr); ok && sel.X == ast.Expr(id) && (sel.Sel.Name == "Get" || sel.Sel.Name == "Put") {
					if len(stack) >= 3 {
						if call, ok := stack[len(stack)-3].(*ast.CallExpr); ok && call.Fun == ast.Expr(sel) {
							return
						}
					}
				}
				sites = append(sites, rspRow{fi.file, int(id.Pos()), fi.name, "Ref", t.oneLine(parent), t.rspGuard(append([]ast.Node{}, stack...))})
			}
		})
		for _, o := range bound {
			holders = append(holders, holder{fi, o})
			// getter: returns the bound variable
			ast.Inspect(fi.fd.Body, func(n ast.Node) bool {
				if rt, ok := n.(*ast.ReturnStmt); ok {
					for _, r := range rt.Results {
						if id, ok := r.(*ast.Ident); ok && info.Uses[id] == o {
							if fo := info.Defs[fi.fd.Name]; fo != nil {
								getters[fo] = true
							}
						}
					}
				}
				return true
			})
		}
	}
	// pass 2: variables bound to the result of a getter call (one level: the getter's callers)
	calleeObj := func(call *ast.CallExpr) types.Object {
		switch f := call.Fun.(type) {
		case *ast.Ident:
			return info.Uses[f]
		case *ast.SelectorExpr:
			return info.Uses[f.Sel]
		}
		return nil
	}
	for _, fi := range fns {
		rspWalk(fi.fd.Body, func(n ast.Node, stack []ast.Node) {
			call, ok := n.(*ast.CallExpr)
			if !ok {
				return
			}
			if o := calleeObj(call); o == nil || !getters[o] {
				return
			}
			boundTo := false
			if len(stack) >= 2 {
				if as, ok := stack[len(stack)-2].(*ast.AssignStmt); ok && len(as.Lhs) == 1 && len(as.Rhs) == 1 && as.Rhs[0] == ast.Expr(call) {
					if id, ok := as.Lhs[0].(*ast.Ident); ok {
						o := info.Defs[id]
						if o == nil {
							o = info.Uses[id]
						}
						if o != nil {
							holders = append(holders, holder{fi, o})
							boundTo = true
						}
					}
				}
			}
			if !boundTo {
				// the element is used without being bound to a variable: it cannot be followed
				sites = append(sites, rspRow{fi.file, int(call.Pos()), fi.name, "Ref", "<unbound element> " + t.oneLine(stack[len(stack)-2]), t.rspGuard(append([]ast.Node{}, stack...))})
			}
		})
	}

	// pass 3: every occurrence of a holding variable
	var uses []rspRow
	seenHolder := map[types.Object]bool{}
	for _, h := range holders {
		if seenHolder[h.obj] {
			continue
		}
		seenHolder[h.obj] = true
		rspWalk(h.fn.fd.Body, func(n ast.Node, stack []ast.Node) {
			id, ok := n.(*ast.Ident)
			if !ok {
				return
			}
			if info.Defs[id] != h.obj && info.Uses[id] != h.obj {
				return
			}
			up := func(k int) ast.Node {
				if len(stack) > k {
					return stack[len(stack)-1-k]
				}
				return nil
			}
			kind, detail := "Other", ""
			parent := up(1)
			if parent != nil {
				detail = t.oneLine(parent)
			}
			inList := func(l []ast.Expr, e ast.Node) int {
				for i, x := range l {
					if ast.Node(x) == e {
						return i
					}
				}
				return -1
			}
			switch p := parent.(type) {
			case *ast.AssignStmt:
				if i := inList(p.Lhs, id); i >= 0 {
					kind = "Def"
					if len(p.Rhs) == len(p.Lhs) {
						detail = t.oneLine(p.Rhs[i])
					} else {
						detail = t.oneLine(p.Rhs[0])
					}
				}
			case *ast.StarExpr:
				if as, ok := up(2).(*ast.AssignStmt); ok && inList(as.Lhs, p) >= 0 && len(as.Rhs) == len(as.Lhs) {
					kind, detail = "Reset", t.oneLine(as.Rhs[inList(as.Lhs, p)])
					if as.Tok != token.ASSIGN {
						kind = "Other"
					}
				}
			case *ast.SelectorExpr:
				if p.X == ast.Expr(id) {
					kind, detail = "Read", t.oneLine(p)
					switch g := up(2).(type) {
					case *ast.AssignStmt:
						if i := inList(g.Lhs, p); i >= 0 && len(g.Rhs) == len(g.Lhs) {
							kind, detail = "SetField", p.Sel.Name+" "+g.Tok.String()+" "+t.oneLine(g.Rhs[i])
						}
					case *ast.IncDecStmt:
						if g.X == ast.Expr(p) {
							kind, detail = "IncField", p.Sel.Name+g.Tok.String()
						}
					case *ast.CallExpr:
						if g.Fun == ast.Expr(p) {
							var as []string
							for _, a := range g.Args {
								as = append(as, t.oneLine(a))
							}
							kind, detail = "Method", p.Sel.Name+"("+strings.Join(as, ", ")+")"
						}
					case *ast.UnaryExpr:
						if g.Op == token.AND {
							kind, detail = "Other", t.oneLine(g)
						}
					}
				}
			case *ast.ReturnStmt:
				kind, detail = "Return", id.Name
			case *ast.CallExpr:
				if inList(p.Args, id) >= 0 {
					if k, _ := poolCall(p); k == "Put" {
						kind, detail = "Put", t.oneLine(p.Fun.(*ast.SelectorExpr).X)
					} else {
						kind, detail = "Pass", t.oneLine(p)
					}
				}
			}
			uses = append(uses, rspRow{h.fn.file, int(id.Pos()), h.fn.name, kind, detail, t.rspGuard(append([]ast.Node{}, stack...))})
		})
	}

	// what the getter leaves in each field
	reset := map[string]string{}
	for _, f := range fields {
		reset[f] = "kept"
	}
	ngetters := 0
	for _, h := range holders {
		fo := info.Defs[h.fn.fd.Name]
		if fo == nil || !getters[fo] {
			continue
		}
		ngetters++
		if ngetters > 1 {
			// several getters: a field counts as reset only if the last one analysed resets it;
			// the site table pins the number of Get sites anyway
			for _, f := range fields {
				reset[f] = "kept"
			}
		}
		done := false
		rspWalk(h.fn.fd.Body, func(n ast.Node, stack []ast.Node) {
			if done {
				return
			}
			guard := t.rspGuard(append([]ast.Node{}, stack...))
			switch x := n.(type) {
			case *ast.ReturnStmt:
				for _, r := range x.Results {
					if id, ok := r.(*ast.Ident); ok && info.Uses[id] == h.obj {
						done = true
					}
				}
			case *ast.AssignStmt:
				if len(x.Lhs) != len(x.Rhs) {
					return
				}
				for i, l := range x.Lhs {
					// *v = T{...}
					if se, ok := l.(*ast.StarExpr); ok {
						if id, ok := se.X.(*ast.Ident); ok && info.Uses[id] == h.obj {
							if guard != "" || x.Tok != token.ASSIGN {
								for _, f := range fields {
									if reset[f] != "kept" {
										reset[f] = "cond:" + guard
									}
								}
								continue
							}
							cl, ok := x.Rhs[i].(*ast.CompositeLit)
							if !ok {
								for _, f := range fields {
									reset[f] = "copy:" + t.oneLine(x.Rhs[i])
								}
								continue
							}
							for _, f := range fields {
								reset[f] = "zero"
							}
							for k, e := range cl.Elts {
								if kv, ok := e.(*ast.KeyValueExpr); ok {
									if key, ok := kv.Key.(*ast.Ident); ok {
										reset[key.Name] = t.oneLine(kv.Value)
									}
								} else if k < len(fields) {
									reset[fields[k]] = t.oneLine(e)
								}
							}
						}
					}
					// v.F = e
					if sel, ok := l.(*ast.SelectorExpr); ok {
						if id, ok := sel.X.(*ast.Ident); ok && info.Uses[id] == h.obj {
							if _, isField := reset[sel.Sel.Name]; !isField {
								continue
							}
							if guard != "" || x.Tok != token.ASSIGN {
								if reset[sel.Sel.Name] != "kept" {
									reset[sel.Sel.Name] = "cond:" + guard
								}
								continue
							}
							v := t.oneLine(x.Rhs[i])
							if tv, ok := info.Types[x.Rhs[i]]; ok && tv.Value != nil && (tv.Value.String() == "0" || tv.Value.String() == "false" || tv.Value.String() == `""`) {
								v = "zero"
							}
							if tv, ok := info.Types[x.Rhs[i]]; ok && tv.IsNil() {
								v = "zero"
							}
							reset[sel.Sel.Name] = v
						}
					}
				}
			}
		})
	}

	srt := func(rows []rspRow) {
		sort.SliceStable(rows, func(i, j int) bool {
			if rows[i].file != rows[j].file {
				return rows[i].file < rows[j].file
			}
			return rows[i].pos < rows[j].pos
		})
	}
	srt(sites)
	srt(uses)
	emit := func(name string, rows []rspRow) {
		fmt.Fprintf(w, "Definition %s : list (list Z * list Z * list Z * list Z) := [\n", name)
		for i, s := range rows {
			sep := ";"
			if i == len(rows)-1 {
				sep = ""
			}
			cm := fmt.Sprintf("%s %s: %s %s [%s]", s.file, s.fn, s.kind, s.detail, s.grd)
			cm = strings.ReplaceAll(strings.ReplaceAll(cm, "*)", "* )"), "(*", "( *")
			fmt.Fprintf(w, "  (* %d: %s *)\n  (%s, %s, %s, %s)%s\n", i+1, cm, strlit(s.fn), strlit(s.kind), strlit(s.detail), strlit(s.grd), sep)
		}
		fmt.Fprintf(w, "].\n\n")
	}
	emit("rsp_sites", sites)
	emit("rsp_uses", uses)
	fmt.Fprintf(w, "(* the fields of struct %s *)\nDefinition rsp_fields : list (list Z) := [\n", rspStruct)
	for i, f := range fields {
		sep := ";"
		if i == len(fields)-1 {
			sep = ""
		}
		fmt.Fprintf(w, "  (* %s *) %s%s\n", f, strlit(f), sep)
	}
	fmt.Fprintf(w, "].\n\n(* what the getter leaves in each field on the way from Get to its return *)\nDefinition rsp_reset : list (list Z * list Z) := [\n")
	for i, f := range fields {
		sep := ";"
		if i == len(fields)-1 {
			sep = ""
		}
		cm := strings.ReplaceAll(strings.ReplaceAll(reset[f], "*)", "* )"), "(*", "( *")
		fmt.Fprintf(w, "  (* %s: %s *) (%s, %s)%s\n", f, cm, strlit(f), strlit(reset[f]), sep)
	}
	fmt.Fprintf(w, "].\n")
	return len(sites), len(uses), len(fields)
}

// reqStatePoolSafe: a failure of the extraction (the pool or the struct is gone) must break
// property C17 only: the tables are then written empty, which refutes C17_pool_sites.
func (t *translator) reqStatePoolSafe(w *bytes.Buffer, repo string) (nsites, nuses, nfields int) {
	defer func() {
		if r := recover(); r != nil {
			f, ok := r.(failure)
			if !ok {
				panic(r)
			}
			w.Reset()
			fmt.Fprintf(w, header, repo)
			fmt.Fprintf(w, "(* EXTRACTION FAILED: %s *)\n", strings.ReplaceAll(f.msg, "*)", "* )"))
			fmt.Fprintf(w, "Definition rsp_sites : list (list Z * list Z * list Z * list Z) := [].\nDefinition rsp_uses : list (list Z * list Z * list Z * list Z) := [].\nDefinition rsp_fields : list (list Z) := [].\nDefinition rsp_reset : list (list Z * list Z) := [].\n")
			fmt.Printf("go2v: REQUEST-STATE POOL EXTRACTION FAILED: %s\n", f.msg)
			nsites, nuses, nfields = 0, 0, 0
		}
	}()
	return t.reqStatePool(w)
}
