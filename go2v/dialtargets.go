package main

// C16 -- what decides whether a peer leaves the root list, and the connection attempts that overlap
// it (Gen/GenPeerDial.v).
//
// A peer leaves the root list in exactly one place: RootPeerList.onClosedConnRemoved (translated in
// goctargets.go as `rootCollect`, with Peer.canRemove as a PARAMETER), which is called from exactly
// one place, Peer.connectionCloseStateChange, after a connection was removed from the peer.  Nothing
// re-evaluates the decision later, so it must depend on nothing but the peer's connection lists and
// its reference count: a decision that also looks at, say, "somebody is dialling this peer"
// (len(p.newConnLock)), at the peer's age, at pending calls ... keeps the peer when the last
// connection goes away and nobody comes back to drop it when that other condition ends.
//   * peerCanRemove   = the body of Peer.canRemove over (inboundConnections, outboundConnections,
//                       scCount); any further conjunct / other field is an untranslatable expression
//                       or a different definition: Proofs/PeerDialGenP.v proves it EQUAL to the
//                       model's can_remove;
//   * peerCloseChange = Peer.connectionCloseStateChange: (collector called?, status callback fired?)
//                       as a function of (connection active?, found in the inbound list?, found in
//                       the outbound list?): called unconditionally after a removal, never otherwise;
//   * peerGetConnLocked / peerGetConnRelayLocked = what Peer.GetConnection / getConnectionRelay do
//                       once they hold newConnLock (everything after `defer p.unlockNewConn()`):
//                       0 = return the active connection found by the re-check, 2 = p.Connect(ctx);
//                       the lock is released on every path (the defer).
// The dial model Model/PeerDial.v (connection attempts as goroutines holding newConnLock, running
// over the bookkeeping model) takes its steps from these.

func init() {
	targetImports["GenPeerDial"] = []string{"Base.Wrap"}
	plock := map[string]string{"p.RLock()": "", "p.RUnlock()": "", "p.Lock()": "", "p.Unlock()": ""}
	dial := []Target{
		{Func: "Peer.canRemove", Out: "peerCanRemove", File: "GenPeerDial", Soft: true,
			Params: "(inboundConnections outboundConnections : list Z) (scCount : Z)", Ret: "bool",
			Hints: map[string]string{
				"len(p.inboundConnections)":  "(zlen inboundConnections)",
				"len(p.outboundConnections)": "(zlen outboundConnections)",
				"p.scCount":                  "scCount",
			},
			SHints: plock},
		{Func: "Peer.connectionCloseStateChange", Out: "peerCloseChange", File: "GenPeerDial", Soft: true,
			// collected / notified: the two flags, false when the function is entered (binders, because a
			// whole-function target has no let-prefix)
			Params: "(collected notified : bool) (active found_in found_out : bool)", Ret: "bool * bool",
			VoidRet: "(collected, notified)",
			Hints: map[string]string{
				"changed.IsActive()": "active",
				"p.removeConnection(&p.inboundConnections, changed)":  "found_in",
				"p.removeConnection(&p.outboundConnections, changed)": "found_out",
			},
			SHints: map[string]string{
				"p.Lock()": "", "p.Unlock()": "",
				"p.onClosedConnRemoved(p)": "let collected := true in",
				"p.onStatusChanged(p)":     "let notified := true in",
			}},
		{Func: "Peer.GetConnection", Out: "peerGetConnLocked", File: "GenPeerDial", Soft: true,
			Params: "(active : bool)", Ret: "Z",
			Stmt: "defer p.unlockNewConn()", After: true,
			Hints: map[string]string{
				"p.getActiveConn()": "(0, active)",
				"activeConn":        "0",
				"p.Connect(ctx)":    "2",
			}},
		{Func: "Peer.getConnectionRelay", Out: "peerGetConnRelayLocked", File: "GenPeerDial", Soft: true,
			Params: "(active : bool)", Ret: "Z",
			Stmt: "defer p.unlockNewConn()", After: true,
			Hints: map[string]string{
				"p.getActiveConn()": "(0, active)",
				"activeConn":        "0",
				"p.Connect(ctx)":    "2",
			}},
	}
	targets = append(targets, dial...)
}
