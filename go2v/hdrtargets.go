package main

// C18 -- the per-context header slot (Gen/GenHdrPath.v).
//
// A ContextWithHeaders carries ONE headersContainer {reqHeaders, respHeaders}; thrift and JSON
// clients read the request headers from it and store the response headers of every call into
// it.  Translated here, on every run:
//   * context_header.go: the slot itself (Headers, ResponseHeaders, SetResponseHeaders,
//     WrapWithHeaders, Child) as functions over (has-container?, reqHeaders, respHeaders);
//   * thrift/client.go (*client).Call, json/call.go (*Client).Call and wrapCall: the statements
//     that FOLLOW the retry loop / makeCall, i.e. what a finished call does to the slot
//     (statement targets with After).  The slot is the variable `slot`; the statement
//     `ctx.SetResponseHeaders(respHeaders)` is `let slot := respHeaders in`; every return
//     yields (slot, result code).
// Proofs/HdrSlotP.v proves each generated function equal to the corresponding piece of
// Model/HdrSlot.v, so guarding, dropping, merging or moving the store breaks a proof obligation.
// Header maps are association lists `list (list Z * list Z)` (= Model.Messages.kvs; nil and the
// empty map are []).

var hdrSlotHints = map[string]string{
	"c.headers()": "has_container",
	"h != nil":    "h",
}

func init() {
	hdr := []Target{
		{Func: "headerCtx.Headers", Out: "ctxHeaders", File: "GenHdrPath", Soft: true,
			Params: "(has_container : bool) (reqHeaders respHeaders : list (list Z * list Z))", Ret: "list (list Z * list Z)",
			Hints: merge(hdrSlotHints, map[string]string{"h.reqHeaders": "reqHeaders", "nil": "[]"})},
		{Func: "headerCtx.ResponseHeaders", Out: "ctxResponseHeaders", File: "GenHdrPath", Soft: true,
			Params: "(has_container : bool) (reqHeaders respHeaders : list (list Z * list Z))", Ret: "list (list Z * list Z)",
			Hints: merge(hdrSlotHints, map[string]string{"h.respHeaders": "respHeaders", "nil": "[]"})},
		// result: the new respHeaders of the container; None = panic (no container)
		{Func: "headerCtx.SetResponseHeaders", Out: "ctxSetResponseHeaders", File: "GenHdrPath", Soft: true, Panics: true,
			Params: "(has_container : bool) (reqHeaders respHeaders : list (list Z * list Z)) (headers : list (list Z * list Z))", Ret: "option (list (list Z * list Z))",
			AssignRet: "h.respHeaders",
			Hints:     hdrSlotHints},
		// result: the fresh container (reqHeaders, respHeaders) the returned context points to
		{Func: "WrapWithHeaders", Out: "ctxWrapWithHeaders", File: "GenHdrPath", Soft: true,
			Params: "(headers : list (list Z * list Z))", Ret: "list (list Z * list Z) * list (list Z * list Z)",
			Hints: map[string]string{
				"&headersContainer{\n\treqHeaders: headers,\n}": "(headers, @nil (list Z * list Z))",
				"context.WithValue(ctx, contextKeyHeaders, h)":  "h",
				"headerCtx{Context: newCtx}":                    "newCtx",
			}},
		// result: the container of the child context (a copy; the parent's is not touched)
		{Func: "headerCtx.Child", Out: "ctxChild", File: "GenHdrPath", Soft: true,
			Params: "(has_container : bool) (reqHeaders respHeaders : list (list Z * list Z))", Ret: "list (list Z * list Z) * list (list Z * list Z)",
			Hints: merge(hdrSlotHints, map[string]string{
				"*h": "(reqHeaders, respHeaders)",
				"Wrap(context.WithValue(c.Context, contextKeyHeaders, &headersCopy))": "headersCopy",
			}),
			SHints: map[string]string{"var headersCopy headersContainer": "let headersCopy := (@nil (list Z * list Z), @nil (list Z * list Z)) in"}},

		// thrift/client.go: after RunWithRetry.  Result: (slot, None = the call failed | Some isOK)
		{Func: "client.Call", Pkg: "thrift", Out: "thriftCallTail", File: "GenHdrPath", Soft: true,
			Params: "(slot : list (list Z * list Z)) (has_err : bool) (respHeaders : list (list Z * list Z)) (isOK : bool)", Ret: "list (list Z * list Z) * option bool",
			Stmt: "err := c.ch.RunWithRetry(", After: true,
			Hints: map[string]string{
				"err != nil": "has_err",
				"false":      "(slot, @None bool)",
				"isOK":       "(slot, Some isOK)",
				"call:len":   "zlen",
			},
			SHints: map[string]string{"ctx.SetResponseHeaders(respHeaders)": "let slot := respHeaders in"}},
		// json/call.go: after RunWithRetry.  Result code: 0 = nil, 1 = the application error, 2 = transport/system error
		{Func: "Client.Call", Pkg: "json", Out: "jsonCallTail", File: "GenHdrPath", Soft: true,
			Params: "(slot : list (list Z * list Z)) (has_err : bool) (respHeaders : list (list Z * list Z)) (isOK : bool)", Ret: "list (list Z * list Z) * Z",
			Stmt: "err := c.ch.RunWithRetry(", After: true,
			Hints: map[string]string{
				"err != nil":                         "has_err",
				"fmt.Errorf(\"%s: %v\", errAt, err)": "(slot, 2)",
				"respErr":                            "(slot, 1)",
				"nil":                                "(slot, 0)",
				"call:len":                           "zlen",
			},
			SHints: map[string]string{"ctx.SetResponseHeaders(respHeaders)": "let slot := respHeaders in"}},
		// json/call.go wrapCall (CallPeer / CallSC): after makeCall
		{Func: "wrapCall", Pkg: "json", Out: "jsonWrapCallTail", File: "GenHdrPath", Soft: true,
			Params: "(slot : list (list Z * list Z)) (has_err : bool) (respHeaders : list (list Z * list Z)) (isOK : bool)", Ret: "list (list Z * list Z) * Z",
			Stmt: "isOK, errAt, err := makeCall(", After: true,
			Hints: map[string]string{
				"err != nil":                         "has_err",
				"fmt.Errorf(\"%s: %v\", errAt, err)": "(slot, 2)",
				"respErr":                            "(slot, 1)",
				"nil":                                "(slot, 0)",
				"call:len":                           "zlen",
			},
			SHints: map[string]string{"ctx.SetResponseHeaders(respHeaders)": "let slot := respHeaders in"}},
	}
	targets = append(targets, hdr...)
}
