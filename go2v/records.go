// Extension of the decision-function translator (main.go): small record structs, pointers
// to them, and type assertions on error values.
//
//   - a struct listed in recordStructs (integer / boolean fields only) becomes a Gallina
//     Record S := mk_S { S_F : Z ... } with one setter set_S_F per field and zero_S, all
//     generated from the struct declaration;
//   - a value of type *S is `option S` (nil = None): VALUE semantics -- two holders of one
//     pointer are not connected; the generated header says so.  `p == nil`, `p.F`, `*p`,
//     `p.F = e`, `*p = e`, `&S{...}`, `&local`, `new(S)`, `S{...}` are translated.  A
//     dereference makes the enclosing statement `match p with None => None | Some d => ... end`
//     (nil dereference = panic = None; the target must be a Panics target).  A dereference in
//     the right operand of && / || is rejected (it would be evaluated conditionally).
//   - Target.LVals: non-local lvalues (e.g. the receiver field cb.RetryOptions) that are
//     state variables of the translated function: reads and assignments go to a Gallina variable;
//   - Target.Asserts: `v, ok := x.(T)` (statement or if-init) for the listed T becomes
//     `let v := as_T x in let ok := is_T x in` -- as_T gives Go's zero value of T when the
//     assertion fails, so nothing is guessed;
//   - Target.ErrNil: `e == nil` / `e != nil` on a value of an interface type;
//   - hint "method:T.M": a call x.M(args) on a receiver of named type T => (g x args);
//   - Target.KeyVal: translate only the value given to a key of the unique composite literal
//     of the function that has this key (e.g. `retryOptions: cb.RetryOptions` in Build).
package main

import (
	"bytes"
	"fmt"
	"go/ast"
	"go/token"
	"go/types"
	"sort"
	"strings"
)

// recordStructs: struct types of package tchannel rendered as Gallina records, and the
// generated file that receives each declaration.
var recordStructs = map[string]string{
	"RetryOptions": "GenRetryOpts",
}

// varRecords: package-level variables initialised by (the address of) a composite literal
// of a record struct; emitted as v_<name> : S in the file of the struct.
var varRecords = [][2]string{
	{"defaultRetryOptions", "RetryOptions"},
}

// targetImports: extra Require lines of a generated file.
var targetImports = map[string][]string{
	"GenRetryOpts": {"Base.GoErr"},
	"GenRetryErr":  {"Base.GoErr"},
}

type recField struct {
	name string
	zero string
}

func (t *translator) recordFields(name string) []recField {
	obj := t.pkg.Types.Scope().Lookup(name)
	if obj == nil {
		failf("record struct %s not found", name)
	}
	st, ok := obj.Type().Underlying().(*types.Struct)
	if !ok {
		failf("%s is not a struct", name)
	}
	var out []recField
	for i := 0; i < st.NumFields(); i++ {
		f := st.Field(i)
		switch {
		case isBool(f.Type()):
			out = append(out, recField{f.Name(), "false"})
		default:
			if _, _, ok := intWidth(f.Type()); !ok {
				failf("record struct %s: field %s has type %v (only integer and boolean fields are supported)", name, f.Name(), f.Type())
			}
			out = append(out, recField{f.Name(), "0"})
		}
	}
	return out
}

func (t *translator) fieldCoqType(name, field string) string {
	st := t.pkg.Types.Scope().Lookup(name).Type().Underlying().(*types.Struct)
	for i := 0; i < st.NumFields(); i++ {
		if st.Field(i).Name() == field {
			if isBool(st.Field(i).Type()) {
				return "bool"
			}
		}
	}
	return "Z"
}

// emitRecord writes the Record, its setters and its zero value.
func (t *translator) emitRecord(name string, w *bytes.Buffer) {
	fs := t.recordFields(name)
	obj := t.pkg.Types.Scope().Lookup(name)
	fmt.Fprintf(w, "\n(* from %s  type %s struct: every field, in declaration order.\n   A *%s is `option %s` (nil = None), value semantics. *)\n", t.pos2(obj.Pos()), name, name, name)
	fmt.Fprintf(w, "Record %s := mk_%s {", name, name)
	for i, f := range fs {
		sep := ";"
		if i == len(fs)-1 {
			sep = ""
		}
		fmt.Fprintf(w, " %s_%s : %s%s", name, f.name, t.fieldCoqType(name, f.name), sep)
	}
	fmt.Fprintf(w, " }.\n")
	for i, f := range fs {
		args := []string{}
		for j, g := range fs {
			if i == j {
				args = append(args, "v")
			} else {
				args = append(args, fmt.Sprintf("(%s_%s s)", name, g.name))
			}
		}
		fmt.Fprintf(w, "Definition set_%s_%s (s : %s) (v : %s) : %s := mk_%s %s.\n", name, f.name, name, t.fieldCoqType(name, f.name), name, name, strings.Join(args, " "))
	}
	zs := []string{}
	for _, f := range fs {
		zs = append(zs, f.zero)
	}
	fmt.Fprintf(w, "Definition zero_%s : %s := mk_%s %s.\n", name, name, name, strings.Join(zs, " "))
}

func (t *translator) pos2(p token.Pos) string {
	q := t.fset.Position(p)
	i := strings.LastIndex(q.Filename, "/")
	return fmt.Sprintf("%s:%d", q.Filename[i+1:], q.Line)
}

// emitVarRecord writes v_<name> : S from the composite literal initialising the variable.
func (t *translator) emitVarRecord(name, rec string, w *bytes.Buffer) {
	for _, f := range t.pkg.Syntax {
		for _, d := range f.Decls {
			gd, ok := d.(*ast.GenDecl)
			if !ok || gd.Tok != token.VAR {
				continue
			}
			for _, sp := range gd.Specs {
				vs := sp.(*ast.ValueSpec)
				for i, id := range vs.Names {
					if id.Name != name || i >= len(vs.Values) {
						continue
					}
					e := vs.Values[i]
					if u, ok := e.(*ast.UnaryExpr); ok && u.Op == token.AND {
						e = u.X
					}
					cl, ok := e.(*ast.CompositeLit)
					if !ok {
						failf("var %s is not initialised by a composite literal", name)
					}
					c := newFnctx(t, &Target{Func: "var " + name}, nil)
					fmt.Fprintf(w, "(* from %s  var %s *)\nDefinition v_%s : %s := %s.\n", t.pos(vs), name, name, rec, c.compositeLit(cl, rec))
					return
				}
			}
		}
	}
	failf("package variable %s not found", name)
}

// recOf: is tp a record struct (ptr = false) or a pointer to one (ptr = true)?
func (c *fnctx) recOf(tp types.Type) (name string, ptr bool, ok bool) {
	if tp == nil {
		return "", false, false
	}
	if p, isp := tp.(*types.Pointer); isp {
		tp = p.Elem()
		ptr = true
	}
	n, isn := tp.(*types.Named)
	if !isn || n.Obj().Pkg() != c.t.pkg.Types {
		return "", false, false
	}
	if _, ok := recordStructs[n.Obj().Name()]; !ok {
		return "", false, false
	}
	return n.Obj().Name(), ptr, true
}

func stripParens(e ast.Expr) ast.Expr {
	for {
		p, ok := e.(*ast.ParenExpr)
		if !ok {
			return e
		}
		e = p.X
	}
}

// lvalName: the Gallina variable standing for a Go variable-like expression.
func (c *fnctx) lvalName(e ast.Expr) (string, bool) {
	e = stripParens(e)
	if id, ok := e.(*ast.Ident); ok {
		if id.Name == "nil" || id.Name == "_" {
			return "", false
		}
		if r, ok := c.tg.Renames[id.Name]; ok {
			return r, true
		}
		return coqIdent(id.Name), true
	}
	if n, ok := c.tg.LVals[c.t.src(e)]; ok {
		return n, true
	}
	return "", false
}

func (c *fnctx) compositeLit(cl *ast.CompositeLit, rec string) string {
	fs := c.t.recordFields(rec)
	vals := map[string]string{}
	for i, el := range cl.Elts {
		if kv, ok := el.(*ast.KeyValueExpr); ok {
			k, ok := kv.Key.(*ast.Ident)
			if !ok {
				failf("%s: composite literal key %q", c.t.pos(cl), c.t.src(kv.Key))
			}
			vals[k.Name] = c.expr(kv.Value)
		} else {
			if i >= len(fs) {
				failf("%s: too many positional fields in %q", c.t.pos(cl), c.t.src(cl))
			}
			vals[fs[i].name] = c.expr(el)
		}
	}
	parts := []string{"mk_" + rec}
	for _, f := range fs {
		if v, ok := vals[f.name]; ok {
			parts = append(parts, v)
			delete(vals, f.name)
		} else {
			parts = append(parts, f.zero)
		}
	}
	if len(vals) != 0 {
		failf("%s: unknown field in composite literal %q", c.t.pos(cl), c.t.src(cl))
	}
	return "(" + strings.Join(parts, " ") + ")"
}

// derefName: the Gallina variable bound to the content of pointer expression p in the
// statement being translated.
func (c *fnctx) derefName(p ast.Expr, at ast.Node) string {
	nm, ok := c.lvalName(p)
	if !ok {
		failf("%s: dereference of %q, which is not a variable or a declared lvalue, in %s", c.t.pos(at), c.t.src(p), c.tg.Func)
	}
	d, ok := c.derefd[nm]
	if !ok {
		failf("%s: dereference of %q outside the top-level expressions of a statement in %s (outside the subset)", c.t.pos(at), c.t.src(p), c.tg.Func)
	}
	return d
}

// exprExt: the expression forms added by this file; ok = false => not one of them.
func (c *fnctx) exprExt(e ast.Expr) (string, bool) {
	if s, ok := c.override[e]; ok {
		return s, true
	}
	if n, ok := c.tg.LVals[c.t.src(e)]; ok {
		return n, true
	}
	switch x := e.(type) {
	case *ast.BinaryExpr:
		if x.Op != token.EQL && x.Op != token.NEQ {
			return "", false
		}
		var other ast.Expr
		switch {
		case isNilIdent(x.Y):
			other = x.X
		case isNilIdent(x.X):
			other = x.Y
		default:
			return "", false
		}
		tp := c.typeOf(other)
		var test string
		if _, ptr, ok := c.recOf(tp); ok && ptr {
			test = "(go_isnil " + c.expr(other) + ")"
		} else if _, isIface := tp.Underlying().(*types.Interface); isIface && c.tg.ErrNil != "" {
			test = "(" + c.tg.ErrNil + " " + c.expr(other) + ")"
		} else {
			return "", false
		}
		if x.Op == token.NEQ {
			return "(negb " + test + ")", true
		}
		return test, true
	case *ast.SelectorExpr:
		rec, ptr, ok := c.recOf(c.typeOf(x.X))
		if !ok {
			return "", false
		}
		found := false
		for _, f := range c.t.recordFields(rec) {
			if f.name == x.Sel.Name {
				found = true
			}
		}
		if !found {
			return "", false // a method value etc.: not ours
		}
		if ptr {
			return "(" + rec + "_" + x.Sel.Name + " " + c.derefName(x.X, e) + ")", true
		}
		return "(" + rec + "_" + x.Sel.Name + " " + c.expr(x.X) + ")", true
	case *ast.StarExpr:
		if _, ptr, ok := c.recOf(c.typeOf(x.X)); ok && ptr {
			return c.derefName(x.X, e), true
		}
	case *ast.UnaryExpr:
		if x.Op != token.AND {
			return "", false
		}
		inner := stripParens(x.X)
		if cl, ok := inner.(*ast.CompositeLit); ok {
			if rec, ptr, ok := c.recOf(c.typeOf(cl)); ok && !ptr {
				return "(Some " + c.compositeLit(cl, rec) + ")", true
			}
		}
		if id, ok := inner.(*ast.Ident); ok {
			if _, ptr, ok := c.recOf(c.typeOf(id)); ok && !ptr {
				// &local: the pointer holds a copy of the current content (value semantics)
				return "(Some " + c.expr(id) + ")", true
			}
		}
	case *ast.CompositeLit:
		if rec, ptr, ok := c.recOf(c.typeOf(x)); ok && !ptr {
			return c.compositeLit(x, rec), true
		}
	case *ast.CallExpr:
		if id, ok := x.Fun.(*ast.Ident); ok && id.Name == "new" && len(x.Args) == 1 {
			if tv, ok := c.t.pkg.TypesInfo.Types[x.Args[0]]; ok && tv.IsType() {
				if rec, ptr, ok := c.recOf(tv.Type); ok && !ptr {
					return "(Some zero_" + rec + ")", true
				}
			}
		}
		if sel, ok := x.Fun.(*ast.SelectorExpr); ok {
			rt := c.typeOf(sel.X)
			if p, isp := rt.(*types.Pointer); isp {
				rt = p.Elem()
			}
			if n, isn := rt.(*types.Named); isn {
				if g, ok := c.tg.Hints["method:"+n.Obj().Name()+"."+sel.Sel.Name]; ok {
					args := []string{c.expr(sel.X)}
					for _, a := range x.Args {
						args = append(args, c.expr(a))
					}
					return "(" + g + " " + strings.Join(args, " ") + ")", true
				}
			}
		}
	}
	return "", false
}

// collectDerefs lists the pointer-to-record expressions dereferenced by e (each once, in
// evaluation order).  guarded = e is evaluated only conditionally.
func (c *fnctx) collectDerefs(e ast.Expr, guarded bool, out *[]ast.Expr, seen map[string]bool) {
	if e == nil {
		return
	}
	if _, ok := c.hint(e); ok {
		return
	}
	if _, ok := c.tg.LVals[c.t.src(e)]; ok {
		return
	}
	add := func(p ast.Expr) {
		if guarded {
			failf("%s: %q is dereferenced in the right operand of && / || in %s (outside the subset)", c.t.pos(e), c.t.src(p), c.tg.Func)
		}
		nm, ok := c.lvalName(p)
		if !ok {
			failf("%s: dereference of %q, which is not a variable or a declared lvalue, in %s", c.t.pos(e), c.t.src(p), c.tg.Func)
		}
		if !seen[nm] {
			seen[nm] = true
			*out = append(*out, p)
		}
	}
	switch x := e.(type) {
	case *ast.ParenExpr:
		c.collectDerefs(x.X, guarded, out, seen)
	case *ast.UnaryExpr:
		c.collectDerefs(x.X, guarded, out, seen)
	case *ast.BinaryExpr:
		c.collectDerefs(x.X, guarded, out, seen)
		c.collectDerefs(x.Y, guarded || x.Op == token.LAND || x.Op == token.LOR, out, seen)
	case *ast.StarExpr:
		if _, ptr, ok := c.recOf(c.typeOf(x.X)); ok && ptr {
			add(x.X)
			return
		}
		c.collectDerefs(x.X, guarded, out, seen)
	case *ast.SelectorExpr:
		if rec, ptr, ok := c.recOf(c.typeOf(x.X)); ok && ptr {
			for _, f := range c.t.recordFields(rec) {
				if f.name == x.Sel.Name {
					add(x.X)
					return
				}
			}
		}
		c.collectDerefs(x.X, guarded, out, seen)
	case *ast.CallExpr:
		c.collectDerefs(x.Fun, guarded, out, seen)
		for _, a := range x.Args {
			c.collectDerefs(a, guarded, out, seen)
		}
	case *ast.CompositeLit:
		for _, el := range x.Elts {
			if kv, ok := el.(*ast.KeyValueExpr); ok {
				c.collectDerefs(kv.Value, guarded, out, seen)
			} else {
				c.collectDerefs(el, guarded, out, seen)
			}
		}
	case *ast.TypeAssertExpr:
		c.collectDerefs(x.X, guarded, out, seen)
	}
}

// shortCircuit: e (parentheses stripped) is `a && b` / `a || b`.
func shortCircuit(e ast.Expr) (*ast.BinaryExpr, bool) {
	b, ok := stripParens(e).(*ast.BinaryExpr)
	if ok && (b.Op == token.LAND || b.Op == token.LOR) {
		return b, true
	}
	return nil, false
}

// needsOpt: e is a short-circuit expression with a dereference in a conditionally evaluated operand.
func (c *fnctx) needsOpt(e ast.Expr) bool {
	b, ok := shortCircuit(e)
	if !ok {
		return false
	}
	if _, hinted := c.hint(e); hinted {
		return false
	}
	var ptrs []ast.Expr
	func() {
		defer func() {
			if r := recover(); r != nil {
				if _, isF := r.(failure); !isF {
					panic(r)
				}
				ptrs = append(ptrs, nil) // a nested guarded dereference
			}
		}()
		c.collectDerefs(b.Y, false, &ptrs, map[string]bool{})
	}()
	return len(ptrs) > 0 || c.needsOpt(b.X)
}

// exprOpt translates a boolean expression to a term of type `option bool` (None = a nil
// dereference was reached): && and || evaluate their right operand only when Go does.
func (c *fnctx) exprOpt(e ast.Expr) string {
	if b, ok := shortCircuit(e); ok {
		if _, hinted := c.hint(e); !hinted {
			l, r := c.exprOpt(b.X), c.exprOpt(b.Y)
			if b.Op == token.LAND {
				return "(match " + l + " with None => None | Some true => " + r + " | Some false => Some false end)"
			}
			return "(match " + l + " with None => None | Some true => Some true | Some false => " + r + " end)"
		}
	}
	var ptrs []ast.Expr
	c.collectDerefs(e, false, &ptrs, map[string]bool{})
	saved := c.derefd
	c.derefd = map[string]string{}
	type bind struct{ ptr, val string }
	var binds []bind
	for _, p := range ptrs {
		nm, _ := c.lvalName(p)
		c.tmp++
		d := fmt.Sprintf("d%d_", c.tmp)
		c.derefd[nm] = d
		binds = append(binds, bind{nm, d})
	}
	out := "(Some " + c.expr(e) + ")"
	c.derefd = saved
	for i := len(binds) - 1; i >= 0; i-- {
		out = "(match " + binds[i].ptr + " with None => None | Some " + binds[i].val + " => " + out + " end)"
	}
	return out
}

// withDerefs translates the given top-level expressions of statement s with their pointer
// dereferences bound, lets k build the statement's term from the translations, and wraps the
// term in one `match` per dereferenced pointer.
func (c *fnctx) withDerefs(s ast.Stmt, exprs []ast.Expr, extra []ast.Expr, k func(tr []string, extraNames []string) string) string {
	var ptrs []ast.Expr
	seen := map[string]bool{}
	for _, p := range extra { // pointers dereferenced by the statement form itself (p.F = e)
		nm, ok := c.lvalName(p)
		if !ok {
			failf("%s: store through %q, which is not a variable or a declared lvalue, in %s", c.t.pos(s), c.t.src(p), c.tg.Func)
		}
		if !seen[nm] {
			seen[nm] = true
			ptrs = append(ptrs, p)
		}
	}
	// expressions with a conditionally evaluated dereference are translated on their own to
	// an `option bool` term and bound to a temporary
	optOf := map[int]string{}
	for i, e := range exprs {
		if c.needsOpt(e) {
			optOf[i] = c.exprOpt(e)
			continue
		}
		c.collectDerefs(e, false, &ptrs, seen)
	}
	if (len(ptrs) > 0 || len(optOf) > 0) && !c.tg.Panics {
		failf("%s: %q dereferences a pointer (nil => panic) but %s is not a Panics target", c.t.pos(s), c.t.src(s), c.tg.Func)
	}
	saved := c.derefd
	c.derefd = map[string]string{}
	type bind struct{ ptr, val string }
	var binds []bind
	for _, p := range ptrs {
		nm, _ := c.lvalName(p)
		c.tmp++
		d := fmt.Sprintf("d%d_", c.tmp)
		c.derefd[nm] = d
		binds = append(binds, bind{nm, d})
	}
	tr := make([]string, len(exprs))
	type obind struct{ term, val string }
	var obinds []obind
	for i, e := range exprs {
		if t, ok := optOf[i]; ok {
			c.tmp++
			tr[i] = fmt.Sprintf("b%d_", c.tmp)
			obinds = append(obinds, obind{t, tr[i]})
			continue
		}
		tr[i] = c.expr(e)
	}
	extraNames := make([]string, len(extra))
	for i, p := range extra {
		nm, _ := c.lvalName(p)
		extraNames[i] = c.derefd[nm]
	}
	c.derefd = saved
	body := k(tr, extraNames)
	for i := len(obinds) - 1; i >= 0; i-- {
		body = "match " + obinds[i].term + " with None => None | Some " + obinds[i].val + " =>\n  " + body + "\n  end"
	}
	for i := len(binds) - 1; i >= 0; i-- {
		body = "match " + binds[i].ptr + " with None => None | Some " + binds[i].val + " =>\n  " + body + "\n  end"
	}
	return body
}

// typeAssertLets: `a, ok := x.(T)` => let-prefix; ok = false when the statement is not of this form.
func (c *fnctx) typeAssertLets(as *ast.AssignStmt) (string, bool) {
	if len(as.Lhs) != 2 || len(as.Rhs) != 1 {
		return "", false
	}
	ta, ok := stripParens(as.Rhs[0]).(*ast.TypeAssertExpr)
	if !ok || ta.Type == nil {
		return "", false
	}
	if (as.Tok != token.DEFINE && as.Tok != token.ASSIGN) || c.tg.Asserts == nil {
		return "", false
	}
	fns, ok := c.tg.Asserts[c.t.src(ta.Type)]
	if !ok {
		failf("%s: type assertion to %s in %s (no Asserts entry)", c.t.pos(as), c.t.src(ta.Type), c.tg.Func)
	}
	x := c.expr(ta.X)
	out := ""
	if nm, ok := c.lvalName(as.Lhs[0]); ok {
		if fns[1] == "" {
			failf("%s: the value of the assertion to %s is used in %s but the Asserts entry has no value function", c.t.pos(as), c.t.src(ta.Type), c.tg.Func)
		}
		out += "let " + nm + " := (" + fns[1] + " " + x + ") in\n  "
	}
	if nm, ok := c.lvalName(as.Lhs[1]); ok {
		out += "let " + nm + " := (" + fns[0] + " " + x + ") in\n  "
	}
	return out, true
}

// stmtExt: statement forms added by this file, and the nil-dereference wrapper around the
// standard forms.  ok = false => the standard translation applies unchanged.
func (c *fnctx) stmtExt(list []ast.Stmt, rest string) (string, bool) {
	s := list[0]
	tail := func() string { return c.stmts(list[1:], rest) }
	std := func() string {
		c.noExt[s] = true
		return c.stmts(list, rest)
	}
	if c.noExt[s] {
		return "", false
	}
	switch x := s.(type) {
	case *ast.AssignStmt:
		if pre, ok := c.typeAssertLets(x); ok {
			return pre + tail(), true
		}
		if len(x.Lhs) != 1 || len(x.Rhs) != 1 {
			return "", false
		}
		if c.tg.AssignRet != "" && c.t.src(x.Lhs[0]) == c.tg.AssignRet && x.Tok == token.ASSIGN {
			return "", false
		}
		lhs := stripParens(x.Lhs[0])
		if x.Tok == token.ASSIGN {
			// p.F = e / v.F = e
			if sel, ok := lhs.(*ast.SelectorExpr); ok {
				if _, isL := c.tg.LVals[c.t.src(lhs)]; !isL {
					if rec, ptr, ok := c.recOf(c.typeOf(sel.X)); ok {
						setter := "set_" + rec + "_" + sel.Sel.Name
						if ptr {
							nm, _ := c.lvalName(sel.X)
							return c.withDerefs(s, []ast.Expr{x.Rhs[0]}, []ast.Expr{sel.X}, func(tr, dn []string) string {
								return "let " + nm + " := Some (" + setter + " " + dn[0] + " " + tr[0] + ") in\n  " + tail()
							}), true
						}
						nm, ok := c.lvalName(sel.X)
						if !ok {
							failf("%s: field store into %q in %s", c.t.pos(s), c.t.src(sel.X), c.tg.Func)
						}
						return c.withDerefs(s, []ast.Expr{x.Rhs[0]}, nil, func(tr, _ []string) string {
							return "let " + nm + " := (" + setter + " " + nm + " " + tr[0] + ") in\n  " + tail()
						}), true
					}
				}
			}
			// *p = e
			if st, ok := lhs.(*ast.StarExpr); ok {
				if _, ptr, ok := c.recOf(c.typeOf(st.X)); ok && ptr {
					nm, _ := c.lvalName(st.X)
					return c.withDerefs(s, []ast.Expr{x.Rhs[0]}, []ast.Expr{st.X}, func(tr, _ []string) string {
						return "let " + nm + " := Some " + tr[0] + " in\n  " + tail()
					}), true
				}
			}
		}
		// L = e for a declared lvalue, or a local with a dereferencing right-hand side
		if nm, ok := c.lvalName(lhs); ok && (x.Tok == token.ASSIGN || x.Tok == token.DEFINE) {
			_, isL := c.tg.LVals[c.t.src(lhs)]
			var ptrs []ast.Expr
			opt := c.needsOpt(x.Rhs[0])
			if !opt {
				c.collectDerefs(x.Rhs[0], false, &ptrs, map[string]bool{})
			}
			if isL || opt || len(ptrs) > 0 {
				return c.withDerefs(s, []ast.Expr{x.Rhs[0]}, nil, func(tr, _ []string) string {
					return "let " + nm + " := " + tr[0] + " in\n  " + tail()
				}), true
			}
		}
		return "", false
	case *ast.ReturnStmt:
		var ptrs []ast.Expr
		opt := false
		for _, r := range x.Results {
			if c.needsOpt(r) {
				opt = true
				continue
			}
			c.collectDerefs(r, false, &ptrs, map[string]bool{})
		}
		if len(ptrs) == 0 && !opt {
			return "", false
		}
		return c.withDerefs(s, x.Results, nil, func(tr, _ []string) string {
			for i, r := range x.Results {
				c.override[r] = tr[i]
			}
			return std()
		}), true
	case *ast.IfStmt:
		if x.Init != nil {
			as, ok := x.Init.(*ast.AssignStmt)
			if !ok {
				return "", false
			}
			if pre, ok := c.typeAssertLets(as); ok {
				for _, l := range as.Lhs {
					if id, ok := l.(*ast.Ident); ok && id.Name != "_" {
						c.checkNoCapture(id, list[1:])
					}
				}
				return pre + c.stmts(append([]ast.Stmt{&ast.IfStmt{If: x.If, Cond: x.Cond, Body: x.Body, Else: x.Else}}, list[1:]...), rest), true
			}
			return "", false
		}
		// `if c { L = e }` for a declared lvalue: a conditional let (as main.go does for locals)
		if x.Else == nil && len(x.Body.List) == 1 {
			if as, ok := x.Body.List[0].(*ast.AssignStmt); ok && as.Tok == token.ASSIGN && len(as.Lhs) == 1 && len(as.Rhs) == 1 {
				if nm, isL := c.tg.LVals[c.t.src(stripParens(as.Lhs[0]))]; isL {
					var ptrs []ast.Expr
					c.collectDerefs(as.Rhs[0], true, &ptrs, map[string]bool{}) // fails on a dereference
					return c.withDerefs(s, []ast.Expr{x.Cond}, nil, func(tr, _ []string) string {
						return "let " + nm + " := if " + tr[0] + " then " + c.expr(as.Rhs[0]) + " else " + nm + " in\n  " + tail()
					}), true
				}
			}
		}
		if !c.needsOpt(x.Cond) {
			var ptrs []ast.Expr
			c.collectDerefs(x.Cond, false, &ptrs, map[string]bool{})
			if len(ptrs) == 0 {
				return "", false
			}
		}
		return c.withDerefs(s, []ast.Expr{x.Cond}, nil, func(tr, _ []string) string {
			c.override[x.Cond] = tr[0]
			return std()
		}), true
	case *ast.SwitchStmt:
		if x.Init != nil || x.Tag == nil {
			return "", false
		}
		var ptrs []ast.Expr
		c.collectDerefs(x.Tag, false, &ptrs, map[string]bool{})
		if len(ptrs) == 0 {
			return "", false
		}
		return c.withDerefs(s, []ast.Expr{x.Tag}, nil, func(tr, _ []string) string {
			c.override[x.Tag] = tr[0]
			return std()
		}), true
	}
	return "", false
}

// keyValExpr finds the value given to key `key` in the unique composite literal of fd that has it.
func (t *translator) keyValExpr(fd *ast.FuncDecl, key, name string) *ast.KeyValueExpr {
	var found []*ast.KeyValueExpr
	ast.Inspect(fd.Body, func(n ast.Node) bool {
		if kv, ok := n.(*ast.KeyValueExpr); ok {
			if id, ok := kv.Key.(*ast.Ident); ok && id.Name == key {
				found = append(found, kv)
			}
		}
		return true
	})
	if len(found) != 1 {
		failf("%s: %d composite-literal entries of %s have key %q (exactly one expected)", t.pos(fd), len(found), name, key)
	}
	return found[0]
}

func sortedKeys(m map[string]string) []string {
	ks := []string{}
	for k := range m {
		ks = append(ks, k)
	}
	sort.Strings(ks)
	return ks
}
