package main

// C11 ("after any history a channel returns to a clean quiescent state") -- EXIT targets.
//
// The drain theorems of C11 (Proofs/MexDrainP.v, Proofs/RelayDrainP.v) have hypotheses of the
// form "every exchange object has finished shutting down" / "no handler still holds an id whose
// timer it stopped".  Whether the CODE meets them is a property of the exits of the functions
// that own such an obligation.  Two families are regenerated here on every run and proved equal
// to the decision functions of the thread models (Model/CallDrain.v, Model/RelayHold.v), whose
// theorems quantify over all histories:
//
// Gen/GenWriterExit.v -- reqres.go, the request/response WRITER.  Result of each function: a
// bit set   1 = a non-nil error is returned to the caller,   4 = mex.shutdown() was called,
// 8 = w.err was set,   16 = the frame was handed to the connection's send queue.
//
//	writerFailed         reqResWriter.failed: shuts the exchange down unless the writer failed before
//	writerArgWriter      reqResWriter.argWriter (arg1Writer/arg2Writer/arg3Writer)
//	writerNewFragment    reqResWriter.newFragment
//	writerFlushFragment  reqResWriter.flushFragment, its `select` included: which clause runs is an
//	                     input (arm 0 = the call's context is done, 1 = the exchange's error latch,
//	                     2 = the frame was queued); every comm clause must be listed below
//
// Every `return` of these functions is translated: a returned expression that is none of the
// listed ones (w.err, w.failed(..), nil, the error of message.write / wbuf.Err) has no
// translation, the definition is left out and Proofs/CallDrainGenP.v no longer compiles.
//
// Gen/GenRelayExit.v -- relay.go, the two frame paths that look a relay item up and may STOP its
// timer.  The whole rest of the function after the lookup is translated; result
// [1: first result value true] + 2 [frame forwarded/queued] + 4 [failRelayItem] + 8 [finishRelayItem].
//
//	relayNonCallExit     Relayer.handleNonCallReq after `items.Get(f.Header.ID, finished)`
//	relayReceiveExit     Relayer.Receive after `items.Get(id, finished)`, its select included
//
// KeepRets: a statement replaced by a stmt-hint (logging, statistics) may not contain a return.

import (
	"go/ast"
	"go/types"
)

// selectStmt translates a `select` statement of a target with SelArms: the comm clauses in
// source order as an if-chain over their hinted conditions, ending in the default clause or
// in SelElse.  Receive clauses that bind a value (`v := <-ch`) are not supported.
func (c *fnctx) selectStmt(x *ast.SelectStmt, list []ast.Stmt, rest string) string {
	needRest := false
	hasDefault := false
	for _, cl := range x.Body.List {
		cc := cl.(*ast.CommClause)
		if cc.Comm == nil {
			hasDefault = true
		}
		if !terminates(cc.Body) {
			needRest = true
		}
	}
	restTerm := ""
	if needRest {
		restTerm = c.stmts(list[1:], rest)
	}
	type arm struct{ cond, body string }
	var arms []arm
	deflt := c.tg.SelElse
	for _, cl := range x.Body.List {
		cc := cl.(*ast.CommClause)
		if cc.Comm == nil {
			deflt = c.stmts(caseBody(cc.Body), restTerm)
			continue
		}
		if as, ok := cc.Comm.(*ast.AssignStmt); ok && len(as.Lhs) > 0 {
			failf("%s: select clause %q binds a received value: not supported", c.t.pos(cc), c.t.src(cc.Comm))
		}
		cond, ok := c.tg.SelArms[c.t.src(cc.Comm)]
		if !ok {
			failf("%s: select clause %q of %s has no SelArms entry", c.t.pos(cc), c.t.src(cc.Comm), c.tg.Func)
		}
		arms = append(arms, arm{cond, c.stmts(caseBody(cc.Body), restTerm)})
	}
	if !hasDefault && deflt == "" {
		failf("%s: select without default in %s needs SelElse", c.t.pos(x), c.tg.Func)
	}
	out := deflt
	for i := len(arms) - 1; i >= 0; i-- {
		out = "if " + arms[i].cond + " then " + arms[i].body + "\n  else " + out
	}
	return out
}

// checkNoReturnInside fails when a statement that an SHint replaces contains a return.
func (c *fnctx) checkNoReturnInside(s ast.Stmt) {
	ast.Inspect(s, func(n ast.Node) bool {
		switch n.(type) {
		case *ast.FuncLit:
			return false
		case *ast.ReturnStmt:
			failf("%s: the statement %q of %s is replaced by a stmt-hint but contains a return", c.t.pos(n), firstLine(c.t.src(s)), c.tg.Func)
		}
		return true
	})
}

// checkNoCaptureSel: checkNoCapture (a same-named variable declared inside the tail re-binds the
// name before its uses) that also ignores struct FIELDS of the same name (`x.err`): a selector is
// never translated as a variable.
func (c *fnctx) checkNoCaptureSel(def *ast.Ident, tail []ast.Stmt) {
	if len(tail) == 0 {
		return
	}
	obj := c.t.pkg.TypesInfo.Defs[def]
	start, end := tail[0].Pos(), tail[len(tail)-1].End()
	for _, s := range tail {
		ast.Inspect(s, func(n ast.Node) bool {
			if id, ok := n.(*ast.Ident); ok && id.Name == def.Name {
				o := c.t.pkg.TypesInfo.Uses[id]
				if v, isVar := o.(*types.Var); isVar && v.IsField() {
					return true
				}
				if o != nil && o != obj && !(o.Pos() >= start && o.Pos() < end) {
					failf("%s: %q introduced by an if init would capture a different variable at %s", c.t.pos(def), def.Name, c.t.pos(id))
				}
			}
			return true
		})
	}
}

func init() {
	const isNil = "Z.eqb 0"
	werr := "(if werr then 1 else 0)"
	failedHints := map[string]string{
		"w.err":         werr,
		"w.failed(err)": "(writerFailed werr)",
		"w.failed(GetContextError(w.mex.ctx.Err()))":                                     "(writerFailed werr)",
		"w.failed(w.mex.errCh.err)":                                                      "(writerFailed werr)",
		"w.failed(errReqResWriterStateMismatch{state: w.state, expectedState: inState})": "(writerFailed werr)",
		"nil": "0",
	}
	targets = append(targets, []Target{
		{Func: "reqResWriter.failed", Out: "writerFailed", File: "GenWriterExit", Soft: true, KeepRets: true,
			Params: "(werr : bool)", Ret: "Z", ErrNil: isNil,
			Stmt: "w.log.Debugf(", After: true,
			Pre:    "let shut := 0 in let seterr := 0 in",
			RetFmt: "(%s + shut + seterr)",
			Hints:  map[string]string{"w.err": werr},
			SHints: map[string]string{
				"w.mex.shutdown()": "let shut := 4 in",
				// the error now stored is the non-nil error handed to failed()
				"w.err = err": "let seterr := 8 in let werr := true in",
			}},
		{Func: "reqResWriter.argWriter", Out: "writerArgWriter", File: "GenWriterExit", Soft: true, KeepRets: true, RetIdx: 1,
			Params: "(werr : bool) (state_ok : bool) (begin_err : bool)", Ret: "Z", ErrNil: isNil,
			Hints: merge(failedHints, map[string]string{"w.state != inState": "(negb state_ok)"}),
			SHints: map[string]string{
				"argWriter, err := w.contents.ArgWriter(last)": "let err := (if begin_err then 1 else 0) in",
				"w.state = outState":                           "",
			}},
		{Func: "reqResWriter.newFragment", Out: "writerNewFragment", File: "GenWriterExit", Soft: true, KeepRets: true, RetIdx: 1,
			Params: "(werr : bool) (check_err : bool) (msg_err : bool) (buf_err : bool)", Ret: "Z", ErrNil: isNil,
			Hints: merge(failedHints, map[string]string{
				"w.mex.checkError()":  "(if check_err then 1 else 0)",
				"message.write(wbuf)": "(if msg_err then 1 else 0)",
				"wbuf.Err()":          "(if buf_err then 1 else 0)",
			}),
			SHints: map[string]string{
				"message := w.messageForFragment(initial)":                "",
				"frame := w.conn.opts.FramePool.Get()":                    "",
				"frame.Header.ID = w.mex.msgID":                           "",
				"frame.Header.reserved1 = 0":                              "",
				"frame.Header.messageType = message.messageType()":        "",
				"wbuf := typed.NewWriteBuffer(frame.Payload[:])":          "",
				"fragment := new(writableFragment)":                       "",
				"fragment.frame = frame":                                  "",
				"fragment.flagsRef = wbuf.DeferByte()":                    "",
				"wbuf.WriteSingleByte(byte(checksum.TypeCode()))":         "",
				"fragment.checksumRef = wbuf.DeferBytes(checksum.Size())": "",
				"fragment.checksum = checksum":                            "",
				"fragment.contents = wbuf":                                "",
			}},
		{Func: "reqResWriter.flushFragment", Out: "writerFlushFragment", File: "GenWriterExit", Soft: true, KeepRets: true,
			Params: "(werr : bool) (check_err : bool) (arm : Z)", Ret: "Z", ErrNil: isNil,
			Hints: merge(failedHints, map[string]string{
				"w.mex.checkError()": "(if check_err then 1 else 0)",
				"nil":                "16", // the only `return nil` follows the send
			}),
			SelArms: map[string]string{
				"<-w.mex.ctx.Done()":     "(arm =? 0)",
				"<-w.mex.errCh.c":        "(arm =? 1)",
				"w.conn.sendCh <- frame": "(arm =? 2)",
			},
			SelElse: "99",
			SHints: map[string]string{
				"frame := fragment.frame":         "",
				"frame.Header.SetPayloadSize(...": "",
				"w.mex.onCtxErr(w.mex.ctx.Err())": "",
				"verifPoint(...":                  "",
			}},
	}...)

	relayS := map[string]string{
		"verifPoint(...":              "",
		"r.logger.WithFields(...":     "",
		"items.logger.WithFields(...": "",
	}
	targets = append(targets, []Target{
		{Func: "Relayer.handleNonCallReq", Out: "relayNonCallExit", File: "GenRelayExit", Soft: true, KeepRets: true, RetIdx: 0,
			Params: "(ok : bool) (item_tomb : bool) (finished : bool) (stopped : bool) (mt : Z) (parse_ok : bool) (mutated : bool) (dest_sent : bool)", Ret: "Z",
			ErrNil: isNil,
			Stmt:   "item, stopped, ok := items.Get(f.Header.ID, finished", After: true,
			Pre:    "let fwd := 0 in let failed := 0 in let fin := 0 in",
			RetFmt: "(%s + fwd + failed + fin)",
			Hints: map[string]string{
				"item.tomb":                   "item_tomb",
				"_relayShouldRelease":         "1",
				"_relayNoRelease":             "0",
				"f.messageType()":             "mt",
				"item.mutatedChecksum != nil": "mutated",
			},
			SHints: merge(relayS, map[string]string{
				"cr, err := newLazyCallRes(f)":                                    "let err := (if parse_ok then 0 else 1) in",
				"item.call.CallResponse(cr)":                                      "",
				"r.updateMutatedCallReqContinueChecksum(f, item.mutatedChecksum)": "",
				"item.reportRelayBytes(frameType, f.Header.FrameSize())":          "",
				"originalID := f.Header.ID":                                       "",
				"f.Header.ID = item.remapID":                                      "",
				"sent, failure := item.destination.Receive(f, frameType)":         "let fwd := 2 in let sent := dest_sent in",
				"r.failRelayItem(items, originalID, failure, errFrameNotSent)":    "let failed := 4 in",
				"r.finishRelayItem(items, originalID, item)":                      "let fin := 8 in",
			})},
		{Func: "Relayer.Receive", Out: "relayReceiveExit", File: "GenRelayExit", Soft: true, KeepRets: true, RetIdx: 0,
			Params: "(ok : bool) (item_tomb : bool) (finished : bool) (stopped : bool) (is_resp : bool) (is_cancel : bool) (dcs_ok : bool) (dcs_msg : bool) (queue_ok : bool)", Ret: "Z",
			Stmt: "item, stopped, ok := items.Get(id, finished", After: true,
			Pre:    "let fwd := 0 in let failed := 0 in let fin := 0 in",
			RetFmt: "(%s + fwd + failed + fin)",
			Hints: map[string]string{
				"item.tomb":                            "item_tomb",
				"true":                                 "1",
				"false":                                "0",
				"fType == responseFrame":               "is_resp",
				"f.messageType() == messageTypeCancel": "is_cancel",
				"determinesCallSuccess(f)":             "(dcs_ok, dcs_msg)",
				"len(failMsg) > 0":                     "failMsg",
			},
			SelArms: map[string]string{"r.conn.sendCh <- f": "queue_ok"},
			SHints: merge(relayS, map[string]string{
				"item.call.Succeeded()":                                     "",
				"item.call.Failed(failMsg)":                                 "",
				"verifPoint(\"relay.Receive.sent\", id)":                    "let fwd := 2 in",
				"sendBuf, sendBufLimit, sendBufErr := r.conn.sendBufSize()": "",
				"now := r.conn.timeNow().UnixNano()":                        "",
				"logFields := []LogField{...":                               "",
				"if sendBufErr != nil {...":                                 "",
				"items := r.receiverItems(fType)":                           "",
				"err := _relayErrorDestConnSlow":                            "",
				"if fType == responseFrame {...":                            "",
				"r.failRelayItem(items, id, err, errFrameNotSent)":          "let failed := 4 in",
				"r.finishRelayItem(items, id, item)":                        "let fin := 8 in",
			})},
	}...)
}
