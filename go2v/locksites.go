package main

// locksites.go (C04, clause "concurrent API use is race-free"): the LOCK-DISCIPLINE TABLE of the
// mutex-protected state of the concurrency core, regenerated on every run as
// Gen/GenLockSites.lock_sites.
//
// For every field of lkFields (a field that the source documents as protected by a mutex of
// the same struct) the table has one row per syntactic read / write site of that field in the
// non-test source of package tchannel:
//     (field, enclosing function, access kind, lock mode held in the function at the site,
//      [(caller, lock mode held at the call)] , documented-as-"call with the lock held")
// The lock mode is computed syntactically (a lock-set analysis in the style of Eraser, per
// function, in statement order):
//   * `B.Lock()` / `B.RLock()` on a sync.Mutex / sync.RWMutex adds B (write / read mode),
//     `B.Unlock()` / `B.RUnlock()` removes it, `defer B.Unlock()` keeps it to the end of the function;
//   * after an if / switch / select / loop the lock set is the intersection of the lock sets at
//     the end of the branches that fall through (branches ending in return / break / continue /
//     goto / panic do not count);
//   * a function literal starts with the EMPTY lock set (it may run later, on another goroutine),
//     unless it is passed directly to a lock wrapper: a method that calls its func-typed parameter
//     while holding a lock of its receiver (Connection.withStateLock / withStateRLock; detected
//     from the source, not listed);
//   * the lock that counts for the access `B.f` is the lock reached through the same base
//     expression B (`B.Lock()` for an embedded mutex, `B.mu.Lock()` for a named one), after
//     replacing local aliases `x := &a.b` / `x := a.b` (assigned once) by their definition;
//   * when the function holds no lock at the site and B starts at the method's receiver, the
//     table lists every call site of the method in the package with the mode of the
//     corresponding lock held there (one level up: "must be called with the lock held").
// Access kind: Write = assignment / op-assignment / ++ / -- to the field, to an element of it or
// to a member of a struct-valued field, delete(f, k), &f; for fields marked PtrObj (a pointer to
// an object that is mutated through its methods: PeerList.peerHeap) also a method call other
// than the listed read-only methods and passing the pointer to another function.  Everything
// else is a Read (including len, range, map lookup, append's argument).
// Line numbers are not part of a row.  Composite-literal initialisation (`&T{f: v}`) is not a
// site: the object is not yet published.

import (
	"bytes"
	"fmt"
	"go/ast"
	"go/token"
	"go/types"
	"path/filepath"
	"regexp"
	"sort"
	"strings"
)

type lkField struct {
	Struct string   // named struct type
	Path   string   // "" or the anonymous-struct member of Struct that holds field and lock (Channel.mutable)
	Field  string   // the protected field
	Lock   string   // mutex member next to the field; "" = the struct embeds sync.Mutex / sync.RWMutex
	PtrObj bool     // pointer to an object mutated through its methods
	RO     []string // read-only methods of that object
}

func (f lkField) name() string {
	if f.Path != "" {
		return f.Struct + "." + f.Path + "." + f.Field
	}
	return f.Struct + "." + f.Field
}

var lkFields = []lkField{
	{Struct: "messageExchangeSet", Field: "exchanges"},
	{Struct: "messageExchangeSet", Field: "expiredExchanges"},
	{Struct: "messageExchangeSet", Field: "shutdown"},
	{Struct: "Connection", Field: "state", Lock: "stateMut"},
	{Struct: "relayItems", Field: "items"},
	{Struct: "relayItems", Field: "tombs"},
	{Struct: "PeerList", Field: "peersByHostPort"},
	{Struct: "PeerList", Field: "peerHeap", PtrObj: true, RO: []string{"Len"}},
	{Struct: "PeerList", Field: "scoreCalculator"},
	{Struct: "RootPeerList", Field: "peersByHostPort"},
	{Struct: "Peer", Field: "inboundConnections"},
	{Struct: "Peer", Field: "outboundConnections"},
	{Struct: "Channel", Path: "mutable", Field: "state"},
	{Struct: "Channel", Path: "mutable", Field: "peerInfo"},
	{Struct: "Channel", Path: "mutable", Field: "l"},
	{Struct: "Channel", Path: "mutable", Field: "idleSweep"},
	{Struct: "Channel", Path: "mutable", Field: "conns"},
	{Struct: "subChannelMap", Field: "subchannels"},
}

const (
	lkNone  = 0
	lkRead  = 1
	lkWrite = 2
)

type lkState map[string]int

func (s lkState) copy() lkState {
	c := lkState{}
	for k, v := range s {
		c[k] = v
	}
	return c
}

func lkMeet(a, b lkState) lkState {
	c := lkState{}
	for k, v := range a {
		if w, ok := b[k]; ok {
			if w < v {
				v = w
			}
			if v > 0 {
				c[k] = v
			}
		}
	}
	return c
}

type lkSite struct {
	file    string
	pos     token.Pos
	field   string
	fn      string
	write   bool
	held    int
	callers []lkCaller
	doc     bool
	// for the caller resolution
	fnObj *types.Func
	rel   string // lock key relative to the receiver ("" when not resolvable through callers)
	inLit bool
}

type lkCaller struct {
	fn   string
	mode int
}

type lkCall struct {
	callee    *types.Func
	caller    string
	callerObj *types.Func
	callerRcv string
	inLit     bool
	viaGo     bool
	base      string
	held      lkState
	file      string
	pos       token.Pos
}

// an accessor returns the address of protected fields of its receiver (Peer.connectionsFor):
// a local `x := B.accessor(..)` makes `*x` an access to those fields of B.
type lkPtrAlias struct {
	fields []*lkField
	base   string
}

type lkWrapper struct {
	param int
	locks []lkCaller // fn = key suffix relative to the receiver, mode
}

type lkWalker struct {
	t        *translator
	info     *types.Info
	fields   map[*types.Var]*lkField
	wrappers map[*types.Func]lkWrapper
	// per function
	file      string
	fn        string
	fnObj     *types.Func
	recv      string
	doc       bool
	alias     map[types.Object]ast.Expr
	goCall    bool
	ptrs      map[types.Object]lkPtrAlias
	accessors map[*types.Func][]*lkField
	sites     *[]lkSite
	calls     *[]lkCall
	onParam   func(obj types.Object, held lkState) // wrapper detection: a call of a func-typed parameter
}

var lkDocRe = regexp.MustCompile(`(?i)(must be called with|called with the|with the (mexset |write |read )?lock|lock must be held|caller must (hold|lock)|lock(ed)? held|read lock must be held|write lock must be held|should be called with)`)

func isSyncLockMethod(info *types.Info, sel *ast.SelectorExpr) (name string, ok bool) {
	switch sel.Sel.Name {
	case "Lock", "RLock", "Unlock", "RUnlock":
	default:
		return "", false
	}
	fn, isFn := info.Uses[sel.Sel].(*types.Func)
	if !isFn || fn.Pkg() == nil || fn.Pkg().Path() != "sync" {
		return "", false
	}
	return sel.Sel.Name, true
}

func (w *lkWalker) canon(e ast.Expr) string {
	switch x := e.(type) {
	case *ast.Ident:
		if obj := w.info.Uses[x]; obj != nil {
			if a, ok := w.alias[obj]; ok {
				return w.canon(a)
			}
		}
		return x.Name
	case *ast.SelectorExpr:
		return w.canon(x.X) + "." + x.Sel.Name
	case *ast.ParenExpr:
		return w.canon(x.X)
	case *ast.StarExpr:
		return w.canon(x.X)
	case *ast.UnaryExpr:
		if x.Op == token.AND {
			return w.canon(x.X)
		}
	}
	return w.t.oneLine(e)
}

func (w *lkWalker) protected(e ast.Expr) (*ast.SelectorExpr, *lkField) {
	for {
		if p, ok := e.(*ast.ParenExpr); ok {
			e = p.X
			continue
		}
		break
	}
	sel, ok := e.(*ast.SelectorExpr)
	if !ok {
		return nil, nil
	}
	s := w.info.Selections[sel]
	if s == nil || s.Kind() != types.FieldVal {
		return nil, nil
	}
	v, ok := s.Obj().(*types.Var)
	if !ok {
		return nil, nil
	}
	if f := w.fields[v]; f != nil {
		return sel, f
	}
	return nil, nil
}

func (w *lkWalker) access(sel *ast.SelectorExpr, f *lkField, write bool, held lkState, lit bool) {
	w.accessAt(w.canon(sel.X), sel.Pos(), f, write, held, lit)
}

// deref: `*x` with x a local pointer obtained from an accessor.
func (w *lkWalker) deref(e ast.Expr, write bool, held lkState, lit bool) bool {
	id, ok := e.(*ast.Ident)
	if !ok {
		return false
	}
	pa, ok := w.ptrs[w.info.Uses[id]]
	if !ok {
		return false
	}
	for _, f := range pa.fields {
		w.accessAt(pa.base, e.Pos(), f, write, held, lit)
	}
	return true
}

func (w *lkWalker) accessAt(base string, pos token.Pos, f *lkField, write bool, held lkState, lit bool) {
	key := base
	if f.Lock != "" {
		key = base + "." + f.Lock
	}
	s := lkSite{file: w.file, pos: pos, field: f.name(), fn: w.fn, write: write, held: held[key], doc: w.doc, fnObj: w.fnObj, inLit: lit}
	if lit {
		s.fn += "$lit"
	}
	if !lit && w.recv != "" && (base == w.recv || strings.HasPrefix(base, w.recv+".")) {
		s.rel = "@" + key[len(w.recv):]
	}
	*w.sites = append(*w.sites, s)
}

// lhs: e is assigned to (or its address taken): find the protected field that is modified.
func (w *lkWalker) lhs(e ast.Expr, held lkState, lit bool) {
	switch x := e.(type) {
	case *ast.ParenExpr:
		w.lhs(x.X, held, lit)
		return
	case *ast.IndexExpr:
		w.expr(x.Index, held, lit)
		if sel, f := w.protected(x.X); f != nil {
			w.expr(sel.X, held, lit)
			w.access(sel, f, true, held, lit)
			return
		}
		// element of an array-valued member: still the same object; of a slice/map/pointer: a read of x.X
		if tv, ok := w.info.Types[x.X]; ok {
			if _, isArr := tv.Type.Underlying().(*types.Array); isArr {
				w.lhs(x.X, held, lit)
				return
			}
		}
		w.expr(x.X, held, lit)
		return
	case *ast.StarExpr:
		if w.deref(x.X, true, held, lit) {
			return
		}
		w.expr(x.X, held, lit)
		return
	case *ast.SelectorExpr:
		if sel, f := w.protected(x); f != nil {
			w.expr(sel.X, held, lit)
			w.access(sel, f, true, held, lit)
			return
		}
		// member of a struct VALUE: the enclosing value is modified; through a pointer: a read of x.X
		if tv, ok := w.info.Types[x.X]; ok {
			if _, isStruct := tv.Type.Underlying().(*types.Struct); isStruct {
				w.lhs(x.X, held, lit)
				return
			}
		}
		w.expr(x.X, held, lit)
		return
	}
	w.expr(e, held, lit)
}

func (w *lkWalker) funcLit(fl *ast.FuncLit, init lkState) {
	w.stmts(fl.Body.List, init, true)
}

func (w *lkWalker) call(x *ast.CallExpr, held lkState, lit bool) {
	// builtins
	if id, ok := x.Fun.(*ast.Ident); ok {
		if _, isBuiltin := w.info.Uses[id].(*types.Builtin); isBuiltin && id.Name == "delete" && len(x.Args) == 2 {
			w.lhs(x.Args[0], held, lit)
			w.expr(x.Args[1], held, lit)
			return
		}
		if obj := w.info.Uses[id]; obj != nil && w.onParam != nil {
			w.onParam(obj, held)
		}
	}
	var callee *types.Func
	base := ""
	switch fn := x.Fun.(type) {
	case *ast.Ident:
		callee, _ = w.info.Uses[fn].(*types.Func)
	case *ast.SelectorExpr:
		callee, _ = w.info.Uses[fn.Sel].(*types.Func)
		if s := w.info.Selections[fn]; s != nil && s.Kind() == types.MethodVal {
			base = w.canon(fn.X)
		}
	}
	if callee != nil && callee.Pkg() == w.t.pkg.Types && w.calls != nil {
		caller := w.fn
		if lit {
			caller += "$lit"
		}
		*w.calls = append(*w.calls, lkCall{callee: callee, caller: caller, callerObj: w.fnObj, callerRcv: w.recv, inLit: lit, viaGo: w.goCall, base: base, held: held.copy(), file: w.file, pos: x.Pos()})
	}
	// receiver / function expression
	if fsel, ok := x.Fun.(*ast.SelectorExpr); ok {
		if sel, f := w.protected(fsel.X); f != nil && f.PtrObj {
			ro := false
			for _, m := range f.RO {
				if m == fsel.Sel.Name {
					ro = true
				}
			}
			w.expr(sel.X, held, lit)
			w.access(sel, f, !ro, held, lit)
		} else {
			w.expr(fsel.X, held, lit)
		}
	} else {
		w.expr(x.Fun, held, lit)
	}
	wr, isWrapper := w.wrappers[callee]
	for i, a := range x.Args {
		if fl, ok := a.(*ast.FuncLit); ok {
			init := lkState{}
			if isWrapper && wr.param == i && base != "" {
				for _, l := range wr.locks {
					init[base+l.fn] = l.mode
				}
			}
			w.funcLit(fl, init)
			continue
		}
		if sel, f := w.protected(a); f != nil && f.PtrObj {
			w.expr(sel.X, held, lit)
			w.access(sel, f, true, held, lit)
			continue
		}
		w.expr(a, held, lit)
	}
}

// expr: e is evaluated (read).
func (w *lkWalker) expr(e ast.Expr, held lkState, lit bool) {
	switch x := e.(type) {
	case nil:
		return
	case *ast.FuncLit:
		w.funcLit(x, lkState{})
		return
	case *ast.CallExpr:
		w.call(x, held, lit)
		return
	case *ast.UnaryExpr:
		if x.Op == token.AND {
			w.lhs(x.X, held, lit)
			return
		}
		w.expr(x.X, held, lit)
		return
	case *ast.SelectorExpr:
		if sel, f := w.protected(x); f != nil {
			w.expr(sel.X, held, lit)
			w.access(sel, f, false, held, lit)
			return
		}
		w.expr(x.X, held, lit)
		return
	case *ast.ParenExpr:
		w.expr(x.X, held, lit)
	case *ast.StarExpr:
		if !w.deref(x.X, false, held, lit) {
			w.expr(x.X, held, lit)
		}
	case *ast.BinaryExpr:
		w.expr(x.X, held, lit)
		w.expr(x.Y, held, lit)
	case *ast.IndexExpr:
		w.expr(x.X, held, lit)
		w.expr(x.Index, held, lit)
	case *ast.SliceExpr:
		w.expr(x.X, held, lit)
		w.expr(x.Low, held, lit)
		w.expr(x.High, held, lit)
		w.expr(x.Max, held, lit)
	case *ast.TypeAssertExpr:
		w.expr(x.X, held, lit)
	case *ast.KeyValueExpr:
		w.expr(x.Key, held, lit)
		w.expr(x.Value, held, lit)
	case *ast.CompositeLit:
		for _, el := range x.Elts {
			if kv, ok := el.(*ast.KeyValueExpr); ok {
				// struct keys are field names, not expressions
				if _, isIdent := kv.Key.(*ast.Ident); !isIdent {
					w.expr(kv.Key, held, lit)
				}
				w.expr(kv.Value, held, lit)
			} else {
				w.expr(el, held, lit)
			}
		}
	}
}

func lkTerminates(info *types.Info, s ast.Stmt) bool {
	switch x := s.(type) {
	case *ast.ReturnStmt, *ast.BranchStmt:
		return true
	case *ast.ExprStmt:
		if c, ok := x.X.(*ast.CallExpr); ok {
			if id, ok := c.Fun.(*ast.Ident); ok {
				if _, isBuiltin := info.Uses[id].(*types.Builtin); isBuiltin && id.Name == "panic" {
					return true
				}
			}
		}
	}
	return false
}

func (w *lkWalker) stmts(list []ast.Stmt, held lkState, lit bool) (lkState, bool) {
	for _, s := range list {
		var term bool
		held, term = w.stmt(s, held, lit)
		if term {
			return held, true
		}
	}
	return held, false
}

// lockOp: s is `B.Lock()` etc.; returns the new state.
func (w *lkWalker) lockOp(e ast.Expr, held lkState) (lkState, bool) {
	c, ok := e.(*ast.CallExpr)
	if !ok {
		return held, false
	}
	sel, ok := c.Fun.(*ast.SelectorExpr)
	if !ok {
		return held, false
	}
	name, ok := isSyncLockMethod(w.info, sel)
	if !ok {
		return held, false
	}
	key := w.canon(sel.X)
	n := held.copy()
	switch name {
	case "Lock":
		n[key] = lkWrite
	case "RLock":
		if n[key] < lkRead {
			n[key] = lkRead
		}
	case "Unlock", "RUnlock":
		delete(n, key)
	}
	return n, true
}

func (w *lkWalker) branches(held lkState, outs []lkState, terms []bool, fallthroughToo bool) (lkState, bool) {
	var acc lkState
	have := false
	if fallthroughToo {
		acc, have = held, true
	}
	for i, o := range outs {
		if terms[i] {
			continue
		}
		if !have {
			acc, have = o, true
		} else {
			acc = lkMeet(acc, o)
		}
	}
	if !have {
		return held, true // every branch leaves
	}
	return acc, false
}

func (w *lkWalker) stmt(s ast.Stmt, held lkState, lit bool) (lkState, bool) {
	switch x := s.(type) {
	case nil:
		return held, false
	case *ast.ExprStmt:
		if n, ok := w.lockOp(x.X, held); ok {
			return n, false
		}
		w.expr(x.X, held, lit)
		return held, lkTerminates(w.info, s)
	case *ast.DeferStmt:
		if _, ok := w.lockOp(x.Call, held); ok {
			return held, false // released when the function returns
		}
		if fl, ok := x.Call.Fun.(*ast.FuncLit); ok {
			w.funcLit(fl, lkState{})
			for _, a := range x.Call.Args {
				w.expr(a, held, lit)
			}
			return held, false
		}
		w.expr(x.Call, held, lit)
		return held, false
	case *ast.GoStmt:
		if fl, ok := x.Call.Fun.(*ast.FuncLit); ok {
			w.funcLit(fl, lkState{})
			for _, a := range x.Call.Args {
				w.expr(a, held, lit)
			}
			return held, false
		}
		// `go B.m(args)`: the callee runs on another goroutine: record the call with no lock held
		for _, a := range x.Call.Args {
			w.expr(a, held, lit)
		}
		w.goCall = true
		w.call(&ast.CallExpr{Fun: x.Call.Fun, Lparen: x.Call.Lparen, Rparen: x.Call.Rparen}, lkState{}, lit)
		w.goCall = false
		return held, false
	case *ast.AssignStmt:
		for _, r := range x.Rhs {
			w.expr(r, held, lit)
		}
		for _, l := range x.Lhs {
			if x.Tok == token.DEFINE {
				if _, isIdent := l.(*ast.Ident); isIdent {
					continue
				}
			}
			w.lhs(l, held, lit)
			if x.Tok != token.ASSIGN && x.Tok != token.DEFINE {
				w.expr(l, held, lit) // op-assignment also reads
			}
		}
		return held, false
	case *ast.IncDecStmt:
		w.lhs(x.X, held, lit)
		return held, false
	case *ast.DeclStmt:
		if gd, ok := x.Decl.(*ast.GenDecl); ok {
			for _, sp := range gd.Specs {
				if vs, ok := sp.(*ast.ValueSpec); ok {
					for _, v := range vs.Values {
						w.expr(v, held, lit)
					}
				}
			}
		}
		return held, false
	case *ast.ReturnStmt:
		for _, r := range x.Results {
			w.expr(r, held, lit)
		}
		return held, true
	case *ast.BranchStmt:
		return held, true
	case *ast.BlockStmt:
		return w.stmts(x.List, held, lit)
	case *ast.LabeledStmt:
		return w.stmt(x.Stmt, held, lit)
	case *ast.SendStmt:
		w.expr(x.Chan, held, lit)
		w.expr(x.Value, held, lit)
		return held, false
	case *ast.IfStmt:
		held, _ = w.stmt(x.Init, held, lit)
		w.expr(x.Cond, held, lit)
		o1, t1 := w.stmts(x.Body.List, held, lit)
		if x.Else == nil {
			return w.branches(held, []lkState{o1}, []bool{t1}, true)
		}
		o2, t2 := w.stmt(x.Else, held, lit)
		return w.branches(held, []lkState{o1, o2}, []bool{t1, t2}, false)
	case *ast.ForStmt:
		held, _ = w.stmt(x.Init, held, lit)
		w.expr(x.Cond, held, lit)
		ob, tb := w.stmts(x.Body.List, held, lit)
		if !tb {
			w.stmt(x.Post, ob, lit)
		}
		out, _ := w.branches(held, []lkState{ob}, []bool{tb}, true)
		return out, false
	case *ast.RangeStmt:
		w.expr(x.X, held, lit)
		if x.Tok == token.ASSIGN {
			if x.Key != nil {
				w.lhs(x.Key, held, lit)
			}
			if x.Value != nil {
				w.lhs(x.Value, held, lit)
			}
		}
		ob, tb := w.stmts(x.Body.List, held, lit)
		out, _ := w.branches(held, []lkState{ob}, []bool{tb}, true)
		return out, false
	case *ast.SwitchStmt:
		held, _ = w.stmt(x.Init, held, lit)
		w.expr(x.Tag, held, lit)
		return w.clauses(x.Body, held, lit)
	case *ast.TypeSwitchStmt:
		held, _ = w.stmt(x.Init, held, lit)
		w.stmt(x.Assign, held, lit)
		return w.clauses(x.Body, held, lit)
	case *ast.SelectStmt:
		return w.clauses(x.Body, held, lit)
	}
	return held, false
}

func (w *lkWalker) clauses(body *ast.BlockStmt, held lkState, lit bool) (lkState, bool) {
	var outs []lkState
	var terms []bool
	hasDefault := false
	isSelect := false
	for _, c := range body.List {
		switch cc := c.(type) {
		case *ast.CaseClause:
			if len(cc.List) == 0 {
				hasDefault = true
			}
			for _, e := range cc.List {
				w.expr(e, held, lit)
			}
			o, t := w.stmts(cc.Body, held, lit)
			// a `break` inside a case leaves the switch, not the function
			if t && len(cc.Body) > 0 {
				if br, ok := cc.Body[len(cc.Body)-1].(*ast.BranchStmt); ok && br.Tok == token.BREAK && br.Label == nil {
					t = false
				}
			}
			outs, terms = append(outs, o), append(terms, t)
		case *ast.CommClause:
			isSelect = true
			if cc.Comm == nil {
				hasDefault = true
			}
			h := held
			if cc.Comm != nil {
				h, _ = w.stmt(cc.Comm, held, lit)
			}
			o, t := w.stmts(cc.Body, h, lit)
			if t && len(cc.Body) > 0 {
				if br, ok := cc.Body[len(cc.Body)-1].(*ast.BranchStmt); ok && br.Tok == token.BREAK && br.Label == nil {
					t = false
				}
			}
			outs, terms = append(outs, o), append(terms, t)
		}
	}
	// a switch without default can fall through untouched; a select always takes one clause
	fall := !hasDefault && !isSelect
	if len(outs) == 0 {
		return held, false
	}
	return w.branches(held, outs, terms, fall)
}

func lkFuncName(fd *ast.FuncDecl) (name, recv string) {
	name = fd.Name.Name
	if fd.Recv != nil && len(fd.Recv.List) == 1 {
		rt := fd.Recv.List[0].Type
		if st, ok := rt.(*ast.StarExpr); ok {
			rt = st.X
		}
		if id, ok := rt.(*ast.Ident); ok {
			name = id.Name + "." + name
		}
		if len(fd.Recv.List[0].Names) == 1 {
			recv = fd.Recv.List[0].Names[0].Name
		}
	}
	return
}

// aliases of the function: `x := &a.b` / `x := a.b` with a pointer result, x assigned exactly once.
func (w *lkWalker) findAliases(fd *ast.FuncDecl) {
	w.alias = map[types.Object]ast.Expr{}
	w.ptrs = map[types.Object]lkPtrAlias{}
	ptrCand := map[types.Object]*ast.CallExpr{}
	assigned := map[types.Object]int{}
	cand := map[types.Object]ast.Expr{}
	isChain := func(e ast.Expr) bool {
		if u, ok := e.(*ast.UnaryExpr); ok && u.Op == token.AND {
			e = u.X
		}
		n := 0
		for {
			switch x := e.(type) {
			case *ast.SelectorExpr:
				e = x.X
				n++
				continue
			case *ast.Ident:
				return n > 0
			}
			return false
		}
	}
	ast.Inspect(fd.Body, func(n ast.Node) bool {
		switch x := n.(type) {
		case *ast.AssignStmt:
			for i, l := range x.Lhs {
				id, ok := l.(*ast.Ident)
				if !ok {
					continue
				}
				obj := w.info.Defs[id]
				if obj == nil {
					obj = w.info.Uses[id]
				}
				if obj == nil {
					continue
				}
				assigned[obj]++
				if x.Tok == token.DEFINE && len(x.Lhs) == len(x.Rhs) {
					if c, ok := x.Rhs[i].(*ast.CallExpr); ok {
						ptrCand[obj] = c
					}
				}
				if x.Tok == token.DEFINE && len(x.Lhs) == len(x.Rhs) && isChain(x.Rhs[i]) {
					if _, isPtr := obj.Type().Underlying().(*types.Pointer); isPtr {
						cand[obj] = x.Rhs[i]
					}
				}
			}
		case *ast.IncDecStmt:
			if id, ok := x.X.(*ast.Ident); ok {
				if obj := w.info.Uses[id]; obj != nil {
					assigned[obj]++
				}
			}
		case *ast.RangeStmt:
			for _, e := range []ast.Expr{x.Key, x.Value} {
				if id, ok := e.(*ast.Ident); ok {
					if obj := w.info.Defs[id]; obj != nil {
						assigned[obj] += 2
					}
				}
			}
		case *ast.UnaryExpr:
			if x.Op == token.AND {
				if id, ok := x.X.(*ast.Ident); ok {
					if obj := w.info.Uses[id]; obj != nil {
						assigned[obj] += 2 // address taken: may be reassigned elsewhere
					}
				}
			}
		}
		return true
	})
	for obj, e := range cand {
		if assigned[obj] == 1 {
			w.alias[obj] = e
		}
	}
	for obj, c := range ptrCand {
		fsel, ok := c.Fun.(*ast.SelectorExpr)
		if !ok || assigned[obj] != 1 {
			continue
		}
		callee, _ := w.info.Uses[fsel.Sel].(*types.Func)
		if fs, ok := w.accessors[callee]; ok {
			w.ptrs[obj] = lkPtrAlias{fields: fs, base: w.canon(fsel.X)}
		}
	}
}

// findAccessors: methods all of whose return statements are `&recv.f` with f protected.
func lkFindAccessors(info *types.Info, fields map[*types.Var]*lkField, fd *ast.FuncDecl, recv string) []*lkField {
	if recv == "" || fd.Type.Results == nil || len(fd.Type.Results.List) != 1 {
		return nil
	}
	var out []*lkField
	ok := true
	ast.Inspect(fd.Body, func(n ast.Node) bool {
		if _, isLit := n.(*ast.FuncLit); isLit {
			return false
		}
		r, isRet := n.(*ast.ReturnStmt)
		if !isRet {
			return true
		}
		if len(r.Results) != 1 {
			ok = false
			return false
		}
		u, isAddr := r.Results[0].(*ast.UnaryExpr)
		if !isAddr || u.Op != token.AND {
			ok = false
			return false
		}
		sel, isSel := u.X.(*ast.SelectorExpr)
		if !isSel {
			ok = false
			return false
		}
		id, isID := sel.X.(*ast.Ident)
		s := info.Selections[sel]
		if !isID || id.Name != recv || s == nil {
			ok = false
			return false
		}
		v, _ := s.Obj().(*types.Var)
		if f := fields[v]; f != nil {
			out = append(out, f)
		} else {
			ok = false
		}
		return false
	})
	if !ok {
		return nil
	}
	return out
}

func lkModeName(m int) string {
	switch m {
	case lkRead:
		return "LkR"
	case lkWrite:
		return "LkW"
	}
	return "LkNone"
}

func (t *translator) resolveLockFields() map[*types.Var]*lkField {
	scope := t.pkg.Types.Scope()
	isMutex := func(ty types.Type) bool {
		n, ok := ty.(*types.Named)
		return ok && n.Obj().Pkg() != nil && n.Obj().Pkg().Path() == "sync" && (n.Obj().Name() == "Mutex" || n.Obj().Name() == "RWMutex")
	}
	out := map[*types.Var]*lkField{}
	for i := range lkFields {
		f := &lkFields[i]
		o := scope.Lookup(f.Struct)
		if o == nil {
			failf("locksites: type %s not found", f.Struct)
		}
		st, ok := o.Type().Underlying().(*types.Struct)
		if !ok {
			failf("locksites: %s is not a struct", f.Struct)
		}
		if f.Path != "" {
			var inner *types.Struct
			for j := 0; j < st.NumFields(); j++ {
				if st.Field(j).Name() == f.Path {
					inner, _ = st.Field(j).Type().Underlying().(*types.Struct)
				}
			}
			if inner == nil {
				failf("locksites: %s.%s is not a struct member", f.Struct, f.Path)
			}
			st = inner
		}
		var fv *types.Var
		lockOK := false
		for j := 0; j < st.NumFields(); j++ {
			v := st.Field(j)
			if v.Name() == f.Field {
				fv = v
			}
			if f.Lock == "" && v.Embedded() && isMutex(v.Type()) {
				lockOK = true
			}
			if f.Lock != "" && v.Name() == f.Lock && isMutex(v.Type()) {
				lockOK = true
			}
		}
		if fv == nil {
			failf("locksites: field %s not found", f.name())
		}
		if !lockOK {
			failf("locksites: the mutex of %s (%q) is not a sync.Mutex / sync.RWMutex member of the same struct", f.name(), f.Lock)
		}
		out[fv] = f
	}
	return out
}

func (t *translator) lockSites(w *bytes.Buffer) (int, int) {
	info := t.pkg.TypesInfo
	fields := t.resolveLockFields()
	type fnDecl struct {
		file string
		fd   *ast.FuncDecl
	}
	var decls []fnDecl
	for _, f := range t.pkg.Syntax {
		fname := filepath.Base(t.fset.Position(f.Pos()).Filename)
		if strings.HasSuffix(fname, "_test.go") || strings.HasPrefix(fname, "zz_verif") {
			continue
		}
		for _, d := range f.Decls {
			if fd, ok := d.(*ast.FuncDecl); ok && fd.Body != nil {
				decls = append(decls, fnDecl{fname, fd})
			}
		}
	}
	sort.SliceStable(decls, func(i, j int) bool {
		if decls[i].file != decls[j].file {
			return decls[i].file < decls[j].file
		}
		return decls[i].fd.Pos() < decls[j].fd.Pos()
	})

	// pass 1: lock wrappers (methods that call a func-typed parameter while holding a lock of the receiver)
	wrappers := map[*types.Func]lkWrapper{}
	var wrapperRows []string
	for _, d := range decls {
		fd := d.fd
		name, recv := lkFuncName(fd)
		if recv == "" {
			continue
		}
		fnObj, _ := info.Defs[fd.Name].(*types.Func)
		params := map[types.Object]int{}
		idx := 0
		for _, p := range fd.Type.Params.List {
			for _, n := range p.Names {
				if _, isFunc := p.Type.(*ast.FuncType); isFunc {
					params[info.Defs[n]] = idx
				}
				idx++
			}
			if len(p.Names) == 0 {
				idx++
			}
		}
		if len(params) == 0 || fnObj == nil {
			continue
		}
		var dummy []lkSite
		wk := &lkWalker{t: t, info: info, fields: fields, wrappers: map[*types.Func]lkWrapper{}, file: d.file, fn: name, fnObj: fnObj, recv: recv, sites: &dummy}
		wk.findAliases(fd)
		found := map[int]lkState{}
		wk.onParam = func(obj types.Object, held lkState) {
			if i, ok := params[obj]; ok {
				if prev, seen := found[i]; seen {
					found[i] = lkMeet(prev, held)
				} else {
					found[i] = held.copy()
				}
			}
		}
		wk.stmts(fd.Body.List, lkState{}, false)
		var idxs []int
		for i := range found {
			idxs = append(idxs, i)
		}
		sort.Ints(idxs)
		for _, i := range idxs {
			st := found[i]
			var locks []lkCaller
			for k, m := range st {
				if k == recv || strings.HasPrefix(k, recv+".") {
					locks = append(locks, lkCaller{k[len(recv):], m})
				}
			}
			sort.Slice(locks, func(a, b int) bool { return locks[a].fn < locks[b].fn })
			if len(locks) > 0 {
				wrappers[fnObj] = lkWrapper{param: i, locks: locks}
				for _, l := range locks {
					wrapperRows = append(wrapperRows, fmt.Sprintf("  (%s, %s, %s)", strlit(name), strlit(l.fn), lkModeName(l.mode)))
				}
			}
		}
	}

	// pass 1b: accessors
	accessors := map[*types.Func][]*lkField{}
	for _, d := range decls {
		_, recv := lkFuncName(d.fd)
		if fnObj, _ := info.Defs[d.fd.Name].(*types.Func); fnObj != nil {
			if fs := lkFindAccessors(info, fields, d.fd, recv); len(fs) > 0 {
				accessors[fnObj] = fs
			}
		}
	}

	// pass 2: sites and calls
	var sites []lkSite
	var calls []lkCall
	for _, d := range decls {
		fd := d.fd
		name, recv := lkFuncName(fd)
		fnObj, _ := info.Defs[fd.Name].(*types.Func)
		wk := &lkWalker{t: t, info: info, fields: fields, wrappers: wrappers, file: d.file, fn: name, fnObj: fnObj, recv: recv,
			doc: fd.Doc != nil && lkDocRe.MatchString(fd.Doc.Text()), sites: &sites, calls: &calls, accessors: accessors}
		wk.findAliases(fd)
		wk.stmts(fd.Body.List, lkState{}, false)
	}
	sort.SliceStable(calls, func(i, j int) bool {
		if calls[i].file != calls[j].file {
			return calls[i].file < calls[j].file
		}
		return calls[i].pos < calls[j].pos
	})
	for i := range sites {
		s := &sites[i]
		if s.held != lkNone || s.rel == "" || s.fnObj == nil {
			continue
		}
		// callers, transitively while the lock is not held and the callee's base stays a receiver
		var resolve func(fn *types.Func, rel string, chain string, depth int, seen map[*types.Func]bool)
		resolve = func(fn *types.Func, rel string, chain string, depth int, seen map[*types.Func]bool) {
			for _, c := range calls {
				if c.callee != fn {
					continue
				}
				name := c.caller
				if chain != "" {
					name = chain + "<" + c.caller
				}
				m := lkNone
				if c.base != "" {
					m = c.held[c.base+rel]
				}
				if c.viaGo {
					name = "go " + name
				}
				up := m == lkNone && !c.inLit && !c.viaGo && c.base != "" && c.callerRcv != "" && c.callerObj != nil && !seen[c.callerObj] && depth < 4 &&
					(c.base == c.callerRcv || strings.HasPrefix(c.base, c.callerRcv+"."))
				if up {
					n := 0
					for _, c2 := range calls {
						if c2.callee == c.callerObj {
							n++
						}
					}
					if n == 0 {
						up = false
					}
				}
				if !up {
					s.callers = append(s.callers, lkCaller{name, m})
					continue
				}
				seen[c.callerObj] = true
				resolve(c.callerObj, c.base[len(c.callerRcv):]+rel, name, depth+1, seen)
				delete(seen, c.callerObj)
			}
		}
		resolve(s.fnObj, s.rel[1:], "", 0, map[*types.Func]bool{s.fnObj: true})
	}
	sort.SliceStable(sites, func(i, j int) bool {
		if sites[i].file != sites[j].file {
			return sites[i].file < sites[j].file
		}
		return sites[i].pos < sites[j].pos
	})

	fmt.Fprintf(w, "From Verif Require Import Spec.LockSpec.\n\n")
	fmt.Fprintf(w, "(* the protected fields found in the source (struct, member, mutex) *)\nDefinition lock_fields : list (list Z) := [\n")
	for i, f := range lkFields {
		sep := ";"
		if i == len(lkFields)-1 {
			sep = ""
		}
		lock := f.Lock
		if lock == "" {
			lock = "(embedded)"
		}
		fmt.Fprintf(w, "  (* %s, mutex %s *) %s%s\n", f.name(), lock, strlit(f.name()), sep)
	}
	fmt.Fprintf(w, "].\n\n(* lock wrappers detected in the source: (method, lock relative to the receiver, mode held while the callback runs) *)\n")
	fmt.Fprintf(w, "Definition lock_wrappers : list (list Z * list Z * lk_mode) := [\n%s\n].\n\n", strings.Join(wrapperRows, ";\n"))
	fmt.Fprintf(w, "Definition lock_sites : list lk_site := [\n")
	for i, s := range sites {
		sep := ";"
		if i == len(sites)-1 {
			sep = ""
		}
		acc := "LkRead"
		if s.write {
			acc = "LkWrite"
		}
		var cs, cc []string
		for _, c := range s.callers {
			cs = append(cs, fmt.Sprintf("(%s, %s)", strlit(c.fn), lkModeName(c.mode)))
			cc = append(cc, c.fn+":"+lkModeName(c.mode))
		}
		cm := fmt.Sprintf("%s %s: %s %s held=%s callers=[%s]", s.file, s.fn, acc, s.field, lkModeName(s.held), strings.Join(cc, " "))
		cm = strings.ReplaceAll(strings.ReplaceAll(cm, "*)", "* )"), "(*", "( *")
		fmt.Fprintf(w, "  (* %d: %s *)\n  mkLkSite %s %s %s %s [%s] %v%s\n", i+1, cm, strlit(s.field), strlit(s.fn), acc, lkModeName(s.held), strings.Join(cs, "; "), s.doc, sep)
	}
	fmt.Fprintf(w, "].\n")
	return len(sites), len(wrapperRows)
}

// lockSitesSafe: a failure of the extraction (a protected field or its mutex is gone) must break
// property C04 only: the table is then a single unlocked write site, which refutes the obligation.
func (t *translator) lockSitesSafe(w *bytes.Buffer, repo string) (nsites, nwrap int) {
	defer func() {
		if r := recover(); r != nil {
			// any panic of this extraction (not only a translator failure) must stay local to C04
			f, ok := r.(failure)
			if !ok {
				f = failure{fmt.Sprintf("locksites: internal error: %v", r)}
			}
			w.Reset()
			fmt.Fprintf(w, header, repo)
			fmt.Fprintf(w, "From Verif Require Import Spec.LockSpec.\n\n(* EXTRACTION FAILED: %s *)\n", strings.ReplaceAll(strings.ReplaceAll(f.msg, "*)", "* )"), "(*", "( *"))
			fmt.Fprintf(w, "Definition lock_fields : list (list Z) := [].\nDefinition lock_wrappers : list (list Z * list Z * lk_mode) := [].\n")
			fmt.Fprintf(w, "Definition lock_sites : list lk_site := [mkLkSite [] [] LkWrite LkNone [] false].\n")
			fmt.Printf("go2v: LOCK-SITE EXTRACTION FAILED: %s\n", f.msg)
			nsites, nwrap = 0, 0
		}
	}()
	return t.lockSites(w)
}
