package main

// c15score.go (C15, "the score a list stores for a peer is the score of the peer's live state"):
// regenerated on every run as Gen/GenC15Score.v, in the vocabulary of Spec/C15ScoreSpec.v.
//
//  1. c15prog_*: the STATEMENT STRUCTURE of the channel-level functions that change what a score
//     calculator reads of a Peer and must then pass that very peer to Channel.updatePeer
//     (connectionCloseStateChange, addConnectionToPeer, connectionActive, the tail of Connect,
//     exchangeUpdated, Channel.updatePeer, subChannelMap.updatePeer) as [cstmt] terms.  A Peer
//     variable is replaced by the KEY it was looked up with in the root peer list (resolved through
//     go/types objects, so a renamed or hoisted variable does not change the term, while a call on
//     ANOTHER peer, a dropped call or a call moved out of its branch does):
//       1 <conn>.remotePeerInfo.HostPort   2 <conn>.outboundHP   3 the hostPort parameter
//       4 the *Peer parameter
//     Statements that contain no call of c15Relevant (logging, verifPoint, lock operations, the
//     error branch of addConnection that only logs) are left out; a statement that contains such a
//     call in a position the walker does not understand makes the target NOT GENERATED.
//  2. c15reg_*: the LOCK-REGION TABLE of the PeerList functions that read, compute or store a
//     score: rows (mode, event) in source order, mode = how the receiver's own mutex is held at
//     the event (0 not, 1 RLock, 2 Lock; `defer l.Unlock()` holds to the end of the function; a
//     branch that ends in return does not change the mode after the if).
//  3. c15_census: every function of the package (non-test files) that contains a score event or a
//     change of a peer's connection lists, with the kinds of events it contains.
//
// Proofs/C15ScoreP.v proves the terms equal to the steps of the interleaving model
// Model/C15Score.v (one atomic step per lock region / per peer-lock region).

import (
	"bytes"
	"fmt"
	"go/ast"
	"go/token"
	"go/types"
	"path/filepath"
	"sort"
	"strings"
)

type c15ProgTarget struct {
	Func  string
	Out   string
	After string // translate the statements after the (unique, top-level) statement starting with this text
	Until string // ... up to (excluding) the top-level statement starting with this text
}

var c15ProgTargets = []c15ProgTarget{
	{Func: "Channel.connectionCloseStateChange", Out: "c15prog_close", After: "ch.removeClosedConn(c)", Until: "chState := ch.State()"},
	{Func: "Channel.addConnectionToPeer", Out: "c15prog_addToPeer"},
	{Func: "Channel.connectionActive", Out: "c15prog_active"},
	{Func: "Channel.Connect", Out: "c15prog_connectTail", After: "conn, err := ch.outboundHandshake("},
	{Func: "Channel.exchangeUpdated", Out: "c15prog_exch"},
	{Func: "Channel.updatePeer", Out: "c15prog_updatePeer"},
	{Func: "subChannelMap.updatePeer", Out: "c15prog_subUpdate"},
}

var c15RegTargets = [][2]string{
	{"PeerList.Add", "c15reg_listAdd"},
	{"PeerList.exists", "c15reg_listExists"},
	{"PeerList.onPeerChange", "c15reg_onPeerChange"},
	{"PeerList.getPeerScore", "c15reg_getPeerScore"},
	{"PeerList.SetStrategy", "c15reg_setStrategy"},
	{"PeerList.updatePeer", "c15reg_listUpdatePeer"},
	{"PeerList.Remove", "c15reg_listRemove"},
}

// method names whose calls are score-relevant at channel level
var c15Relevant = map[string]bool{
	"addConnection": true, "connectionCloseStateChange": true, "removeConnection": true,
	"updatePeer": true, "onPeerChange": true, "addConnectionToPeer": true, "GetOrAdd": true,
}

type c15ctx struct {
	t     *translator
	tg    *c15ProgTarget
	fd    *ast.FuncDecl
	keys  map[types.Object]int // Peer variable / ok variable / string parameter -> key
	okOf  map[types.Object]int // `ok` variable of a root lookup -> key
	errOf map[types.Object]int // `err` variable of X.addConnection -> key
	added map[types.Object]bool
}

func (c *c15ctx) fail(n ast.Node, format string, a ...interface{}) {
	failf("%s: %s: %s", c.t.pos(n), c.tg.Func, fmt.Sprintf(format, a...))
}

func (c *c15ctx) obj(e ast.Expr) types.Object {
	id, ok := stripParens(e).(*ast.Ident)
	if !ok {
		return nil
	}
	if o := c.t.pkg.TypesInfo.Uses[id]; o != nil {
		return o
	}
	return c.t.pkg.TypesInfo.Defs[id]
}

func c15flat(s string) string { return strings.Join(strings.Fields(s), " ") }

// relevant: does the node contain a call of a score-relevant method (or a root-list lookup)?
func (c *c15ctx) relevant(n ast.Node) bool {
	found := false
	ast.Inspect(n, func(m ast.Node) bool {
		call, ok := m.(*ast.CallExpr)
		if !ok {
			return true
		}
		if sel, ok := call.Fun.(*ast.SelectorExpr); ok {
			if c15Relevant[sel.Sel.Name] {
				found = true
			}
			if sel.Sel.Name == "Get" && strings.HasSuffix(c15flat(c.t.src(sel.X)), "RootPeers()") {
				found = true
			}
		}
		return true
	})
	return found
}

// keyOf: the key an expression of type string / *Peer stands for (0 = none).
func (c *c15ctx) keyOf(e ast.Expr) int {
	src := c15flat(c.t.src(stripParens(e)))
	if strings.HasSuffix(src, ".remotePeerInfo.HostPort") && !strings.Contains(src, "(") {
		return 1
	}
	if strings.HasSuffix(src, ".outboundHP") && !strings.Contains(src, "(") {
		return 2
	}
	if o := c.obj(e); o != nil {
		if k, ok := c.keys[o]; ok {
			return k
		}
	}
	return 0
}

func (c *c15ctx) bindParams() {
	if c.fd.Type.Params == nil {
		return
	}
	for _, f := range c.fd.Type.Params.List {
		ts := c15flat(c.t.src(f.Type))
		for _, nm := range f.Names {
			o := c.t.pkg.TypesInfo.Defs[nm]
			if o == nil {
				continue
			}
			if ts == "string" && nm.Name == "hostPort" {
				c.keys[o] = 3
			}
			if ts == "*Peer" {
				c.keys[o] = 4
			}
		}
	}
}

// call: classify one call expression used as a statement or as the right-hand side of an
// assignment; lhs = the assigned identifiers (nil for a statement).
func (c *c15ctx) call(call *ast.CallExpr, lhs []ast.Expr, at ast.Node) (string, bool) {
	sel, ok := call.Fun.(*ast.SelectorExpr)
	if !ok {
		return "", false
	}
	recv := c15flat(c.t.src(sel.X))
	bind := func(i int, m map[types.Object]int, k int) {
		if i < len(lhs) {
			if id, ok := lhs[i].(*ast.Ident); ok && id.Name != "_" {
				if o := c.t.pkg.TypesInfo.Defs[id]; o != nil {
					m[o] = k
				} else if o := c.t.pkg.TypesInfo.Uses[id]; o != nil {
					m[o] = k
				}
			}
		}
	}
	needKey := func(e ast.Expr) int {
		k := c.keyOf(e)
		if k == 0 {
			c.fail(at, "cannot tell which peer %q is (not bound by a root-list lookup with a known key)", c15flat(c.t.src(e)))
		}
		return k
	}
	switch {
	case sel.Sel.Name == "Get" && strings.HasSuffix(recv, "RootPeers()") && len(call.Args) == 1:
		k := needKey(call.Args[0])
		bind(0, c.keys, k)
		bind(1, c.okOf, k)
		return fmt.Sprintf("CCall 1 %d", k), true
	case sel.Sel.Name == "GetOrAdd" && strings.HasSuffix(recv, "RootPeers()") && len(call.Args) == 1:
		k := needKey(call.Args[0])
		bind(0, c.keys, k)
		return fmt.Sprintf("CCall 2 %d", k), true
	case sel.Sel.Name == "addConnection" && len(call.Args) == 2 && c.keyOf(sel.X) != 0:
		k := needKey(sel.X)
		bind(0, c.errOf, k)
		return fmt.Sprintf("CCall 3 %d", k), true
	case sel.Sel.Name == "addConnection" && len(call.Args) == 2: // Channel.addConnection: admission
		if len(lhs) == 1 {
			if id, ok := lhs[0].(*ast.Ident); ok {
				if o := c.t.pkg.TypesInfo.Defs[id]; o != nil {
					c.added[o] = true
				}
			}
		}
		return "CCall 10 0", true
	case sel.Sel.Name == "connectionCloseStateChange" && len(call.Args) == 1:
		return fmt.Sprintf("CCall 4 %d", needKey(sel.X)), true
	case sel.Sel.Name == "updatePeer" && len(call.Args) == 1 && strings.HasSuffix(recv, "subChannels"):
		return fmt.Sprintf("CCall 8 %d", needKey(call.Args[0])), true
	case sel.Sel.Name == "updatePeer" && len(call.Args) == 1:
		return fmt.Sprintf("CCall 5 %d", needKey(call.Args[0])), true
	case sel.Sel.Name == "addConnectionToPeer" && len(call.Args) == 3:
		return fmt.Sprintf("CCall 6 %d", needKey(call.Args[0])), true
	case sel.Sel.Name == "onPeerChange" && len(call.Args) == 1 && strings.HasSuffix(recv, ".peers"):
		return fmt.Sprintf("CCall 7 %d", needKey(call.Args[0])), true
	case sel.Sel.Name == "onPeerChange" && len(call.Args) == 1 && strings.HasSuffix(recv, ".Peers()"):
		return fmt.Sprintf("CCall 9 %d", needKey(call.Args[0])), true
	}
	return "", false
}

// cond: classify the condition of an if statement: (code, key, negated).
func (c *c15ctx) cond(e ast.Expr) (int, int, bool, bool) {
	e = stripParens(e)
	src := c15flat(c.t.src(e))
	if u, ok := e.(*ast.UnaryExpr); ok && u.Op == token.NOT {
		if o := c.obj(u.X); o != nil {
			if k, ok := c.okOf[o]; ok {
				return 1, k, true, true
			}
			if c.added[o] {
				return 5, 0, false, true
			}
		}
	}
	if o := c.obj(e); o != nil {
		if k, ok := c.okOf[o]; ok {
			return 1, k, false, true
		}
	}
	if b, ok := e.(*ast.BinaryExpr); ok {
		l, r := c15flat(c.t.src(b.X)), c15flat(c.t.src(b.Y))
		switch {
		case b.Op == token.LAND:
			// <conn>.outboundHP != "" && <conn>.outboundHP != <conn>.remotePeerInfo.HostPort
			if bl, ok := stripParens(b.X).(*ast.BinaryExpr); ok && bl.Op == token.NEQ && c.keyOf(bl.X) == 2 && c15flat(c.t.src(bl.Y)) == `""` {
				if br, ok := stripParens(b.Y).(*ast.BinaryExpr); ok && br.Op == token.NEQ && c.keyOf(br.X) == 2 && c.keyOf(br.Y) == 1 {
					return 2, 0, false, true
				}
			}
		case b.Op == token.NEQ && c.keyOf(b.X) == 3 && c.keyOf(b.Y) == 1:
			return 3, 0, false, true
		case b.Op == token.EQL && c.keyOf(b.X) == 1 && r == `""`:
			return 4, 0, false, true
		case b.Op == token.NEQ && r == "nil" && l == "conn":
			return 6, 0, false, true
		case b.Op == token.NEQ && r == "nil":
			if o := c.obj(b.X); o != nil {
				if k, ok := c.errOf[o]; ok {
					return 8, k, false, true
				}
			}
		}
	}
	if strings.HasSuffix(src, ".Isolated()") {
		return 7, 0, false, true
	}
	return 0, 0, false, false
}

func (c *c15ctx) stmts(list []ast.Stmt) []string {
	var out []string
	for _, s := range list {
		out = append(out, c.stmt(s)...)
	}
	return out
}

func c15list(items []string) string { return "[" + strings.Join(items, "; ") + "]" }

func (c *c15ctx) stmt(s ast.Stmt) []string {
	switch x := s.(type) {
	case *ast.ReturnStmt:
		for _, r := range x.Results {
			if c.relevant(r) {
				c.fail(s, "a relevant call in a return statement: %q", c15flat(c.t.src(s)))
			}
		}
		return []string{"CRet"}
	case *ast.ExprStmt:
		if call, ok := x.X.(*ast.CallExpr); ok {
			if t, ok := c.call(call, nil, s); ok {
				return []string{t}
			}
		}
		if c.relevant(s) {
			c.fail(s, "statement %q contains a score-relevant call the walker does not understand", c15flat(c.t.src(s)))
		}
		return nil
	case *ast.AssignStmt:
		if len(x.Rhs) == 1 {
			if call, ok := x.Rhs[0].(*ast.CallExpr); ok {
				if t, ok := c.call(call, x.Lhs, s); ok {
					return []string{t}
				}
			}
		}
		if c.relevant(s) {
			c.fail(s, "assignment %q contains a score-relevant call the walker does not understand", c15flat(c.t.src(s)))
		}
		return nil
	case *ast.BlockStmt:
		return c.stmts(x.List)
	case *ast.IfStmt:
		var pre []string
		if x.Init != nil {
			pre = c.stmt(x.Init)
		}
		code, k, neg, ok := c.cond(x.Cond)
		if !ok {
			if c.relevant(x.Body) || (x.Else != nil && c.relevant(x.Else)) || c.relevant(x.Cond) {
				c.fail(s, "condition %q guards a score-relevant call and is not in the condition table", c15flat(c.t.src(x.Cond)))
			}
			return pre
		}
		body := c.stmts(x.Body.List)
		var els []string
		if x.Else != nil {
			els = c.stmt(x.Else)
		}
		if neg {
			body, els = els, body
		}
		if len(body) == 0 && len(els) == 0 {
			return pre // e.g. the error branch of addConnection that only logs
		}
		return append(pre, fmt.Sprintf("CIf %d %d %s %s", code, k, c15list(body), c15list(els)))
	case *ast.RangeStmt:
		if strings.HasSuffix(c15flat(c.t.src(x.X)), ".subchannels") {
			return []string{"CLoop " + c15list(c.stmts(x.Body.List))}
		}
	case *ast.DeferStmt, *ast.DeclStmt, *ast.IncDecStmt, *ast.EmptyStmt:
		if c.relevant(s) {
			c.fail(s, "statement %q contains a score-relevant call the walker does not understand", c15flat(c.t.src(s)))
		}
		return nil
	}
	if c.relevant(s) {
		c.fail(s, "statement %q contains a score-relevant call in an unsupported statement kind", firstLine(c.t.src(s)))
	}
	return nil
}

func (t *translator) c15EmitProg(tg *c15ProgTarget, w *bytes.Buffer) {
	fd, ok := t.funcs[tg.Func]
	if !ok || fd.Body == nil {
		failf("function %s not found", tg.Func)
	}
	c := &c15ctx{t: t, tg: tg, fd: fd, keys: map[types.Object]int{}, okOf: map[types.Object]int{}, errOf: map[types.Object]int{}, added: map[types.Object]bool{}}
	c.bindParams()
	list := fd.Body.List
	find := func(prefix string) int {
		at := -1
		for i, s := range list {
			if strings.HasPrefix(c15flat(t.src(s)), c15flat(prefix)) {
				if at >= 0 {
					failf("%s: two top-level statements start with %q", tg.Func, prefix)
				}
				at = i
			}
		}
		if at < 0 {
			failf("%s: no top-level statement starts with %q", tg.Func, prefix)
		}
		return at
	}
	lo, hi := 0, len(list)
	if tg.After != "" {
		lo = find(tg.After) + 1
	}
	if tg.Until != "" {
		hi = find(tg.Until)
	}
	if lo > hi {
		failf("%s: %q does not precede %q", tg.Func, tg.After, tg.Until)
	}
	// statements before the translated range must not touch a peer
	for _, s := range list[:lo] {
		if c.relevant(s) && !(tg.After != "" && strings.HasPrefix(c15flat(t.src(s)), c15flat(tg.After))) {
			failf("%s: %s: a score-relevant call before the translated range: %q", t.pos(s), tg.Func, firstLine(t.src(s)))
		}
	}
	for _, s := range list[hi:] {
		if c.relevant(s) {
			failf("%s: %s: a score-relevant call after the translated range: %q", t.pos(s), tg.Func, firstLine(t.src(s)))
		}
	}
	items := c.stmts(list[lo:hi])
	p := t.fset.Position(fd.Pos())
	e := t.fset.Position(fd.End())
	fmt.Fprintf(w, "\n(* from %s:%d-%d  func %s *)\nDefinition %s : list cstmt :=\n  %s.\n",
		filepath.Base(p.Filename), p.Line, e.Line, tg.Func, tg.Out, c15list(items))
}

// ---------------------------------------------------------------- lock-region tables

type c15reg struct {
	t        *translator
	recv     string
	rows     []string
	carriers map[types.Object]bool
}

func (r *c15reg) add(mode, ev int) { r.rows = append(r.rows, fmt.Sprintf("(%d, %d)", mode, ev)) }

func (r *c15reg) isRecvField(e ast.Expr, field string) bool {
	sel, ok := stripParens(e).(*ast.SelectorExpr)
	if !ok || sel.Sel.Name != field {
		return false
	}
	id, ok := sel.X.(*ast.Ident)
	return ok && id.Name == r.recv
}

// events of one expression / simple statement, in source (pre-)order; lhs = assignment targets
func (r *c15reg) events(n ast.Node, mode int, lhs map[ast.Expr]bool) {
	if n == nil {
		return
	}
	ast.Inspect(n, func(m ast.Node) bool {
		switch x := m.(type) {
		case *ast.FuncLit:
			return false
		case *ast.CallExpr:
			if id, ok := x.Fun.(*ast.Ident); ok && id.Name == "delete" && len(x.Args) == 2 && r.isRecvField(x.Args[0], "peersByHostPort") {
				r.add(mode, 23)
				r.events(x.Args[1], mode, nil)
				return false
			}
			if sel, ok := x.Fun.(*ast.SelectorExpr); ok {
				on := c15flat(r.t.src(sel.X))
				ev := 0
				switch {
				case sel.Sel.Name == "GetScore":
					ev = 20
				case sel.Sel.Name == "updatePeer" && on == r.recv:
					ev = 24
				case sel.Sel.Name == "addPeer" && on == r.recv+".peerHeap":
					ev = 25
				case sel.Sel.Name == "removePeer" && on == r.recv+".peerHeap":
					ev = 26
				case sel.Sel.Name == "updatePeer" && on == r.recv+".peerHeap":
					ev = 33
				case sel.Sel.Name == "Add" && on == r.recv+".parent":
					ev = 29
				case sel.Sel.Name == "exists" && on == r.recv:
					ev = 30
				case sel.Sel.Name == "getPeerScore" && on == r.recv:
					ev = 31
				case sel.Sel.Name == "addSC":
					ev = 36
				case sel.Sel.Name == "delSC":
					ev = 37
				}
				if ev != 0 {
					r.add(mode, ev)
					if ev == 20 {
						r.events(sel.X, mode, nil) // the calculator expression (l.scoreCalculator)
					}
					for _, a := range x.Args {
						r.events(a, mode, nil)
					}
					return false
				}
			}
		case *ast.IndexExpr:
			if r.isRecvField(x.X, "peersByHostPort") {
				if lhs[x] {
					r.add(mode, 22)
				} else {
					r.add(mode, 21)
				}
				r.events(x.Index, mode, nil)
				return false
			}
		case *ast.SelectorExpr:
			if r.isRecvField(x, "scoreCalculator") {
				if lhs[x] {
					r.add(mode, 28)
				} else {
					r.add(mode, 27)
				}
				return false
			}
			if x.Sel.Name == "score" && lhs[x] {
				r.add(mode, 32)
				return false
			}
		case *ast.Ident:
			if o := r.t.pkg.TypesInfo.Uses[x]; o != nil && r.carriers[o] {
				r.add(mode, 38)
			}
		}
		return true
	})
}

func (r *c15reg) hasGetScore(n ast.Node) bool {
	found := false
	ast.Inspect(n, func(m ast.Node) bool {
		if call, ok := m.(*ast.CallExpr); ok {
			if sel, ok := call.Fun.(*ast.SelectorExpr); ok && sel.Sel.Name == "GetScore" {
				found = true
			}
		}
		return true
	})
	return found
}

func (r *c15reg) usesCarrier(n ast.Node) bool {
	found := false
	ast.Inspect(n, func(m ast.Node) bool {
		if id, ok := m.(*ast.Ident); ok {
			if o := r.t.pkg.TypesInfo.Uses[id]; o != nil && r.carriers[o] {
				found = true
			}
		}
		return true
	})
	return found
}

func (r *c15reg) lockOp(call *ast.CallExpr) (int, bool) {
	sel, ok := call.Fun.(*ast.SelectorExpr)
	if !ok || len(call.Args) != 0 {
		return 0, false
	}
	id, ok := sel.X.(*ast.Ident)
	if !ok || id.Name != r.recv {
		return 0, false
	}
	switch sel.Sel.Name {
	case "RLock":
		return 1, true
	case "Lock":
		return 2, true
	case "RUnlock", "Unlock":
		return 0, true
	}
	return 0, false
}

func c15terminates(list []ast.Stmt) bool {
	if len(list) == 0 {
		return false
	}
	_, ok := list[len(list)-1].(*ast.ReturnStmt)
	return ok
}

// walk: returns the lock mode after the statements
func (r *c15reg) walk(list []ast.Stmt, mode int, deferred bool) int {
	for _, s := range list {
		switch x := s.(type) {
		case *ast.ExprStmt:
			if call, ok := x.X.(*ast.CallExpr); ok {
				if id, ok := call.Fun.(*ast.Ident); ok && id.Name == "verifPoint" {
					continue
				}
				if m, ok := r.lockOp(call); ok {
					if !(deferred && m == 0) {
						mode = m
					}
					continue
				}
			}
			r.events(x.X, mode, nil)
		case *ast.DeferStmt:
			if m, ok := r.lockOp(x.Call); ok && m == 0 {
				deferred = true
				continue
			}
			r.events(x.Call, mode, nil)
		case *ast.AssignStmt:
			lhs := map[ast.Expr]bool{}
			for _, l := range x.Lhs {
				lhs[stripParens(l)] = true
			}
			for _, rh := range x.Rhs {
				r.events(rh, mode, nil)
			}
			for _, l := range x.Lhs {
				r.events(l, mode, lhs)
			}
			carries := false
			for _, rh := range x.Rhs {
				if r.hasGetScore(rh) || r.usesCarrier(rh) {
					carries = true
				}
			}
			if carries {
				for _, l := range x.Lhs {
					if id, ok := l.(*ast.Ident); ok {
						if o := r.t.pkg.TypesInfo.Defs[id]; o != nil {
							r.carriers[o] = true
						} else if o := r.t.pkg.TypesInfo.Uses[id]; o != nil {
							r.carriers[o] = true
						}
					}
				}
			}
		case *ast.ReturnStmt:
			for _, e := range x.Results {
				r.events(e, mode, nil)
			}
			r.add(mode, 7)
		case *ast.BlockStmt:
			mode = r.walk(x.List, mode, deferred)
		case *ast.IfStmt:
			if x.Init != nil {
				mode = r.walk([]ast.Stmt{x.Init}, mode, deferred)
			}
			r.events(x.Cond, mode, nil)
			after := r.walk(x.Body.List, mode, deferred)
			if !c15terminates(x.Body.List) {
				mode = after
			}
			if x.Else != nil {
				after := r.walk([]ast.Stmt{x.Else}, mode, deferred)
				if bl, ok := x.Else.(*ast.BlockStmt); !ok || !c15terminates(bl.List) {
					mode = after
				}
			}
		case *ast.RangeStmt:
			if r.isRecvField(x.X, "peersByHostPort") {
				r.add(mode, 35)
			} else {
				r.events(x.X, mode, nil)
			}
			mode = r.walk(x.Body.List, mode, deferred)
		case *ast.ForStmt:
			mode = r.walk(x.Body.List, mode, deferred)
		default:
			r.events(s, mode, nil)
		}
	}
	return mode
}

func (t *translator) c15EmitReg(fn, out string, w *bytes.Buffer) {
	fd, ok := t.funcs[fn]
	if !ok || fd.Body == nil {
		failf("function %s not found", fn)
	}
	recv := ""
	if fd.Recv != nil && len(fd.Recv.List) == 1 && len(fd.Recv.List[0].Names) == 1 {
		recv = fd.Recv.List[0].Names[0].Name
	}
	if recv == "" {
		failf("%s: no named receiver", fn)
	}
	r := &c15reg{t: t, recv: recv, carriers: map[types.Object]bool{}}
	r.walk(fd.Body.List, 0, false)
	p := t.fset.Position(fd.Pos())
	e := t.fset.Position(fd.End())
	fmt.Fprintf(w, "\n(* from %s:%d-%d  func %s *)\nDefinition %s : list regrow :=\n  [%s].\n",
		filepath.Base(p.Filename), p.Line, e.Line, fn, out, strings.Join(r.rows, "; "))
}

// ---------------------------------------------------------------- census

func (t *translator) c15Census(w *bytes.Buffer) int {
	info := t.pkg.TypesInfo
	recvOf := func(sel *ast.SelectorExpr) string {
		if s, ok := info.Selections[sel]; ok {
			rt := s.Recv()
			if p, ok := rt.(*types.Pointer); ok {
				rt = p.Elem()
			}
			if n, ok := rt.(*types.Named); ok {
				return n.Obj().Name()
			}
		}
		return ""
	}
	rows := map[string]bool{}
	for _, f := range t.pkg.Syntax {
		fname := filepath.Base(t.fset.Position(f.Pos()).Filename)
		if strings.HasSuffix(fname, "_test.go") || strings.HasPrefix(fname, "zz_verif") {
			continue
		}
		for _, d := range f.Decls {
			fd, ok := d.(*ast.FuncDecl)
			if !ok || fd.Body == nil {
				continue
			}
			fn := fd.Name.Name
			if fd.Recv != nil && len(fd.Recv.List) == 1 {
				rt := fd.Recv.List[0].Type
				if st, ok := rt.(*ast.StarExpr); ok {
					rt = st.X
				}
				if id, ok := rt.(*ast.Ident); ok {
					fn = id.Name + "." + fn
				}
			}
			add := func(ev int) { rows[fmt.Sprintf("(%q, %d)", fn, ev)] = true }
			lhsOf := map[ast.Expr]bool{}
			ast.Inspect(fd.Body, func(m ast.Node) bool {
				switch x := m.(type) {
				case *ast.AssignStmt:
					for _, l := range x.Lhs {
						lhsOf[stripParens(l)] = true
					}
				case *ast.UnaryExpr:
					if x.Op == token.AND {
						lhsOf[stripParens(x.X)] = true // &p.inboundConnections: the list can be changed through the pointer
					}
				}
				return true
			})
			ast.Inspect(fd.Body, func(m ast.Node) bool {
				switch x := m.(type) {
				case *ast.CallExpr:
					sel, ok := x.Fun.(*ast.SelectorExpr)
					if !ok {
						return true
					}
					rc := recvOf(sel)
					switch {
					case sel.Sel.Name == "GetScore":
						add(20)
					case sel.Sel.Name == "updatePeer" && rc == "PeerList":
						add(24)
					case sel.Sel.Name == "updatePeer" && rc == "peerHeap":
						add(33)
					case sel.Sel.Name == "updatePeer" && rc == "Channel":
						add(40)
					case sel.Sel.Name == "updatePeer" && rc == "subChannelMap":
						add(46)
					case sel.Sel.Name == "onPeerChange" && rc == "PeerList":
						add(41)
					case sel.Sel.Name == "addConnection" && rc == "Peer":
						add(42)
					case sel.Sel.Name == "connectionCloseStateChange" && rc == "Peer":
						add(43)
					case sel.Sel.Name == "removeConnection" && rc == "Peer":
						add(44)
					case sel.Sel.Name == "connectionsFor" && rc == "Peer":
						add(48)
					}
				case *ast.SelectorExpr:
					if lhsOf[x] {
						if s, ok := info.Selections[x]; ok && s.Kind() == types.FieldVal {
							rt := s.Recv()
							if p, ok := rt.(*types.Pointer); ok {
								rt = p.Elem()
							}
							name := ""
							if n, ok := rt.(*types.Named); ok {
								name = n.Obj().Name()
							}
							if name == "peerScore" && x.Sel.Name == "score" {
								add(32)
							}
							if name == "Peer" && (x.Sel.Name == "inboundConnections" || x.Sel.Name == "outboundConnections") {
								add(45)
							}
						}
					}
				case *ast.KeyValueExpr:
					if id, ok := x.Key.(*ast.Ident); ok && (id.Name == "OnExchangeUpdated" || id.Name == "OnCloseStateChange" || id.Name == "OnActive") {
						add(47)
					}
				}
				return true
			})
		}
	}
	keys := make([]string, 0, len(rows))
	for k := range rows {
		keys = append(keys, k)
	}
	sort.Strings(keys)
	fmt.Fprintf(w, "\n(* every function of the package (non-test files) with a score event or a change of a peer's connection lists *)\nDefinition c15_census : list censusrow :=\n  [%s].\n", strings.Join(keys, ";\n   "))
	return len(keys)
}

// c15ScoreSafe emits Gen/GenC15Score.v; a target that cannot be generated is left out (with the
// reason in a comment), so only the Coq files of C15 stop compiling.
func (t *translator) c15ScoreSafe(w *bytes.Buffer) (int, int, int) {
	soft := func(what string, fn func(b *bytes.Buffer)) bool {
		ok := true
		func() {
			var tmp bytes.Buffer
			defer func() {
				if r := recover(); r != nil {
					f, isf := r.(failure)
					if !isf {
						panic(r)
					}
					ok = false
					fmt.Fprintf(w, "\n(* NOT GENERATED: %s -- %s *)\n", what, strings.ReplaceAll(f.msg, "*)", "* )"))
					fmt.Printf("go2v: NOT GENERATED (C15 score) %s: %s\n", what, f.msg)
				}
			}()
			fn(&tmp)
			w.Write(tmp.Bytes())
		}()
		return ok
	}
	np, nr := 0, 0
	for i := range c15ProgTargets {
		tg := &c15ProgTargets[i]
		if soft(tg.Out, func(b *bytes.Buffer) { t.c15EmitProg(tg, b) }) {
			np++
		}
	}
	for _, rt := range c15RegTargets {
		rt := rt
		if soft(rt[1], func(b *bytes.Buffer) { t.c15EmitReg(rt[0], rt[1], b) }) {
			nr++
		}
	}
	nc := 0
	soft("c15_census", func(b *bytes.Buffer) { nc = t.c15Census(b) })
	return np, nr, nc
}

// The DATA PATH of a score (Gen/GenC15ScoreFn.v, statement targets of the classic translator):
//
//	c15listUpdateScore  PeerList.updatePeer: the score the entry holds afterwards
//	c15listAddScores    PeerList.Add, under the write lock after the root lookup: the map of stored
//	                    scores (host:port name -> score) after the insertion; get_score = the list's
//	                    calculator applied NOW
//	c15listRescore      PeerList.onPeerChange, the write-locked region: the entry's score afterwards
//
// Proofs/C15ScoreGenP.v proves them equal to what the model's atomic steps store.
func init() {
	targetImports["GenC15ScoreFn"] = []string{"Base.GoMap"}
	targets = append(targets, []Target{
		{Func: "PeerList.updatePeer", Out: "c15listUpdateScore", File: "GenC15ScoreFn", Soft: true,
			Params: "(score newScore : Z)", Ret: "Z", VoidRet: "score",
			Hints: map[string]string{"ps.score": "score"},
			SHints: map[string]string{
				"ps.score = newScore":       "let score := newScore in",
				"l.peerHeap.updatePeer(ps)": "",
			}},
		{Func: "PeerList.Add", Out: "c15listAddScores", File: "GenC15ScoreFn", Soft: true,
			Params: "(scores : gmap) (get_score : Z -> Z) (hostPort : Z) (p : Z)", Ret: "gmap * Z",
			Maps: map[string]string{"l.peersByHostPort": "scores"},
			Stmt: "p := l.parent.Add(hostPort)", After: true, RetFmt: "(scores, %s)",
			Hints: map[string]string{"newPeerScore(p, l.scoreCalculator.GetScore(p))": "(get_score p)"},
			SHints: map[string]string{
				"verifPoint(...":         "",
				"p.addSC()":              "",
				"l.peerHeap.addPeer(ps)": "",
			}},
		{Func: "PeerList.onPeerChange", Out: "c15listRescore", File: "GenC15ScoreFn", Soft: true,
			Params: "(scores : gmap) (get_score : Z -> Z) (hp : Z)", Ret: "gmap",
			Stmt: "if ps, _, ok := l.getPeerScore(p.hostPort); ok {", Rest: "scores",
			Hints: map[string]string{"l.getPeerScore(p.hostPort)": "(hp, 0, snd (gmap_get scores hp))"},
			SHints: map[string]string{
				"l.updatePeer(ps, l.scoreCalculator.GetScore(ps.Peer))": "let scores := gmap_set scores ps (c15listUpdateScore (fst (gmap_get scores ps)) (get_score ps)) in",
			}},
	}...)
}
