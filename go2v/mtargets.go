package main

// Configuration of the method translator (methods.go): which packages are loaded, which
// named []byte types are reference slices, and per generated file the structs and functions.

// mPackages: package patterns (relative to the repository root) loaded for the translator.
var mPackages = []string{".", "./typed", "./thrift/arg2", "./http", "./thrift", "./json"}

// mRefTypes: named []byte types whose values alias the backing array of a WriteBuffer.
var mRefTypes = map[string]bool{
	"typed.ByteRef":   true,
	"typed.Uint16Ref": true,
	"typed.Uint32Ref": true,
	"typed.Uint64Ref": true,
	"typed.BytesRef":  true,
}

func mt(fn string) *MTarget { return &MTarget{Func: fn} }

var mfiles = []*MFile{
	{
		// typed/buffer.go: every loop-free method of ReadBuffer and WriteBuffer, and `deferred`
		// (its loop is the fill idiom).  Not translated: ReadUvarint / WriteUvarint (loops inside
		// encoding/binary; hand model Codecs.v r_uvarint / put_uvarint), FlushTo (io.Writer).
		Name:    "GenTypedBuf",
		ErrVars: []string{"typed.ErrEOF", "typed.ErrBufferFull", "typed.errStringTooLong", "io.EOF"},
		Structs: []*StructRep{
			{Type: "typed.ReadBuffer", Fields: map[string]string{"initialLength": "ignore"}},
			{Type: "typed.WriteBuffer", Fields: map[string]string{"buffer": "mem", "remaining": "ref"}},
		},
		Targets: []*MTarget{
			mt("typed.NewReadBuffer"),
			mt("typed.NewWriteBuffer"),
			mt("typed.ReadBuffer.ReadByte"),
			mt("typed.ReadBuffer.ReadSingleByte"),
			mt("typed.ReadBuffer.ReadBytes"),
			mt("typed.ReadBuffer.SkipBytes"),
			mt("typed.ReadBuffer.ReadString"),
			mt("typed.ReadBuffer.ReadUint16"),
			mt("typed.ReadBuffer.ReadUint32"),
			mt("typed.ReadBuffer.ReadUint64"),
			mt("typed.ReadBuffer.ReadLen8String"),
			mt("typed.ReadBuffer.ReadLen16String"),
			mt("typed.ReadBuffer.Remaining"),
			mt("typed.ReadBuffer.BytesRemaining"),
			mt("typed.ReadBuffer.Err"),
			mt("typed.WriteBuffer.setErr"),
			mt("typed.WriteBuffer.reserve"),
			mt("typed.WriteBuffer.deferred"),
			mt("typed.WriteBuffer.WriteSingleByte"),
			mt("typed.WriteBuffer.WriteBytes"),
			mt("typed.WriteBuffer.WriteUint16"),
			mt("typed.WriteBuffer.WriteUint32"),
			mt("typed.WriteBuffer.WriteUint64"),
			mt("typed.WriteBuffer.WriteString"),
			mt("typed.WriteBuffer.WriteLen8String"),
			mt("typed.WriteBuffer.WriteLen16String"),
			mt("typed.WriteBuffer.DeferByte"),
			mt("typed.WriteBuffer.DeferUint16"),
			mt("typed.WriteBuffer.DeferUint32"),
			mt("typed.WriteBuffer.DeferUint64"),
			mt("typed.WriteBuffer.DeferBytes"),
			mt("typed.WriteBuffer.BytesRemaining"),
			mt("typed.WriteBuffer.BytesWritten"),
			mt("typed.WriteBuffer.Reset"),
			mt("typed.WriteBuffer.Err"),
			mt("typed.WriteBuffer.Wrap"),
			{Func: "typed.ByteRef.Update", MemParam: true},
			{Func: "typed.Uint16Ref.Update", MemParam: true},
			{Func: "typed.Uint32Ref.Update", MemParam: true},
			{Func: "typed.Uint64Ref.Update", MemParam: true},
			{Func: "typed.BytesRef.Update", MemParam: true},
			{Func: "typed.BytesRef.UpdateString", MemParam: true},
		},
	},
	{
		// messages.go, tracing.go (Span codec), frame.go (FrameHeader codec): the read/write methods of
		// every message, INCLUDING the loops over transport headers and init params (counted
		// for-loops => go_for, range over a map => go_range over its entries in iteration order).
		// Not translated (hand model Model/Messages.v, tied by correspondence): Frame.write / read /
		// ReadBody / ReadIn / WriteOut (interface values, io.Reader / io.Writer).
		Name:    "GenMessages",
		Imports: []string{"Gen.GenTypedBuf"},
		Structs: []*StructRep{
			{Type: "tchannel.Span"},
			{Type: "tchannel.noBodyMsg"},
			{Type: "tchannel.initMessage"},
			{Type: "tchannel.callReq"},
			{Type: "tchannel.callRes"},
			{Type: "tchannel.callResContinue"},
			{Type: "tchannel.errorMessage"},
			{Type: "tchannel.cancelMessage"},
			{Type: "tchannel.FrameHeader"},
		},
		Targets: []*MTarget{
			mt("tchannel.Span.read"),
			mt("tchannel.Span.write"),
			mt("tchannel.TransportHeaderName.String"),
			mt("tchannel.transportHeaders.read"),
			mt("tchannel.transportHeaders.write"),
			mt("tchannel.noBodyMsg.read"),
			mt("tchannel.noBodyMsg.write"),
			mt("tchannel.initMessage.read"),
			mt("tchannel.initMessage.write"),
			mt("tchannel.callReq.read"),
			mt("tchannel.callReq.write"),
			mt("tchannel.callRes.read"),
			mt("tchannel.callRes.write"),
			mt("tchannel.callResContinue.read"),
			mt("tchannel.callResContinue.write"),
			mt("tchannel.errorMessage.read"),
			mt("tchannel.errorMessage.write"),
			mt("tchannel.cancelMessage.read"),
			mt("tchannel.cancelMessage.write"),
			mt("tchannel.FrameHeader.read"),
			mt("tchannel.FrameHeader.write"),
		},
	},
	{
		// C18: thrift/arg2/kv_iterator.go (the relay's arg2 iterator) and the string helpers of
		// http/buf.go.  ReadUvarint / WriteUvarint are call hints to Model/UvarintG.v (the loop of
		// encoding/binary re-modelled over the generated ReadByte / WriteBytes).
		// Not translated: http readHeaders / writeHeaders (http.Header = map[string][]string with
		// append), thrift WriteHeaders / readHeaders (typed.Reader over io.Reader).
		Name:    "GenCodecs",
		Imports: []string{"Gen.GenTypedBuf", "Model.UvarintG"},
		Structs: []*StructRep{
			{Type: "arg2.KeyValIterator"},
		},
		Targets: []*MTarget{
			mt("arg2.KeyValIterator.Key"),
			mt("arg2.KeyValIterator.Value"),
			mt("arg2.KeyValIterator.Remaining"),
			mt("arg2.KeyValIterator.Next"),
			mt("arg2.NewKeyValIterator"),
			{Func: "http.readVarintString", CallHints: map[string]string{"typed.ReadBuffer.ReadUvarint": "g_ReadUvarint!recv"}},
			{Func: "http.writeVarintString", CallHints: map[string]string{"typed.WriteBuffer.WriteUvarint": "g_WriteUvarint!recv"}},
		},
	},
	{
		// C15: what peer selection is FED with.
		// retry.go: the request's previously-selected set (getHost incl. its search loop with an early
		// return, AddSelectedPeer incl. the nil-map / composite-literal / insertion branches,
		// PrevSelectedPeers).  `rs == nil` is hinted false: the functions are translated for a
		// request that HAS a RequestState (the nil receiver returns at once: no retries, nothing to avoid).
		// peer.go / mex.go: the load the score calculators read: Peer.NumConnections and
		// Peer.NumPendingOutbound (both range loops, over the outbound AND the inbound connections,
		// each adding the connection's OUTBOUND exchange count) and messageExchangeSet.count.
		// Lock operations are dropped (sequential meaning).  A messageExchange is opaque (no field
		// represented): only the number of entries of an exchange set is read.
		Name:    "GenPeerSel",
		Imports: []string{"Base.GoSemColl"},
		Structs: []*StructRep{
			{Type: "tchannel.RequestState", Only: []string{"SelectedPeers"}},
			{Type: "tchannel.messageExchange", Only: []string{"msgID"}},
			{Type: "tchannel.messageExchangeSet", Only: []string{"exchanges"}},
			{Type: "tchannel.Connection", Only: []string{"inbound", "outbound"}},
			{Type: "tchannel.Peer", Only: []string{"inboundConnections", "outboundConnections"}},
		},
		Targets: []*MTarget{
			mt("tchannel.getHost"),
			{Func: "tchannel.RequestState.PrevSelectedPeers", Hints: map[string]string{"rs == nil": "false"}},
			{Func: "tchannel.RequestState.AddSelectedPeer", Hints: map[string]string{"rs == nil": "false"}},
			mt("tchannel.messageExchangeSet.count"),
			mt("tchannel.Peer.NumConnections"),
			mt("tchannel.Peer.NumPendingOutbound"),
		},
	},
}
