package main

// frameuse.go (C12): the ownership discipline of pooled frames, statement by statement.
//
// For every function of package tchannel (non-test files) that HANDS A FRAME OVER -- sends it
// on a chan *Frame (sendCh, recvCh), gives it back with FramePool.Release, starts a goroutine
// with it, calls readableFragment.done(), or passes it to a function that does one of these --
// this file emits an ABSTRACT PROGRAM (type fu of Spec/FrameUseSpec.v) that keeps, in source
// order and with the branch structure of the Go code, exactly the statements that concern that
// frame:
//
//   FUse what            the function touches the frame: field read/write, method call, passing
//                        it (or a view of it) to a callee that does not take ownership,
//                        capturing it in a closure
//   FBind how errv       the frame variable is (re)bound to a fresh frame (Get, <-ch, a call that
//                        returns a frame; errv: the frame is absent iff that error is non-nil)
//   FXfer kind what      primitive hand-over: 1 chan send, 2 FramePool.Release, 3 go statement,
//                        4 readableFragment.done() (idempotent)
//   FCall callee res     the frame is passed to a function that has an ownership signature
//                        (Model/FrameUse.v conv_table); res = the variables its results go to
//   FSet x e             assignment to a bool / error variable (tests and returns refer to them)
//   FIf / FAlt / FLoop / FJump / FSeq / FRet     control flow; FRet carries the classified
//                        results (true/false, nil = false / non-nil = true, a variable, unknown)
//   FUnsupported         a construct the extraction does not understand inside such a function
//                        (the Coq checker rejects it: never a guess)
//
// The checker (Model/FrameUse.v), proved sound in Proofs/FrameUseP.v, then decides on the
// generated table that no FUse / FXfer / FCall is reachable after a successful hand-over.
//
// One row per (function, frame class).  A frame class is a set of variables of the function
// that denote the same frame: a variable of a CARRIER type (*Frame, or a struct with a *Frame
// field: lazyCallReq, lazyCallRes, lazyError, writableFragment; and readableFragment, whose
// onDone closure holds the frame), its aliases (x := cr.Frame, cr := newLazyCallReq(f)) and
// its VIEWS (variables of type []byte, typed.ReadBuffer/WriteBuffer/..Ref, writableChunk that
// are assigned from an expression mentioning the class).  Heap classes: a selector path of
// carrier type rooted at a non-carrier variable (w.curFragment), with the views listed in
// fuHeapViews.  Kinds: 0 the class contains a parameter / the receiver (entry: owned, the
// function's own signature is checked at every return), 1 local origin (entry: no frame),
// 2 heap (entry: owned).
//
// Also emitted: frame_xfer_sites (every primitive hand-over statement: function, kind, target;
// including closures and hand-overs of an unnamed frame such as Release(<-c.sendCh)) and
// frame_use_impls (interface method -> implementations), tied to the FrameOwn model's
// transfer labels in Proofs/FrameUseP.v.
//
// Trusted: the notion of carrier / view types, fuHeapViews, fuInlineClosureCallers (the
// closure passed to withStateRLock runs exactly once and its result is returned), the
// classification of expressions below.  Syntactic, type-resolved (go/types).

import (
	"bytes"
	"fmt"
	"go/ast"
	"go/token"
	"go/types"
	"path/filepath"
	"sort"
	"strings"
)

// struct types that hold a frame without a *Frame field
var fuExtraCarriers = map[string]bool{"readableFragment": true}

// view types (besides []byte / [][]byte): a variable of such a type joins the class of the
// frame it was computed from
var fuViewTypes = map[string]bool{
	"typed.ReadBuffer": true, "typed.WriteBuffer": true, "typed.ByteRef": true, "typed.Uint16Ref": true,
	"typed.Uint32Ref": true, "typed.Uint64Ref": true, "typed.BytesRef": true, "tchannel.writableChunk": true,
}

// heap classes: receiver type -> root field -> view fields of the same frame
var fuHeapViews = map[string]map[string][]string{
	"fragmentingWriter": {"curFragment": {"curChunk"}},
	"fragmentingReader": {"curFragment": {"curChunk", "remainingChunks"}},
}

// calls whose error result is never nil
var fuNonNilFuncs = map[string]bool{"fmt.Errorf": true, "errors.New": true, "NewSystemError": true, "NewWrappedSystemError": true}

// X.f(func() error {...}) as the sole returned expression: the closure runs once, now, and its
// result is the function's result
var fuInlineClosureCallers = map[string]bool{"withStateRLock": true}

type fuNode struct {
	op   string // skip use bind xfer call set seq if alt loop jump ret unsupported
	s1   string
	s2   string
	k    int
	strs []string
	rx   []fuRexp
	flag bool
	test fuTest
	kids []*fuNode
}

type fuRexp struct {
	kind int // 0 lit, 1 var, 2 unknown
	b    bool
	x    string
}

type fuTest struct {
	kind int // 0 other, 1 is, 2 imp
	x    string
	b    bool
}

type fuRow struct {
	file string
	pos  int
	fn   string
	cls  string
	kind int
	body *fuNode
}

type fuSite struct {
	file             string
	pos              int
	fn, kind, target string
}

type fuCtx struct {
	t       *translator
	info    *types.Info
	frame   *types.Named
	pool    *types.Named
	carrier map[*types.TypeName]bool
	// transferring[callee key][param index] (-1 = receiver)
	transferring map[string]map[int]bool
	impls        map[string][]string // "iface.method" -> implementations "T.method"
	sites        []fuSite
	closureSites []fuSite
}

// last component of a Go path: "r.conn.sendCh" -> "sendCh" (pinned tables must not depend on
// the names of receivers and local variables)
func fuLast(s string) string {
	if i := strings.LastIndex(s, "."); i >= 0 {
		return s[i+1:]
	}
	return s
}

func fuShort(s string, n int) string {
	s = strings.Join(strings.Fields(s), " ")
	if len(s) > n {
		s = s[:n]
	}
	return s
}

func (c *fuCtx) isFramePtr(t types.Type) bool {
	if t == nil {
		return false
	}
	if p, ok := t.(*types.Pointer); ok {
		t = p.Elem()
	}
	n, ok := t.(*types.Named)
	return ok && n.Obj() == c.frame.Obj()
}

func (c *fuCtx) isCarrier(t types.Type) bool {
	if t == nil {
		return false
	}
	if p, ok := t.(*types.Pointer); ok {
		t = p.Elem()
	}
	n, ok := t.(*types.Named)
	if !ok {
		return false
	}
	return n.Obj() == c.frame.Obj() || c.carrier[n.Obj()]
}

func (c *fuCtx) isView(t types.Type) bool {
	if t == nil {
		return false
	}
	if p, ok := t.(*types.Pointer); ok {
		t = p.Elem()
		// a pointer INTO a frame (&f.Header); a FrameHeader value is a copy
		if n, ok := t.(*types.Named); ok && n.Obj().Pkg() == c.t.pkg.Types && n.Obj().Name() == "FrameHeader" {
			return true
		}
	}
	if s, ok := t.(*types.Slice); ok {
		if b, ok := s.Elem().(*types.Basic); ok && b.Kind() == types.Byte {
			return true
		}
		if s2, ok := s.Elem().(*types.Slice); ok {
			if b, ok := s2.Elem().(*types.Basic); ok && b.Kind() == types.Byte {
				return true
			}
		}
		return false
	}
	if n, ok := t.(*types.Named); ok && n.Obj().Pkg() != nil {
		return fuViewTypes[n.Obj().Pkg().Name()+"."+n.Obj().Name()]
	}
	return false
}

func fuIsErrorType(t types.Type) bool {
	if t == nil {
		return false
	}
	n, ok := t.(*types.Named)
	return ok && n.Obj().Pkg() == nil && n.Obj().Name() == "error"
}

func fuIsBoolType(t types.Type) bool {
	if t == nil {
		return false
	}
	b, ok := t.Underlying().(*types.Basic)
	return ok && b.Info()&types.IsBoolean != 0
}

// path of an ident / selector chain of idents ("w.curFragment"), "" otherwise
func fuPath(e ast.Expr) string {
	switch x := ast.Unparen(e).(type) {
	case *ast.Ident:
		return x.Name
	case *ast.SelectorExpr:
		p := fuPath(x.X)
		if p == "" {
			return ""
		}
		return p + "." + x.Sel.Name
	}
	return ""
}

func fuRootIdent(e ast.Expr) *ast.Ident {
	switch x := ast.Unparen(e).(type) {
	case *ast.Ident:
		return x
	case *ast.SelectorExpr:
		return fuRootIdent(x.X)
	}
	return nil
}

// ---------------------------------------------------------------- per function

type fuAn struct {
	c      *fuCtx
	fd     *ast.FuncDecl
	fn     string
	recvT  string
	vars   map[types.Object]int // class id of a variable
	paths  map[string]int       // class id of a heap path
	parent []int
	names  map[types.Object]string
	used   map[string]types.Object
	// current class
	cls    int
	defers []*fuNode
	loop   int
	inSw   int
	ntrans int
	named  []string // named results
	// the block being translated is the body of a switch / select clause
	swClause bool
}

func (a *fuAn) find(x int) int {
	for a.parent[x] != x {
		a.parent[x] = a.parent[a.parent[x]]
		x = a.parent[x]
	}
	return x
}

func (a *fuAn) union(x, y int) bool {
	x, y = a.find(x), a.find(y)
	if x == y {
		return false
	}
	if x < y {
		a.parent[y] = x
	} else {
		a.parent[x] = y
	}
	return true
}

func (a *fuAn) newClass() int {
	a.parent = append(a.parent, len(a.parent))
	return len(a.parent) - 1
}

func (a *fuAn) obj(id *ast.Ident) types.Object {
	if o := a.c.info.Uses[id]; o != nil {
		return o
	}
	return a.c.info.Defs[id]
}

// variable name, unique per object within the function (shadowing: err, err'2, ...)
func (a *fuAn) vname(o types.Object) string {
	if n, ok := a.names[o]; ok {
		return n
	}
	n := o.Name()
	for i := 2; ; i++ {
		if prev, taken := a.used[n]; !taken || prev == o {
			break
		}
		n = fmt.Sprintf("%s'%d", o.Name(), i)
	}
	a.used[n] = o
	a.names[o] = n
	return n
}

// name of a tracked bool / error variable denoted by e ("" if e is not an ident / path)
func (a *fuAn) trackedName(e ast.Expr) string {
	e = ast.Unparen(e)
	if id, ok := e.(*ast.Ident); ok {
		if id.Name == "_" {
			return ""
		}
		o := a.obj(id)
		if _, isVar := o.(*types.Var); isVar {
			return a.vname(o)
		}
		return ""
	}
	if _, ok := e.(*ast.SelectorExpr); ok {
		return fuPath(e)
	}
	return ""
}

// classOfExpr: the class an ident / heap path belongs to (-1 none)
func (a *fuAn) classOfIdent(id *ast.Ident) int {
	if o := a.obj(id); o != nil {
		if k, ok := a.vars[o]; ok {
			return a.find(k)
		}
	}
	return -1
}

func (a *fuAn) classOfPath(e ast.Expr) int {
	if _, ok := ast.Unparen(e).(*ast.SelectorExpr); !ok {
		return -1
	}
	if p := fuPath(e); p != "" {
		if k, ok := a.paths[p]; ok {
			return a.find(k)
		}
	}
	return -1
}

// mentions: does n mention class k?  Comparisons with nil and the excluded node do not count.
func (a *fuAn) mentions(n ast.Node, k int, exclude ast.Node) bool {
	if n == nil {
		return false
	}
	found := false
	var walk func(n ast.Node)
	walk = func(n ast.Node) {
		if n == nil || found || n == exclude {
			return
		}
		switch x := n.(type) {
		case *ast.BinaryExpr:
			if x.Op == token.EQL || x.Op == token.NEQ {
				if fuIsNil(a.c.info, x.Y) && a.isMemberExact(x.X, k) {
					return
				}
				if fuIsNil(a.c.info, x.X) && a.isMemberExact(x.Y, k) {
					return
				}
			}
		case *ast.Ident:
			if a.classOfIdent(x) == k {
				found = true
			}
			return
		case *ast.SelectorExpr:
			if a.classOfPath(x) == k {
				found = true
				return
			}
			walk(x.X)
			return
		case *ast.KeyValueExpr:
			walk(x.Value) // the key of a struct literal is a field name
			return
		}
		ast.Inspect(n, func(m ast.Node) bool {
			if m == n {
				return true
			}
			if m != nil {
				walk(m)
			}
			return false
		})
	}
	walk(n)
	return found
}

func fuIsNil(info *types.Info, e ast.Expr) bool {
	id, ok := ast.Unparen(e).(*ast.Ident)
	if !ok || id.Name != "nil" {
		return false
	}
	_, isnil := info.Uses[id].(*types.Nil)
	return isnil
}

// isMemberExact: e is exactly a variable of class k or a heap path of class k
func (a *fuAn) isMemberExact(e ast.Expr, k int) bool {
	e = ast.Unparen(e)
	if id, ok := e.(*ast.Ident); ok {
		return a.classOfIdent(id) == k
	}
	return a.classOfPath(e) == k
}

// classValue: e is an expression of carrier type denoting the frame of class k (f, f.Frame, wf.frame)
func (a *fuAn) classValue(e ast.Expr, k int) bool {
	e = ast.Unparen(e)
	if a.isMemberExact(e, k) {
		return a.c.isCarrier(a.c.info.TypeOf(e))
	}
	if sel, ok := e.(*ast.SelectorExpr); ok && a.c.isCarrier(a.c.info.TypeOf(e)) {
		return a.classValue(sel.X, k)
	}
	return false
}

// ---------------------------------------------------------------- classes

func (a *fuAn) buildClasses() {
	c := a.c
	info := c.info
	// variables of carrier type
	addVar := func(id *ast.Ident) {
		o := info.Defs[id]
		if o == nil {
			return
		}
		if _, ok := o.(*types.Var); !ok {
			return
		}
		if c.isCarrier(o.Type()) {
			if _, ok := a.vars[o]; !ok {
				a.vars[o] = a.newClass()
			}
		}
	}
	ast.Inspect(a.fd, func(n ast.Node) bool {
		if id, ok := n.(*ast.Ident); ok {
			addVar(id)
		}
		return true
	})
	// heap paths of carrier type rooted at a non-carrier variable
	ast.Inspect(a.fd.Body, func(n ast.Node) bool {
		sel, ok := n.(*ast.SelectorExpr)
		if !ok {
			return true
		}
		p := fuPath(sel)
		if p == "" || !c.isCarrier(info.TypeOf(sel)) {
			return true
		}
		root := fuRootIdent(sel)
		if root == nil {
			return true
		}
		ro := a.obj(root)
		if _, isVar := ro.(*types.Var); !isVar {
			return true
		}
		if _, isCls := a.vars[ro]; isCls {
			return true // wf.frame: through a carrier variable
		}
		// every prefix must be a non-carrier (rfs.callReq.Frame belongs to rfs.callReq)
		for x := ast.Unparen(sel.X); ; {
			if s2, ok := x.(*ast.SelectorExpr); ok {
				if c.isCarrier(info.TypeOf(s2)) {
					return true
				}
				x = ast.Unparen(s2.X)
				continue
			}
			break
		}
		if _, ok := a.paths[p]; !ok {
			a.paths[p] = a.newClass()
		}
		return false
	})
	// configured heap views: recv.root + recv.view
	if a.fd.Recv != nil && len(a.fd.Recv.List) == 1 && len(a.fd.Recv.List[0].Names) == 1 {
		rn := a.fd.Recv.List[0].Names[0].Name
		for root, views := range fuHeapViews[a.recvT] {
			rp := rn + "." + root
			k, ok := a.paths[rp]
			if !ok {
				// the root may be absent from this function while a view is used: still a class
				uses := false
				for _, v := range views {
					vp := rn + "." + v
					ast.Inspect(a.fd.Body, func(n ast.Node) bool {
						if s, ok := n.(*ast.SelectorExpr); ok && fuPath(s) == vp {
							uses = true
						}
						return true
					})
				}
				if !uses {
					continue
				}
				k = a.newClass()
				a.paths[rp] = k
			}
			for _, v := range views {
				a.paths[rn+"."+v] = k
			}
		}
	}
	// aliases and views: x := e / x = e / var x = e with e mentioning a class
	joinLhs := func(lhs ast.Expr, rhs ast.Expr) bool {
		id, ok := ast.Unparen(lhs).(*ast.Ident)
		if !ok || id.Name == "_" {
			return false
		}
		o := a.obj(id)
		v, isVar := o.(*types.Var)
		if !isVar {
			return false
		}
		if !c.isCarrier(v.Type()) && !c.isView(v.Type()) {
			// a closure over the frame, or a value built from an explicit reference into it
			// (&f.Header, f.Payload[a:b] inside a literal) is a view as well
			_, isFunc := v.Type().Underlying().(*types.Signature)
			if !isFunc && !a.takesRef(rhs) {
				return false
			}
		}
		changed := false
		for k := range a.parent {
			if a.find(k) != k {
				continue
			}
			if kk, ok := a.vars[o]; ok && a.find(kk) == k {
				continue
			}
			if a.mentions(rhs, k, nil) {
				if kk, ok := a.vars[o]; ok {
					if a.union(kk, k) {
						changed = true
					}
				} else {
					a.vars[o] = k
					changed = true
				}
				break
			}
		}
		return changed
	}
	for pass := 0; pass < 4; pass++ {
		changed := false
		ast.Inspect(a.fd.Body, func(n ast.Node) bool {
			switch s := n.(type) {
			case *ast.AssignStmt:
				if len(s.Rhs) == len(s.Lhs) {
					for i := range s.Lhs {
						if joinLhs(s.Lhs[i], s.Rhs[i]) {
							changed = true
						}
					}
				} else if len(s.Rhs) == 1 {
					for i := range s.Lhs {
						if joinLhs(s.Lhs[i], s.Rhs[0]) {
							changed = true
						}
					}
				}
			case *ast.ValueSpec:
				for i, id := range s.Names {
					if i < len(s.Values) && joinLhs(id, s.Values[i]) {
						changed = true
					}
				}
			case *ast.RangeStmt:
				if s.Value != nil && joinLhs(s.Value, s.X) {
					changed = true
				}
			}
			return true
		})
		if !changed {
			break
		}
	}
}

// takesRef: e contains &x or x[a:b] with x mentioning any frame class
func (a *fuAn) takesRef(e ast.Expr) bool {
	found := false
	ast.Inspect(e, func(n ast.Node) bool {
		var inner ast.Expr
		switch x := n.(type) {
		case *ast.UnaryExpr:
			if x.Op == token.AND {
				inner = x.X
			}
		case *ast.SliceExpr:
			inner = x.X
		}
		if inner != nil {
			if _, isLit := ast.Unparen(inner).(*ast.CompositeLit); !isLit {
				for k := range a.parent {
					if a.find(k) == k && a.mentions(inner, k, nil) {
						found = true
					}
				}
			}
		}
		return !found
	})
	return found
}

// class descriptor: kind and a name
func (a *fuAn) classInfo(k int) (kind int, name string) {
	kind = 1
	var names []string
	params := map[types.Object]bool{}
	addFields := func(fl *ast.FieldList) {
		if fl == nil {
			return
		}
		for _, f := range fl.List {
			for _, id := range f.Names {
				if o := a.c.info.Defs[id]; o != nil {
					params[o] = true
				}
			}
		}
	}
	addFields(a.fd.Recv)
	addFields(a.fd.Type.Params)
	var pnames, vnames, hnames []string
	for o, kk := range a.vars {
		if a.find(kk) != k {
			continue
		}
		if params[o] {
			pnames = append(pnames, a.vname(o))
		} else {
			vnames = append(vnames, a.vname(o))
		}
	}
	for p, kk := range a.paths {
		if a.find(kk) == k {
			hnames = append(hnames, p)
		}
	}
	sort.Strings(pnames)
	sort.Strings(vnames)
	sort.Strings(hnames)
	switch {
	case len(pnames) > 0:
		kind = 0
		names = pnames
	case len(hnames) > 0:
		kind = 2
		names = hnames
		// name a heap class by its root field, not by one of its views
		for _, h := range hnames {
			for root := range fuHeapViews[a.recvT] {
				if strings.HasSuffix(h, "."+root) {
					names = []string{h}
				}
			}
		}
	default:
		kind = 1
		names = vnames
	}
	return kind, names[0]
}

// paramIndexClass: class of parameter i (-1 receiver), or -1
func (a *fuAn) paramClass(i int) int {
	var id *ast.Ident
	if i == -1 {
		if a.fd.Recv == nil || len(a.fd.Recv.List) != 1 || len(a.fd.Recv.List[0].Names) != 1 {
			return -1
		}
		id = a.fd.Recv.List[0].Names[0]
	} else {
		n := 0
		for _, f := range a.fd.Type.Params.List {
			if len(f.Names) == 0 {
				n++
				continue
			}
			for _, nm := range f.Names {
				if n == i {
					id = nm
				}
				n++
			}
		}
	}
	if id == nil {
		return -1
	}
	if o := a.c.info.Defs[id]; o != nil {
		if k, ok := a.vars[o]; ok {
			return a.find(k)
		}
	}
	return -1
}

// ---------------------------------------------------------------- transfer recognition

type fuXfer struct {
	call   *ast.CallExpr
	kind   string // "release" "done" "call"
	callee string
	arg    ast.Expr // the expression that denotes the frame
	anon   bool
}

func (c *fuCtx) calleeKey(call *ast.CallExpr) (key string, fn *types.Func) {
	var id *ast.Ident
	switch f := ast.Unparen(call.Fun).(type) {
	case *ast.Ident:
		id = f
	case *ast.SelectorExpr:
		id = f.Sel
	}
	if id == nil {
		return "", nil
	}
	fn, ok := c.info.Uses[id].(*types.Func)
	if !ok || fn.Pkg() == nil || fn.Pkg() != c.t.pkg.Types {
		return "", nil
	}
	sig := fn.Type().(*types.Signature)
	if sig.Recv() == nil {
		return fn.Name(), fn
	}
	rt := sig.Recv().Type()
	if p, ok := rt.(*types.Pointer); ok {
		rt = p.Elem()
	}
	if n, ok := rt.(*types.Named); ok {
		return n.Obj().Name() + "." + fn.Name(), fn
	}
	return "", nil
}

// transferOf: is call a hand-over of class k?
func (a *fuAn) transferOf(call *ast.CallExpr, k int) *fuXfer {
	c := a.c
	if sel, ok := ast.Unparen(call.Fun).(*ast.SelectorExpr); ok {
		// FramePool.Release(x)
		if sel.Sel.Name == "Release" && len(call.Args) == 1 {
			if tv, ok := c.info.Types[sel.X]; ok {
				if n, ok := tv.Type.(*types.Named); ok && n.Obj() == c.pool.Obj() {
					if a.classValue(call.Args[0], k) {
						return &fuXfer{call: call, kind: "release", arg: call.Args[0]}
					}
					return nil
				}
			}
		}
		// readableFragment.done()
		if sel.Sel.Name == "done" && len(call.Args) == 0 {
			t := c.info.TypeOf(sel.X)
			if p, ok := t.(*types.Pointer); ok {
				t = p.Elem()
			}
			if n, ok := t.(*types.Named); ok && n.Obj().Name() == "readableFragment" && a.classValue(sel.X, k) {
				return &fuXfer{call: call, kind: "done", arg: sel.X}
			}
		}
	}
	key, fn := c.calleeKey(call)
	if key == "" {
		return nil
	}
	tr := c.transferring[key]
	if len(tr) == 0 {
		return nil
	}
	_ = fn
	for i, arg := range call.Args {
		if tr[i] && a.classValue(arg, k) {
			return &fuXfer{call: call, kind: "call", callee: key, arg: arg}
		}
	}
	if tr[-1] {
		if sel, ok := ast.Unparen(call.Fun).(*ast.SelectorExpr); ok && a.classValue(sel.X, k) {
			return &fuXfer{call: call, kind: "call", callee: key, arg: sel.X}
		}
	}
	return nil
}

// findTransfers: all hand-over calls of class k inside n (closures excluded)
func (a *fuAn) findTransfers(n ast.Node, k int) []*fuXfer {
	var out []*fuXfer
	if n == nil {
		return nil
	}
	ast.Inspect(n, func(m ast.Node) bool {
		if _, ok := m.(*ast.FuncLit); ok {
			return false
		}
		if call, ok := m.(*ast.CallExpr); ok {
			if x := a.transferOf(call, k); x != nil {
				out = append(out, x)
			}
		}
		return true
	})
	return out
}

// ---------------------------------------------------------------- translation

func fuSkip() *fuNode { return &fuNode{op: "skip"} }

func fuSeq(ns ...*fuNode) *fuNode {
	var kids []*fuNode
	for _, n := range ns {
		if n == nil || n.op == "skip" {
			continue
		}
		if n.op == "seq" {
			kids = append(kids, n.kids...)
		} else {
			kids = append(kids, n)
		}
	}
	if len(kids) == 0 {
		return fuSkip()
	}
	if len(kids) == 1 {
		return kids[0]
	}
	return &fuNode{op: "seq", kids: kids}
}

func (a *fuAn) use(n ast.Node) *fuNode {
	return &fuNode{op: "use", s1: fuShort(a.c.t.src(n), 70)}
}

func (a *fuAn) unsupported(n ast.Node, why string) *fuNode {
	return &fuNode{op: "unsupported", s1: fuShort(why+": "+a.c.t.src(n), 90)}
}

func (a *fuAn) useIf(n ast.Node, exclude ast.Node) *fuNode {
	if n != nil && a.mentions(n, a.cls, exclude) {
		return a.use(n)
	}
	return fuSkip()
}

// rexp: classification of a returned / assigned expression of bool or error type
func (a *fuAn) rexp(e ast.Expr, t types.Type) fuRexp {
	if !fuIsBoolType(t) && !fuIsErrorType(t) {
		return fuRexp{kind: 2}
	}
	e = ast.Unparen(e)
	if fuIsNil(a.c.info, e) {
		return fuRexp{kind: 0, b: false}
	}
	if tv, ok := a.c.info.Types[e]; ok && tv.Value != nil && fuIsBoolType(tv.Type) {
		return fuRexp{kind: 0, b: tv.Value.String() == "true"}
	}
	if id, ok := e.(*ast.Ident); ok {
		o := a.obj(id)
		if v, isVar := o.(*types.Var); isVar {
			if v.Parent() == v.Pkg().Scope() && fuIsErrorType(v.Type()) {
				return fuRexp{kind: 0, b: true} // package-level error value: non-nil
			}
			return fuRexp{kind: 1, x: a.vname(o)}
		}
		return fuRexp{kind: 2}
	}
	if _, ok := e.(*ast.SelectorExpr); ok {
		if p := fuPath(e); p != "" {
			return fuRexp{kind: 1, x: p}
		}
	}
	if call, ok := e.(*ast.CallExpr); ok && fuIsErrorType(t) && fuNonNilFuncs[fuPath(call.Fun)] {
		return fuRexp{kind: 0, b: true}
	}
	return fuRexp{kind: 2}
}

// test: classification of a condition
func (a *fuAn) testOf(e ast.Expr) fuTest {
	e = ast.Unparen(e)
	info := a.c.info
	switch x := e.(type) {
	case *ast.UnaryExpr:
		if x.Op == token.NOT {
			t := a.testOf(x.X)
			if t.kind == 1 {
				t.b = !t.b
				return t
			}
			return fuTest{}
		}
	case *ast.BinaryExpr:
		if x.Op == token.EQL || x.Op == token.NEQ {
			l, r := x.X, x.Y
			if fuIsNil(info, l) {
				l, r = r, l
			}
			if fuIsErrorType(info.TypeOf(l)) {
				if n := a.trackedName(l); n != "" {
					if fuIsNil(info, r) {
						return fuTest{kind: 1, x: n, b: x.Op == token.NEQ}
					}
					// err == <package-level error>: then-branch knows err is non-nil
					if id, ok := ast.Unparen(r).(*ast.Ident); ok && x.Op == token.EQL {
						if v, ok := info.Uses[id].(*types.Var); ok && v.Parent() == v.Pkg().Scope() {
							return fuTest{kind: 2, x: n, b: true}
						}
					}
				}
			}
		}
		return fuTest{}
	case *ast.Ident, *ast.SelectorExpr:
		if fuIsBoolType(info.TypeOf(e)) {
			if tv, ok := info.Types[e]; ok && tv.Value != nil {
				return fuTest{}
			}
			if n := a.trackedName(e); n != "" {
				return fuTest{kind: 1, x: n, b: true}
			}
		}
	}
	return fuTest{}
}

func (a *fuAn) lhsNames(lhs []ast.Expr) []string {
	var out []string
	for _, l := range lhs {
		out = append(out, a.trackedName(l))
	}
	return out
}

// sets: FSet for every bool / error variable assigned by lhs := rhs (unknown unless literal)
func (a *fuAn) sets(lhs []ast.Expr, rhs []ast.Expr, skip string) *fuNode {
	var ns []*fuNode
	for i, l := range lhs {
		t := a.c.info.TypeOf(l)
		if t == nil {
			if id, ok := l.(*ast.Ident); ok {
				if o := a.c.info.Defs[id]; o != nil {
					t = o.Type()
				}
			}
		}
		if !fuIsBoolType(t) && !fuIsErrorType(t) {
			continue
		}
		n := a.trackedName(l)
		if n == "" || n == skip {
			continue
		}
		rx := fuRexp{kind: 2}
		if len(rhs) == len(lhs) {
			rx = a.rexp(rhs[i], t)
		}
		ns = append(ns, &fuNode{op: "set", s1: n, rx: []fuRexp{rx}})
	}
	return fuSeq(ns...)
}

func (a *fuAn) site(n ast.Node, kind, target string) {
	a.ntrans++
	a.c.sites = append(a.c.sites, fuSite{
		file: filepath.Base(a.c.t.fset.Position(n.Pos()).Filename), pos: int(n.Pos()), fn: a.fn, kind: kind, target: target})
}

// xferNode: the node of a recognised hand-over call (uses in the other arguments first)
func (a *fuAn) xferNode(x *fuXfer, res []string) *fuNode {
	var pre []*fuNode
	for _, arg := range x.call.Args {
		if arg != x.arg && a.mentions(arg, a.cls, nil) {
			pre = append(pre, a.use(arg))
		}
	}
	if sel, ok := ast.Unparen(x.call.Fun).(*ast.SelectorExpr); ok && ast.Expr(sel.X) != x.arg && a.mentions(sel.X, a.cls, nil) {
		pre = append(pre, a.use(sel.X))
	}
	var n *fuNode
	switch x.kind {
	case "release":
		n = &fuNode{op: "xfer", k: 2, s1: fuShort(a.c.t.src(x.arg), 60)}
		a.site(x.call, "Release", "")
	case "done":
		n = &fuNode{op: "xfer", k: 4, s1: fuShort(a.c.t.src(x.arg), 60)}
		a.site(x.call, "done", "")
	default:
		n = &fuNode{op: "call", s1: x.callee, strs: res}
		a.ntrans++
	}
	return fuSeq(append(pre, n)...)
}

// simple statement
func (a *fuAn) simple(s ast.Stmt) *fuNode {
	if s == nil {
		return fuSkip()
	}
	k := a.cls
	c := a.c
	xs := a.findTransfers(s, k)
	if len(xs) > 1 {
		return a.unsupported(s, "several hand-overs in one statement")
	}
	switch x := s.(type) {
	case *ast.ExprStmt:
		if len(xs) == 1 {
			if ast.Unparen(x.X) != ast.Expr(xs[0].call) {
				return a.unsupported(s, "hand-over nested in an expression")
			}
			return a.xferNode(xs[0], nil)
		}
		return fuSeq(a.closures(s), a.useIfNoClosure(s))
	case *ast.AssignStmt:
		if len(xs) == 1 {
			if len(x.Rhs) != 1 || ast.Unparen(x.Rhs[0]) != ast.Expr(xs[0].call) {
				return a.unsupported(s, "hand-over nested in an expression")
			}
			return a.xferNode(xs[0], a.lhsNames(x.Lhs))
		}
		return a.assign(s, x.Lhs, x.Rhs)
	case *ast.DeclStmt:
		gd, ok := x.Decl.(*ast.GenDecl)
		if !ok || gd.Tok != token.VAR {
			return fuSkip()
		}
		var ns []*fuNode
		for _, sp := range gd.Specs {
			vs := sp.(*ast.ValueSpec)
			var lhs []ast.Expr
			for _, id := range vs.Names {
				lhs = append(lhs, id)
			}
			if len(vs.Values) == 0 {
				// zero values: false / nil
				for _, id := range vs.Names {
					if o := c.info.Defs[id]; o != nil && (fuIsBoolType(o.Type()) || fuIsErrorType(o.Type())) {
						ns = append(ns, &fuNode{op: "set", s1: a.vname(o), rx: []fuRexp{{kind: 0, b: false}}})
					}
				}
				continue
			}
			if len(xs) == 1 {
				if len(vs.Values) != 1 || ast.Unparen(vs.Values[0]) != ast.Expr(xs[0].call) {
					return a.unsupported(s, "hand-over nested in an expression")
				}
				ns = append(ns, a.xferNode(xs[0], a.lhsNames(lhs)))
				continue
			}
			ns = append(ns, a.assign(s, lhs, vs.Values))
		}
		return fuSeq(ns...)
	case *ast.GoStmt:
		if len(xs) == 1 {
			return a.unsupported(s, "hand-over call in a go statement")
		}
		if a.mentions(x.Call, k, nil) {
			a.site(s, "go", fuLast(fuShort(c.t.src(x.Call.Fun), 50)))
			return &fuNode{op: "xfer", k: 3, s1: fuShort(c.t.src(x.Call.Fun), 50)}
		}
		return fuSkip()
	case *ast.SendStmt:
		if len(xs) == 1 {
			return a.unsupported(s, "hand-over nested in an expression")
		}
		if ch, ok := c.info.TypeOf(x.Chan).Underlying().(*types.Chan); ok && c.isFramePtr(ch.Elem()) && a.classValue(x.Value, k) {
			a.site(s, "send", fuLast(fuShort(c.t.src(x.Chan), 50)))
			return fuSeq(a.useIf(x.Chan, nil), &fuNode{op: "xfer", k: 1, s1: fuShort(c.t.src(x.Chan), 50)})
		}
		return a.useIf(s, nil)
	case *ast.IncDecStmt, *ast.EmptyStmt:
		return a.useIf(s, nil)
	case *ast.DeferStmt:
		return a.unsupported(s, "defer in this position")
	}
	if len(xs) == 1 {
		return a.unsupported(s, "hand-over in an unsupported statement")
	}
	return a.useIf(s, nil)
}

// closures inside a simple statement: a closure that mentions the class captures the frame (a
// use); a hand-over inside it is recorded as a site of kind "closure"
func (a *fuAn) closures(n ast.Node) *fuNode {
	var out []*fuNode
	ast.Inspect(n, func(m ast.Node) bool {
		fl, ok := m.(*ast.FuncLit)
		if !ok {
			return true
		}
		if a.mentions(fl.Body, a.cls, nil) {
			out = append(out, &fuNode{op: "use", s1: "closure captures: " + fuShort(a.c.t.src(fl), 50)})
			for _, x := range a.findTransfersDeep(fl.Body, a.cls) {
				kind := "closure call " + x.callee
				if x.kind == "release" {
					kind = "closure Release"
				} else if x.kind == "done" {
					kind = "closure done"
				}
				a.c.closureSites = append(a.c.closureSites, fuSite{
					file: filepath.Base(a.c.t.fset.Position(x.call.Pos()).Filename), pos: int(x.call.Pos()), fn: a.fn, kind: kind})
			}
		}
		return false
	})
	return fuSeq(out...)
}

func (a *fuAn) findTransfersDeep(n ast.Node, k int) []*fuXfer {
	var out []*fuXfer
	ast.Inspect(n, func(m ast.Node) bool {
		if call, ok := m.(*ast.CallExpr); ok {
			if x := a.transferOf(call, k); x != nil {
				out = append(out, x)
			}
		}
		return true
	})
	return out
}

// useIfNoClosure: a use if the statement mentions the class outside closures
func (a *fuAn) useIfNoClosure(n ast.Node) *fuNode {
	found := false
	var walk func(m ast.Node) bool
	walk = func(m ast.Node) bool {
		if _, ok := m.(*ast.FuncLit); ok {
			return false
		}
		return true
	}
	_ = walk
	// mentions() descends into closures; cut them out by checking each non-closure child
	var check func(m ast.Node)
	check = func(m ast.Node) {
		if m == nil || found {
			return
		}
		if _, ok := m.(*ast.FuncLit); ok {
			return
		}
		hasLit := false
		ast.Inspect(m, func(x ast.Node) bool {
			if _, ok := x.(*ast.FuncLit); ok {
				hasLit = true
			}
			return !hasLit
		})
		if !hasLit {
			if a.mentions(m, a.cls, nil) {
				found = true
			}
			return
		}
		first := true
		ast.Inspect(m, func(x ast.Node) bool {
			if first {
				first = false
				return true
			}
			if x != nil {
				check(x)
			}
			return false
		})
	}
	check(n)
	if found {
		return a.use(n)
	}
	return fuSkip()
}

// assign: lhs = rhs without a hand-over call
func (a *fuAn) assign(s ast.Node, lhs, rhs []ast.Expr) *fuNode {
	k := a.cls
	c := a.c
	var ns []*fuNode
	rhsMentions := false
	for _, r := range rhs {
		if a.mentions(r, k, nil) {
			rhsMentions = true
		}
	}
	bound := false
	used := false
	boundErr := ""
	for i, l := range lhs {
		if a.isMemberExact(l, k) {
			// assignment to the variable itself
			lt := c.info.TypeOf(l)
			if lt == nil {
				if id, ok := l.(*ast.Ident); ok {
					if o := c.info.Defs[id]; o != nil {
						lt = o.Type()
					}
				}
			}
			var r ast.Expr
			if len(rhs) == len(lhs) {
				r = rhs[i]
			} else if len(rhs) == 1 {
				r = rhs[0]
			}
			if r != nil && !a.mentions(r, k, nil) && c.isCarrier(lt) && a.isRootMember(l, k) {
				if fuIsNil(c.info, r) {
					continue
				}
				errv := ""
				if len(lhs) > 1 && len(rhs) == 1 {
					last := lhs[len(lhs)-1]
					lastT := c.info.TypeOf(last)
					if lastT == nil {
						if id, ok := last.(*ast.Ident); ok {
							if o := c.info.Defs[id]; o != nil {
								lastT = o.Type()
							}
						}
					}
					if fuIsErrorType(lastT) {
						errv = a.trackedName(last)
					}
				}
				ns = append(ns, &fuNode{op: "bind", s1: fuShort(c.t.src(r), 60), s2: errv})
				bound = true
				boundErr = errv
			}
			continue
		}
		if a.mentions(l, k, nil) {
			used = true // a write through the frame: f.Header.ID = x
		}
	}
	if rhsMentions && !bound {
		// a pure alias (x := cr.Frame, frame := fragment.frame) is not a use
		pure := true
		for _, r := range rhs {
			if a.mentions(r, k, nil) && !(a.isPathExpr(r) && (c.isCarrier(c.info.TypeOf(r)) || c.isView(c.info.TypeOf(r)))) {
				pure = false
			}
		}
		if !pure {
			used = true
		}
	}
	cl := a.closures(s)
	if used {
		ns = append([]*fuNode{a.use(s)}, ns...)
	}
	ns = append([]*fuNode{cl}, ns...)
	ns = append(ns, a.sets(lhs, rhs, boundErr))
	return fuSeq(ns...)
}

func (a *fuAn) isPathExpr(e ast.Expr) bool { return fuPath(e) != "" }

// isRootMember: l is a carrier variable of the class, or the root path of a heap class (not a view)
func (a *fuAn) isRootMember(l ast.Expr, k int) bool {
	l = ast.Unparen(l)
	if id, ok := l.(*ast.Ident); ok {
		o := a.obj(id)
		if o == nil {
			return false
		}
		return a.c.isCarrier(o.Type())
	}
	return a.c.isCarrier(a.c.info.TypeOf(l))
}

func (a *fuAn) retNode(lbl string, vs []fuRexp, carrier bool) *fuNode {
	var ns []*fuNode
	for i := len(a.defers) - 1; i >= 0; i-- {
		ns = append(ns, a.defers[i])
	}
	ns = append(ns, &fuNode{op: "ret", s1: lbl, rx: vs, flag: carrier})
	return fuSeq(ns...)
}

func (a *fuAn) resultTypes() []types.Type {
	var out []types.Type
	if a.fd.Type.Results == nil {
		return nil
	}
	for _, f := range a.fd.Type.Results.List {
		t := a.c.info.TypeOf(f.Type)
		n := len(f.Names)
		if n == 0 {
			n = 1
		}
		for i := 0; i < n; i++ {
			out = append(out, t)
		}
	}
	return out
}

func (a *fuAn) ret(s *ast.ReturnStmt) *fuNode {
	c := a.c
	k := a.cls
	rts := a.resultTypes()
	lbl := fuShort(c.t.src(s), 60)
	if len(s.Results) == 0 {
		var vs []fuRexp
		for _, n := range a.named {
			vs = append(vs, fuRexp{kind: 1, x: n})
		}
		if len(a.named) == 0 {
			for range rts {
				vs = append(vs, fuRexp{kind: 2})
			}
		}
		return a.retNode(lbl, vs, false)
	}
	// return f(args...) with several results
	if len(s.Results) == 1 && len(rts) >= 1 {
		if call, ok := ast.Unparen(s.Results[0]).(*ast.CallExpr); ok {
			// inlined closure
			if sel, ok := ast.Unparen(call.Fun).(*ast.SelectorExpr); ok && fuInlineClosureCallers[sel.Sel.Name] && len(call.Args) == 1 {
				if fl, ok := ast.Unparen(call.Args[0]).(*ast.FuncLit); ok {
					return fuSeq(a.useIf(sel.X, nil), a.block(fl.Body.List, false))
				}
			}
			if xs := a.findTransfers(s, k); len(xs) == 1 && xs[0].call == call {
				var res []string
				var vs []fuRexp
				for i := range rts {
					n := fmt.Sprintf("$r%d", i)
					res = append(res, n)
					vs = append(vs, fuRexp{kind: 1, x: n})
				}
				var pre []*fuNode
				pre = append(pre, a.xferNode(xs[0], res))
				for i, n := range a.named {
					pre = append(pre, &fuNode{op: "set", s1: n, rx: []fuRexp{vs[i]}})
				}
				return fuSeq(append(pre, a.retNode(lbl, vs, false))...)
			}
		}
	}
	if xs := a.findTransfers(s, k); len(xs) > 0 {
		return a.unsupported(s, "hand-over nested in a return")
	}
	var vs []fuRexp
	carrier := false
	var pre []*fuNode
	if len(s.Results) != len(rts) {
		// return g() with a tuple: unknown values
		for range rts {
			vs = append(vs, fuRexp{kind: 2})
		}
		pre = append(pre, a.useIf(s, nil))
	} else {
		usedOther := false
		for i, r := range s.Results {
			if a.classValue(r, k) && a.isPathExprOrSel(r) {
				carrier = true
				vs = append(vs, fuRexp{kind: 2})
				continue
			}
			if a.mentions(r, k, nil) {
				usedOther = true
			}
			vs = append(vs, a.rexp(r, rts[i]))
		}
		if usedOther {
			pre = append(pre, a.use(s))
		}
	}
	pre = append(pre, a.closures(s))
	for i, n := range a.named {
		if i < len(vs) {
			pre = append(pre, &fuNode{op: "set", s1: n, rx: []fuRexp{vs[i]}})
		}
	}
	return fuSeq(append(pre, a.retNode(lbl, vs, carrier))...)
}

func (a *fuAn) isPathExprOrSel(e ast.Expr) bool { return fuPath(e) != "" }

func fuEndsInReturn(stmts []ast.Stmt) bool {
	if len(stmts) == 0 {
		return false
	}
	switch x := stmts[len(stmts)-1].(type) {
	case *ast.ReturnStmt:
		return true
	case *ast.ExprStmt:
		if call, ok := x.X.(*ast.CallExpr); ok {
			if id, ok := call.Fun.(*ast.Ident); ok && id.Name == "panic" {
				return true
			}
		}
	}
	return false
}

// deferred: the body of a defer statement
func (a *fuAn) deferred(d *ast.DeferStmt) *fuNode {
	if fl, ok := ast.Unparen(d.Call.Fun).(*ast.FuncLit); ok && len(d.Call.Args) == 0 {
		hasRet := false
		ast.Inspect(fl.Body, func(n ast.Node) bool {
			if _, ok := n.(*ast.ReturnStmt); ok {
				hasRet = true
			}
			return true
		})
		if hasRet && a.mentions(fl.Body, a.cls, nil) {
			return a.unsupported(d, "return inside a deferred closure")
		}
		if !a.mentions(fl.Body, a.cls, nil) && len(a.findTransfersDeep(fl.Body, a.cls)) == 0 {
			return fuSkip()
		}
		saved := a.defers
		a.defers = nil
		n := a.block(fl.Body.List, true)
		a.defers = saved
		return n
	}
	return a.simple(&ast.ExprStmt{X: d.Call})
}

// block: a statement list; fnBody: falls through to the end of the function / closure
func (a *fuAn) block(stmts []ast.Stmt, inner bool) *fuNode {
	saved := len(a.defers)
	var seq []*fuNode
	for i, s := range stmts {
		if d, ok := s.(*ast.DeferStmt); ok {
			if a.loop > 0 {
				seq = append(seq, a.unsupported(d, "defer inside a loop"))
				continue
			}
			n := a.deferred(d)
			if n.op != "skip" {
				a.defers = append(a.defers, n)
			}
			continue
		}
		// an unlabelled break as the last statement of a switch clause
		if b, ok := s.(*ast.BranchStmt); ok && b.Tok == token.BREAK && b.Label == nil && a.inSw > 0 && i == len(stmts)-1 && a.swClause {
			continue
		}
		seq = append(seq, a.stmt(s))
	}
	if len(a.defers) > saved && inner && !fuEndsInReturn(stmts) {
		seq = append(seq, &fuNode{op: "unsupported", s1: "defer registered in a block that can fall through"})
	}
	if !inner {
		// end of the function body / inlined closure
		if !fuEndsInReturn(stmts) {
			var vs []fuRexp
			for _, n := range a.named {
				vs = append(vs, fuRexp{kind: 1, x: n})
			}
			if len(a.named) == 0 {
				for range a.resultTypes() {
					vs = append(vs, fuRexp{kind: 2})
				}
			}
			seq = append(seq, a.retNode("end", vs, false))
		}
	}
	a.defers = a.defers[:saved]
	return fuSeq(seq...)
}

func (a *fuAn) clauseBlock(stmts []ast.Stmt) *fuNode {
	saved := a.swClause
	a.swClause = true
	n := a.block(stmts, true)
	a.swClause = saved
	return n
}

func (a *fuAn) nested(stmts []ast.Stmt) *fuNode {
	saved := a.swClause
	a.swClause = false
	n := a.block(stmts, true)
	a.swClause = saved
	return n
}

func fuAlt(alts []*fuNode) *fuNode {
	if len(alts) == 0 {
		return fuSkip()
	}
	if len(alts) == 1 {
		return alts[0]
	}
	return &fuNode{op: "alt", kids: []*fuNode{alts[0], fuAlt(alts[1:])}}
}

func (a *fuAn) stmt(s ast.Stmt) *fuNode {
	k := a.cls
	switch x := s.(type) {
	case *ast.BlockStmt:
		return a.nested(x.List)
	case *ast.IfStmt:
		init := a.simple(x.Init)
		if xs := a.findTransfers(x.Cond, k); len(xs) > 0 {
			return a.unsupported(x.Cond, "hand-over inside a condition")
		}
		cu := a.useIf(x.Cond, nil)
		t := a.testOf(x.Cond)
		th := a.nested(x.Body.List)
		el := fuSkip()
		if x.Else != nil {
			el = a.stmt(x.Else)
		}
		return fuSeq(init, cu, &fuNode{op: "if", test: t, kids: []*fuNode{th, el}})
	case *ast.SwitchStmt:
		init := a.simple(x.Init)
		var tu *fuNode = fuSkip()
		if x.Tag != nil {
			if xs := a.findTransfers(x.Tag, k); len(xs) > 0 {
				return a.unsupported(x.Tag, "hand-over inside a switch tag")
			}
			tu = a.useIf(x.Tag, nil)
		}
		a.inSw++
		savedLoop := a.loop
		var alts []*fuNode
		hasDefault := false
		for _, cl := range x.Body.List {
			cc := cl.(*ast.CaseClause)
			if cc.List == nil {
				hasDefault = true
			}
			var cu []*fuNode
			for _, e := range cc.List {
				if xs := a.findTransfers(e, k); len(xs) > 0 {
					cu = append(cu, a.unsupported(e, "hand-over inside a case expression"))
				}
				cu = append(cu, a.useIf(e, nil))
			}
			for _, st := range cc.Body {
				if b, ok := st.(*ast.BranchStmt); ok && b.Tok == token.FALLTHROUGH {
					cu = append(cu, a.unsupported(st, "fallthrough"))
				}
			}
			alts = append(alts, fuSeq(append(cu, a.clauseBlock(cc.Body))...))
		}
		a.loop = savedLoop
		a.inSw--
		if !hasDefault {
			alts = append(alts, fuSkip())
		}
		return fuSeq(init, tu, fuAlt(alts))
	case *ast.TypeSwitchStmt:
		init := a.simple(x.Init)
		tu := a.useIf(x.Assign, nil)
		a.inSw++
		var alts []*fuNode
		hasDefault := false
		for _, cl := range x.Body.List {
			cc := cl.(*ast.CaseClause)
			if cc.List == nil {
				hasDefault = true
			}
			alts = append(alts, a.clauseBlock(cc.Body))
		}
		a.inSw--
		if !hasDefault {
			alts = append(alts, fuSkip())
		}
		return fuSeq(init, tu, fuAlt(alts))
	case *ast.SelectStmt:
		a.inSw++
		var alts []*fuNode
		for _, cl := range x.Body.List {
			cc := cl.(*ast.CommClause)
			var comm *fuNode = fuSkip()
			if cc.Comm != nil {
				comm = a.comm(cc.Comm)
			}
			alts = append(alts, fuSeq(comm, a.clauseBlock(cc.Body)))
		}
		a.inSw--
		if len(alts) == 0 {
			return fuSkip()
		}
		return fuAlt(alts)
	case *ast.ForStmt:
		init := a.simple(x.Init)
		a.loop++
		savedSw := a.inSw
		a.inSw = 0
		var cu *fuNode = fuSkip()
		if x.Cond != nil {
			if xs := a.findTransfers(x.Cond, k); len(xs) > 0 {
				cu = a.unsupported(x.Cond, "hand-over inside a loop condition")
			} else {
				cu = a.useIf(x.Cond, nil)
			}
		}
		body := a.nested(x.Body.List)
		post := a.simple(x.Post)
		a.inSw = savedSw
		a.loop--
		return fuSeq(init, &fuNode{op: "loop", kids: []*fuNode{fuSeq(cu, body, post)}})
	case *ast.RangeStmt:
		xu := a.useIf(x.X, nil)
		a.loop++
		savedSw := a.inSw
		a.inSw = 0
		body := a.nested(x.Body.List)
		a.inSw = savedSw
		a.loop--
		return fuSeq(xu, &fuNode{op: "loop", kids: []*fuNode{body}})
	case *ast.ReturnStmt:
		return a.ret(x)
	case *ast.BranchStmt:
		if x.Label != nil || x.Tok == token.GOTO || x.Tok == token.FALLTHROUGH {
			return a.unsupported(s, "labelled branch / goto")
		}
		if a.loop == 0 {
			return a.unsupported(s, "break outside a loop")
		}
		if x.Tok == token.BREAK {
			if a.inSw > 0 {
				return a.unsupported(s, "break inside switch / select")
			}
			return &fuNode{op: "jump", k: 0}
		}
		return &fuNode{op: "jump", k: 1}
	case *ast.LabeledStmt:
		if a.mentions(x, k, nil) {
			return a.unsupported(s, "labelled statement")
		}
		return fuSkip()
	case *ast.ExprStmt:
		// panic(...) ends the path: no further statement of the function runs
		if call, ok := x.X.(*ast.CallExpr); ok {
			if id, ok := call.Fun.(*ast.Ident); ok && id.Name == "panic" {
				if _, isb := a.c.info.Uses[id].(*types.Builtin); isb {
					var vs []fuRexp
					for range a.resultTypes() {
						vs = append(vs, fuRexp{kind: 2})
					}
					return fuSeq(a.useIf(call, nil), &fuNode{op: "ret", s1: "panic", rx: vs})
				}
			}
		}
	}
	return a.simple(s)
}

// comm: the communication of a select clause
func (a *fuAn) comm(s ast.Stmt) *fuNode {
	k := a.cls
	c := a.c
	switch x := s.(type) {
	case *ast.SendStmt:
		return a.simple(x)
	case *ast.AssignStmt:
		if len(x.Rhs) == 1 {
			if u, ok := ast.Unparen(x.Rhs[0]).(*ast.UnaryExpr); ok && u.Op == token.ARROW {
				if len(x.Lhs) >= 1 && a.isMemberExact(x.Lhs[0], k) && a.isRootMember(x.Lhs[0], k) {
					return &fuNode{op: "bind", s1: fuShort(c.t.src(x.Rhs[0]), 60)}
				}
			}
		}
		return a.simple(x)
	}
	return a.simple(s)
}

// ---------------------------------------------------------------- driver

func (c *fuCtx) analyse(fd *ast.FuncDecl, fn, recvT, file string, record bool) []fuRow {
	a := &fuAn{c: c, fd: fd, fn: fn, recvT: recvT, vars: map[types.Object]int{}, paths: map[string]int{},
		names: map[types.Object]string{}, used: map[string]types.Object{}}
	a.buildClasses()
	if fd.Type.Results != nil {
		for _, f := range fd.Type.Results.List {
			for _, id := range f.Names {
				if o := c.info.Defs[id]; o != nil && id.Name != "_" {
					a.named = append(a.named, a.vname(o))
				}
			}
		}
		if len(a.named) != 0 && len(a.named) != len(a.resultTypes()) {
			a.named = nil
		}
	}
	var rows []fuRow
	seen := map[int]bool{}
	var roots []int
	for k := range a.parent {
		r := a.find(k)
		if !seen[r] {
			seen[r] = true
			roots = append(roots, r)
		}
	}
	sort.Ints(roots)
	for _, k := range roots {
		a.cls = k
		a.ntrans = 0
		a.defers = nil
		a.loop, a.inSw = 0, 0
		nsites := len(c.sites)
		body := a.block(fd.Body.List, false)
		if a.ntrans == 0 {
			c.sites = c.sites[:nsites]
			continue
		}
		kind, name := a.classInfo(k)
		if kind == 0 {
			// parameters of this class hand the frame over: the function is "transferring"
			n := 0
			if fd.Type.Params != nil {
				for _, f := range fd.Type.Params.List {
					cnt := len(f.Names)
					if cnt == 0 {
						cnt = 1
					}
					for j := 0; j < cnt; j++ {
						if a.paramClass(n) == k {
							c.markTransferring(fn, n)
						}
						n++
					}
				}
			}
			if a.paramClass(-1) == k {
				c.markTransferring(fn, -1)
			}
		}
		if !record {
			c.sites = c.sites[:nsites]
		}
		rows = append(rows, fuRow{file: file, pos: int(fd.Pos()), fn: fn, cls: name, kind: kind, body: body})
	}
	return rows
}

var fuChanged bool

func (c *fuCtx) markTransferring(fn string, i int) {
	if c.transferring[fn] == nil {
		c.transferring[fn] = map[int]bool{}
	}
	if !c.transferring[fn][i] {
		c.transferring[fn][i] = true
		fuChanged = true
	}
}

func (t *translator) frameUse(w *bytes.Buffer) (nrows, nsites int) {
	scope := t.pkg.Types.Scope()
	fo, _ := scope.Lookup("Frame").(*types.TypeName)
	po, _ := scope.Lookup("FramePool").(*types.TypeName)
	if fo == nil || po == nil {
		failf("frameuse: Frame / FramePool not declared")
	}
	c := &fuCtx{t: t, info: t.pkg.TypesInfo, frame: fo.Type().(*types.Named), pool: po.Type().(*types.Named),
		carrier: map[*types.TypeName]bool{}, transferring: map[string]map[int]bool{}, impls: map[string][]string{}}
	// carrier struct types: a field of type Frame / *Frame (direct or embedded)
	for _, name := range scope.Names() {
		tn, ok := scope.Lookup(name).(*types.TypeName)
		if !ok || tn.IsAlias() {
			continue
		}
		if fsIsTest(filepath.Base(t.fset.Position(tn.Pos()).Filename)) {
			continue
		}
		if fuExtraCarriers[name] {
			c.carrier[tn] = true
			continue
		}
		st, ok := tn.Type().Underlying().(*types.Struct)
		if !ok {
			continue
		}
		for i := 0; i < st.NumFields(); i++ {
			if c.isFramePtr(st.Field(i).Type()) {
				c.carrier[tn] = true
			}
		}
	}
	// interface methods and their implementations (non-test types of the package)
	type fdecl struct {
		fd              *ast.FuncDecl
		fn, recvT, file string
	}
	var decls []fdecl
	for _, f := range t.pkg.Syntax {
		fname := filepath.Base(t.fset.Position(f.Pos()).Filename)
		if fsIsTest(fname) {
			continue
		}
		for _, d := range f.Decls {
			fd, ok := d.(*ast.FuncDecl)
			if !ok || fd.Body == nil {
				continue
			}
			fn := fsFuncName(fd)
			recvT := ""
			if i := strings.Index(fn, "."); i >= 0 {
				recvT = fn[:i]
			}
			// the pool implementations themselves are not users of the pool
			if tn, ok := scope.Lookup(recvT).(*types.TypeName); ok && recvT != "" {
				if pi, ok := c.pool.Underlying().(*types.Interface); ok &&
					(types.Implements(tn.Type(), pi) || types.Implements(types.NewPointer(tn.Type()), pi)) {
					continue
				}
			}
			decls = append(decls, fdecl{fd, fn, recvT, fname})
		}
	}
	sort.SliceStable(decls, func(i, j int) bool {
		if decls[i].file != decls[j].file {
			return decls[i].file < decls[j].file
		}
		return decls[i].fd.Pos() < decls[j].fd.Pos()
	})
	declared := map[string]bool{}
	for _, d := range decls {
		declared[d.fn] = true
	}
	for _, name := range scope.Names() {
		tn, ok := scope.Lookup(name).(*types.TypeName)
		if !ok {
			continue
		}
		it, ok := tn.Type().Underlying().(*types.Interface)
		if !ok || fsIsTest(filepath.Base(t.fset.Position(tn.Pos()).Filename)) {
			continue
		}
		for i := 0; i < it.NumMethods(); i++ {
			m := it.Method(i)
			key := name + "." + m.Name()
			for _, n2 := range scope.Names() {
				tn2, ok := scope.Lookup(n2).(*types.TypeName)
				if !ok || tn2 == tn {
					continue
				}
				if _, isIface := tn2.Type().Underlying().(*types.Interface); isIface {
					continue
				}
				if types.Implements(tn2.Type(), it) || types.Implements(types.NewPointer(tn2.Type()), it) {
					// the method may be promoted from an embedded struct: name it by its declaring type
					ms := types.NewMethodSet(types.NewPointer(tn2.Type()))
					sel := ms.Lookup(t.pkg.Types, m.Name())
					if sel == nil {
						continue
					}
					f, ok := sel.Obj().(*types.Func)
					if !ok {
						continue
					}
					rt := f.Type().(*types.Signature).Recv().Type()
					if p, ok := rt.(*types.Pointer); ok {
						rt = p.Elem()
					}
					rn, ok := rt.(*types.Named)
					if !ok {
						continue
					}
					im := rn.Obj().Name() + "." + m.Name()
					if !declared[im] {
						continue
					}
					dup := false
					for _, x := range c.impls[key] {
						if x == im {
							dup = true
						}
					}
					if !dup {
						c.impls[key] = append(c.impls[key], im)
					}
				}
			}
		}
	}
	// fixpoint over "transferring"
	var rows []fuRow
	for round := 0; round < 12; round++ {
		fuChanged = false
		rows = nil
		c.sites = nil
		c.closureSites = nil
		for _, d := range decls {
			rows = append(rows, c.analyse(d.fd, d.fn, d.recvT, d.file, true)...)
		}
		// an interface method hands over what one of its implementations hands over
		for key, impls := range c.impls {
			for _, im := range impls {
				for i := range c.transferring[im] {
					c.markTransferring(key, i)
				}
			}
		}
		if !fuChanged {
			break
		}
		if round == 11 {
			failf("frameuse: no fixpoint")
		}
	}

	fmt.Fprintf(w, "(* ownership discipline of pooled frames: one abstract program per (function, frame class)\n")
	fmt.Fprintf(w, "   that hands a frame over; see go2v/frameuse.go and Spec/FrameUseSpec.v.\n")
	fmt.Fprintf(w, "   row = (function, class name, kind (0 parameter / 1 local origin / 2 heap), body) *)\n")
	fmt.Fprintf(w, "Definition frame_use_table : list (str * str * Z * fu) := [\n")
	for i, r := range rows {
		sep := ";"
		if i == len(rows)-1 {
			sep = ""
		}
		fmt.Fprintf(w, "  (* %d: %s %s, class %s, kind %d *)\n  (%s, %s, %d,\n%s)%s\n", i+1, r.file, r.fn, r.cls, r.kind,
			strlit(r.fn), strlit(r.cls), r.kind, fuPrint(r.body, "   "), sep)
	}
	fmt.Fprintf(w, "].\n\n")

	c.sites = append(c.sites, c.closureSites...)
	sort.SliceStable(c.sites, func(i, j int) bool {
		if c.sites[i].file != c.sites[j].file {
			return c.sites[i].file < c.sites[j].file
		}
		return c.sites[i].pos < c.sites[j].pos
	})
	// the same statement is visited once per class it mentions and once per round: de-duplicate
	var sites []fuSite
	for _, s := range c.sites {
		if len(sites) > 0 {
			l := sites[len(sites)-1]
			if l.file == s.file && l.pos == s.pos && l.kind == s.kind {
				continue
			}
		}
		sites = append(sites, s)
	}
	// hand-overs of an unnamed frame: Release(<-ch), ch <- pool.Get()
	for _, d := range decls {
		ast.Inspect(d.fd.Body, func(n ast.Node) bool {
			call, ok := n.(*ast.CallExpr)
			if !ok {
				return true
			}
			sel, ok := ast.Unparen(call.Fun).(*ast.SelectorExpr)
			if !ok || sel.Sel.Name != "Release" || len(call.Args) != 1 {
				return true
			}
			tv, ok := c.info.Types[sel.X]
			if !ok {
				return true
			}
			if nm, ok := tv.Type.(*types.Named); !ok || nm.Obj() != c.pool.Obj() {
				return true
			}
			if fuPath(call.Args[0]) == "" {
				tg := fuShort(t.src(call.Args[0]), 50)
				if u, ok := ast.Unparen(call.Args[0]).(*ast.UnaryExpr); ok && u.Op == token.ARROW {
					tg = "<-" + fuLast(fuShort(t.src(u.X), 50))
				}
				sites = append(sites, fuSite{file: d.file, pos: int(call.Pos()), fn: d.fn, kind: "Release", target: tg})
			}
			return true
		})
	}
	sort.SliceStable(sites, func(i, j int) bool {
		if sites[i].file != sites[j].file {
			return sites[i].file < sites[j].file
		}
		return sites[i].pos < sites[j].pos
	})
	fmt.Fprintf(w, "(* every primitive hand-over statement: (function, kind, target) in source order;\n")
	fmt.Fprintf(w, "   kind: send / Release / go / done, \"closure ..\" = inside a closure stored for later *)\n")
	fmt.Fprintf(w, "Definition frame_xfer_sites : list (str * str * str) := [\n")
	for i, s := range sites {
		sep := ";"
		if i == len(sites)-1 {
			sep = ""
		}
		fmt.Fprintf(w, "  (* %s %s: %s %s *) (%s, %s, %s)%s\n", s.file, s.fn, s.kind, fuComment(s.target), strlit(s.fn), strlit(s.kind), strlit(s.target), sep)
	}
	fmt.Fprintf(w, "].\n\n")

	// frames stored into the heap: X.field = f, T{field: f}, append(s, f) with f of carrier type.
	// Not hand-overs by themselves, but the frame can then be reached from other functions: the
	// list is pinned in Model/FrameUse.v, a new store has to be reviewed.
	type esc struct {
		file     string
		pos      int
		fn, what string
	}
	var escs []esc
	for _, d := range decls {
		d := d
		isStorable := func(e ast.Expr) bool {
			e = ast.Unparen(e)
			if u, ok := e.(*ast.UnaryExpr); ok && u.Op == token.AND {
				e = ast.Unparen(u.X)
			}
			if fuIsNil(c.info, e) {
				return false
			}
			if _, isCall := e.(*ast.CallExpr); isCall {
				return false // a fresh value from a constructor: whoever built it stored the frame
			}
			if _, isLit := e.(*ast.CompositeLit); isLit {
				return false
			}
			return c.isCarrier(c.info.TypeOf(e))
		}
		ast.Inspect(d.fd.Body, func(n ast.Node) bool {
			switch x := n.(type) {
			case *ast.AssignStmt:
				if len(x.Lhs) != len(x.Rhs) {
					return true
				}
				for i, l := range x.Lhs {
					l = ast.Unparen(l)
					_, isSel := l.(*ast.SelectorExpr)
					_, isIdx := l.(*ast.IndexExpr)
					if (isSel || isIdx) && c.isCarrier(c.info.TypeOf(l)) && isStorable(x.Rhs[i]) {
						fld := fuLast(fuShort(t.src(l), 60))
						if ix, ok := l.(*ast.IndexExpr); ok {
							fld = fuLast(fuShort(t.src(ix.X), 60)) + "[]"
						}
						escs = append(escs, esc{d.file, int(x.Pos()), d.fn, fld})
					}
				}
			case *ast.KeyValueExpr:
				if id, ok := x.Key.(*ast.Ident); ok && isStorable(x.Value) {
					if _, isField := c.info.Uses[id].(*types.Var); isField || c.info.Uses[id] == nil {
						escs = append(escs, esc{d.file, int(x.Pos()), d.fn, id.Name})
					}
				}
			case *ast.CallExpr:
				if id, ok := ast.Unparen(x.Fun).(*ast.Ident); ok && id.Name == "append" {
					if _, isb := c.info.Uses[id].(*types.Builtin); isb {
						for _, a := range x.Args[1:] {
							if isStorable(a) {
								escs = append(escs, esc{d.file, int(x.Pos()), d.fn, "append " + fuLast(fuShort(t.src(x.Args[0]), 60))})
							}
						}
					}
				}
			}
			return true
		})
	}
	sort.SliceStable(escs, func(i, j int) bool {
		if escs[i].file != escs[j].file {
			return escs[i].file < escs[j].file
		}
		return escs[i].pos < escs[j].pos
	})
	fmt.Fprintf(w, "(* stores of a frame (or a frame-bearing struct) into the heap: (function, field) *)\n")
	fmt.Fprintf(w, "Definition frame_escapes : list (str * str) := [\n")
	for i, e := range escs {
		sep := ";"
		if i == len(escs)-1 {
			sep = ""
		}
		fmt.Fprintf(w, "  (* %s %s: %s *) (%s, %s)%s\n", e.file, e.fn, fuComment(e.what), strlit(e.fn), strlit(e.what), sep)
	}
	fmt.Fprintf(w, "].\n\n")

	var keys []string
	for k := range c.impls {
		if len(c.transferring[k]) > 0 {
			keys = append(keys, k)
		}
	}
	sort.Strings(keys)
	fmt.Fprintf(w, "(* interface methods that hand a frame over, with their implementations *)\n")
	fmt.Fprintf(w, "Definition frame_use_impls : list (str * list str) := [\n")
	for i, k := range keys {
		sep := ";"
		if i == len(keys)-1 {
			sep = ""
		}
		im := append([]string{}, c.impls[k]...)
		sort.Strings(im)
		var parts []string
		for _, x := range im {
			parts = append(parts, strlit(x))
		}
		fmt.Fprintf(w, "  (* %s: %s *) (%s, [%s])%s\n", k, strings.Join(im, ", "), strlit(k), strings.Join(parts, "; "), sep)
	}
	fmt.Fprintf(w, "].\n")
	return len(rows), len(sites)
}

// a Coq comment must not contain an unterminated string
func fuComment(s string) string { return strings.ReplaceAll(fsComment(s), "\"", "'") }

func fuB(b bool) string {
	if b {
		return "true"
	}
	return "false"
}

func fuRexpStr(r fuRexp) string {
	switch r.kind {
	case 0:
		return "RLit " + fuB(r.b)
	case 1:
		return "RVar " + strlit(r.x)
	}
	return "RUnk"
}

func fuPrint(n *fuNode, ind string) string {
	cm := func(s string) string { return "(* " + fuComment(s) + " *) " }
	switch n.op {
	case "skip":
		return ind + "FSkip"
	case "use":
		return ind + cm(n.s1) + "FUse " + strlit(n.s1)
	case "bind":
		return ind + cm("bind "+n.s1+" / "+n.s2) + "FBind " + strlit(n.s1) + " " + strlit(n.s2)
	case "xfer":
		return ind + cm(fmt.Sprintf("hand-over %d %s", n.k, n.s1)) + fmt.Sprintf("FXfer %d %s", n.k, strlit(n.s1))
	case "call":
		var parts []string
		for _, s := range n.strs {
			parts = append(parts, strlit(s))
		}
		return ind + cm("call "+n.s1+" -> "+strings.Join(n.strs, ",")) + "FCall " + strlit(n.s1) + " [" + strings.Join(parts, "; ") + "]"
	case "set":
		return ind + cm("set "+n.s1) + "FSet " + strlit(n.s1) + " (" + fuRexpStr(n.rx[0]) + ")"
	case "seq":
		var b strings.Builder
		for i, k := range n.kids {
			if i < len(n.kids)-1 {
				b.WriteString(ind + "FSeq (\n" + fuPrint(k, ind+" ") + ") (\n")
			} else {
				b.WriteString(fuPrint(k, ind+" "))
			}
		}
		b.WriteString(strings.Repeat(")", len(n.kids)-1))
		return b.String()
	case "if":
		t := "TOther"
		switch n.test.kind {
		case 1:
			t = "(TIs " + strlit(n.test.x) + " " + fuB(n.test.b) + ")"
		case 2:
			t = "(TImp " + strlit(n.test.x) + " " + fuB(n.test.b) + ")"
		}
		c := ""
		if n.test.kind != 0 {
			c = cm(fmt.Sprintf("if %s is %v", n.test.x, n.test.b))
		}
		return ind + c + "FIf " + t + " (\n" + fuPrint(n.kids[0], ind+" ") + ") (\n" + fuPrint(n.kids[1], ind+" ") + ")"
	case "alt":
		return ind + "FAlt (\n" + fuPrint(n.kids[0], ind+" ") + ") (\n" + fuPrint(n.kids[1], ind+" ") + ")"
	case "loop":
		return ind + "FLoop (\n" + fuPrint(n.kids[0], ind+" ") + ")"
	case "jump":
		return ind + fmt.Sprintf("FJump %d", n.k)
	case "ret":
		var parts []string
		for _, r := range n.rx {
			parts = append(parts, fuRexpStr(r))
		}
		return ind + cm(n.s1) + "FRet " + strlit(n.s1) + " [" + strings.Join(parts, "; ") + "] " + fuB(n.flag)
	case "unsupported":
		return ind + cm(n.s1) + "FUnsupported " + strlit(n.s1)
	}
	return ind + "FUnsupported " + strlit("internal: "+n.op)
}

// frameUseSafe: a failure of the extraction breaks C12 only
func (t *translator) frameUseSafe(w *bytes.Buffer, repo string) (nrows, nsites int) {
	defer func() {
		if r := recover(); r != nil {
			msg := fmt.Sprint(r)
			if f, ok := r.(failure); ok {
				msg = f.msg
			}
			w.Reset()
			fmt.Fprintf(w, header, repo)
			fmt.Fprintf(w, "(* EXTRACTION FAILED: %s *)\n", fsComment(msg))
			fmt.Printf("go2v: FRAME-USE EXTRACTION FAILED: %s\n", msg)
			nrows, nsites = 0, 0
		}
	}()
	return t.frameUse(w)
}
