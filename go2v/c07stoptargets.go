package main

// C07, fourth strengthening (GenC07Stop.v) -- the OPTIONAL components that Channel.Close and the
// connection teardown stop, and the admission re-checks anchored at their schedule points.
//
//	(1) idleSweep.start: the guard (c07SweepStartGuard: 1 = the poller is started) and what the
//	    started branch leaves in (started, #close(stopCh) on the current stopCh) (c07SweepStartSets:
//	    the statements after the guard up to `go is.pollerLoop()`; `is.stopCh = make(...)` is a fresh,
//	    open channel: closes := 0).
//	(2) idleSweep.Stop as a function (started, closes) -> (started, closes): the guard, the flag
//	    cleared, close(is.stopCh) counted.  A Stop that does not clear the flag, or closes before the
//	    guard, is a different function.
//	(3) Connection.stopHealthCheck: the first guard (c07StopHealthGuard: 0 = health checks are not
//	    enabled, return) and the statements after it (c07StopHealthRest: 0 = already cancelled, return;
//	    1 = healthCheckQuit() THEN <-healthCheckDone: the wait mentions the marker bound by the quit).
//	(4) Channel.Close: the statements of the locked closure after `defer ch.mutable.Unlock()` up to the
//	    snapshot loop, as (#l.Close(), #idleSweep.Stop(), state afterwards, channelClosed): the early
//	    return of a Closed channel comes BEFORE any component is stopped, the listener is closed only
//	    when there is one, Stop() is called exactly once and INSIDE the locked closure (a Stop moved
//	    behind the Unlock is not among these statements: stops = 0).
//	(5) the re-checks of handleCallReq / beginCall selected by POSITION (the statements between the
//	    schedule point after the registration and the next statement of the admitted path), not by
//	    their source text: a weakened or removed re-check yields a DIFFERENT definition (the text-
//	    selected targets callReqRecheck / beginCallRecheck of GenClose.v just disappear).
func init() {
	targets = append(targets, []Target{
		{Func: "idleSweep.start", Out: "c07SweepStartGuard", File: "GenC07Stop", Soft: true,
			Params: "(started : bool) (interval : Z)", Ret: "Z",
			Stmt: "if is.started || is.idleCheckInterval <= 0 {", Rest: "1", NakedRetW: "0",
			Hints: map[string]string{"is.started": "started", "is.idleCheckInterval": "interval"}},
		{Func: "idleSweep.start", Out: "c07SweepStartSets", File: "GenC07Stop", Soft: true,
			Params: "(started : bool) (closes : Z)", Ret: "bool * Z",
			Stmt: "if is.started || is.idleCheckInterval <= 0 {", After: true, Until: "go is.pollerLoop()",
			Rest:  "(started, closes)",
			LVals: map[string]string{"is.started": "started"},
			SHints: map[string]string{
				"is.ch.log.WithFields(...":        "",
				"is.stopCh = make(chan struct{})": "let closes := 0 in",
			}},
		{Func: "idleSweep.Stop", Out: "c07SweepStop", File: "GenC07Stop", Soft: true,
			Params: "(started : bool) (closes : Z)", Ret: "bool * Z",
			NakedRetW: "(started, closes)",
			LVals:     map[string]string{"is.started": "started"},
			SHints: map[string]string{
				"is.ch.log.Info(...": "",
				"close(is.stopCh)":   "let closes := closes + 1 in",
			}},
		{Func: "Connection.stopHealthCheck", Out: "c07StopHealthGuard", File: "GenC07Stop", Soft: true,
			Params: "(enabled : bool)", Ret: "Z",
			Stmt: "if c.healthCheckDone == nil {", Rest: "1", NakedRetW: "0",
			Hints: map[string]string{"c.healthCheckDone == nil": "(negb enabled)"}},
		{Func: "Connection.stopHealthCheck", Out: "c07StopHealthRest", File: "GenC07Stop", Soft: true,
			Params: "(cancelled : bool)", Ret: "Z",
			Stmt: "if c.healthCheckDone == nil {", After: true, Rest: "waited", NakedRetW: "0",
			Hints: map[string]string{"c.healthCheckCtx.Err() != nil": "cancelled"},
			SHints: map[string]string{
				"c.log.Debug(...":     "",
				"c.healthCheckQuit()": "let quit := 1 in",
				"<-c.healthCheckDone": "let waited := quit in",
			}},
		{Func: "Channel.Close", Out: "c07CloseRegion", File: "GenC07Stop", Soft: true,
			Params: "(has_l : bool) (nconns : Z) (cur : Z)", Ret: "Z * Z * Z * bool",
			Stmt: "defer ch.mutable.Unlock()", After: true, Until: "for _, c := range ch.mutable.conns {",
			Pre:       "let channelClosed := false in let lcloses := 0 in let stops := 0 in",
			Rest:      "(lcloses, stops, cur, channelClosed)",
			NakedRetW: "(lcloses, stops, cur, channelClosed)",
			LVals:     map[string]string{"ch.mutable.state": "cur"},
			Hints:     map[string]string{"ch.mutable.l != nil": "has_l", "len(ch.mutable.conns)": "nconns"},
			SHints: map[string]string{
				"ch.Logger().Info(...":        "",
				"ch.mutable.l.Close()":        "let lcloses := lcloses + 1 in",
				"ch.mutable.idleSweep.Stop()": "let stops := stops + 1 in",
			}},
		{Func: "Connection.handleCallReq", Out: "c07CallReqRecheckAt", File: "GenC07Stop", Soft: true,
			Params: "(cur : Z)", Ret: "Z",
			Stmt: "verifPoint(\"inbound.afterNewExchange\"", After: true, Until: "response := new(InboundCallResponse)",
			Rest:  "1",
			Hints: map[string]string{"c.readState()": "cur", "true": "shut_down"},
			SHints: map[string]string{
				"c.SendSystemError(frame.Header.ID, callReqSpan(frame), ErrChannelClosed)": "let sent_closed := 0 in",
				"mex.shutdown()": "let shut_down := sent_closed in",
			}},
		{Func: "Connection.beginCall", Out: "c07BeginCallRecheckAt", File: "GenC07Stop", Soft: true, RetIdx: 1,
			Params: "(cur : Z)", Ret: "Z",
			Stmt: "verifPoint(\"outbound.afterNewExchange\"", After: true, Until: "headers := transportHeaders{",
			Rest:   "1",
			Hints:  map[string]string{"c.readState()": "cur", "ErrConnectionClosed": "shut_down"},
			SHints: map[string]string{"mex.shutdown()": "let shut_down := 0 in"}},
	}...)
}
