package main

// ctxsites.go -- property C20: the table of CONTEXT-END CONSUMERS of package tchannel,
// extracted from the Go source on every run (Gen/GenCtxSites.v).
//
// A context's end (deadline exceeded / cancellation) is observed in exactly two ways:
//
//	X.Err()            with X a context.Context
//	case <-X.Done():   a comm clause of a select (or a bare receive)
//
// Every FUNCTION BODY and every FUNCTION LITERAL of the package is scanned (no call-graph
// restriction: a consumer anywhere in the package is in the table).  A row is one BRANCH that
// runs because the context ended:
//
//	KDone      the body of `case <-X.Done():`
//	KErrIf     the body of `if v := X.Err(); v != nil {`, `if X.Err() != nil {`,
//	           `if X.Err() == context.Canceled {` (when = WCanceled), `... == context.DeadlineExceeded`
//	KErrLoose  any other occurrence of X.Err() that no row above accounts for (the statement it
//	           occurs in is the "branch")
//
// For a branch the extraction follows the control flow (statements of the branch, then the
// statements that follow the enclosing statement, up to the end of the function; assignments
// to error variables are substituted) and records
//
//	cs_rets   for every `return` that can be reached: the ERROR RESULT as an expression over the
//	          context's error:  CxCtx (the context's error itself: X.Err() or a variable bound to
//	          it), CxConv e = GetContextError(e), CxWrap code e = NewWrappedSystemError(code, e),
//	          CxPass f e = f(e) for a function f that hands its argument back (checked: every
//	          return of f returns the parameter or a receiver field that f assigns the parameter
//	          to), CxVal name = a package-level error value, CxNil, CxOther src = anything else
//	cs_falls  the end of the function (or the next loop iteration) can be reached without a return
//	cs_calls  functions that are handed the context's error as an argument in the branch, each with
//	          the flag "the callee has no results and only compares the parameter (==, !=)"
//
// Logger calls are ignored.  This is a syntactic extraction (trusted base of C20's wait-site
// theorems): it does not follow the error through other functions' variables or fields.
import (
	"bytes"
	"fmt"
	"go/ast"
	"go/token"
	"go/types"
	"sort"
	"strings"
)

type cxRow struct {
	fn, pos, kind, when, text string
	rets                      []string
	retSrc                    []string
	falls                     bool
	calls                     []string
	at                        token.Pos
}

type cxAnalysis struct {
	t        *translator
	info     *types.Info
	consumed map[*ast.CallExpr]bool
	rows     []cxRow
	decl     map[*types.Func]*ast.FuncDecl
}

func isCtxLike(tp types.Type) bool {
	if tp == nil {
		return false
	}
	if isContext(tp) {
		return true
	}
	ms := types.NewMethodSet(tp)
	have := 0
	for _, m := range []string{"Done", "Err", "Deadline", "Value"} {
		for i := 0; i < ms.Len(); i++ {
			if ms.At(i).Obj().Name() == m {
				have++
				break
			}
		}
	}
	return have == 4
}

func (a *cxAnalysis) typeOf(e ast.Expr) types.Type {
	if tv, ok := a.info.Types[e]; ok {
		return tv.Type
	}
	return nil
}

// ctxMethod: e is X.<name>() with X a context
func (a *cxAnalysis) ctxMethod(e ast.Expr, name string) (*ast.CallExpr, bool) {
	for {
		p, ok := e.(*ast.ParenExpr)
		if !ok {
			break
		}
		e = p.X
	}
	call, ok := e.(*ast.CallExpr)
	if !ok || len(call.Args) != 0 {
		return nil, false
	}
	sel, ok := call.Fun.(*ast.SelectorExpr)
	if !ok || sel.Sel.Name != name || !isCtxLike(a.typeOf(sel.X)) {
		return nil, false
	}
	return call, true
}

func (a *cxAnalysis) isDoneRecv(s ast.Stmt) bool {
	var x ast.Expr
	switch c := s.(type) {
	case *ast.ExprStmt:
		x = c.X
	case *ast.AssignStmt:
		if len(c.Rhs) == 1 {
			x = c.Rhs[0]
		}
	}
	u, ok := x.(*ast.UnaryExpr)
	if !ok || u.Op != token.ARROW {
		return false
	}
	_, ok = a.ctxMethod(u.X, "Done")
	return ok
}

func cxLit(s string) string { return strlit(s) }

func (a *cxAnalysis) oneLine(n ast.Node) string {
	s := strings.Join(strings.Fields(a.t.src(n)), " ")
	if len(s) > 100 {
		s = s[:100] + "..."
	}
	s = strings.ReplaceAll(s, "\"", "'") // an unbalanced string quote would swallow the end of a Coq comment
	return strings.ReplaceAll(strings.ReplaceAll(s, "(*", "( *"), "*)", "* )")
}

func (a *cxAnalysis) calleeOf(call *ast.CallExpr) *types.Func {
	fun := call.Fun
	for {
		p, ok := fun.(*ast.ParenExpr)
		if !ok {
			break
		}
		fun = p.X
	}
	switch f := fun.(type) {
	case *ast.Ident:
		if fn, ok := a.info.Uses[f].(*types.Func); ok {
			return fn
		}
	case *ast.SelectorExpr:
		if sel, ok := a.info.Selections[f]; ok {
			if fn, ok := sel.Obj().(*types.Func); ok {
				return fn
			}
		} else if fn, ok := a.info.Uses[f.Sel].(*types.Func); ok {
			return fn
		}
	}
	return nil
}

func (a *cxAnalysis) fnName(fn *types.Func) string {
	sig := fn.Type().(*types.Signature)
	if r := sig.Recv(); r != nil {
		tp := r.Type()
		if p, ok := tp.(*types.Pointer); ok {
			tp = p.Elem()
		}
		if n, ok := tp.(*types.Named); ok {
			return n.Obj().Name() + "." + fn.Name()
		}
	}
	return fn.Name()
}

func isErrorType(tp types.Type) bool {
	if tp == nil {
		return false
	}
	n, ok := tp.(*types.Named)
	return ok && n.Obj().Pkg() == nil && n.Obj().Name() == "error"
}

// paramObj: the object of parameter idx of the declaration of fn (nil when not in this package)
func (a *cxAnalysis) paramObj(fn *types.Func, idx int) (*ast.FuncDecl, types.Object) {
	fd := a.decl[fn]
	if fd == nil || fd.Body == nil {
		return nil, nil
	}
	k := 0
	for _, f := range fd.Type.Params.List {
		for _, nm := range f.Names {
			if k == idx {
				return fd, a.info.Defs[nm]
			}
			k++
		}
		if len(f.Names) == 0 {
			k++
		}
	}
	return fd, nil
}

// passesArg: every return of fn hands back parameter idx (directly or through a receiver field
// that the function assigns the parameter to) as its error result
func (a *cxAnalysis) passesArg(fn *types.Func, idx int) bool {
	fd, p := a.paramObj(fn, idx)
	if fd == nil || p == nil {
		return false
	}
	sig := fn.Type().(*types.Signature)
	if sig.Results().Len() != 1 || !isErrorType(sig.Results().At(0).Type()) {
		return false
	}
	assigned := map[string]bool{}
	ast.Inspect(fd.Body, func(n ast.Node) bool {
		if as, ok := n.(*ast.AssignStmt); ok && as.Tok == token.ASSIGN && len(as.Lhs) == 1 && len(as.Rhs) == 1 {
			if id, ok := as.Rhs[0].(*ast.Ident); ok && a.info.Uses[id] == p {
				if _, ok := as.Lhs[0].(*ast.SelectorExpr); ok {
					assigned[a.t.src(as.Lhs[0])] = true
				}
			}
		}
		return true
	})
	ok, any := true, false
	ast.Inspect(fd.Body, func(n ast.Node) bool {
		if _, isLit := n.(*ast.FuncLit); isLit {
			return false
		}
		if r, isRet := n.(*ast.ReturnStmt); isRet {
			any = true
			if len(r.Results) != 1 {
				ok = false
				return true
			}
			if id, isID := r.Results[0].(*ast.Ident); isID && a.info.Uses[id] == p {
				return true
			}
			if _, isSel := r.Results[0].(*ast.SelectorExpr); isSel && assigned[a.t.src(r.Results[0])] {
				return true
			}
			ok = false
		}
		return true
	})
	return ok && any
}

// comparesOnly: fn has no results and uses parameter idx only as an operand of == / !=
func (a *cxAnalysis) comparesOnly(fn *types.Func, idx int) bool {
	fd, p := a.paramObj(fn, idx)
	if fd == nil || p == nil {
		return false
	}
	if fn.Type().(*types.Signature).Results().Len() != 0 {
		return false
	}
	inCmp := map[*ast.Ident]bool{}
	ast.Inspect(fd.Body, func(n ast.Node) bool {
		if b, ok := n.(*ast.BinaryExpr); ok && (b.Op == token.EQL || b.Op == token.NEQ) {
			for _, side := range []ast.Expr{b.X, b.Y} {
				if id, ok := side.(*ast.Ident); ok {
					inCmp[id] = true
				}
			}
		}
		return true
	})
	ok := true
	ast.Inspect(fd.Body, func(n ast.Node) bool {
		if id, isID := n.(*ast.Ident); isID && a.info.Uses[id] == p && !inCmp[id] {
			ok = false
		}
		return true
	})
	return ok
}

var cxLogMethods = map[string]bool{"Debug": true, "Debugf": true, "Info": true, "Infof": true, "Warn": true, "Warnf": true, "Error": true, "Errorf": true, "Fatal": true, "Fatalf": true}

func (a *cxAnalysis) isLogCall(call *ast.CallExpr) bool {
	sel, ok := call.Fun.(*ast.SelectorExpr)
	if !ok || !cxLogMethods[sel.Sel.Name] {
		return false
	}
	tp := a.typeOf(sel.X)
	return tp != nil && (isNamed(tp, a.t.pkg.Types.Path(), "Logger") || strings.HasSuffix(tp.String(), "Logger"))
}

type cxEnv map[types.Object]string

func (e cxEnv) copy() cxEnv {
	o := cxEnv{}
	for k, v := range e {
		o[k] = v
	}
	return o
}

// tr: an error expression over the context's error.  tainted = it mentions the context's error.
func (a *cxAnalysis) tr(e ast.Expr, env cxEnv) (term string, tainted bool) {
	switch x := e.(type) {
	case *ast.ParenExpr:
		return a.tr(x.X, env)
	case *ast.Ident:
		if x.Name == "nil" {
			return "CxNil", false
		}
		obj := a.info.Uses[x]
		if v, ok := env[obj]; ok {
			return v, strings.Contains(v, "CxCtx")
		}
		if v, ok := obj.(*types.Var); ok && v.Parent() == a.t.pkg.Types.Scope() {
			return "(CxVal " + cxLit(x.Name) + ")", false
		}
	case *ast.CallExpr:
		if c, ok := a.ctxMethod(x, "Err"); ok {
			a.consumed[c] = true
			return "CxCtx", true
		}
		if fn := a.calleeOf(x); fn != nil && fn.Pkg() == a.t.pkg.Types {
			name := a.fnName(fn)
			switch {
			case name == "GetContextError" && len(x.Args) == 1:
				in, t := a.tr(x.Args[0], env)
				return "(CxConv " + in + ")", t
			case name == "NewWrappedSystemError" && len(x.Args) == 2:
				if tv, ok := a.info.Types[x.Args[0]]; ok && tv.Value != nil {
					if lit, ok := zlit(tv.Value); ok {
						in, t := a.tr(x.Args[1], env)
						return "(CxWrap " + lit + " " + in + ")", t
					}
				}
			default:
				// a function that hands its (single tainted) argument back
				for i, arg := range x.Args {
					if in, t := a.tr(arg, env); t && a.passesArg(fn, i) {
						return "(CxPass " + cxLit(name) + " " + in + ")", true
					}
				}
			}
		}
	}
	// anything else: keep the source; tainted when an X.Err() occurs inside
	tainted = false
	ast.Inspect(e, func(n ast.Node) bool {
		if ex, ok := n.(ast.Expr); ok {
			if c, ok := a.ctxMethod(ex, "Err"); ok {
				a.consumed[c] = true
				tainted = true
			}
			if id, ok := ex.(*ast.Ident); ok {
				if v, ok := env[a.info.Uses[id]]; ok && strings.Contains(v, "CxCtx") {
					tainted = true
				}
			}
		}
		return true
	})
	return "(CxOther " + cxLit(a.oneLine(e)) + ")", tainted
}

type cxOut struct {
	rets, retSrc, calls []string
	falls               bool
}

func (o *cxOut) addRet(term, src string) {
	for i := range o.rets {
		if o.rets[i] == term && o.retSrc[i] == src {
			return
		}
	}
	o.rets = append(o.rets, term)
	o.retSrc = append(o.retSrc, src)
}

// unit: one function body or function literal
type cxUnit struct {
	name   string
	errRes int // index of the error result (-1: none)
	nres   int
	named  []types.Object // named results
}

func (a *cxAnalysis) retExpr(u *cxUnit, r *ast.ReturnStmt, env cxEnv, o *cxOut) {
	if u.errRes < 0 {
		return
	}
	if len(r.Results) == 0 {
		// naked return: the named error result
		if u.errRes < len(u.named) && u.named[u.errRes] != nil {
			if v, ok := env[u.named[u.errRes]]; ok {
				o.addRet(v, "(naked return)")
				return
			}
		}
		o.addRet("(CxOther "+cxLit("naked return")+")", "(naked return)")
		return
	}
	if len(r.Results) != u.nres {
		o.addRet("(CxOther "+cxLit(a.oneLine(r))+")", a.oneLine(r))
		return
	}
	term, _ := a.tr(r.Results[u.errRes], env)
	o.addRet(term, a.oneLine(r))
}

// sideCalls: calls inside a statement that are handed the context's error
func (a *cxAnalysis) sideCalls(n ast.Node, env cxEnv, o *cxOut, inRet bool) {
	ast.Inspect(n, func(m ast.Node) bool {
		if _, isLit := m.(*ast.FuncLit); isLit {
			return false
		}
		call, ok := m.(*ast.CallExpr)
		if !ok {
			return true
		}
		if a.isLogCall(call) {
			// the context's error may be logged
			ast.Inspect(call, func(k ast.Node) bool {
				if ex, ok := k.(ast.Expr); ok {
					if c, ok := a.ctxMethod(ex, "Err"); ok {
						a.consumed[c] = true
					}
				}
				return true
			})
			return false
		}
		if _, isErr := a.ctxMethod(call, "Err"); isErr {
			return true
		}
		fn := a.calleeOf(call)
		if fn != nil && fn.Pkg() == a.t.pkg.Types && (fn.Name() == "GetContextError" || fn.Name() == "NewWrappedSystemError") {
			return true // pure value functions: accounted for in the returned expression
		}
		for i, arg := range call.Args {
			if _, t := a.tr(arg, env); t {
				if inRet && fn != nil && fn.Pkg() == a.t.pkg.Types && a.passesArg(fn, i) {
					continue // part of the returned expression (CxPass)
				}
				name, flag := a.oneLine(call.Fun), "false"
				if fn != nil {
					name = a.fnName(fn)
					if fn.Pkg() == a.t.pkg.Types && a.comparesOnly(fn, i) {
						flag = "true"
					}
				}
				entry := "(" + cxLit(name) + ", " + flag + ")"
				dup := false
				for _, c := range o.calls {
					dup = dup || c == entry
				}
				if !dup {
					o.calls = append(o.calls, entry)
				}
			}
		}
		return true
	})
}

// eval: abstract execution of a statement list; returns true when every path through it ended
// in a return (or panic)
func (a *cxAnalysis) eval(u *cxUnit, list []ast.Stmt, env cxEnv, o *cxOut) bool {
	for _, s := range list {
		switch x := s.(type) {
		case *ast.ReturnStmt:
			for _, r := range x.Results {
				a.sideCalls(r, env, o, true)
			}
			a.retExpr(u, x, env, o)
			return true
		case *ast.AssignStmt:
			for _, r := range x.Rhs {
				a.sideCalls(r, env, o, false)
			}
			if len(x.Lhs) == len(x.Rhs) {
				for i, l := range x.Lhs {
					id, ok := l.(*ast.Ident)
					if !ok {
						if _, t := a.tr(x.Rhs[i], env); t {
							// the context's error is stored outside the function's locals
							o.addRet("(CxOther "+cxLit("stored: "+a.oneLine(x))+")", a.oneLine(x))
						}
						continue
					}
					obj := a.info.Defs[id]
					if obj == nil {
						obj = a.info.Uses[id]
					}
					if obj != nil && isErrorType(obj.Type()) {
						env[obj], _ = a.tr(x.Rhs[i], env)
					}
				}
			}
		case *ast.ExprStmt:
			if call, ok := x.X.(*ast.CallExpr); ok {
				if id, ok := call.Fun.(*ast.Ident); ok && id.Name == "panic" {
					return true
				}
			}
			a.sideCalls(x, env, o, false)
		case *ast.BlockStmt:
			if a.eval(u, x.List, env, o) {
				return true
			}
		case *ast.IfStmt:
			if x.Init != nil {
				a.eval(u, []ast.Stmt{x.Init}, env, o)
			}
			a.sideCalls(x.Cond, env, o, false)
			e1, e2 := env.copy(), env.copy()
			t1 := a.eval(u, x.Body.List, e1, o)
			t2 := false
			if x.Else != nil {
				t2 = a.eval(u, []ast.Stmt{x.Else}, e2, o)
			}
			if t1 && t2 {
				return true
			}
			// join: a variable that differs between the branches is no longer known
			for k := range env {
				v1, v2 := e1[k], e2[k]
				switch {
				case t1:
					env[k] = v2
				case t2:
					env[k] = v1
				case v1 != v2:
					env[k] = "(CxOther " + cxLit("joined") + ")"
				}
			}
			for k, v := range e1 {
				if _, ok := env[k]; !ok && !t1 {
					env[k] = v
				}
			}
		case *ast.DeferStmt, *ast.GoStmt, *ast.DeclStmt, *ast.IncDecStmt, *ast.EmptyStmt:
		default:
			// loops, switches, selects inside the branch: every return inside counts, and the
			// branch may go on
			ast.Inspect(s, func(n ast.Node) bool {
				if _, isLit := n.(*ast.FuncLit); isLit {
					return false
				}
				if r, ok := n.(*ast.ReturnStmt); ok {
					a.retExpr(u, r, env, o)
				}
				return true
			})
			a.sideCalls(s, env, o, false)
		}
	}
	return false
}

// scan: the statements of one block; cont = the statements that run when the block falls off its
// end (nil, false = unknown: inside a loop)
func (a *cxAnalysis) scan(u *cxUnit, list []ast.Stmt, cont []ast.Stmt, contKnown bool) {
	branch := func(at ast.Node, kind, when string, body []ast.Stmt, env cxEnv, rest []ast.Stmt) {
		o := &cxOut{}
		done := a.eval(u, body, env, o)
		if !done {
			if contKnown {
				all := append(append([]ast.Stmt{}, rest...), cont...)
				done = a.eval(u, all, env, o)
			}
			if !done {
				o.falls = true
			}
		}
		a.rows = append(a.rows, cxRow{fn: u.name, pos: a.t.pos(at), kind: kind, when: when, text: a.oneLine(at),
			rets: o.rets, retSrc: o.retSrc, falls: o.falls, calls: o.calls, at: at.Pos()})
	}
	for i, s := range list {
		rest := list[i+1:]
		restAll := append(append([]ast.Stmt{}, rest...), cont...)
		switch x := s.(type) {
		case *ast.SelectStmt:
			for _, c := range x.Body.List {
				cc := c.(*ast.CommClause)
				if cc.Comm != nil && a.isDoneRecv(cc.Comm) {
					branch(cc, "KDone", "WAny", cc.Body, cxEnv{}, rest)
				}
				a.scan(u, cc.Body, restAll, contKnown)
			}
		case *ast.ExprStmt:
			if a.isDoneRecv(x) {
				branch(x, "KDone", "WAny", nil, cxEnv{}, rest)
			}
		case *ast.IfStmt:
			a.scanIf(u, x, rest, cont, contKnown, branch)
		case *ast.BlockStmt:
			a.scan(u, x.List, restAll, contKnown)
		case *ast.ForStmt:
			a.scan(u, x.Body.List, nil, false)
		case *ast.RangeStmt:
			a.scan(u, x.Body.List, nil, false)
		case *ast.SwitchStmt:
			for _, c := range x.Body.List {
				a.scan(u, c.(*ast.CaseClause).Body, restAll, contKnown)
			}
		case *ast.TypeSwitchStmt:
			for _, c := range x.Body.List {
				a.scan(u, c.(*ast.CaseClause).Body, restAll, contKnown)
			}
		case *ast.LabeledStmt:
			a.scan(u, []ast.Stmt{x.Stmt}, restAll, contKnown)
		}
	}
}

func (a *cxAnalysis) scanIf(u *cxUnit, x *ast.IfStmt, rest, cont []ast.Stmt, contKnown bool,
	branch func(at ast.Node, kind, when string, body []ast.Stmt, env cxEnv, rest []ast.Stmt)) {
	restAll := append(append([]ast.Stmt{}, rest...), cont...)
	env := cxEnv{}
	matched := false
	// `if v := X.Err(); v != nil {`
	if as, ok := x.Init.(*ast.AssignStmt); ok && as.Tok == token.DEFINE && len(as.Lhs) == 1 && len(as.Rhs) == 1 {
		if c, ok := a.ctxMethod(as.Rhs[0], "Err"); ok {
			if id, ok := as.Lhs[0].(*ast.Ident); ok {
				if b, ok := x.Cond.(*ast.BinaryExpr); ok && b.Op == token.NEQ {
					if l, ok := b.X.(*ast.Ident); ok && l.Name == id.Name {
						if r, ok := b.Y.(*ast.Ident); ok && r.Name == "nil" {
							a.consumed[c] = true
							env[a.info.Defs[id]] = "CxCtx"
							branch(x, "KErrIf", "WAny", x.Body.List, env, rest)
							matched = true
						}
					}
				}
			}
		}
	}
	if b, ok := x.Cond.(*ast.BinaryExpr); ok && !matched && x.Init == nil {
		if c, ok := a.ctxMethod(b.X, "Err"); ok {
			rhs := a.t.src(b.Y)
			switch {
			case b.Op == token.NEQ && rhs == "nil":
				a.consumed[c] = true
				branch(x, "KErrIf", "WAny", x.Body.List, env, rest)
				matched = true
			case b.Op == token.EQL && rhs == "context.Canceled":
				a.consumed[c] = true
				branch(x, "KErrIf", "WCanceled", x.Body.List, env, rest)
				matched = true
			case b.Op == token.EQL && rhs == "context.DeadlineExceeded":
				a.consumed[c] = true
				branch(x, "KErrIf", "WDeadline", x.Body.List, env, rest)
				matched = true
			}
		}
	}
	a.scan(u, x.Body.List, restAll, contKnown)
	switch el := x.Else.(type) {
	case *ast.BlockStmt:
		a.scan(u, el.List, restAll, contKnown)
	case *ast.IfStmt:
		a.scanIf(u, el, rest, cont, contKnown, branch)
	}
}

func (a *cxAnalysis) unitOf(name string, ft *ast.FuncType) *cxUnit {
	u := &cxUnit{name: name, errRes: -1}
	if ft.Results != nil {
		k := 0
		for _, f := range ft.Results.List {
			n := len(f.Names)
			if n == 0 {
				n = 1
			}
			for j := 0; j < n; j++ {
				var obj types.Object
				if j < len(f.Names) {
					obj = a.info.Defs[f.Names[j]]
				}
				u.named = append(u.named, obj)
				if isErrorType(a.typeOf(f.Type)) {
					u.errRes = k
				}
				k++
			}
		}
		u.nres = k
	}
	return u
}

// ctxSites writes Gen/GenCtxSites.v.
func (t *translator) ctxSites(w *bytes.Buffer) int {
	a := &cxAnalysis{t: t, info: t.pkg.TypesInfo, consumed: map[*ast.CallExpr]bool{}, decl: map[*types.Func]*ast.FuncDecl{}}
	type unitBody struct {
		u    *cxUnit
		body *ast.BlockStmt
	}
	var units []unitBody
	for _, f := range t.pkg.Syntax {
		for _, d := range f.Decls {
			fd, ok := d.(*ast.FuncDecl)
			if !ok || fd.Body == nil {
				continue
			}
			fn, _ := a.info.Defs[fd.Name].(*types.Func)
			if fn == nil {
				continue
			}
			a.decl[fn] = fd
			name := a.fnName(fn)
			units = append(units, unitBody{a.unitOf(name, fd.Type), fd.Body})
			k := 0
			ast.Inspect(fd.Body, func(n ast.Node) bool {
				if fl, ok := n.(*ast.FuncLit); ok {
					k++
					units = append(units, unitBody{a.unitOf(fmt.Sprintf("%s$%d", name, k), fl.Type), fl.Body})
				}
				return true
			})
		}
	}
	for _, ub := range units {
		a.scan(ub.u, ub.body.List, nil, true)
	}
	// every X.Err() that no branch accounts for
	for _, ub := range units {
		var stack []ast.Node
		ast.Inspect(ub.body, func(n ast.Node) bool {
			if n == nil {
				stack = stack[:len(stack)-1]
				return true
			}
			if fl, ok := n.(*ast.FuncLit); ok && fl.Body != ub.body {
				return false // literals are units of their own
			}
			stack = append(stack, n)
			ex, ok := n.(ast.Expr)
			if !ok {
				return true
			}
			c, ok := a.ctxMethod(ex, "Err")
			if !ok || a.consumed[c] {
				return true
			}
			a.consumed[c] = true
			var stmt ast.Stmt
			for i := len(stack) - 1; i >= 0; i-- {
				if s, ok := stack[i].(ast.Stmt); ok {
					stmt = s
					break
				}
			}
			o := &cxOut{}
			if r, ok := stmt.(*ast.ReturnStmt); ok {
				a.retExpr(ub.u, r, cxEnv{}, o)
			} else {
				o.addRet("(CxOther "+cxLit("use: "+a.oneLine(stmt))+")", a.oneLine(stmt))
			}
			a.rows = append(a.rows, cxRow{fn: ub.u.name, pos: t.pos(c), kind: "KErrLoose", when: "WAny", text: a.oneLine(stmt),
				rets: o.rets, retSrc: o.retSrc, at: c.Pos()})
			return true
		})
	}
	sort.SliceStable(a.rows, func(i, j int) bool {
		if a.rows[i].fn != a.rows[j].fn {
			return a.rows[i].fn < a.rows[j].fn
		}
		return a.rows[i].at < a.rows[j].at
	})
	fmt.Fprintf(w, "From Verif Require Import Spec.CtxSiteSpec.\n\n")
	fmt.Fprintf(w, "(* Context-end consumers of package tchannel (go2v/ctxsites.go): every `X.Err()` and every\n   `<-X.Done()` with X a context.Context, in every function and function literal of the package.\n   One row per branch that runs because the context ended; cs_rets = the error result of each\n   return reachable from the branch, as an expression over the context's error. *)\n")
	fmt.Fprintf(w, "Definition ctx_sites : list csite := [\n")
	for i, r := range a.rows {
		sep := ";"
		if i == len(a.rows)-1 {
			sep = ""
		}
		fmt.Fprintf(w, "  (* %s %s: %s *)\n", r.pos, r.fn, r.text)
		for k := range r.rets {
			fmt.Fprintf(w, "  (*    -> %s *)\n", r.retSrc[k])
		}
		falls := "false"
		if r.falls {
			falls = "true"
		}
		fmt.Fprintf(w, "  mkCsite %s %s %s\n    [%s]\n    %s [%s]%s\n", strlit(r.fn), r.kind, r.when, strings.Join(r.rets, "; "), falls, strings.Join(r.calls, "; "), sep)
	}
	fmt.Fprintf(w, "].\n\n")
	// every NewWrappedSystemError(code, e) of the package: (function, code, source text of e)
	type wrapSite struct{ fn, pos, code, arg string }
	var wraps []wrapSite
	for _, f := range t.pkg.Syntax {
		for _, d := range f.Decls {
			fd, ok := d.(*ast.FuncDecl)
			if !ok || fd.Body == nil {
				continue
			}
			fn, _ := a.info.Defs[fd.Name].(*types.Func)
			if fn == nil {
				continue
			}
			ast.Inspect(fd.Body, func(n ast.Node) bool {
				call, ok := n.(*ast.CallExpr)
				if !ok || len(call.Args) != 2 {
					return true
				}
				if c := a.calleeOf(call); c == nil || c.Pkg() != t.pkg.Types || c.Name() != "NewWrappedSystemError" {
					return true
				}
				code := "(-1)"
				if tv, ok := a.info.Types[call.Args[0]]; ok && tv.Value != nil {
					if lit, ok := zlit(tv.Value); ok {
						code = lit
					}
				}
				wraps = append(wraps, wrapSite{a.fnName(fn), t.pos(call), code, a.oneLine(call.Args[1])})
				return true
			})
		}
	}
	sort.SliceStable(wraps, func(i, j int) bool { return wraps[i].fn < wraps[j].fn })
	fmt.Fprintf(w, "(* every call NewWrappedSystemError(code, e) of the package: (function, code, source text of e) *)\n")
	fmt.Fprintf(w, "Definition wrap_sites : list (list Z * Z * list Z) := [\n")
	for i, ws := range wraps {
		sep := ";"
		if i == len(wraps)-1 {
			sep = ""
		}
		fmt.Fprintf(w, "  (* %s %s: NewWrappedSystemError(%s, %s) *)\n  (%s, %s, %s)%s\n", ws.pos, ws.fn, ws.code, ws.arg, strlit(ws.fn), ws.code, strlit(ws.arg), sep)
	}
	fmt.Fprintf(w, "].\n")
	return len(a.rows)
}

// ctxSitesSafe: a failure of the extraction must break C20's theorems only.
func (t *translator) ctxSitesSafe(w *bytes.Buffer, repo string) (n int) {
	defer func() {
		if r := recover(); r != nil {
			f, ok := r.(failure)
			if !ok {
				panic(r)
			}
			w.Reset()
			fmt.Fprintf(w, header, repo)
			fmt.Fprintf(w, "From Verif Require Import Spec.CtxSiteSpec.\n\n(* EXTRACTION FAILED: %s *)\nDefinition ctx_sites : list csite := [].\nDefinition wrap_sites : list (list Z * Z * list Z) := [].\n", strings.ReplaceAll(f.msg, "*)", "* )"))
			fmt.Printf("go2v: CTX-SITE EXTRACTION FAILED: %s\n", f.msg)
			n = 0
		}
	}()
	return t.ctxSites(w)
}
