package main

// targetFile maps a generated definition to the Gen file that holds it (default GenFuncs).
var targetFile = map[string]string{
	"GetSystemErrorCode": "GenRetry",
	"getErrCode":         "GenRetry",
	"CanRetry":           "GenRetry",
}

// varFields: constant fields of package-level composite-literal variables.
var varFields = [][2]string{
	{"defaultRetryOptions", "MaxAttempts"},
}

var errHints = map[string]string{
	"err == nil":       "(e_nil err)",
	"isNetError(err)":  "(e_net err)",
}

func merge(ms ...map[string]string) map[string]string {
	out := map[string]string{}
	for _, m := range ms {
		for k, v := range m {
			out[k] = v
		}
	}
	return out
}

// targets: the Go declarations translated on every run.  Hints map a Go sub-expression
// (by source text) to a model parameter; they are part of the trusted base and are
// written into the generated file next to each definition.
var targets = []Target{
	{
		Func: "GetSystemErrorCode", Out: "GetSystemErrorCode", Params: "(err : goerr)", Ret: "Z",
		Hints: errHints,
		SHints: map[string]string{
			"if se, ok := err.(SystemError); ok {\n\treturn se.Code()\n}": "if e_sys err then e_code err else",
		},
	},
	{
		Func: "getErrCode", Out: "getErrCode", Params: "(err : goerr)", Ret: "Z",
		Hints: merge(errHints, map[string]string{"call:GetSystemErrorCode": "GetSystemErrorCode"}),
	},
	{
		Func: "RetryOn.CanRetry", Out: "CanRetry", Params: "(r : Z) (err : goerr)", Ret: "bool",
		Hints: merge(errHints, map[string]string{"call:getErrCode": "getErrCode"}),
	},
}
