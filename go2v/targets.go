package main

// targetFile maps a generated definition to the Gen file that holds it (default GenFuncs).
var targetFile = map[string]string{
	"GetSystemErrorCode": "GenRetry",
	"getErrCode":         "GenRetry",
	"CanRetry":           "GenRetry",
	"SetPayloadSize":     "GenFrame",
	"PayloadSize":        "GenFrame",
	"finishesCall":       "GenFrame",
	"frameTypeFor":       "GenFrame",
	"isMessageTypeCall":  "GenFrame",
	"hasMoreFragments":   "GenFrame",
	"isCallResOK":        "GenFrame",
	"ChecksumSize":       "GenFrame",
	"poolIndex":          "GenFrame",
	"relayRoute":         "GenFrame",
	"dcsSucceeded":       "GenFrame",
	"dcsFailMsg":         "GenFrame",
}

// varFields: constant fields of package-level composite-literal variables.
var varFields = [][2]string{
	{"defaultRetryOptions", "MaxAttempts"},
}

var errHints = map[string]string{
	"err == nil":      "(e_nil err)",
	"isNetError(err)": "(e_net err)",
}

func merge(ms ...map[string]string) map[string]string {
	out := map[string]string{}
	for _, m := range ms {
		for k, v := range m {
			out[k] = v
		}
	}
	return out
}

// targets: the Go declarations translated on every run.  Hints map a Go sub-expression
// (by source text) to a model parameter; they are part of the trusted base and are
// written into the generated file next to each definition.
var targets = []Target{
	{
		Func: "GetSystemErrorCode", Out: "GetSystemErrorCode", Params: "(err : goerr)", Ret: "Z",
		Hints: errHints,
		SHints: map[string]string{
			"if se, ok := err.(SystemError); ok {\n\treturn se.Code()\n}": "if e_sys err then e_code err else",
		},
	},
	{
		Func: "getErrCode", Out: "getErrCode", Params: "(err : goerr)", Ret: "Z",
		Hints: merge(errHints, map[string]string{"call:GetSystemErrorCode": "GetSystemErrorCode"}),
	},
	{
		Func: "RetryOn.CanRetry", Out: "CanRetry", Params: "(r : Z) (err : goerr)", Ret: "bool",
		Hints: merge(errHints, map[string]string{"call:getErrCode": "getErrCode"}),
	},
	// frame.go: uint16 arithmetic on the header size field
	{Func: "FrameHeader.SetPayloadSize", Out: "SetPayloadSize", Params: "(size : Z)", Ret: "Z", AssignRet: "fh.size"},
	{Func: "FrameHeader.PayloadSize", Out: "PayloadSize", Params: "(fh_size : Z)", Ret: "Z",
		Hints: map[string]string{"fh.size": "fh_size"}},
	// relay_messages.go / relay.go / connection.go: frame classification
	{Func: "finishesCall", Out: "finishesCall", Params: "(mt : Z) (flags : Z)", Ret: "bool",
		Hints: map[string]string{"f.messageType()": "mt", "f.Payload[_flagsIndex]": "flags"}},
	{Func: "hasMoreFragments", Out: "hasMoreFragments", Params: "(flags : Z)", Ret: "bool",
		Hints: map[string]string{"f.Payload[_flagsIndex]": "flags"}},
	{Func: "isCallResOK", Out: "isCallResOK", Params: "(code : Z)", Ret: "bool",
		Hints: map[string]string{"f.Payload[_resCodeIndex]": "code"}},
	{Func: "frameTypeFor", Out: "frameTypeFor", Params: "(mt : Z)", Ret: "option Z", Panics: true,
		Hints: map[string]string{"f.Header.messageType": "mt"}},
	{Func: "isMessageTypeCall", Out: "isMessageTypeCall", Params: "(mt : Z)", Ret: "bool",
		Hints: map[string]string{"frame.Header.messageType": "mt"}},
	// checksum.go
	{Func: "ChecksumType.ChecksumSize", Out: "ChecksumSize", Params: "(t : Z)", Ret: "Z",
		Hints: map[string]string{"crc32.Size": "4"}},
	// connection.go: which frames of a relay connection go to Relayer.Relay
	// result: 0 = ignored, 1 = Relayer.Relay(frame), 2 = handleFrameNoRelay(frame)
	{Func: "Connection.handleFrameRelay", Out: "relayRoute", Params: "(mt : Z) (propagateCancel : bool)", Ret: "Z",
		Hints: map[string]string{"frame.Header.messageType": "mt", "shouldRelease": "1", "c.handleFrameNoRelay(frame)": "2"},
		SHints: map[string]string{
			"if frame.Header.messageType == messageTypeCancel && !c.opts.PropagateCancel {...": "if (mt =? c_messageTypeCancel) && negb propagateCancel then 0 else",
			"shouldRelease, err := c.relay.Relay(frame)":                                       "",
			"if err != nil {...": "",
		}},
	// relay.go: determinesCallSuccess (C09/C10): (succeeded, failMsg) of a frame forwarded to the caller side;
	// errKey stands for newLazyError(f).Code().MetricsKey() of an error frame
	{Func: "determinesCallSuccess", Out: "dcsSucceeded", Params: "(mt : Z) (resCode : Z) (errKey : list Z)", Ret: "bool", RetIdx: 0,
		Hints:  map[string]string{"f.messageType()": "mt", "isCallResOK(f)": "(isCallResOK resCode)"},
		SHints: map[string]string{"msg := newLazyError(f).Code().MetricsKey()": "let msg := errKey in"}},
	{Func: "determinesCallSuccess", Out: "dcsFailMsg", Params: "(mt : Z) (resCode : Z) (errKey : list Z)", Ret: "list Z", RetIdx: 1,
		Hints:  map[string]string{"f.messageType()": "mt", "isCallResOK(f)": "(isCallResOK resCode)"},
		SHints: map[string]string{"msg := newLazyError(f).Code().MetricsKey()": "let msg := errKey in"}},
}
