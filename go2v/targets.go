package main

// targetFile maps a generated definition to the Gen file that holds it (default GenFuncs).
var targetFile = map[string]string{
	"isWritingArgument":  "GenFrame",
	"isReadingArgument":  "GenFrame",
	"GetSystemErrorCode": "GenRetry",
	"getErrCode":         "GenRetry",
	"CanRetry":           "GenRetry",
	"SetPayloadSize":     "GenFrame",
	"PayloadSize":        "GenFrame",
	"finishesCall":       "GenFrame",
	"frameTypeFor":       "GenFrame",
	"isMessageTypeCall":  "GenFrame",
	"hasMoreFragments":   "GenFrame",
	"isCallResOK":        "GenFrame",
	"ChecksumSize":       "GenFrame",
	"poolIndex":          "GenFrame",
	"relayRoute":         "GenFrame",
	// C15
	"preferIncomingScore": "GenPeers",
	"leastPendingScore":   "GenPeers",
	"zeroScore":           "GenPeers",
	// C20: errors.go value mappings, polymorphic in the model's error type
	"GetContextError":         "GenErrors",
	"NewWrappedSystemError":   "GenErrors",
	"GetSystemErrorMessage":   "GenErrors",
	"isEphemeralHostPort":     "GenHandshake",
	"mexCheckFrame":           "GenMex",
	"hcEnabled":               "GenHealthIdle",
	"idleCheckOk":             "GenHealthIdle",
	"hasPendingCalls":         "GenHealthIdle",
	"relayCanClose":           "GenHealthIdle",
	"connIsActive":            "GenHealthIdle",
	"lastActivityTime":        "GenHealthIdle",
	"sweepIsIdle":             "GenHealthIdle",
	"validateRelayMaxTimeout": "GenTTL",
	"lazyCallReqTTL":          "GenTTL",
	// C08
	"lazyTTL":      "GenRelayFwd",
	"dcsSucceeded": "GenFrame",
	"dcsFailMsg":   "GenFrame",
	// C09: relay.go admission / close decisions
	"relayCanHandleNewCall": "GenRelayFwd",
}

// varFields: constant fields of package-level composite-literal variables.
var varFields = [][2]string{
	{"defaultRetryOptions", "MaxAttempts"},
}

var errHints = map[string]string{
	"err == nil":      "(e_nil err)",
	"isNetError(err)": "(e_net err)",
}

func merge(ms ...map[string]string) map[string]string {
	out := map[string]string{}
	for _, m := range ms {
		for k, v := range m {
			out[k] = v
		}
	}
	return out
}

// targets: the Go declarations translated on every run.  Hints map a Go sub-expression
// (by source text) to a model parameter; they are part of the trusted base and are
// written into the generated file next to each definition.
var targets = []Target{
	{
		Func: "GetSystemErrorCode", Out: "GetSystemErrorCode", Params: "(err : goerr)", Ret: "Z",
		Hints: errHints,
		SHints: map[string]string{
			"if se, ok := err.(SystemError); ok {\n\treturn se.Code()\n}": "if e_sys err then e_code err else",
		},
	},
	{
		Func: "getErrCode", Out: "getErrCode", Params: "(err : goerr)", Ret: "Z",
		Hints: merge(errHints, map[string]string{"call:GetSystemErrorCode": "GetSystemErrorCode"}),
	},
	{
		Func: "RetryOn.CanRetry", Out: "CanRetry", Params: "(r : Z) (err : goerr)", Ret: "bool",
		Hints: merge(errHints, map[string]string{"call:getErrCode": "getErrCode"}),
	},
	// frame.go: uint16 arithmetic on the header size field
	{Func: "FrameHeader.SetPayloadSize", Out: "SetPayloadSize", Params: "(size : Z)", Ret: "Z", AssignRet: "fh.size"},
	{Func: "FrameHeader.PayloadSize", Out: "PayloadSize", Params: "(fh_size : Z)", Ret: "Z",
		Hints: map[string]string{"fh.size": "fh_size"}},
	// relay_messages.go / relay.go / connection.go: frame classification
	{Func: "finishesCall", Out: "finishesCall", Params: "(mt : Z) (flags : Z)", Ret: "bool",
		Hints: map[string]string{"f.messageType()": "mt", "f.Payload[_flagsIndex]": "flags"}},
	{Func: "hasMoreFragments", Out: "hasMoreFragments", Params: "(flags : Z)", Ret: "bool",
		Hints: map[string]string{"f.Payload[_flagsIndex]": "flags"}},
	{Func: "isCallResOK", Out: "isCallResOK", Params: "(code : Z)", Ret: "bool",
		Hints: map[string]string{"f.Payload[_resCodeIndex]": "code"}},
	{Func: "frameTypeFor", Out: "frameTypeFor", Params: "(mt : Z)", Ret: "option Z", Panics: true,
		Hints: map[string]string{"f.Header.messageType": "mt"}},
	{Func: "isMessageTypeCall", Out: "isMessageTypeCall", Params: "(mt : Z)", Ret: "bool",
		Hints: map[string]string{"frame.Header.messageType": "mt"}},
	// checksum.go
	{Func: "ChecksumType.ChecksumSize", Out: "ChecksumSize", Params: "(t : Z)", Ret: "Z",
		Hints: map[string]string{"crc32.Size": "4"}},
	// connection.go: which frames of a relay connection go to Relayer.Relay
	// result: 0 = ignored, 1 = Relayer.Relay(frame), 2 = handleFrameNoRelay(frame)
	{Func: "Connection.handleFrameRelay", Out: "relayRoute", Params: "(mt : Z) (propagateCancel : bool)", Ret: "Z",
		Hints: map[string]string{"frame.Header.messageType": "mt", "shouldRelease": "1", "c.handleFrameNoRelay(frame)": "2"},
		SHints: map[string]string{
			"if frame.Header.messageType == messageTypeCancel && !c.opts.PropagateCancel {...": "if (mt =? c_messageTypeCancel) && negb propagateCancel then 0 else",
			"shouldRelease, err := c.relay.Relay(frame)":                                       "",
			"if err != nil {...": "",
		}},
	// C15: peer_strategies.go score calculators over (inbound, outbound, pending)
	{Func: "preferIncomingCalculator.GetScore", Out: "preferIncomingScore", Params: "(inbound outbound pending : Z)", Ret: "Z",
		Hints:  map[string]string{"p.NumPendingOutbound()": "pending"},
		SHints: map[string]string{"inbound, outbound := p.NumConnections()": ""}},
	{Func: "leastPendingCalculator.GetScore", Out: "leastPendingScore", Params: "(inbound outbound pending : Z)", Ret: "Z",
		Hints:  map[string]string{"p.NumPendingOutbound()": "pending"},
		SHints: map[string]string{"inbound, outbound := p.NumConnections()": ""}},
	{Func: "zeroCalculator.GetScore", Out: "zeroScore", Params: "(inbound outbound pending : Z)", Ret: "Z"},
	// C20 -- errors.go: which error value reaches the caller.  The error type E and its
	// observations are parameters (the model instantiates them with its error ADT).
	{Func: "GetContextError", Out: "GetContextError",
		Params: "{E : Type} (is_deadline is_canceled : E -> bool) (errTimeout errRequestCancelled : E) (err : E)", Ret: "E",
		Hints: map[string]string{
			"err == context.DeadlineExceeded": "(is_deadline err)",
			"err == context.Canceled":         "(is_canceled err)",
			"ErrTimeout":                      "errTimeout",
			"ErrRequestCancelled":             "errRequestCancelled",
		}},
	{Func: "NewWrappedSystemError", Out: "NewWrappedSystemError",
		Params: "{E : Type} (is_sys : E -> bool) (mk_wrapped : Z -> E -> E) (code : Z) (wrapped : E)", Ret: "E",
		Hints: map[string]string{
			"SystemError{code: code, msg: fmt.Sprint(wrapped), wrapped: wrapped}": "(mk_wrapped code wrapped)",
		},
		SHints: map[string]string{
			"if se, ok := wrapped.(SystemError); ok {\n\treturn se\n}": "if is_sys wrapped then wrapped else",
		}},
	{Func: "GetSystemErrorMessage", Out: "GetSystemErrorMessage",
		Params: "{E : Type} (is_sys : E -> bool) (sys_msg err_text : E -> list Z) (err : E)", Ret: "list Z",
		Hints: map[string]string{"err.Error()": "(err_text err)"},
		SHints: map[string]string{
			"if se, ok := err.(SystemError); ok {\n\treturn se.Message()\n}": "if is_sys err then sys_msg err else",
		}},
	// peer.go: which announced host:port values count as ephemeral (C13)
	{Func: "isEphemeralHostPort", Out: "isEphemeralHostPort", Params: "(hostPort : list Z) (has_suffix_colon0 : bool)", Ret: "bool",
		Hints: map[string]string{"strings.HasSuffix(hostPort, \":0\")": "has_suffix_colon0"}},
	// mex.go (C04): the id check recvPeerFrame applies to every frame it takes off recvCh
	// result: 0 = nil, 4 = errUnexpectedFrameType
	{Func: "messageExchange.checkFrame", Out: "mexCheckFrame", Params: "(fid : Z) (mid : Z)", Ret: "Z",
		Hints:  map[string]string{"frame.Header.ID": "fid", "mex.msgID": "mid", "errUnexpectedFrameType": "4", "nil": "0"},
		SHints: map[string]string{"mex.mexset.log.WithFields(...": ""}},
	// health.go / channel.go (C19): option tests.  An error result is seen as "ok?" (nil => true).
	{Func: "HealthCheckOptions.enabled", Out: "hcEnabled", Params: "(interval : Z)", Ret: "bool",
		Hints: map[string]string{"hco.Interval": "interval"}},
	{Func: "ChannelOptions.validateIdleCheck", Out: "idleCheckOk", Params: "(interval : Z) (maxIdle : Z)", Ret: "bool",
		Hints: map[string]string{"o.IdleCheckInterval": "interval", "o.MaxIdleTime": "maxIdle",
			"errMaxIdleTimeNotSet": "false", "nil": "true"}},
	// connection.go / relay.go / idle_sweep.go (C19): the decisions of the idle sweep on one connection.
	// The counters, the state and the two activity stamps are parameters (each is one atomic read in the code).
	{Func: "Relayer.canClose", Out: "relayCanClose", Params: "(isNil : bool) (pending : Z)", Ret: "bool",
		Hints: map[string]string{"r == nil": "isNil", "r.countPending()": "pending"}},
	{Func: "Connection.hasPendingCalls", Out: "hasPendingCalls", Params: "(inb : Z) (outb : Z) (canClose : bool)", Ret: "bool",
		Hints: map[string]string{"c.inbound.countCalls()": "inb", "c.outbound.countCalls()": "outb", "c.relay.canClose()": "canClose"}},
	{Func: "Connection.IsActive", Out: "connIsActive", Params: "(state : Z)", Ret: "bool",
		Hints: map[string]string{"c.readState()": "state"}},
	{Func: "lastActivityTime", Out: "lastActivityTime", Params: "(lr : Z) (lw : Z)", Ret: "Z",
		Hints: map[string]string{"conn.getLastActivityReadTime()": "lr", "conn.getLastActivityWriteTime()": "lw",
			"lastActivity.Before(sendActivity)": "(lastActivity <? sendActivity)"}},
	{Func: "idleSweep.isIdle", Out: "sweepIsIdle", Params: "(idleFor : Z) (maxIdle : Z)", Ret: "bool",
		Hints: map[string]string{"now.Sub(lastActivityTime(conn))": "idleFor", "is.maxIdleTime": "maxIdle"}},
	// fragmenting_writer.go / fragmenting_reader.go: state predicates used by every operation
	{Func: "fragmentingWriterState.isWritingArgument", Out: "isWritingArgument", Params: "(s : Z)", Ret: "bool"},
	{Func: "fragmentingReadState.isReadingArgument", Out: "isReadingArgument", Params: "(s : Z)", Ret: "bool"},
	// C14: errors.go context-error mapping (cerr: 0 nil, 1 context.DeadlineExceeded, 2 context.Canceled,
	// other values = any other error, passed through as 256+cerr), relay ttl arithmetic
	{Func: "GetContextError", Out: "GetContextError", File: "GenTTL", Params: "(cerr : Z)", Ret: "Z",
		Hints: map[string]string{
			"err == context.DeadlineExceeded": "(cerr =? 1)",
			"err == context.Canceled":         "(cerr =? 2)",
			"ErrTimeout":                      "c_ErrCodeTimeout",
			"ErrRequestCancelled":             "c_ErrCodeCancelled",
			"err":                             "(256 + cerr)",
		}},
	{Func: "validateRelayMaxTimeout", Out: "validateRelayMaxTimeout", Params: "(d : Z)", Ret: "Z",
		SHints: map[string]string{
			"logger.WithFields(\n\tLogField{\"configuredMaxTimeout\", d},\n\tLogField{\"defaultMaxTimeout\", _defaultRelayMaxTimeout},\n).Warn(\"Configured RelayMaxTimeout is invalid, using default instead.\")": "",
		}},
	{Func: "lazyCallReq.TTL", Out: "lazyCallReqTTL", Params: "(ttl_field : Z)", Ret: "Z",
		Hints: map[string]string{"binary.BigEndian.Uint32(f.Payload[_ttlIndex : _ttlIndex+_ttlLen])": "ttl_field"}},
	// C08 -- relay.go / relay_messages.go: the relay's ttl arithmetic
	{Func: "validateRelayMaxTimeout", Out: "validateRelayMaxTimeout", File: "GenRelayFwd", Params: "(d : Z)", Ret: "Z",
		SHints: map[string]string{"logger.WithFields(...": ""}},
	{Func: "lazyCallReq.TTL", Out: "lazyTTL", File: "GenRelayFwd", Params: "(ttl_ms : Z)", Ret: "Z",
		SHints: map[string]string{"ttl := binary.BigEndian.Uint32(f.Payload[_ttlIndex : _ttlIndex+_ttlLen])": "let ttl := ttl_ms in"}},
	// relay.go: determinesCallSuccess (C09/C10): (succeeded, failMsg) of a frame forwarded to the caller side;
	// errKey stands for newLazyError(f).Code().MetricsKey() of an error frame
	{Func: "determinesCallSuccess", Out: "dcsSucceeded", Params: "(mt : Z) (resCode : Z) (errKey : list Z)", Ret: "bool", RetIdx: 0,
		Hints:  map[string]string{"f.messageType()": "mt", "isCallResOK(f)": "(isCallResOK resCode)"},
		SHints: map[string]string{"msg := newLazyError(f).Code().MetricsKey()": "let msg := errKey in"}},
	// C05 -- preinit_connection.go: the deadline the handshake puts on the connection.
	// now = time.Now() in ns, (ctx_has, ctx_deadline) = ctx.Deadline(); the result is the argument
	// of c.SetDeadline(deadline): the returned closure (which clears the deadline again) stands for it
	{Func: "setInitDeadline", Out: "setInitDeadline", File: "GenBudget", Params: "(now : Z) (ctx_has : bool) (ctx_deadline : Z)", Ret: "Z",
		Hints: map[string]string{"time.Now()": "now", "call:time.Now().Add": "Z.add", "recv:time.Now().Add": "",
			"func() {\n\tc.SetDeadline(time.Time{})\n}": "deadline"},
		SHints: map[string]string{
			"deadline, ok := ctx.Deadline()": "let deadline := ctx_deadline in let ok := ctx_has in",
			"c.SetDeadline(deadline)":        "",
		}},
	{Func: "determinesCallSuccess", Out: "dcsFailMsg", Params: "(mt : Z) (resCode : Z) (errKey : list Z)", Ret: "list Z", RetIdx: 1,
		Hints:  map[string]string{"f.messageType()": "mt", "isCallResOK(f)": "(isCallResOK resCode)"},
		SHints: map[string]string{"msg := newLazyError(f).Code().MetricsKey()": "let msg := errKey in"}},
	// C07 -- admission and close decisions (GenClose.v).  Statement targets: one statement of a
	// function that is otherwise outside the subset (locks, closures, loops).  Codes of the
	// admission functions: 1 = control falls out of the statement (the call proceeds),
	// 0 = the refusing branch (it must contain the statements named in the stmt-hints, in that
	// order: a missing one leaves its marker variable unbound and the Gen file does not compile).
	{Func: "Relayer.canClose", Out: "relayCanClose", File: "GenClose", Soft: true,
		Params: "(has_relay : bool) (pending : Z)", Ret: "bool",
		Hints: map[string]string{"r == nil": "(negb has_relay)", "r.countPending()": "pending"}},
	{Func: "Relayer.canHandleNewCall", Out: "relayCanHandle", File: "GenClose", Soft: true,
		Params: "(curState : Z)", Ret: "bool",
		Stmt: "canHandle = curState == connectionActive", AssignRet: "canHandle", Rest: "false"},
	{Func: "Relayer.canHandleNewCall", Out: "relayPendingAfter", File: "GenClose", Soft: true,
		Params: "(canHandle : bool) (pending : Z)", Ret: "Z",
		Stmt: "if canHandle {", Rest: "pending",
		SHints: map[string]string{"r.pending.Inc()": "let pending := pending + 1 in"}},
	{Func: "Connection.handleCallReq", Out: "callReqStateSwitch", File: "GenClose", Soft: true, Panics: true,
		Params: "(cur : Z)", Ret: "option Z",
		Stmt: "switch state := c.readState(); state {", Rest: "(Some 1)",
		Hints: map[string]string{"c.readState()": "cur", "true": "sent_closed"},
		SHints: map[string]string{
			"c.SendSystemError(frame.Header.ID, callReqSpan(frame), ErrChannelClosed)": "let sent_closed := 0 in",
		}},
	{Func: "Connection.handleCallReq", Out: "callReqRecheck", File: "GenClose", Soft: true,
		Params: "(cur : Z)", Ret: "Z",
		Stmt: "if c.readState() != connectionActive {", Rest: "1",
		Hints: map[string]string{"c.readState()": "cur", "true": "shut_down"},
		SHints: map[string]string{
			"c.SendSystemError(frame.Header.ID, callReqSpan(frame), ErrChannelClosed)": "let sent_closed := 0 in",
			"mex.shutdown()": "let shut_down := sent_closed in",
		}},
	{Func: "Connection.beginCall", Out: "beginCallStateSwitch", File: "GenClose", Soft: true, RetIdx: 1,
		Params: "(cur : Z)", Ret: "Z",
		Stmt: "switch state := c.readState(); state {", Rest: "1",
		Hints: map[string]string{"c.readState()": "cur", "ErrConnectionClosed": "0",
			"errConnectionUnknownState{\"beginCall\", state}": "2"}},
	{Func: "Connection.beginCall", Out: "beginCallRecheck", File: "GenClose", Soft: true, RetIdx: 1,
		Params: "(cur : Z)", Ret: "Z",
		Stmt: "if state := c.readState(); state != connectionActive {", Rest: "1",
		Hints:  map[string]string{"c.readState()": "cur", "ErrConnectionClosed": "shut_down"},
		SHints: map[string]string{"mex.shutdown()": "let shut_down := 0 in"}},
	// channel.go: getMinConnectionState = fold of minStateStep over the connections from minStateInit
	{Func: "Channel.getMinConnectionState", Out: "minStateInit", File: "GenClose", Soft: true,
		Params: "", Ret: "Z", Stmt: "minState := connectionClosed", Rest: "minState"},
	{Func: "Channel.getMinConnectionState", Out: "minStateStep", File: "GenClose", Soft: true,
		Params: "(minState : Z) (connState : Z)", Ret: "Z",
		Stmt: "if s := c.readState(); s < minState {", Rest: "minState",
		Hints: map[string]string{"c.readState()": "connState"}},
	// channel.go connectionCloseStateChange: the update computed from the scan, and its application
	{Func: "Channel.connectionCloseStateChange", Out: "chanUpdateTo", File: "GenClose", Soft: true,
		Params: "(minState : Z) (chState : Z)", Ret: "Z",
		Stmt: "if minState >= connectionClosed {", Pre: "let updateTo := 0 in", Rest: "updateTo"},
	{Func: "Channel.connectionCloseStateChange", Out: "chanApplyUpdate", File: "GenClose", Soft: true,
		Params: "(cur : Z) (updateTo : Z)", Ret: "Z",
		Stmt: "if ch.mutable.state < updateTo {", AssignRet: "ch.mutable.state", Rest: "cur",
		Hints: map[string]string{"ch.mutable.state": "cur"}},
	// channel.go Close: the state assignment of the locked region
	{Func: "Channel.Close", Out: "chanCloseState", File: "GenClose", Soft: true,
		Params: "(cur : Z)", Ret: "Z",
		Stmt: "if ch.mutable.state < ChannelStartClose {", AssignRet: "ch.mutable.state", Rest: "cur",
		Hints: map[string]string{"ch.mutable.state": "cur"}},
	// C07, second strengthening (GenClose2.v).
	// (1) inbound.go InboundCallResponse.SendSystemError: the statements after setSpanErrorDetails --
	// the error frame must be handed to the connection BEFORE doneSending() shuts the exchange down
	// (the removal of the last exchange closes a draining connection, which then refuses to send).
	// The marker of doneSending mentions the marker of the send: the pinned order leaves it unbound.
	{Func: "InboundCallResponse.SendSystemError", Out: "handlerErrOrder", File: "GenClose2", Soft: true,
		Params: "", Ret: "Z",
		Stmt: "response.setSpanErrorDetails(err)", After: true, Rest: "",
		Hints: map[string]string{"sendErr": "(1 + shut_down)"},
		SHints: map[string]string{
			"span := CurrentSpan(response.mex.ctx)":                                    "",
			"sendErr := response.conn.SendSystemError(response.mex.msgID, *span, err)": "let error_queued := 0 in",
			"response.doneSending()":                                                   "let shut_down := error_queued in",
			"response.call.releasePreviousFragment()":                                  "",
		}},
	// (2) connection.go handlePingReq: which states refuse a ping (1 = the ping res is sent,
	// 0 = protocolError).
	{Func: "Connection.handlePingReq", Out: "pingReqAnswer", File: "GenClose2", Soft: true,
		Params: "(cur : Z)", Ret: "Z",
		Stmt: "if state := c.readState(); state == connectionClosed {", Rest: "1", NakedRetW: "proto_err",
		Hints: map[string]string{"c.readState()": "cur"},
		SHints: map[string]string{
			"c.protocolError(frame.Header.ID, errConnNotActive{\"ping on incoming\", state})": "let proto_err := 0 in",
		}},
	// (3) relay.go: every function that ENDS a relay item gives back the unit of Relayer.pending
	// taken at admission exactly when it took the item (ok), whichever side of the call it is on
	// (isOriginator), and the admission path gives it back when no destination is available.
	// The translated value is the pending counter after the function.
	{Func: "Relayer.timeoutRelayItem", Out: "relayTimeoutPending", File: "GenClose2", Soft: true,
		Params: "(ok : bool) (isOriginator : bool) (pending : Z)", Ret: "Z",
		Stmt: "item, ok := items.Entomb(id, _relayTombTTL)", After: true, Rest: "pending", NakedRetW: "pending",
		SHints: map[string]string{
			"verifPoint(...": "",
			"r.conn.SendSystemError(id, item.span, ErrTimeout)": "",
			"item.call.Failed(\"timeout\")":                     "",
			"item.call.End()":                                   "",
			"r.decrementPending()":                              "let pending := pending - 1 in",
		}},
	{Func: "Relayer.failRelayItem", Out: "relayFailPending", File: "GenClose2", Soft: true,
		Params: "(found : bool) (stopped : bool) (ok : bool) (isOriginator : bool) (slow : bool) (pending : Z)", Ret: "Z",
		Stmt: "item, stopped, found := items.Get(id, true", After: true, Rest: "pending", NakedRetW: "pending",
		Hints: map[string]string{"item.isOriginator": "isOriginator", "reason != _relayErrorSourceConnSlow": "(negb slow)"},
		SHints: map[string]string{
			"items.logger.WithFields(...":                 "",
			"item, ok := items.Entomb(id, _relayTombTTL)": "",
			"r.conn.SendSystemError(...":                  "",
			"item.call.Failed(reason)":                    "",
			"item.call.End()":                             "",
			"r.decrementPending()":                        "let pending := pending - 1 in",
		}},
	{Func: "Relayer.finishRelayItem", Out: "relayFinishPending", File: "GenClose2", Soft: true,
		Params: "(ok : bool) (isOriginator : bool) (pending : Z)", Ret: "Z",
		Stmt: "item, ok := items.deleteCall(id, lookedUp)", After: true, Rest: "pending", NakedRetW: "pending",
		Hints: map[string]string{"item.isOriginator": "isOriginator"},
		SHints: map[string]string{
			"item.call.End()":      "",
			"r.decrementPending()": "let pending := pending - 1 in",
		}},
	{Func: "Relayer.handleCallReq", Out: "relayNoDestPending", File: "GenClose2", Soft: true, RetIdx: 0,
		Params: "(no_dest : bool) (pending : Z)", Ret: "Z",
		Stmt: "if err != nil || !ok {", Rest: "pending",
		Hints: map[string]string{"err != nil || !ok": "no_dest", "_relayShouldRelease": "pending"},
		SHints: map[string]string{
			"r.decrementPending()": "let pending := pending - 1 in",
			"call.End()":           "",
		}},
	// relay.go (C09): Relayer.canHandleNewCall -- the admission decision taken under the connection's
	// state read-lock (the closure runs in place; the pending increment it guards is the model's
	// ICanHandle / IRemoteCan action) -- and Relayer.canClose (the LDrained guard of the model)
	{Func: "Relayer.canHandleNewCall", Out: "relayCanHandleNewCall", Params: "(state : Z)", Ret: "bool", RetIdx: 0,
		Hints: map[string]string{"r.conn.state": "state"},
		SHints: map[string]string{
			"var (...":                             "",
			"r.conn.withStateRLock(...":            "inline-closure",
			"if canHandle {\n\tr.pending.Inc()\n}": "",
		}},
	{Func: "Relayer.canClose", Out: "relayCanClose", File: "GenRelayFwd", Params: "(is_nil : bool) (pending : Z)", Ret: "bool",
		Hints: map[string]string{"r == nil": "is_nil", "r.countPending()": "pending"}},
	// relay.go (C03): Relayer.getDestination, the admission of a call req id on a relay connection --
	// the whole function, twice: the `ok` result and the error result (0 nil, 1 duplicate id, 2 bad
	// relay host).  (tomb, found) = what r.outbound.Get returns for the id: is there an item, and is it
	// a tombstone; dest_ok = call.Destination() found a peer; conn_ok = getConnectionRelay succeeded.
	// The refusing branches must contain the statements named in the stmt-hints (call.Failed with
	// that reason, the error frame): a missing one leaves its marker unbound in relayGetDestErr.
	{Func: "Relayer.getDestination", Out: "relayGetDestOk", File: "GenRelayAdmit", Soft: true, RetIdx: 1,
		Params: "(found : bool) (tomb : bool) (dest_ok : bool) (conn_ok : bool)", Ret: "bool",
		Hints: c03GetDestHints, SHints: c03GetDestSHints},
	{Func: "Relayer.getDestination", Out: "relayGetDestErr", File: "GenRelayAdmit", Soft: true, RetIdx: 2,
		Params: "(found : bool) (tomb : bool) (dest_ok : bool) (conn_ok : bool)", Ret: "Z",
		Hints: c03GetDestHints, SHints: c03GetDestSHints},
}

var c03GetDestHints = map[string]string{
	"r.outbound.Get(f.Header.ID, false)": "(tomb, false, found)", // (item, stopped, found); of the item only .tomb is modelled
	"item.tomb":                          "item",
	"err != nil":                         "conn_err",
	"errors.New(\"callReq with already active ID\")": "(1 + failed_dup)",
	"errBadRelayHost": "(2 + failed_bad + sent_declined)",
	"nil":             "0",
}

var c03GetDestSHints = map[string]string{
	"r.logger.WithFields(...":                                                                   "",
	"call.Failed(ErrCodeProtocol.relayMetricsKey())":                                            "let failed_dup := 0 in",
	"peer, ok := call.Destination()":                                                            "let ok := dest_ok in",
	"call.Failed(\"relay-bad-relay-host\")":                                                     "let failed_bad := 0 in",
	"r.conn.SendSystemError(f.Header.ID, f.Span(), errBadRelayHost)":                            "let sent_declined := 0 in",
	"remoteConn, err := peer.getConnectionRelay(f.TTL(), r.maxConnTimeout)":                     "let conn_err := negb conn_ok in",
	"call.Failed(\"relay-connection-failed\")":                                                  "let failed_conn := 0 in",
	"r.conn.SendSystemError(f.Header.ID, f.Span(), NewWrappedSystemError(ErrCodeNetwork, err))": "let sent_network := 0 in",
}

// C17 -- the options path (context_builder.go, retry.go) and the error classification
// (retry.go, errors.go) over the record / error-shape extension of records.go.
var errShapeAsserts = map[string][2]string{
	"SystemError": {"g_is_sys", "g_as_sys"},
	"net.Error":   {"g_is_net", "g_as_net"},
}

var errShapeMethods = map[string]string{
	"method:SystemError.Code":    "SystemError_Code",
	"method:SystemError.Wrapped": "SystemError_Wrapped",
}

func init() {
	targets = append(targets, []Target{
		// context_builder.go: the builder's RetryOptions field is the state variable cb_RetryOptions
		{Func: "ContextBuilder.SetRetryOptions", Out: "cbSetRetryOptions", File: "GenRetryOpts", Soft: true, Panics: true,
			Params: "(cb_RetryOptions : option RetryOptions) (retryOptions : option RetryOptions)", Ret: "option (option RetryOptions)",
			LVals: map[string]string{"cb.RetryOptions": "cb_RetryOptions"}, Hints: map[string]string{"cb": "cb_RetryOptions"}},
		{Func: "ContextBuilder.SetTimeoutPerAttempt", Out: "cbSetTimeoutPerAttempt", File: "GenRetryOpts", Soft: true, Panics: true,
			Params: "(cb_RetryOptions : option RetryOptions) (timeoutPerAttempt : Z)", Ret: "option (option RetryOptions)",
			LVals: map[string]string{"cb.RetryOptions": "cb_RetryOptions"}, Hints: map[string]string{"cb": "cb_RetryOptions"}},
		// Build: what the context parameters receive as retryOptions
		{Func: "ContextBuilder.Build", Out: "cbBuildRetryOptions", File: "GenRetryOpts", Soft: true, KeyVal: "retryOptions",
			Params: "(cb_RetryOptions : option RetryOptions)", Ret: "option RetryOptions",
			LVals: map[string]string{"cb.RetryOptions": "cb_RetryOptions"}},
		// retry.go getRetryOptions: has_params = the context carries tchannel parameters
		{Func: "getRetryOptions", Out: "getRetryOptions", File: "GenRetryOpts", Soft: true, Panics: true,
			Params: "(has_params : bool) (params_retryOptions : option RetryOptions)", Ret: "option (option RetryOptions)",
			LVals: map[string]string{"params.retryOptions": "params_retryOptions"},
			Hints: map[string]string{"params == nil": "(negb has_params)", "defaultRetryOptions": "(Some v_defaultRetryOptions)",
				"defaultRetryOptions.MaxAttempts": "(RetryOptions_MaxAttempts v_defaultRetryOptions)"},
			SHints: map[string]string{"params := getTChannelParams(ctx)": ""}},
		// errors.go / retry.go over error shapes (Base/GoErr.v)
		{Func: "SystemError.Code", Out: "SystemError_Code", File: "GenRetryErr", Soft: true, Params: "(se : gsys)", Ret: "Z",
			Hints: map[string]string{"se.code": "(gs_code se)"}},
		{Func: "SystemError.Wrapped", Out: "SystemError_Wrapped", File: "GenRetryErr", Soft: true, Params: "(se : gsys)", Ret: "gerr",
			Hints: map[string]string{"se.wrapped": "(gs_wrapped se)"}},
		{Func: "GetSystemErrorCode", Out: "GetSystemErrorCodeS", File: "GenRetryErr", Soft: true, Params: "(err : gerr)", Ret: "Z",
			Asserts: errShapeAsserts, ErrNil: "g_is_nil", Hints: errShapeMethods},
		{Func: "isNetError", Out: "isNetErrorS", File: "GenRetryErr", Soft: true, Params: "(err : gerr)", Ret: "bool",
			Asserts: errShapeAsserts, ErrNil: "g_is_nil", Hints: errShapeMethods},
		{Func: "getErrCode", Out: "getErrCodeS", File: "GenRetryErr", Soft: true, Params: "(err : gerr)", Ret: "Z",
			Asserts: errShapeAsserts, ErrNil: "g_is_nil",
			Hints: merge(errShapeMethods, map[string]string{"call:GetSystemErrorCode": "GetSystemErrorCodeS", "call:isNetError": "isNetErrorS"})},
		{Func: "RetryOn.CanRetry", Out: "CanRetryS", File: "GenRetryErr", Soft: true, Params: "(r : Z) (err : gerr)", Ret: "bool",
			Asserts: errShapeAsserts, ErrNil: "g_is_nil",
			Hints: merge(errShapeMethods, map[string]string{"call:getErrCode": "getErrCodeS"})},
	}...)
}
