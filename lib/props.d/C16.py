# check configuration for C16
# engines: [harness engine name, cases at quick tier, cases at thorough tier]
from common_props import COMMON_TRUSTED

CFG = {
    "engines": [
        [
            "peerbook",
            260,
            1200
        ],
        ["peeraddrace", 12, 100]
    ],
    "engine_timeout": 1500,
    "rule": "peerbook: random scenarios over 2-3 real listening channels (+ sometimes a client-only channel) in one process: Connect (plain, through an alias host:port so that the announced host:port differs, to itself, to a closed channel, with Channel.Close during the dial), graceful Connection.Close from either side, simultaneous closes from both sides / of every connection of a channel, abrupt failure (raw socket closed), idle sweep (stub clock + ticker), PeerList Add/Remove on the channel list and two isolated sub-channel lists, RootPeers().GetOrAdd, Channel.Close (single, double, two channels at once); about a third of the connects park the activating goroutine (dial side round 1 / mismatch round 2, accept side) at peer.addConnection.afterCheck while 1-2 further operations run (close the parked channel, sweep it, fail or remotely close the parked link, close another connection to the same peer, list operations); every 12th scenario forces the window inside PeerList.Add (schedule point peerlist.Add.afterRootAdd, added by this check to the library copy: the peer loses its only connection between RootPeerList.Add and addSC; infeasible, not a failure, when the library has no such point). One case per (scenario, channel): the channel's macro script (handshakes, observed state changes, list operations, parks) and a snapshot after every operation. Non-trivial = the channel had at least one connection; distinct by script.",
    "trusted_base": COMMON_TRUSTED + [
        "modelled by hand (tied by correspondence): Channel.addConnection/connectionActive/addConnectionToPeer/removeClosedConn/connectionCloseStateChange (bookkeeping part), Connect's mismatch branch, Peer.addConnection/removeConnection/connectionCloseStateChange/addSC/delSC/canRemove, PeerList.Add/Remove (reference counts), RootPeerList.Add/Get/GetOrAdd/onClosedConnRemoved; regenerated from source: connection state and direction constants",
        "atomicity granularity: one model step per lock-protected region / state read; merged actions are listed in the header of Model/PeerBook.v",
        "the connection state machine itself (who changes the state when) is environment: every forward change at any time, each followed by a close-state callback",
        "harness: quiescence is detected by polling (stable snapshots + oracles hold, 3 s timeout); connection state changes are read from the implementation (VerifConnState) and fed to the model as labels"
    ],
    "assumptions": [
        "one channel per model instance; other channels, the network, Channel.Close, the idle sweep and failures are the environment (LNew / LChange labels at any time)",
        "every connection state change is followed by a call of OnCloseStateChange that starts after the change (true of close() and checkExchanges except the 'relay cannot close' log-and-return path)",
        "scCount (uint32) does not wrap: fewer than 2^32 peer lists",
        "blank host:ports (newPeer panics) are outside the domain",
        "goroutine liveness: quiescence (no goroutine inside a bookkeeping function) is reached"
    ]
}
