# check configuration for C16
# engines: [harness engine name, cases at quick tier, cases at thorough tier]
from common_props import COMMON_TRUSTED

CFG = {
    "engines": [
        [
            "peerbook",
            260,
            1200
        ],
        ["peeraddrace", 12, 100],
        ["peergoc", 240, 1500]
    ],
    "engine_timeout": 1500,
    "rule": "peerbook: random scenarios over 2-3 real listening channels (+ sometimes a client-only channel) in one process: Connect (plain, through an alias host:port so that the announced host:port differs, to itself, to a closed channel, with Channel.Close during the dial), graceful Connection.Close from either side, simultaneous closes from both sides / of every connection of a channel, abrupt failure (raw socket closed), idle sweep (stub clock + ticker), PeerList Add/Remove on the channel list and two isolated sub-channel lists, RootPeers().GetOrAdd, Channel.Close (single, double, two channels at once); about a third of the connects park the activating goroutine (dial side round 1 / mismatch round 2, accept side) at peer.addConnection.afterCheck while 1-2 further operations run (close the parked channel, sweep it, fail or remotely close the parked link, close another connection to the same peer, list operations); every 12th scenario forces the window inside PeerList.Add (schedule point peerlist.Add.afterRootAdd, added by this check to the library copy: the peer loses its only connection between RootPeerList.Add and addSC; infeasible, not a failure, when the library has no such point). One case per (scenario, channel): the channel's macro script (handshakes, observed state changes, list operations, parks) and a snapshot after every operation. Non-trivial = the channel had at least one connection; distinct by script. peergoc (get-or-create regions of RootPeerList.Add / GetOrAdd / Get and PeerList.Add / Remove): sub peergoc = scripts of calls on one real channel (channel list, two isolated sub-channel lists, RootPeers() directly) in which a call may be parked at the schedule point rootpeers.Add.afterMiss (between the read-locked miss and the write lock of RootPeerList.Add; added by this check to the library copy -- without it nothing is parked and the scripts are replayed un-parked) and released later: 80 directed cases (every pair and triple of the five entry points, all past the miss before the first write lock, every release order, followed by late callers and a removal) and random scripts of 4-15 operations over 1-3 host:ports; observables = every completed call (goroutine, host:port, code, object), root map, list maps, scCount, objects renamed by first appearance; oracles: every caller's *Peer is the root list's, list entries hold it, scCount = number of lists holding the host:port. Sub peergocnet (oracle only): the same race on the host:port of a real server, forced by the schedule point or hook-free by holding the exported RWMutex of RootPeers() until every adder is queued on its read lock, then: a connection made through one list's peer is listed on the other's, calls through both share it, removing the host:port from one list keeps the peer in the root list when its last connection closes, removing it from all lists lets it leave. Sub peergocstress (oracle only, no hook): 4-8 goroutines add 60-180 fresh host:ports through different entry points behind a per-host:port barrier; pointer identity and scCount. Non-trivial (peergoc) = at least two first-time adders of one host:port were parked at once.",
    "trusted_base": COMMON_TRUSTED + [
        "regenerated from source and proved equal to the model's step decisions (Gen/GenPeerGoc.v, Gen/GenLockSkel.v, C16_goc_generated, C16_goc_regions): every lock-protected region of RootPeerList.Get/Add/GetOrAdd and PeerList.exists/Add/Remove/GetOrAdd, and RootPeerList.onClosedConnRemoved (C16_goc_collector_generated: equal to the collector steps of PeerBook.v run without interleaving); the hints printed in Gen/GenPeerGoc.v are trusted (newPeer(...) with exactly these arguments = the fresh object, p.addSC()/p.delSC() = +-1 on scCount of p, a *peerScore is identified with its Peer, heap operations dropped)",
        "Model/PeerGoc.v has no deletion from the root list (that window is the known finding c16:peer-collected-during-add, modelled in PeerBook.v); addSC and the list insertion are one step (the list is write-locked, only the collector reads scCount in between)",
        "modelled by hand (tied by correspondence): Channel.addConnection/connectionActive/addConnectionToPeer/removeClosedConn/connectionCloseStateChange (bookkeeping part), Connect's mismatch branch, Peer.addConnection/removeConnection/connectionCloseStateChange/addSC/delSC/canRemove, PeerList.Add/Remove (reference counts), RootPeerList.Add/Get/GetOrAdd/onClosedConnRemoved; regenerated from source: connection state and direction constants",
        "atomicity granularity: one model step per lock-protected region / state read; merged actions are listed in the header of Model/PeerBook.v",
        "the connection state machine itself (who changes the state when) is environment: every forward change at any time, each followed by a close-state callback",
        "harness (peerbook): the position of a connection's state change relative to the appends of its own activation is taken from the implementation (points peer.addConnection.appended / chan.addConnectionToPeer.done, observe-then-replay); when it cannot be observed (activation in flight at a recording point, library without the points, the known collection window opening without a forced schedule) the channel's case is judged by the statement-level oracles only",
        "harness: quiescence is detected by polling (stable snapshots + oracles hold, 3 s timeout); connection state changes are read from the implementation (VerifConnState) and fed to the model as labels"
    ],
    "assumptions": [
        "one channel per model instance; other channels, the network, Channel.Close, the idle sweep and failures are the environment (LNew / LChange labels at any time)",
        "every connection state change is followed by a call of OnCloseStateChange that starts after the change (true of close() and checkExchanges except the 'relay cannot close' log-and-return path)",
        "scCount (uint32) does not wrap: fewer than 2^32 peer lists",
        "blank host:ports (newPeer panics) are outside the domain",
        "goroutine liveness: quiescence (no goroutine inside a bookkeeping function) is reached"
    ]
}
