# check configuration for C20
# engines: [harness engine name, cases at quick tier, cases at thorough tier]
from common_props import COMMON_TRUSTED

CFG = {
    "engines": [
        [
            "errors",
            120,
            1500
        ]
    ],
    "rule": "errors: (c20_errfn) SystemErrCode.String for all 256 codes, Error()/GetSystemErrorCode/GetSystemErrorMessage/NewWrappedSystemError/GetContextError/logConnectionError over all 256 system codes + context errors + EOF + plain/net errors, package error values; (c20_send) the real Connection.SendSystemError on an overlay-built connection for every code, close states 1..4, full/free send queue, message lengths {0,1,255,256,65490,65491,65492,65493,65535,65536,70000}, printf-verb messages, non-system and nil errors, plus error frames of a real server's handler read by a raw TCP peer; (c20_closing) real handleCallReq on closing connections + a real closing server seen by a raw peer; (c20_mexrecv) real recvPeerFrameOfType on overlay-built exchanges (context live/deadline/cancelled x notified error x 0..2 queued frames of 4 types, valid and truncated error payloads) and real calls hitting their deadline / cancelled, direct and via 1-2 relays; (c20_recv) a real client against a raw TCP server answering with scripted frames: error frames of all 256 codes, other-id, protocol-error id, malformed, trailing bytes, call res with response codes {0,1,2,255} and checksum types {none,crc32,crc32c}, clean close, cut inside a frame, size field < 16; (c20_e2e_err/res) real client -> 0,1,2 real relays -> real server for all 256 codes on each topology, boundary message lengths, non-system errors, application-error responses with random args, a call reaching a closing server; (c20_relay) every error a real relay originates (RelayHost.Start system codes {0..7,0x80,0xfe,0xff} / other / rate-limit drop, no destination, refused connect, local fragmented, timeout, duplicate id, source inactive, remote inactive, destination slow) seen by a raw TCP client. Every case counts as non-trivial; distinct by input.",
    "trusted_base": COMMON_TRUSTED + [
        "regenerated from source each run: GetContextError, NewWrappedSystemError, GetSystemErrorMessage (polymorphic in the error type; hints listed in Gen/GenErrors.v), GetSystemErrorCode, finishesCall, all ErrCode*/messageType*/connection*/response* constants, relay reason strings, MaxFramePayloadSize, mexChannelBufferSize, the stringer name tables (tied to the hand tables by theorem C20_names)",
        "modelled by hand (tied by correspondence): the error ADT (nil | SystemError | DeadlineExceeded | Canceled | EOF | other+text+net flag) and Error() texts, SystemErrCode.String / connectionState.String index tables, SendSystemError, InboundCallResponse.SendSystemError, protocolError, logConnectionError, handleCallReq state check, beginCall's local failures, readFrames dispatch for error / call res frames (relay and non-relay), handleError, recvPeerFrame priority, recvPeerFrameOfType, errorMessage->SystemError at the reader, first call res fragment with the response code, ApplicationError, SetApplicationError, relay Receive/handleNonCallReq for response-type frames, relay handleCallReq error sites, timeoutRelayItem, failRelayItem; byte layer = C06's TypedBuf/Messages models",
        "Spec/ErrorSpec.v (fixed codes of local conditions, response code 1 = application error), Spec/RelayErrors.v (the reading of the relay's documentation), Spec/Protocol.v (error / call res / frame layout)",
    ],
    "assumptions": [
        "the argument bytes of a call response (checksum type, checksum, chunks) are an opaque tail in the model: it is proved to arrive unchanged; what it decodes to is property C01/C02 (the engine's oracle checks the decoded arguments on the real code)",
        "deferred flag/checksum bytes of the fragment writer are modelled as written in place (straight-line layout); multi-fragment responses are not modelled here (C01)",
        "an exchange is observed at one instant (ctx.Err(), queued frames, notified error): the select races of mex.go between that instant and the wait are outside the model; a full recvCh (2 frames) is modelled as 'not delivered' while the code blocks the read loop",
        "relay item states (present / tombed / timer stoppable / queue room) are inputs of the relay model: which interleavings produce them is C09/C10",
        "error values are abstracted to nil | SystemError(code,msg) | context.DeadlineExceeded | context.Canceled | io.EOF | other(Error() text, net.Error?); relay.RateLimitDropError is a flag next to the Start error",
        "Start-error texts containing '%' are outside the relay model's message clause (relay.go still formats err.Error() with NewSystemError); codes are unaffected",
        "tracing span on a handler's error frame: the default no-op tracer yields the empty span (engine input); span flags/ids above 2^63-1 are not generated (int64 transport)",
    ]
}
