# check configuration for C19
# engines: [harness engine name, cases at quick tier, cases at thorough tier]
from common_props import COMMON_TRUSTED

CFG = {
    "engines": [
        [
            "idlehealth",
            400,
            8000
        ],
        [
            "sweepfine",
            500,
            6000
        ]
    ],
    "rule": "tl: random timelines on a real Channel with stub TimeNow/TimeTicker (unbuffered fake tickers, clock barrier so that each sweep is complete before the next event): 1-4 connections to raw TCP peers (inbound and outbound, with and without a RelayHost), options IdleCheckInterval {0,<0,1ns,7s,30s} x MaxIdleTime {1ns..1h, MaxInt64, <=0} x health Interval {0,<0,1s} x Timeout {0,25ms,2s} x FailuresToClose {0,1,2,3,5,-1}; 8-38 events per timeline: clock advances aimed at idle = MaxIdleTime-1/+0/+1, frames of 13 type bytes read and 12 written, local inbound/outbound calls and relayed calls started and finished, Connection.Close, sweep ticks, health ticks with scripted ping outcomes (ping res, error frame codes, cancelled, call res frame, timeout), one wedged connection (Write stalls, SendBufferSize=1) whose ping cannot be queued; clock stepping backwards / beyond int64 nanoseconds in a few timelines (model only). hloop: each connection's ping-result sequence against the loop model. ring: 0..1025 results through healthHistory. hopts / idleopts: boundary grids of option values through withDefaults/enabled and NewChannel. Non-trivial = timeline with more events than connection set-up; distinct by input.  fine (engine sweepfine): the same real channel, every sweep driven action by action through the schedule points idle.sweep.{afterNow,look,collected,check,pending,recheck,close,done}: the poller is parked at each point and 0-2 other events (clock advances aimed at MaxIdleTime, frames of 8 types in either direction, local / relayed calls that start or finish, Connection.Close, health pings with ok / error outcomes) are forced while it is parked (no close / new connection while the read lock of the first loop is held); 1-3 connections, 1-2 sweeps per timeline, MaxIdleTime {1us,5s,180s}; the label sequence actually executed (first-loop order = the map order the implementation chose) is replayed by run_fine; directed cases: response of a pending call arriving between the two loops, a call that comes and goes on a collected connection while another one is being closed, each with and without a clock advance.",
    "trusted_base": COMMON_TRUSTED + [
        "modelled by hand (tied by correspondence): updateLastActivityRead/Write, messageExchangeSet.countCalls, checkExchanges, Connection.close, connectionError as run from the health goroutine, removeClosedConn, idleSweep.checkIdleConnections/start, healthCheck loop body, healthHistory add/asBools, withDefaults, Time.Sub saturation / UnixNano wrap; regenerated from source each run: isMessageTypeCall, HealthCheckOptions.enabled, ChannelOptions.validateIdleCheck, GetSystemErrorCode, Connection.hasPendingCalls, Relayer.canClose, Connection.IsActive, lastActivityTime, idleSweep.isIdle (C19_gen_decisions ties them to the hand model; Model/IdleSweepFine.v is written over them), connection-state / message-type / error-code constants, _healthHistorySize, default timeout and FailuresToClose",
        "go2v hints for C19: hco.Interval => interval; o.IdleCheckInterval / o.MaxIdleTime => parameters; validateIdleCheck's error result seen as a boolean (nil => true); the operands of the sweep decisions are parameters (c.inbound.countCalls() => inb, c.outbound.countCalls() => outb, c.relay.canClose() => canClose, r == nil => isNil, r.countPending() => pending, c.readState() => state, the two activity stamps => lr lw, Time.Before => <?, now.Sub(lastActivityTime(conn)) => idleFor)",
        "Model/IdleSweepFine.v: the atomic actions of checkIdleConnections (clock read; read lock + snapshot; one isIdle per connection in any order; unlock; IsActive; inbound.countCalls; outbound.countCalls; relay.canClose; the re-check; Connection.close).  The two stamp loads of isIdle are one action (monotone single-store stamps), Connection.close (state lock + checkExchanges) is one action as in Model/Idle.v; the harness forces interleavings only at the eight schedule points (the three reads of hasPendingCalls are consecutive on the implementation)",
        "Spec/IdleHealthHist.v: the pings of a connection as a history shows them (ping_outcomes, ping_inflight), health_closes_now, what ping traffic is",
        "harness: stub clock + unbuffered fake tickers give one atomic step per event; the health goroutine's counter is read from the fields of its own 'Failed active health check.' log line; frames of arbitrary type are queued on the real send channel by an overlay wrapper",
        "Spec/IdleHealthSpec.v: the reading of the statement (call frame = types 0x03 0x04 0x13 0x14 0xff; last_call_activity; health_closes_at)"
    ],
    "assumptions": [
        "Model/IdleHealthSys.v (theorems C19_stamp .. C19_pings_noninterference): each sweep, ping start and ping end is atomic with respect to the other events (what a stub ticker yields).  Model/IdleSweepFine.v (C19_fine_*) drops this for the sweep: its atomic actions interleave with all other events; ping start / ping end, Connection.close and checkExchanges remain single actions",
        "under interleaving the statement's 'if and only if' is proved as it stands only for connections no other goroutine touches during the sweep (C19_fine_sweep_iff); for touched connections the 'only if' is proved in its weakest correct form (C19_fine_close_only_if / _history / _instant: each test at its own instant; the whole condition at the instant of the re-check provided no call started on the connection between the inbound-count read and the re-check); no 'if' is claimed for touched connections",
        "the stub clock is monotone and within int64 nanoseconds for the statement-level theorems (clock_ok); other clocks are covered by model/implementation correspondence only",
        "a ping answered by an error frame with code Cancelled stops the health check of that connection without closing it (modelled as outcome PStop, as the code does)",
        "FailuresToClose < 0 (closes at the first failure) is outside the statement's domain: correspondence only",
        "external connection errors (peer resets, protocol errors) are not events of the model"
    ]
}
