# check configuration for C19
# engines: [harness engine name, cases at quick tier, cases at thorough tier]
from common_props import COMMON_TRUSTED

CFG = {
    "engines": [
        [
            "idlehealth",
            400,
            8000
        ]
    ],
    "rule": "tl: random timelines on a real Channel with stub TimeNow/TimeTicker (unbuffered fake tickers, clock barrier so that each sweep is complete before the next event): 1-4 connections to raw TCP peers (inbound and outbound, with and without a RelayHost), options IdleCheckInterval {0,<0,1ns,7s,30s} x MaxIdleTime {1ns..1h, MaxInt64, <=0} x health Interval {0,<0,1s} x Timeout {0,25ms,2s} x FailuresToClose {0,1,2,3,5,-1}; 8-38 events per timeline: clock advances aimed at idle = MaxIdleTime-1/+0/+1, frames of 13 type bytes read and 12 written, local inbound/outbound calls and relayed calls started and finished, Connection.Close, sweep ticks, health ticks with scripted ping outcomes (ping res, error frame codes, cancelled, call res frame, timeout), one wedged connection (Write stalls, SendBufferSize=1) whose ping cannot be queued; clock stepping backwards / beyond int64 nanoseconds in a few timelines (model only). hloop: each connection's ping-result sequence against the loop model. ring: 0..1025 results through healthHistory. hopts / idleopts: boundary grids of option values through withDefaults/enabled and NewChannel. Non-trivial = timeline with more events than connection set-up; distinct by input.",
    "trusted_base": COMMON_TRUSTED + [
        "modelled by hand (tied by correspondence): updateLastActivityRead/Write, hasPendingCalls (+ messageExchangeSet.countCalls), checkExchanges, Connection.close, connectionError as run from the health goroutine, removeClosedConn, idleSweep.checkIdleConnections/start, healthCheck loop body, healthHistory add/asBools, withDefaults, Time.Sub saturation / UnixNano wrap; regenerated from source each run: isMessageTypeCall, HealthCheckOptions.enabled, ChannelOptions.validateIdleCheck, GetSystemErrorCode, connection-state / message-type / error-code constants, _healthHistorySize, default timeout and FailuresToClose",
        "go2v hints for C19: hco.Interval => interval; o.IdleCheckInterval / o.MaxIdleTime => parameters; validateIdleCheck's error result seen as a boolean (nil => true)",
        "harness: stub clock + unbuffered fake tickers give one atomic step per event; the health goroutine's counter is read from the fields of its own 'Failed active health check.' log line; frames of arbitrary type are queued on the real send channel by an overlay wrapper",
        "Spec/IdleHealthSpec.v: the reading of the statement (call frame = types 0x03 0x04 0x13 0x14 0xff; last_call_activity; health_closes_at)"
    ],
    "assumptions": [
        "each sweep, ping start and ping end is atomic with respect to the other events (what a stub ticker yields); interleavings INSIDE checkIdleConnections (traffic between its two loops) are not modelled",
        "the stub clock is monotone and within int64 nanoseconds for the statement-level theorems (clock_ok); other clocks are covered by model/implementation correspondence only",
        "a ping answered by an error frame with code Cancelled stops the health check of that connection without closing it (modelled as outcome PStop, as the code does)",
        "FailuresToClose < 0 (closes at the first failure) is outside the statement's domain: correspondence only",
        "external connection errors (peer resets, protocol errors) are not events of the model"
    ]
}
