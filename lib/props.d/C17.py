# check configuration for C17
# engines: [harness engine name, cases at quick tier, cases at thorough tier]
from common_props import COMMON_TRUSTED

CFG = {
    "engines": [
        [
            "retry",
            400,
            6000
        ]
    ],
    "rule": "canretry: the full table 7 policies x 256 codes x {system, net.Error, other}; retry: random scripts (policy, MaxAttempts in {0,1,2,3,5,7,10}, outcome list with position of first success, peers marked per attempt, optional per-attempt timeout) run through the real Channel.RunWithRetry; retry-avoid: real sub-channel peer lists of 1..6 peers. Non-trivial = more than one attempt (retry), more than one peer (avoid), every table point; distinct by input.",
    "trusted_base": COMMON_TRUSTED + [
        "modelled by hand (tied by correspondence): RunWithRetry loop, getRetryOptions, AddSelectedPeer, getHost; regenerated from source each run: CanRetry, getErrCode, GetSystemErrorCode, RetryOn/ErrCode constants, defaultRetryOptions.MaxAttempts",
        "abstraction: a Go error is seen as (nil?, SystemError? with code, net.Error?)"
],
    "assumptions": [
        "sub-channel avoidance clause is decided by C15's theorems on PeerList.Get; here it is exercised by the oracle only",
        "MaxAttempts < 0 (loop runs zero times, returns nil) is outside the statement's domain"
    ]
}
