# check configuration for C17
# engines: [harness engine name, cases at quick tier, cases at thorough tier]
from common_props import COMMON_TRUSTED

CFG = {
    "engines": [
        [
            "retry",
            400,
            6000
        ],
        [
            "retryopts",
            300,
            4000
        ],
        [
            "retryruns",
            400,
            8000
        ],
        [
            "c17calls",
            1500,
            20000
        ]
    ],
    # subs whose model output is proved equal to the documented specification (C17_table,
    # C17_errcode, C17_table_shapes, C17_options + C17_builder_path + C17_stop_builder):
    # an implementation that disagrees with the model there is a concrete failing input
    # retryruns: the pool machine's output on the recorded labels is proved equal to the private-state
    # specification (C17_runs_private / C17_runs_compose, Proofs/RetryRunsP.v -- a file that does not
    # depend on the regenerated pool tables, so it still builds on a tree that breaks C17_pool_sites)
    "spec_subs": {"canretry": [], "errcode": [], "canretrys": [], "retrycb": [],
                  "retryruns": ["theories/Proofs/RetryRunsP.vo"],
                  # c17calls: the calls machine is proved to send EVERY sub-channel call that carries the RequestState to an
                  # untried member whenever there is one (C17_every_call_avoids, Proofs/C17CallsP.v -- independent of the
                  # regenerated BeginCall functions, whose tie is Proofs/C17CallsTieP.v)
                  "c17calls": ["theories/Proofs/C17CallsP.vo"]},
    "rule": "c17calls: one real Channel.RunWithRetry per case on a fresh Channel whose Dialer records the host:port and refuses; every attempt makes 0..4 calls -- Channel.BeginCall / Peer.BeginCall to a host:port, SubChannel.BeginCall on one of 1..3 peer lists (the channel's own list through a plain sub-channel, isolated sub-channels; 0..5 peers out of 3 hosts x 3 ports, shared between lists) -- with &CallOptions{RequestState: rs}, nil or &CallOptions{}; distinct custom scores (the tried peer stays best ranked), 1 case in 6 default strategies (oracle only); MaxAttempts in {0,1,2,3,4} x 6 policies x scripted outcomes incl. bare context errors; fixed cases: two sub-channel calls in the only attempt (RetryNever), the same in the first of three attempts, direct call then sub-channel call, fan-out of 4 calls on 3 peers, two lists sharing their best peer; non-trivial = two or more calls with the RequestState in one attempt, or two attempts. retry / retryopts / retryruns error generators: + the bare context.Canceled / context.DeadlineExceeded, io.EOF, ErrNoPeers and their fmt.Errorf(%w) wrappers (one and two levels), SystemErrors wrapping them. retryruns: 1..3 goroutines x 1..2 top-level Channel.RunWithRetry runs each, every attempt may make 1..2 nested runs (two levels), yield to the next goroutine (baton: one runnable goroutine at a time), mark scripted host:ports before / after and select from a real sub-channel peer list with its PrevSelectedPeers; per run its own options (none / MaxAttempts in {0,1,2,3,4,5,7} x 6 policies x optional per-attempt timeout), one of two Channels, peers from a pool of its own (1 case in 5: one pool for all runs); 3/4 of the cases under GOMAXPROCS(1) + GC off with the identity of every RequestState recorded, 1/4 with the process's settings; fixed cases: 4-attempt run whose every attempt makes a 3-attempt run, a run parked in its first attempt while another goroutine makes three attempts, a one-attempt run with a nested five-attempt run; non-trivial = two runs overlap (nesting or a yield). errcode / canretrys: getErrCode and CanRetry on every error shape family (nil, plain, plain wrapping net.Error, 4 net.Error flavours, SystemError of each of the 256 codes wrapping net.Error timeout / non-timeout / plain / nil / OpError / DeadlineExceeded / plain-wrapping-net, SystemError wrapping SystemError, random nesting to depth 3) x 7 policies; retrycb: random ContextBuilder setter sequences (0..6 calls of SetRetryOptions(nil | fresh struct | a struct passed before) and SetTimeoutPerAttempt, MaxAttempts in {0,1,2,3,5,7,10}, 6 policies, 5 per-attempt timeouts, contexts without TChannel parameters) -> Build -> real getRetryOptions and real Channel.RunWithRetry with scripted outcomes of every shape; non-trivial = at least two setter calls or two attempts. canretry: the full table 7 policies x 256 codes x {system, net.Error, other}; retry: random scripts (policy, MaxAttempts in {0,1,2,3,5,7,10}, outcome list with position of first success, peers marked per attempt, optional per-attempt timeout) run through the real Channel.RunWithRetry; retry-avoid: real sub-channel peer lists of 1..6 peers. Non-trivial = more than one attempt (retry), more than one peer (avoid), every table point; distinct by input.",
    "trusted_base": COMMON_TRUSTED + [
        "requestStatePool: sync.Pool is modelled as 'Get returns any element that is in the pool or a new zero one' (no claim about which); the life cycle of the pooled RequestState is regenerated from retry.go (Gen/GenReqStatePool.v: every mention of the pool, every occurrence of a variable holding an element, reset per struct field) and proved equal to the model's tables; the retried function is trusted not to keep the *RequestState beyond its attempt",
        "call paths (go2v/c17calls.go, Gen/GenC17Calls.v): SubChannel.BeginCall, Channel.BeginCall, Peer.BeginCall, RequestState.PrevSelectedPeers / RetryCount are regenerated whole and proved equal to the mirrors of Model/C17Calls.v; value view (Base/C17CallSem.v): *RequestState = option (Attempt, keys of SelectedPeers) by value, *CallOptions = option of its RequestState field, *Peer = its host:port, error = Z; PeerList.Get, RootPeerList.GetOrAdd, validateCall, GetConnection, Connection.beginCall are parameters (any behaviour); the body of AddSelectedPeer is C15's tie (Gen/GenPeerSel.v), here its nil-receiver wrapper is a hint; peer lists are Model/PeerList.v (C15), rng draws of the heap's order stamps fixed to 0 (distinct scores: the selection does not depend on them)",
        "modelled by hand (tied by correspondence): RunWithRetry loop, AddSelectedPeer, getHost, NewContextBuilder leaving RetryOptions nil, getTChannelParams (context lookup); regenerated from source each run: CanRetry, getErrCode, isNetError, GetSystemErrorCode, SystemError.Code/Wrapped, ContextBuilder.SetRetryOptions / SetTimeoutPerAttempt, the retryOptions entry of Build, getRetryOptions, the RetryOptions struct and defaultRetryOptions, RetryOn/ErrCode constants",
        "abstraction: a Go error is seen as its shape under type assertions (nil | SystemError code wrapping shape | net.Error | other error wrapping shape); the older loop model sees (nil?, SystemError? with code, net.Error?), proved a refinement",
        "abstraction: a *RetryOptions is seen by value (nil = None): a struct shared between holders and mutated after Build is not represented; the engine takes the struct's content at each SetRetryOptions call and builds the context after the last setter",
        "go2v hints of the options targets: cb.RetryOptions / params.retryOptions are state variables, params == nil <-> the context carries no TChannel parameters, defaultRetryOptions = the generated record"
],
    "assumptions": [
        "sub-channel avoidance: PeerList.Get's choice is C15's theorem (get_min_eligible); what Get is fed with and what gets recorded is C17_calls_generated + C17_every_call_avoids",
        "MaxAttempts < 0 (loop runs zero times, returns nil) is outside the statement's domain"
    ]
}
