# check configuration for C12
# engines: [harness engine name, cases at quick tier, cases at thorough tier]
from common_props import COMMON_TRUSTED

CFG = {
    "engines": [
        [
            "frameown",
            200,
            2500
        ]
    ],
    "rule": "frameown: the real library under an ownership-tracking, poisoning, never-reusing FramePool (ConnectionOptions.FramePool). 50% fo_raw: 1..7 scripted items per connection from a spec-built raw peer against a real server (valid calls of 1..n fragments with echo / application error / system error / missing handler, bad checksum at every fragment position incl. arg1 spanning fragments, calls that stop mid-way until the deadline, ping, unassigned frame type, continuation and error frames for unknown ids, unknown checksum type, protocol-error frame, truncated frame); 15% fo_direct real client <-> server (1..4 calls, 0..140000-byte arguments); 15% fo_relay client -> relay -> server incl. arg2 appends (relayFragmentSender); each of these is replayed as a label list through the extracted model, whose predicted fate of every frame (Get site, Release site(s)) must equal the pool's record. 20% fo_chaos, oracle only: deadlines shorter than the handler, cancellation in flight, relay drops with a 2-frame send buffer and a stalled destination, server / relay destination killed mid-call, relay timer vs slow destination, random hostile frames, 8 concurrent mixed calls. plus the directed family fo_latch (max(12, n/10) cases x 6 rounds, after the other families so that their seeds are unchanged): frames handed to an exchange AFTER its error was latched -- real client, raw peer streaming an F-fragment response (2..6 fragments, checksum none/crc32/crc32c); the application reads the first fragment, Close()s the connection gracefully, the peer sends a ping (ping on a non-active connection = protocol error = stopExchanges), then 1..4 continuation frames and a marker ping, optionally the application reads on into the next fragment and the peer sends 0..2 more frames, then the application reads to the end; rounds alternate between the poisoning pool and a non-poisoning pool (a stale reference then keeps working as with sync.Pool and shows up as a second release). On correct code every frame's fate is deterministic (queued while recvCh has room although errCh is notified, refused when full, refused from then on = frameDropped) and is compared with the model; extra oracles of this family: no log line carries the header of a released frame (poisoned id), the response data seen by the application is a fragment-aligned prefix of what the peer sent, without poison. Oracle on every case: no frame released twice, none released that the pool did not hand out, poison of released frames intact, results equal what was sent, and all frames released on fault-free scenarios. Non-trivial = more than two frames; distinct by label list / scenario.",
    "trusted_base": COMMON_TRUSTED + [
        "modelled by hand (tied by correspondence on the frames' fates and by the regenerated call-site list): readFrames/handleFrame*/writeFrames/sendMessage/SendSystemError/recvMessage, handleCallReq/dispatchInbound/InboundCallResponse.SendSystemError, reqResReader/reqResWriter fragment handling, readableFragment.done, recvAndParseNextFragment, forwardPeerFrame/recvPeerFrameOfType, relay Relay/Receive/handleLocalCallReq/relayFragmentSender, preinit read/writeMessage; forwardPeerFrame is modelled as on the tree with the frameDropped repair (refuse every later frame once one was refused); regenerated from source each run: Gen/GenSites.v pool_sites (every FramePool.Get/Release call site), mexChannelBufferSize",
        "abstractions (over-approximations): frames are tokens without contents; argument state machines of fragmentingReader/Writer reduced to err/complete flags (C01 models them); relay item lookups, connection-state reads and parse results are label-supplied; exchange keys name exchange instances",
        "the list of ACCESS sites (where the library touches a frame's bytes) is hand-written; its completeness rests on the poisoning pool runs",
        "harness/overlay/zz_verif_c12.go: VerifPoisonFrame / VerifFramePoisonIntact",
],
    "assumptions": [
        "application contract: a handler does not go on reading request arguments after InboundCallResponse.SendSystemError (C12_contract_needed shows the reader would copy out of a released frame otherwise)",
        "relay hosts do not retain CallFrame/RespFrame after the callback returns",
        "per-call completeness (C12_completed_call_holds_no_frame, C12_faultfree_call_released) is stated for calls that completed without a fault (reader complete, writer complete without error, not through SendSystemError / failed dispatch) and whose recvCh is drained; each side condition is shown necessary by a witness run (C12_call_drained_needed, C12_call_quit_needed, C12_call_werr_needed); fragments the call wrote may still wait in a connection's send queue (they belong to the writer loop)",
        "C12_faultfree_all_released is stated for runs without the enumerated frame-dropping steps (Model.FrameOwn.loses: frame for an unknown/finished exchange or swallowed by a tombed relay item, unparsable/unexpected frame taken from an exchange, message.write failing on a fresh frame, control message for a full send buffer) -- these leaks are permitted by the statement and documented, not reported",
        "use after release is only visible to the harness as damaged poison (writes) or poison in results (reads); reads that do not influence a result are covered by the model's access sites only"
    ],
    "engine_timeout": 1800,
    "search_rounds": 1,
    "search_budget_s": 120
}
