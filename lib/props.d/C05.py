# check configuration for C05
from common_props import COMMON_TRUSTED

CFG = {
    "engines": [["cutbegin", 3, 12], ["cut", 4, 12], ["stallwrite", 3, 12], ["errq", 150, 600]],
    "engine_timeout": 1500,
    "rule": "cut: a real client channel calls (300 ms deadline) through a loopback proxy that, at byte offset n of the request or "
            "of the response stream, closes both sockets / half-closes towards the receiver / stalls that direction / closes "
            "eagerly right after byte n, or through a ChannelOptions.Dialer socket whose Read/Write fails after n bytes: EVERY byte "
            "offset (handshake bytes included) of small multi-frame exchanges (response from a specification-built raw peer with "
            "48-100 byte frames and all checksum types; request written by the real client with ArgWriter.Flush) in all three "
            "proxy modes, eager close / API errors at frame boundaries and a sample; model = Model/Cut.v run_cut on the same bytes "
            "(caller's ReadArgsV2 result resp. what the handler read). big: 64 KiB frames between two real channels, offsets around "
            "frame boundaries + random. relay: client -> relay -> server, fault on either hop and direction (oracle only). dialq: "
            "1-5 callers with 100-300 ms deadlines queued behind a 0.9-1.5 s connection attempt to a listener that never answers "
            "the handshake / a dialer that hangs until its context ends. noanswer: handshake + request accepted, never answered. "
            "cancel: caller cancels 0-250 ms into an exchange. Oracle: control back by deadline + 250 ms (3 immediate "
            "re-runs before alarming) with exactly the expected response or an error; a handler that read its arguments without "
            "error read exactly what was sent. Every run counts as non-trivial; distinct by model input (exchange bytes, direction, offset). "
            "Scenario sub-engines are cases with structured inputs (c05dialq: kind, deadlines, stagger; c05noanswer: deadline; "
            "c05cancel: deadline, cancel moment, peer answers; c05relay: hop, direction, offset, mode, stream length) against "
            "Model/CallScen.v (run_path over the generated wait-site table, sites looked up by function name): per caller "
            "[failed, moment control was back] with the moment canonicalised to the predicted one within [-20 ms, +250 ms], up to 4 runs. "
            "c05budget: 69 (quick) (context deadline, connect timeout) pairs incl. timeout unset/negative/below/equal/above the deadline "
            "and a context without deadline, Channel.Connect directly and via BeginCall, through a ChannelOptions.Dialer that records its "
            "context's deadline and a net.Conn wrapper that records SetDeadline calls and I/O without a deadline; model = Model/Budget.v "
            "run_c05budget evaluated at both ends of the interval the library's clock readings lie in; oracle: dialer context and handshake "
            "deadline end no later than the caller's context, no handshake I/O without a deadline, 5 s without a context deadline. "
            "hostile (sub fragr): 1500 (quick) hostile fragment lists (valid layouts mutated: more-flags, forged/changed checksum fields and "
            "types, dropped/duplicated/swapped/appended fragments, chunk-less fragments, extra chunks; checksums re-sealed in 80%) under "
            "protocol-following, stray and random Begin/Read/Close/helper scripts through the real parseInboundFragment + "
            "fragmentingReader against Model/FragWire.v run_fragr; oracle: no panic, errors sticky, Complete only on a verified "
            "well-formed prefix (checksums recomputed with hash/crc32), three successful helper reads return what that prefix denotes. "
            "cutbegin (sub c05cutbegin): the connection fails WHILE ANOTHER CALL BEGINS: 1-4 calls in flight on one connection at various "
            "stages (begun / arg2 written / a fragment of arg3 flushed / request complete and waiting) + a sentinel waiting for the response + "
            "1-2 NEW calls parked by the schedule controller between the connection-state check and the registration of their exchange "
            "(outbound.afterStateCheck) when a TCP forwarder closes both sockets / half-closes towards the client / resets the client's socket; "
            "the new calls are released after the failure has been delivered (the sentinel is back), then the calls in flight go on writing. "
            "Every 4th scenario is the inbound side: a server whose listener hands out sockets with an injectable write error, its reader parked "
            "at inbound.afterStateCheck with a new call req, the failure provoked by a trigger handler's response write, handlers in flight "
            "that have read nothing / read their arguments / flushed response arg2, a sentinel handler blocked reading a withheld arg3. "
            "Oracle: EVERY call (in flight, sentinel, new) is back by its deadline (500-900 ms) + 400 ms with an error or exactly the expected "
            "response, every handler's reads/writes return by its context's deadline + 400 ms; a failing scenario alarms only when it "
            "fails 4 of 4 runs. Model = Model/CutBegin.v run_c05cutbegin: paths over the generated wait-site AND lock-site tables "
            "(a lock acquisition passes at once iff the site is in the table and every lock program passes the checker). "
            "errq (sub c05errq): ERROR NOTIFICATION VS QUEUED FRAMES: a real client channel calls a specification-built raw peer through a "
            "ChannelOptions.Dialer socket; the peer answers with 4-6 frames (checksum type none / crc32 / crc32c; the long argument is arg3 or arg2) "
            "ONE FRAME AT A TIME under harness control, the caller reads the response FRAME BY FRAME under harness control (reads of exactly the bytes "
            "that make the fragment reader fetch one more frame), and a connection error is raised from OUTSIDE the connection reader while frames "
            "still arrive: a write failure injected through the Dialer socket (its Close held back), a failed ping send on a stalled socket "
            "(ErrSendBufferFull), a protocol-error frame from the peer between two response frames, or none. A scenario is a word over {A = next frame "
            "written, T = receiver takes a frame, E = the error}; after every letter the harness waits until connection reader and receiver have returned "
            "or are parked in their select (one stop-the-world goroutine snapshot + the schedule points mex.forward.afterLookup / conn.readFrames.handled, "
            "never a timing guess); at the end the peer writes the rest and the receiver reads on frame by frame. 17 fixed words x 3 error kinds x 2 checksum "
            "types + 8 error-free + 150 (quick) / 600 random words; thorough adds EVERY word of length <= 7 with one E over 4 frames x 3 kinds. Model = Model/ErrQ.v "
            "run_c05errq (Model/Mex.v's step, cap(recvCh) = the regenerated mexChannelBufferSize, composed with Model/Cut.v's parser + reader on the frames' bytes): result of "
            "every take (frame / the latched connection error / other error) and the final outcome with the argument bytes. Oracle (statement): every byte handed out "
            "continues the argument the peer sent; success only with exactly the bytes sent; control back by the 1.5 s deadline + 400 ms; no panic; a verdict counts only "
            "when it reproduces 3 of 3 times.",
    "trusted_base": COMMON_TRUSTED + [
        "regenerated from source on every run (go2v/waitsites.go -> Gen/GenWaitSites.v): the table of blocking statements of the "
        "outbound call path (closure of the call API under the static call graph: select without default, bare channel "
        "operations, Lock on a mutex held across network I/O, dial, net.Conn I/O with/without a context deadline) with the exits "
        "each offers; this extraction is a syntactic approximation (go statements and function values other than the dialer are "
        "not followed) and is trusted",
        "regenerated from source on every run (go2v/lockprogs.go -> Gen/GenLockProgs.v): for every function / function literal of "
        "package tchannel that performs a lock operation its LOCK PROGRAM (control-flow skeleton: Lock/RLock/Unlock/RUnlock/defer Unlock, "
        "blocking statements, calls with the callee's summary 'may block / acquires these mutexes' over the static call graph, returns, "
        "panics, break/continue, branches, loops), the mutex table with a rank witness, and the lock acquisitions in the closure of the "
        "call API, the connection goroutines, the inbound side, the relay and the connection failure path. Balance, contents of the "
        "critical sections and lock order are DECIDED IN COQ by a checker proved sound for every execution of a program. Trusted "
        "(syntactic approximation): the skeleton extraction; the call graph follows direct/method calls, package interfaces (every "
        "implementation), function literals (called at once, passed for a func-typed parameter, assigned to a local variable), and "
        "func-typed struct fields (every function value stored into the field inside the package); NOT followed: function values that "
        "come from outside the package (user callbacks, handlers, loggers), `go` statements (another goroutine); a deferred call other "
        "than an unlock is attributed to the region open at the defer statement; mutexes are identified by declaring field / embedding "
        "type, not by instance; a path that ends in panic(...) is exempt from balance",
        "modelled by hand, tied by correspondence (engine cut): connection.go readFrames loop over a finite byte stream, dispatch "
        "by message id, recvNextFragment/recvPeerFrameOfType/parseInboundFragment, the three ArgReadHelper reads of raw.ReadArgsV2, "
        "on top of the frame, fragment-parser and fragmentingReader models of C06/C01",
        "modelled by hand, tied by the scenario correspondence (c05dialq/c05noanswer/c05cancel) only at the level of predicted return "
        "moments: the time-abstract call path (Model/CallPath.v run_path) over the generated wait-site table; NOT tied: the "
        "new-connection semaphore of peer.go as a transition system; the thread model of C05_lock_wait_bounded treats read locks as "
        "exclusive and one thread as one execution of one lock program (a goroutine that runs several programs in sequence is their "
        "concatenation; a callee's acquisitions appear in the caller's trace as take-and-release events from the callee's summary)",
        "regenerated from source on every run (go2v target setInitDeadline -> Gen/GenBudget.v, proved equal to the hand-written "
        "init_deadline); hints (trusted): time.Now() => now, ctx.Deadline() => (ctx_has, ctx_deadline), the result is the argument of "
        "c.SetDeadline. Channel.Connect's context.WithTimeout is modelled by hand (Model/Budget.v connect_ctx) and tied by the "
        "c05budget correspondence; the semantics of context.WithTimeout itself is the Go standard library's",
        "regenerated from source on every run (go2v/chanprog.go -> Gen/GenMexProg.v): messageExchange.forwardPeerFrame and messageExchange.recvPeerFrame "
        "of mex.go as CHANNEL PROGRAMS (if-tests, select with/without default, returns, frameDropped.Store) -- proved (C05_exchange_steps_generated) to give exactly "
        "the forwarder's and receiver's steps of the exchange model Model/Mex.v. Trusted: the hint tables of chanprog.go (Go source text of a condition / comm clause / "
        "result / statement => constructor, printed next to each definition), the meaning given to the constructors in Model/MexProg.v (one atomic action = the run up to the "
        "parking select, resp. one communication and its arm; ctx.Err() != nil iff ctx.Done() is closed; errCh.c closed iff an error was notified), and the rest of Model/Mex.v "
        "(stopExchanges, newExchange, shutdown: hand-written, tied by C04's mex engine and by engine errq)",
        "the fragment reader model on hostile fragment lists (premise of C05_one_outcome / C05_success_is_denotation) is tied by the "
        "hostile sub-engine of this check (structured fragments that the real parser accepts) and by C01/C03's engines",
    ],
    "assumptions": [
        "wall-clock behaviour is not provable: the Go runtime wakes a select / a blocked net.Conn call within scheduling slack once "
        "ctx.Done() is closed resp. the connection deadline passes, and non-blocking code runs in negligible time (measured by the "
        "engine with 250 ms slack, never proved)",
        "close, half-close and stall at byte offset n are modelled alike on the receiving side: the receiver gets exactly the first "
        "n bytes and then never another byte; what the kernel does with bytes in flight at a close is outside the model",
        "a user-supplied ChannelOptions.Dialer honours its context",
    ],
}
