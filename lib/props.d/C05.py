# check configuration for C05
from common_props import COMMON_TRUSTED

CFG = {
    "engines": [["cut", 4, 12], ["stallwrite", 3, 12]],
    "engine_timeout": 1500,
    "rule": "cut: a real client channel calls (300 ms deadline) through a loopback proxy that, at byte offset n of the request or "
            "of the response stream, closes both sockets / half-closes towards the receiver / stalls that direction / closes "
            "eagerly right after byte n, or through a ChannelOptions.Dialer socket whose Read/Write fails after n bytes: EVERY byte "
            "offset (handshake bytes included) of small multi-frame exchanges (response from a specification-built raw peer with "
            "48-100 byte frames and all checksum types; request written by the real client with ArgWriter.Flush) in all three "
            "proxy modes, eager close / API errors at frame boundaries and a sample; model = Model/Cut.v run_cut on the same bytes "
            "(caller's ReadArgsV2 result resp. what the handler read). big: 64 KiB frames between two real channels, offsets around "
            "frame boundaries + random. relay: client -> relay -> server, fault on either hop and direction (oracle only). dialq: "
            "1-5 callers with 100-300 ms deadlines queued behind a 0.9-1.5 s connection attempt to a listener that never answers "
            "the handshake / a dialer that hangs until its context ends. noanswer: handshake + request accepted, never answered. "
            "cancel: caller cancels 0-250 ms into an exchange. Oracle: control back by deadline + 250 ms (3 immediate "
            "re-runs before alarming) with exactly the expected response or an error; a handler that read its arguments without "
            "error read exactly what was sent. Every run counts as non-trivial; distinct by model input (exchange bytes, direction, offset). "
            "Scenario sub-engines are cases with structured inputs (c05dialq: kind, deadlines, stagger; c05noanswer: deadline; "
            "c05cancel: deadline, cancel moment, peer answers; c05relay: hop, direction, offset, mode, stream length) against "
            "Model/CallScen.v (run_path over the generated wait-site table, sites looked up by function name): per caller "
            "[failed, moment control was back] with the moment canonicalised to the predicted one within [-20 ms, +250 ms], up to 4 runs. "
            "c05budget: 69 (quick) (context deadline, connect timeout) pairs incl. timeout unset/negative/below/equal/above the deadline "
            "and a context without deadline, Channel.Connect directly and via BeginCall, through a ChannelOptions.Dialer that records its "
            "context's deadline and a net.Conn wrapper that records SetDeadline calls and I/O without a deadline; model = Model/Budget.v "
            "run_c05budget evaluated at both ends of the interval the library's clock readings lie in; oracle: dialer context and handshake "
            "deadline end no later than the caller's context, no handshake I/O without a deadline, 5 s without a context deadline. "
            "hostile (sub fragr): 1500 (quick) hostile fragment lists (valid layouts mutated: more-flags, forged/changed checksum fields and "
            "types, dropped/duplicated/swapped/appended fragments, chunk-less fragments, extra chunks; checksums re-sealed in 80%) under "
            "protocol-following, stray and random Begin/Read/Close/helper scripts through the real parseInboundFragment + "
            "fragmentingReader against Model/FragWire.v run_fragr; oracle: no panic, errors sticky, Complete only on a verified "
            "well-formed prefix (checksums recomputed with hash/crc32), three successful helper reads return what that prefix denotes.",
    "trusted_base": COMMON_TRUSTED + [
        "regenerated from source on every run (go2v/waitsites.go -> Gen/GenWaitSites.v): the table of blocking statements of the "
        "outbound call path (closure of the call API under the static call graph: select without default, bare channel "
        "operations, Lock on a mutex held across network I/O, dial, net.Conn I/O with/without a context deadline) with the exits "
        "each offers; this extraction is a syntactic approximation (go statements and function values other than the dialer are "
        "not followed) and is trusted",
        "modelled by hand, tied by correspondence (engine cut): connection.go readFrames loop over a finite byte stream, dispatch "
        "by message id, recvNextFragment/recvPeerFrameOfType/parseInboundFragment, the three ArgReadHelper reads of raw.ReadArgsV2, "
        "on top of the frame, fragment-parser and fragmentingReader models of C06/C01",
        "modelled by hand, tied by the scenario correspondence (c05dialq/c05noanswer/c05cancel) only at the level of predicted return "
        "moments: the time-abstract call path (Model/CallPath.v run_path) over the generated wait-site table; NOT tied: the "
        "new-connection semaphore of peer.go as a transition system",
        "regenerated from source on every run (go2v target setInitDeadline -> Gen/GenBudget.v, proved equal to the hand-written "
        "init_deadline); hints (trusted): time.Now() => now, ctx.Deadline() => (ctx_has, ctx_deadline), the result is the argument of "
        "c.SetDeadline. Channel.Connect's context.WithTimeout is modelled by hand (Model/Budget.v connect_ctx) and tied by the "
        "c05budget correspondence; the semantics of context.WithTimeout itself is the Go standard library's",
        "the fragment reader model on hostile fragment lists (premise of C05_one_outcome / C05_success_is_denotation) is tied by the "
        "hostile sub-engine of this check (structured fragments that the real parser accepts) and by C01/C03's engines",
    ],
    "assumptions": [
        "wall-clock behaviour is not provable: the Go runtime wakes a select / a blocked net.Conn call within scheduling slack once "
        "ctx.Done() is closed resp. the connection deadline passes, and non-blocking code runs in negligible time (measured by the "
        "engine with 250 ms slack, never proved)",
        "close, half-close and stall at byte offset n are modelled alike on the receiving side: the receiver gets exactly the first "
        "n bytes and then never another byte; what the kernel does with bytes in flight at a close is outside the model",
        "a user-supplied ChannelOptions.Dialer honours its context",
    ],
}
