# check configuration for C05
from common_props import COMMON_TRUSTED

CFG = {
    "engines": [["cut", 4, 12], ["stallwrite", 3, 12]],
    "engine_timeout": 1500,
    "rule": "cut: a real client channel calls (300 ms deadline) through a loopback proxy that, at byte offset n of the request or "
            "of the response stream, closes both sockets / half-closes towards the receiver / stalls that direction / closes "
            "eagerly right after byte n, or through a ChannelOptions.Dialer socket whose Read/Write fails after n bytes: EVERY byte "
            "offset (handshake bytes included) of small multi-frame exchanges (response from a specification-built raw peer with "
            "48-100 byte frames and all checksum types; request written by the real client with ArgWriter.Flush) in all three "
            "proxy modes, eager close / API errors at frame boundaries and a sample; model = Model/Cut.v run_cut on the same bytes "
            "(caller's ReadArgsV2 result resp. what the handler read). big: 64 KiB frames between two real channels, offsets around "
            "frame boundaries + random. relay: client -> relay -> server, fault on either hop and direction (oracle only). dialq: "
            "1-5 callers with 100-300 ms deadlines queued behind a 0.9-1.5 s connection attempt to a listener that never answers "
            "the handshake / a dialer that hangs until its context ends. noanswer: handshake + request accepted, never answered. "
            "cancel: caller cancels 0-250 ms into an exchange. Oracle: control back by deadline + 250 ms (3 immediate "
            "re-runs before alarming) with exactly the expected response or an error; a handler that read its arguments without "
            "error read exactly what was sent. Every run counts as non-trivial; distinct by model input (exchange bytes, direction, offset).",
    "trusted_base": COMMON_TRUSTED + [
        "regenerated from source on every run (go2v/waitsites.go -> Gen/GenWaitSites.v): the table of blocking statements of the "
        "outbound call path (closure of the call API under the static call graph: select without default, bare channel "
        "operations, Lock on a mutex held across network I/O, dial, net.Conn I/O with/without a context deadline) with the exits "
        "each offers; this extraction is a syntactic approximation (go statements and function values other than the dialer are "
        "not followed) and is trusted",
        "modelled by hand, tied by correspondence (engine cut): connection.go readFrames loop over a finite byte stream, dispatch "
        "by message id, recvNextFragment/recvPeerFrameOfType/parseInboundFragment, the three ArgReadHelper reads of raw.ReadArgsV2, "
        "on top of the frame, fragment-parser and fragmentingReader models of C06/C01",
        "modelled by hand, NOT tied by correspondence (oracle scenarios dialq/noanswer/cancel only): the time-abstract call path "
        "(Model/CallPath.v run_path), the new-connection semaphore of peer.go as a transition system, connect/handshake budgets",
    ],
    "assumptions": [
        "wall-clock behaviour is not provable: the Go runtime wakes a select / a blocked net.Conn call within scheduling slack once "
        "ctx.Done() is closed resp. the connection deadline passes, and non-blocking code runs in negligible time (measured by the "
        "engine with 250 ms slack, never proved)",
        "close, half-close and stall at byte offset n are modelled alike on the receiving side: the receiver gets exactly the first "
        "n bytes and then never another byte; what the kernel does with bytes in flight at a close is outside the model",
        "a user-supplied ChannelOptions.Dialer honours its context",
    ],
}
