# check configuration for C13
# engines: [harness engine name, cases at quick tier, cases at thorough tier]
from common_props import COMMON_TRUSTED

CFG = {
    "engines": [
        [
            "handshake",
            2400,
            30000
        ]
    ],
    "rule": "handshake: openings built as a well-formed init frame with 0-3 mutations (version {0,1,2,3,65535,random}, missing host_port/process_name/both, wrong frame type incl. error frames with messages up to the frame limit, wrong id (outbound), truncation at {0,1,2,15,16,17,len-1,random}, malformed body, size field {0,1,15,16,17,20000,65535}, random bytes), parameter values (ephemeral forms, near misses, duplicates, up to 60000 bytes), reserved bytes, trailing bytes; the peer then stays silent (80 ms / 2 s / the accept loop's 5 s default deadline) or closes its side. hs_in: real Channel.serve or the same code under a short deadline (overlay VerifServeConn); hs_out: real Channel.Connect against a raw listener (optionally HideListeningOnOutbound, listening client); hs_hist: 3-7 handshakes in both directions on one listening channel. Every case counts as non-trivial; distinct by input.",
    "trusted_base": COMMON_TRUSTED + [
        "modelled by hand (tied by correspondence): preinit_connection.go (outboundHandshake, inboundHandshake, getInitParams/getInitMessage, initError, writeMessage, readMessage, readError, parseRemotePeer's identity part, setInitDeadline as a definition), Frame.ReadIn's error classes on a socket, SystemError/messageType texts, the part of Channel.Connect after the dial, registration by newConnection->connectionActive as effects; regenerated from source each run: isEphemeralHostPort (hint: strings.HasSuffix(hostPort, \":0\") => has_suffix_colon0), GetSystemErrorCode, CurrentProtocolVersion, init param keys, message type and error codes, MaxFramePayloadSize, maxInitErrorMessageSize, PayloadSize",
        "Spec/HandshakeSpec.v + Spec/Protocol.v: the reading of the property statement and of the protocol document (frame, init and error layouts) with literals",
        "abstraction: the peer is (bytes sent, then silent-until-deadline | closes its side); a Go error is one of {net timeout, io.EOF, io.ErrUnexpectedEOF, invalid frame size, typed.ErrEOF, Frame.write error, SystemError(code, message)}"
    ],
    "assumptions": [
        "the channel stays in state ChannelClient/ChannelListening and the new connection active while it is registered (closing channels: C07/C16)",
        "local_ok: the channel's own init parameters fit one frame (a process name above ~65 KB makes every handshake fail; exercised by the engine, excluded from the iff theorems)",
        "network-level write failures (peer gone before the reply is written) and peers whose opening contains the byte '%' inside an error-frame message (NewSystemError uses the peer's message as a format string) are outside the model",
        "wall-clock accuracy of the socket deadline is outside the model: Silence is an input of the model; the oracle only checks that a silent handshake ends within deadline + 600 ms (3 of 3 runs)",
        "peerAddressComponents (ipv4/ipv6/hostname/port parsing of the peer address, used by relays) is not modelled"
    ]
}
