# check configuration for C08
# engines: [harness engine name, cases at quick tier, cases at thorough tier]
from common_props import COMMON_TRUSTED

CFG = {
    "engines": [["relayfwd", 90, 400], ["relaydiff", 600, 4000], ["relayappend", 40, 300], ["relaygap", 40, 400], ["relayslow", 48, 600]],
    "rule": "relayfwd/lazyreq (12 per scenario): call req first-frame payloads built from the protocol layout (service 0..255 bytes, 0..25 "
            "transport headers incl. duplicates of as/cn/rd/rk, ttl {0,1,..,2^32-1}, all checksum type bytes, arg sizes up to multi-frame, "
            "frame limits 700..65519) plus truncations, bit flips, random bytes, out-of-range checksum types, through the real "
            "newLazyCallReq (pooled frame with stale bytes) vs the model (lazyreq), with an oracle that the host sees the caller's "
            "service/method/caller/routing/ttl/arg2/arg3. relayfwd/relayfwd: sequenced scenarios on a REAL relay channel between RAW "
            "peers (1-4 source connections, 1-2 destination connections, destination id counters started at 1/41/2^31-1/2^32-4 so that "
            "the 32-bit wrap is crossed, RelayMaxTimeout option in {unset, 10 s, 1 h, 2^32-1 ms, 2^32 ms, negative, <1 ms, non-multiple "
            "of ms}): 2-20 calls per scenario with ids drawn from {0,1,2,3,2^31-1,2^32-1,random} so that sources collide, 1-3 request "
            "frames, responses of 1-3 call res frames / application error / error frame / none, host decisions (route, SystemError, plain "
            "error, rate-limit drop, no peer, arg2 appends of 0..16000 bytes on thrift and non-thrift calls, fragmented arg2), frames of "
            "different calls interleaved at random, hostile frames (unknown ids, duplicates of active ids, unparsable call reqs, cancel, "
            "empty continuation), the relay's own pings on the destination connection, relay timers (ttl 40-60 ms); after every single "
            "frame a ping barrier on EVERY connection collects what the relay emitted; all emitted bytes are compared with the model "
            "(relayfwd) and judged by an oracle that keeps its own call table (payload identical except id and ttl=min, ids fresh, "
            "responses to the right connection with the original id, appended arg2 = original pairs ++ appended with independently "
            "recomputed checksums). relayfwd/relayconc: 2-8 raw sources send 2-8 calls each with the SAME ids concurrently (0-140000 byte "
            "arg3, interleaved frames) to one raw destination; per destination id the frames must form one source call (running "
            "checksum, pattern), responses must reach the right source with its id. relayfwd/relayhop2: raw source - relay - relay - raw "
            "destination. relaydiff: a real client calls a real handler directly, through one and through two real relays (formats "
            "raw/json/thrift/http/custom/unset, shard key, routing key/delegate, caller-name override, timeouts 2-150 s vs relay maxima "
            "unset/3.5/5/30 s, arg2 0-66000, arg3 0-200000 with flush patterns, responses ok / application error / six system error codes, "
            "0-140000 byte responses, three checksum types, concurrent batches): handler accessors, arguments, remaining deadline, caller "
            "outcome on every path vs what was sent, and byte taps on the client and server sockets compare tracing span and ttl on the "
            "wire. relayappend: real client - appending relay - real handler. "
            "relaygap (clause b, no response with a gap): directed stall/drain scenarios on a real relay whose connection to the caller "
            "has a stallable writer (wrapped listener; SendBufferSize 1-8): a multi-frame response (2-17 frames of 150-65519 byte payload, "
            "all four checksum types) with 0-2 frames delivered, then the writer parks, SendBufferSize+1 frames are queued and 1-3 "
            "NON-final frames are dropped (relay-source-conn-slow, checked with ping barriers on the destination connection), then the "
            "connection drains and 0-2 more non-final frames plus the frame that ends the response / an error frame / nothing arrive "
            "within the tombstone period; raw caller and raw destination (sub relaygap: per destination frame forwarded or not, "
            "Failed/End callbacks, live items, tombstones compared with the interleaving model Model/RelayGap.v; oracle: the caller's "
            "frames are a prefix of the destination's and a conforming reassembly never completes with bytes missing) and a REAL client "
            "(raw.Call with a 1.2 s deadline, sub relaygapcall: exact response or error, never success with missing bytes, never "
            "blocked past the deadline; checksum none and crc32). Every case counts as non-trivial; distinct by input. "
            "relayslow (clauses b/c, which id an error / clean-up path uses): real client - real relay - two real servers; the relay's "
            "connection to the server 'slow' goes through a Dialer-wrapped net.Conn whose Write parks; SendBufferSize 2-6; the parked "
            "writer plus pings fill the queue up to 0..SendBufferSize free slots; the id counters of the caller's connection and of the "
            "stalled connection are shifted apart by 0-39 each (Connection.NextMessageID) and lined up as collide (a healthy in-flight "
            "call V of the same caller, held by its handler, has the id the relay allocates for M on the stalled connection: half of the "
            "cases), apart (M's destination id is neither V's nor M's id) or lock-step (M's id = its destination id); M is forwarded as "
            "is, re-fragmented into 1-4 frames because the relay host appends 1-3 pairs of 60000 bytes, and/or followed by 1-2 "
            "continuation frames of the client (arg3 70000 / 140000 bytes), so that frame number free+1 -- the first frame, a "
            "re-fragmented frame, a continuation frame -- is the one that does not fit. Oracle from the statement: M ends with the "
            "relay's relay-dest-conn-slow error (ErrCodeUnexpected) within 3/4 of its 2.5 s deadline, V is still in flight then and "
            "afterwards gets exactly its destination's response, exactly `free` frames of M were queued; the relay host's Failed/End "
            "callbacks, the error code per caller id and the queued frames are compared with Model/RelayErrId.v run_relayslow (the relay "
            "bookkeeping model); a failing case is re-run twice in a fresh world and counts only 3 out of 3.",
    "trusted_base": COMMON_TRUSTED + [
        "modelled by hand (tied by correspondence on every run): newLazyCallReq, lazyCallReq.arg2/arg3/Service/Span/SetTTL, Relayer.Relay/"
        "handleCallReq/handleNonCallReq/Receive/addRelayItem/finishRelayItem/failRelayItem/timeoutRelayItem, relayItems Get/Add/Delete/Entomb "
        "(as total maps), Connection.NextMessageID, the error frames of SendSystemError, fragmentingSend/relayFragmentSender/"
        "writeArg2WithAppends/updateMutatedCallReqContinueChecksum on top of the fragmenting-writer model of C01",
        "regenerated from source by go2v on every run: validateRelayMaxTimeout, lazyCallReq.TTL (hint: the 4 ttl bytes => ttl_ms), relayRoute "
        "(handleFrameRelay), frameTypeFor, finishesCall, hasMoreFragments, ChecksumSize, the offsets _ttlIndex/_ttlLen/_spanIndex/_spanLength/"
        "_serviceLenIndex/_serviceNameIndex, message type and error codes, the relay error strings",
        "regenerated from source by go2v on every run (Gen/GenRelayGate.v, statement regions): relayReceiveGate (Relayer.Receive between its item "
        "lookup and the first reporting statement), relayNonCallGate (Relayer.handleNonCallReq, same region), relayFailItem (Relayer.failRelayItem "
        "after its lookup); hints: item.tomb/finished/stopped/ok are parameters, logging and verifPoint statements dropped, marker lets for "
        "Entomb/SendSystemError/Failed/End/decrementPending",
        "regenerated from source by go2v on every run (Gen/GenRelayIdSites.v, go2v/relayidsites.go; relay*.go non-test files): "
        "relay_id_args (every uint32 argument of every call of a package function / method / func-typed field, with its resolved text: "
        "header read before/after a header-id assignment in the same function by source position, local variables resolved to their "
        "defining expression, parameters, fields, NextMessageID), relay_id_stores (stores into uint32 struct fields incl. FrameHeader.ID, "
        "relayItem.remapID, relayFragmentSender.origID, relayTimer.id), relay_frame_args (frames handed on, before/after the rewrite), "
        "relay_fail_sites, relay_syserr_sites, relay_fragsender_lit, relay_funcval_sites; the @pre/@post marking is by source position "
        "(no control-flow analysis: the relay functions rewrite a header in straight-line code), Model/RelayIdSites.v interprets the "
        "texts (receiver prefixes r./items./remoteConn.relay./item.destination./rfs., the two func-value aliases trigger and "
        "failRelayItemFunc) and rejects any text it does not understand",
        "Model/RelayItems.v (interleaving model of the relay bookkeeping, shared with C09/C10, tied there by the relaysched engine) is "
        "tied for C08 by the generated gates, by the relaygap correspondence and by the statement oracle of relaygap",
        "Spec/RelaySpec.v (one-table transparent relay) and Spec/Protocol.v (layouts) written from the property text / protocol document",
        "rawpeer.go: independent TChannel peer written from the protocol document (frames, handshake, call fragments, CRC)",
    ],
    "assumptions": [
        "granularity: Relay(f) for one frame is one atomic step of the model; the real reader goroutines of different connections interleave "
        "inside it, which is harmless for the modelled state because destination ids come from an atomic counter and the items of different "
        "calls have different keys (races with relay timers and connection close are C09/C10/C07 matters)",
        "in-order delivery relies on one reader goroutine per connection and FIFO Go channels (sendCh)",
        "C08_no_gap quantifies over fresh request ids (run_fresh: a caller does not re-use an id on a connection while the relay "
        "remembers it) and forbids only frames that FINISH the call after a dropped response frame: a non-final response frame can still "
        "pass in the window in which both relay timers of the call have fired but not yet run (the known C09/C10 timer race); the caller then "
        "gets the timeout error frame or runs into its own deadline, never a completed response; C08_no_frame_after_drop gives 'no response "
        "frame at all after the drop' for runs without relay-timer expiry",
        "C08_relay_error_id / C08_relay_fail_key / C08_relay_timeout_id speak about WHICH id and item an error / failure uses in every "
        "reachable state of fresh-id runs of Model/RelayItems.v; that the error frame is then actually written depends on the caller's "
        "own send queue having room and the connection being open (C08_dest_slow_path gives the path step by step for one goroutine; "
        "delivery under interleavings is C10's grammar theorem). Local handlers (RelayLocalHandlers, SendSystemError site 8) are outside the model",
        "not modelled in Model/RelayFwd.v (modelled in Model/RelayItems.v): a full send queue (relay-dest-conn-slow / relay-source-conn-slow); not modelled: connection state changes, RelayLocalHandlers, "
        "PropagateCancel=true is modelled but not exercised, call res frames with an empty payload (the code reads a byte beyond the sized payload)",
        "no 2^32 wrap of a connection's id counter within the lifetime of a call (hypothesis of C08_remap_injective/C08_fresh_id/C08_order; "
        "the wrap itself is exercised by the engine)",
        "KNOWN FINDING c08:arg1-not-in-first-frame-dropped: a call req whose first frame does not contain arg1 and the arg2 length (peers using "
        "tiny frames) is dropped by the relay without an error frame although a server accepts it directly (model and code agree: "
        "C08_order_refuted; C08_order_partial carries the hypothesis that the lazy parser accepts the call req)",
        "arg2 appends require arg scheme thrift, >= 2 bytes of arg2 and arg2 (plus the arg3 length) inside the first frame; otherwise the call "
        "is failed with relay-arg2-modify-failed (model and code agree); an arg2 that ends exactly at the end of the first frame counts as fragmented",
        "RelayHost error messages containing '%' are passed through fmt.Sprintf by relay.go:443 (same family as the C20 finding); not generated",
    ],
}
