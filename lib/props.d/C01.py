# check configuration for C01
from common_props import COMMON_TRUSTED

CFG = {
    "engines": [["frag", 250, 4000], ["msgwire", 25, 300], ["poolget", 64, 1600], ["poolwire", 64, 960]],
    "rule": "frag/fragw: writer scripts in the API grammar (Begin (Write|Flush)* Close)^3 with argument lengths around fragment "
            "boundaries (0..3, cap-3..cap+3, k*cap-3..k*cap+3, many-frame), capacities 5..40/64/300/4096 (initial and continuation "
            "independently), write splits (whole, byte-wise, random, boundary-1..+1), flushes incl. double and data-less ones, all "
            "checksum types, through the real fragmentingWriter over a capturing fragmentSender; fragr: the emitted fragments read by "
            "the real fragmentingReader with read patterns helper(ArgReadHelper.Read), exact-length+Close, byte-wise to EOF, random "
            "sizes to EOF, exact then EOF probe; fragparse: valid and hostile fragment payloads through parseInboundFragment + chunk "
            "loop. msgwire: a real client channel against a raw TCP peer built from the protocol document (production frame capacity, multi-frame requests and responses in both directions: the peer reassembles the arguments per the specification and verifies every checksum independently). Non-trivial = more than one "
            "fragment; distinct by input. poolget: every exported FramePool (unset/DefaultFramePool, NewSyncFramePool, DisabledFramePool, "
            "NewChannelFramePool(0/1/64), NewCheckedFramePoolForTest) under random Get/Release scripts (fresh and recycled frames): "
            "len(Payload) == cap(Payload) == MaxFramePayloadSize, fresh header zero, and the frame filled to the brim as newFragment/flushFragment "
            "do is written as 16+len(Payload) <= 65535 bytes with that size field and read back. poolwire: a real channel with each of "
            "these pools on the WRITING side writes a call req (client) or call res (server) whose arguments end -3..+3 bytes around the "
            "end of the first or a continuation frame (1..6 frames; whole, in pieces, with flushes) to a raw peer: every Write on the "
            "connection is one frame of 16..65535 bytes whose size field equals the bytes written, every frame parses, every checksum "
            "verifies, the reassembled arguments are the ones written; sub callwire: the frames vs the reqResWriter model.",
    "trusted_base": COMMON_TRUSTED + [
        "modelled by hand (tied by correspondence): fragmentingWriter (BeginArgument/Write/writeAsFits/Flush/Close, fragment finish), "
        "fragmentingReader (BeginArgument/Read/Close cases 1-5/recvAndParseNextFragment), parseInboundFragment, ArgReadHelper.read + "
        "EnsureEmpty, checksum objects; regenerated from source: state enums, chunkHeaderSize, hasMoreFragmentsFlag, frame size "
        "constants, ChecksumSize, hasMoreFragments",
        "Spec/FragSpec.v: meaning of a fragment sequence, written from the protocol document",
        "go2v/framesites.go (syntactic, type-resolved over every non-test file of ./...): the table of NewFrame call sites with the constant "
        "value of the argument, the slice bounds in NewFrame, Frame literals, assignments to Frame.Payload/buffer/headerBuffer, write buffers "
        "over a Payload, FramePool implementations with the classes of what Get returns / Release stores, receive-only classification of "
        "frames bound to a local that is only read into; Model/FramePool.v: the world of frames built from these tables (frames reached "
        "through reflection/unsafe or handed in by user-supplied FramePool implementations are outside)",
    ],
    "assumptions": ["blocking of flushFragment on the send queue / context (C05) and frame ownership (C12) are outside this model; "
                    "a FramePool implementation supplied by the application must hand out frames made by NewFrame(MaxFramePayloadSize)",
                    "Flush outside an open argument is API misuse and excluded by the script grammar"],
}
