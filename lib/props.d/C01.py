# check configuration for C01
from common_props import COMMON_TRUSTED

CFG = {
    "engines": [["frag", 250, 4000], ["msgwire", 25, 300], ["poolget", 64, 1600], ["poolwire", 64, 960], ["fragio", 60, 1500], ["relayappend", 24, 300], ["c01early", 48, 600]],
    "rule": "frag/fragw: writer scripts in the API grammar (Begin (Write|Flush)* Close)^3 with argument lengths around fragment "
            "boundaries (0..3, cap-3..cap+3, k*cap-3..k*cap+3, many-frame), capacities 5..40/64/300/4096 (initial and continuation "
            "independently), write splits (whole, byte-wise, random, boundary-1..+1), flushes incl. double and data-less ones, all "
            "checksum types, through the real fragmentingWriter over a capturing fragmentSender; fragr: the emitted fragments read by "
            "the real fragmentingReader with read patterns helper(ArgReadHelper.Read), exact-length+Close, byte-wise to EOF, random "
            "sizes to EOF, exact then EOF probe; fragparse: valid and hostile fragment payloads through parseInboundFragment + chunk "
            "loop. msgwire: a real client channel against a raw TCP peer built from the protocol document (production frame capacity, multi-frame requests and responses in both directions: the peer reassembles the arguments per the specification and verifies every checksum independently). Non-trivial = more than one "
            "fragment; distinct by input. poolget: every exported FramePool (unset/DefaultFramePool, NewSyncFramePool, DisabledFramePool, "
            "NewChannelFramePool(0/1/64), NewCheckedFramePoolForTest) under random Get/Release scripts (fresh and recycled frames): "
            "len(Payload) == cap(Payload) == MaxFramePayloadSize, fresh header zero, and the frame filled to the brim as newFragment/flushFragment "
            "do is written as 16+len(Payload) <= 65535 bytes with that size field and read back. poolwire: a real channel with each of "
            "these pools on the WRITING side writes a call req (client) or call res (server) whose arguments end -3..+3 bytes around the "
            "end of the first or a continuation frame (1..6 frames; whole, in pieces, with flushes) to a raw peer: every Write on the "
            "connection is one frame of 16..65535 bytes whose size field equals the bytes written, every frame parses, every checksum "
            "verifies, the reassembled arguments are the ones written; sub callwire: the frames vs the reqResWriter model. "
            "fragio: the io.Writer / io.Reader contract of the argument streams: the real fragmentingWriter under scripts whose Writes are made "
            "directly (returned n and error recorded per call) or by callers that rely on io.Writer (io.Copy from a WriterTo = one Write of "
            "everything, io.CopyBuffer, bufio.Writer, io.WriteString, the loop n, err := w.Write(p); p = p[n:]), every underlying Write logged; "
            "fixed family: ONE write of k fragment capacities -1/0/+1, k = 1..5, capacities 5/8/13, each kind of caller; random scripts; single "
            "Writes across 2, 3, 4, 6 frames at the production capacity; oracle: n == len(p) whenever err == nil, no caller fails, the fragments "
            "denote what the callers meant to send; sub fragrio: the fragments read through io.ReadFull (exact, short, long), ioutil.ReadAll, "
            "bufio.Reader, io.Copy, io.ReadAtLeast, io.CopyN and plain Reads, every underlying Read logged with the n it returned: each reader "
            "obtains the next bytes of the argument; sub fragiowire: real channels end to end (64 KiB frames): client - no relay / one relay hop / "
            "one hop whose relay host appends to arg2 / two hops - handler, arg3 of 0..330000 bytes written by one Write (n checked), io.Copy, "
            "bufio.Writer, the re-offering loop, pieces with explicit flushes incl. trailing data-less flushes, the handler and the caller "
            "reading with ReadAll / io.Copy / bufio / 100000-byte Reads: the peer reads back exactly what was written, in both directions. "
            "relayappend (shared with C02/C08): real client - appending relay - real handler, arg3 whole / in pieces with flushes / with "
            "trailing data-less flushes: the destination reads back arg1/arg3 unchanged and arg2 with the appended pairs. "
            "c01early (sub fragiowire_early): handlers that ANSWER FIRST and read the rest of their request afterwards, on a server whose "
            "connections use a recycling FramePool given through ConnectionOptions.FramePool (LIFO: the frame released last is handed out "
            "first; LIFO that also overwrites every released frame): request arg2 of 0..3000 bytes and arg3 of 1..4 frames, all frames "
            "arrived; the handler reads nothing / arg2 / arg2 and k bytes of arg3 (k anywhere, in the first or a later frame), writes its "
            "complete response (0..70000 bytes), the caller reads it; in 4 of 5 cases a second call with a request of 2..3 frames of other "
            "bytes then arrives on the same connection (its handler not reading yet, so the read loop takes every frame from the pool); "
            "then the first handler reads the rest with Reads of 1..1 MiB bytes. Oracle: every byte a Read returned with a nil error is "
            "the byte the caller wrote at that position, an argument read to io.EOF and closed without error is the whole argument, an "
            "error is fine (the call's context ends with the response, fragments not yet fetched are refused); the second call likewise. "
            "A schedule step that does not happen within 10..30 s makes the case infeasible, not a failure.",
    "trusted_base": COMMON_TRUSTED + [
        "modelled by hand (tied by correspondence): fragmentingWriter (BeginArgument/Write/writeAsFits/Flush/Close, fragment finish), "
        "fragmentingReader (BeginArgument/Read/Close cases 1-5/recvAndParseNextFragment), parseInboundFragment, ArgReadHelper.read + "
        "EnsureEmpty, checksum objects; regenerated from source: state enums, chunkHeaderSize, hasMoreFragmentsFlag, frame size "
        "constants, ChecksumSize, hasMoreFragments",
        "Spec/FragSpec.v: meaning of a fragment sequence, written from the protocol document",
        "go2v/iotargets.go: ONE ITERATION of the loops of fragmentingWriter.Write and fragmentingReader.Read translated as statement "
        "targets (Gen/GenFragIO.v) with the hints printed there: writeAsFits / Flush / recvAndParseNextFragment results and the lengths "
        "of curChunk / remainingChunks are parameters, copy(b, chunk) = min of the two lengths, nil = 0, io.EOF = 12; the counted loops of "
        "Model/FragIO.v are hand-written around that iteration (Proofs/FragIOGenP.v) and tied by correspondence (fragio / fragrio)",
        "go2v/framesites.go (syntactic, type-resolved over every non-test file of ./...): the table of NewFrame call sites with the constant "
        "value of the argument, the slice bounds in NewFrame, Frame literals, assignments to Frame.Payload/buffer/headerBuffer, write buffers "
        "over a Payload, FramePool implementations with the classes of what Get returns / Release stores, receive-only classification of "
        "frames bound to a local that is only read into; Model/FramePool.v: the world of frames built from these tables (frames reached "
        "through reflection/unsafe or handed in by user-supplied FramePool implementations are outside)",
        "go2v/c01relsites.go (syntactic, type-resolved, non-test files of package tchannel): Gen/GenC01RelSites.v, the table of every call "
        "that can run a readableFragment's onDone (= FramePool.Release of the frame a reader is parsed into) with enclosing function, "
        "callee, receiver and guard, and the set of functions from which one is reachable: closure over static calls, methods through "
        "embedding, interface calls matched by method name, calls inside function literals; cut at the methods of fragmentingReader, at "
        "InboundCallResponse.SendSystemError and at Connection.dispatchInbound. Model/C01RelSites.v: a one-reader world whose parameter is "
        "that table (a site it does not know is taken to run when the response completes); a release of the frame by other means than "
        "readableFragment.done / onDone (FramePool.Release on a frame reached some other way) is C12's table (Gen/GenFrameUse.v)",
    ],
    "assumptions": ["blocking of flushFragment on the send queue / context (C05) and frame ownership (C12) are outside this model; "
                    "a FramePool implementation supplied by the application must hand out frames made by NewFrame(MaxFramePayloadSize)",
                    "Flush outside an open argument is API misuse and excluded by the script grammar"],
}
