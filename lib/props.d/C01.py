# check configuration for C01
from common_props import COMMON_TRUSTED

CFG = {
    "engines": [["frag", 250, 4000], ["msgwire", 25, 300]],
    "rule": "frag/fragw: writer scripts in the API grammar (Begin (Write|Flush)* Close)^3 with argument lengths around fragment "
            "boundaries (0..3, cap-3..cap+3, k*cap-3..k*cap+3, many-frame), capacities 5..40/64/300/4096 (initial and continuation "
            "independently), write splits (whole, byte-wise, random, boundary-1..+1), flushes incl. double and data-less ones, all "
            "checksum types, through the real fragmentingWriter over a capturing fragmentSender; fragr: the emitted fragments read by "
            "the real fragmentingReader with read patterns helper(ArgReadHelper.Read), exact-length+Close, byte-wise to EOF, random "
            "sizes to EOF, exact then EOF probe; fragparse: valid and hostile fragment payloads through parseInboundFragment + chunk "
            "loop. msgwire: a real client channel against a raw TCP peer built from the protocol document (production frame capacity, multi-frame requests and responses in both directions: the peer reassembles the arguments per the specification and verifies every checksum independently). Non-trivial = more than one "
            "fragment; distinct by input.",
    "trusted_base": COMMON_TRUSTED + [
        "modelled by hand (tied by correspondence): fragmentingWriter (BeginArgument/Write/writeAsFits/Flush/Close, fragment finish), "
        "fragmentingReader (BeginArgument/Read/Close cases 1-5/recvAndParseNextFragment), parseInboundFragment, ArgReadHelper.read + "
        "EnsureEmpty, checksum objects; regenerated from source: state enums, chunkHeaderSize, hasMoreFragmentsFlag, frame size "
        "constants, ChecksumSize, hasMoreFragments",
        "Spec/FragSpec.v: meaning of a fragment sequence, written from the protocol document",
    ],
    "assumptions": ["blocking of flushFragment on the send queue / context (C05) and frame pooling (C12) are outside this model",
                    "Flush outside an open argument is API misuse and excluded by the script grammar"],
}
