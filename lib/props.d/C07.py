# check configuration for C07
# engines: [harness engine name, cases at quick tier, cases at thorough tier]
from common_props import COMMON_TRUSTED

CFG = {
    "engines": [
        ["connclose", 1500, 15000],
        ["chanclose", 700, 7000],
        ["closewire", 120, 1500],
    ],
    "rule": "connclose: one real Connection of a listening Channel against a raw peer; random sequences (3..10 operations, plus directed prefixes for the admission race) of Connection.Close, call req frames (fresh / duplicate / reused ids), beginCall, handler completion, peer responses, connectionError, relay admission / decrementPending, checkExchanges, each optionally parked at the schedule points inbound.afterStateCheck / inbound.afterNewExchange / outbound.afterStateCheck / outbound.afterNewExchange / conn.checkExchanges.afterReadState and resumed later, so that the others interleave with it; the operation list is replayed on the extracted model (run_connclose) and compared after every operation (state, exchange counts, pending, stopCh, stoppedExchanges) and at the end (error frames seen by the peer in order, outcome of every operation). chanclose: a real relay-enabled Channel over 1..3 raw-peer connections (+ a socket whose handshake completes during close); Channel.Close x1..3, end of relayed calls, peer responses, connection errors, Connection.Close, parked at chan.Close.afterUnlock / chan.closeStateChange.afterRead / .afterMinState; every schedule point records a snapshot (channel state, ClosedChan, tracked connections and states); the recorded run is translated into model labels (connection moves, callback starts, thread steps) which the extracted channel model must accept, predicting channel state / tracked count / closed signal at every point. closewire: real channels over loopback, 2..7 concurrent callers, Close (once or twice) on server, client or relay at a random moment; sub listener: tnet.Wrap accept loop vs Close. Non-trivial = at least 3 operations (connclose), 2 (chanclose), every wire case; distinct by operation list.",
    "trusted_base": COMMON_TRUSTED + [
        "modelled by hand (tied by correspondence): Connection.close/checkExchanges/connectionError/protocolError/SendSystemError state test, handleCallReq and beginCall admission (check - register - re-check), messageExchangeSet add/remove/expire/count/stopExchanges, Relayer.canHandleNewCall/decrementPending/canClose, Channel.Close/addConnection/removeClosedConn/getMinConnectionState/connectionCloseStateChange/onClosed/Connect state test, tnet listener ref-count protocol; regenerated from source each run: the numeric values of connectionState and ChannelState (the order used by the monotonicity theorems) and the error codes Declined/Protocol",
        "schedule points (verifPoint, no-op without the verif build tag) and the controller in harness/engine_c07ctl.go; two points were added for this property: chan.closeStateChange.enter and chan.closeStateChange.afterMinState",
        "the listener theorem assumes the net package's behaviour that motivates the wrapper: an Accept that began before the underlying Close may still return a connection, one that begins afterwards fails (stated in Model/ListenerClose.v); the listener model has no correspondence engine, only the accept-after-close oracle",
    ],
    "assumptions": [
        "the connection send buffer (default 512 frames) is never full: SendSystemError's 'buffer full' branch would drop a declined error frame (outside the model; the wire engines never fill it)",
        "the initial fragment of a call req parses (a malformed first fragment is dropped without reply by handleCallReq: C03/C05 territory)",
        "(a) 'results are delivered' is proved as: the connection/channel cannot close under an accepted call; that the handler goroutine runs to completion and the frames reach the peer is checked by the oracles (call res observed by the raw peer / response read by the caller), not proved",
        "getMinConnectionState is modelled as a scan whose result lies between the minimum at its start and at its end (an over-approximation of every read order); NextMessageID+newExchange is one step",
        "completion of an inbound call runs two goroutines of the implementation concurrently (handler: mex.shutdown; watcher: inboundExpired); their order is not controllable, the engine replays both model threads and compares when both are done; the number of OnCloseStateChange callbacks of a connection is therefore not compared",
        "pings are outside the quantified operations: a ping req on a connection that is not Active is answered with a protocol error that tears the connection down (aborting the calls being drained); reported as an observation",
    ],
    "search_rounds": 2,
}
