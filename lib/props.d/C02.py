# check configuration for C02
from common_props import COMMON_TRUSTED

CFG = {
    "engines": [["fragck", 250, 3000], ["relayappend", 40, 500], ["ckown", 18, 150], ["c02typesweep", 1, 8]],
    "rule": "fragck/crc: random and boundary byte strings, split at arbitrary points, both polynomials, arbitrary initial values, "
            "against hash/crc32; fragck-writer: every fragment of writer scripts as in C01 against an independently computed "
            "running CRC; fragck-corrupt: for messages from the real writer, one byte of one fragment altered (argument byte or "
            "checksum byte; bit flips, 0x00, 0xff, +1) or the checksum type changed mid-message, read back by the real reader with "
            "all read patterns: the read must fail no later than the end of that fragment and never complete; relayappend: real "
            "relay with a host that appends key/value pairs to arg2, frames re-emitted to the destination checked against an "
            "independent CRC. ckown (also for every relayappend case): the library runs on tracking checksum pools "
            "(harness/overlay/zz_verif_c02.go); the recorded trace of Acquire/Add/Sum/Release operations, each with the library "
            "function performing it, must satisfy the ownership discipline ck_run of Model/CkOwn.v (judged in Go and by the extracted "
            "Coq checker: the correspondence line) -- no use after release, no second release, no operation by a function outside "
            "the object's life cycle; directed scenarios: a non-final re-emitted frame of an arg2-appending relay refused by a slow "
            "destination (relay-dest-conn-slow) while a second message of the same checksum type is being written (every frame reaching "
            "a destination is checked against an independent CRC), and a continuation frame held between the relay's item lookup and "
            "its checksum update while the call is finished by the destination's response / by its timer (forced schedule). "
            "c02typesweep: per round, for every message length 2..6 fragments and every base type (none, crc32, crc32c) a conforming "
            "message built without the library (arbitrary chunk layout, running CRC from hash/crc32) must read back complete; then "
            "for EVERY fragment (the first included) and EVERY value 0..255 of the checksum type byte other than the base type that "
            "byte is substituted, the checksum field kept / zeroed / dropped to the new type's size or recomputed for the new type "
            "(about 16 000 substitutions per round), and the frames go through the real parseInboundFragment and fragmentingReader "
            "with a random read pattern: some operation must fail, no fragment after the re-typed one (after fragment 1 when the "
            "first is re-typed) may be taken, no byte beyond it delivered, the complete state never reached, doneReading(nil) never "
            "called; substitutions by a known type (0..3) are also compared with the reader model (sub fragr). "
            "All cases non-trivial; distinct by input.",
    "trusted_base": COMMON_TRUSTED + [
        "modelled by hand (tied by correspondence): checksum objects (New/Add/Sum/Reset, null and hash kinds), running checksum in "
        "writer and reader; hash/crc32 re-modelled from its definition (bitwise, table-free) and compared with the library on every run",
        "regenerated from source each run: Gen/GenC02TypeCk.c02ReaderTypeCk, the statements of recvAndParseNextFragment between the receipt "
        "of a fragment and the chunk loop (receiver error, checksum creation from the first fragment's type byte, type comparison); hints: "
        "r.checksum == nil / r.checksum.TypeCode() / r.curFragment.checksumType are the parameters has_ck / ck_type / ftype, "
        "errMismatchedChecksumTypes is code 7 (go2v/c02typeck.go); the reader step of Model/Frag.v is proved equal to the step that "
        "takes this decision from the generated definition (C02_reader_typecheck_generated)",
        "regenerated from source each run: Gen/GenCkSites.ck_sites, every New/Release/Add/Sum/Reset/pool Get/Put/noReleaseChecksum wrap/"
        "field store/argument hand-over of a pooled checksum with enclosing function, receiver and guard (go2v/cksites.go); the life cycles "
        "of Model/CkOwn.v (writer, reader, relay item) are modelled by hand and tied by that table and by the recorded traces",
    ],
    "spec_subs": {"ckown": ["theories/Proofs/CkOwnP.vo"]},
    "assumptions": ["ownership discipline of the relay item's checksum on the pinned tree: proved under 'finishRelayItem does not run while a frame "
                    "of the call is between the item lookup and the end of its checksum update'; without it the model refutes it "
                    "(C02_ck_discipline_refuted_by_overlap, known finding c02:relay-checksum-released-under-inflight-frame); unconditional on a "
                    "tree without the Release in finishRelayItem",
                    "ArgWriter.Flush after the Close of the last argument (API misuse) is outside the life-cycle model",
                    "detection is claimed for an alteration confined to one byte (two coordinated alterations can collide in any 32-bit CRC)",
                    "bytes of chunk-length fields and flags are covered by correspondence (fragparse) only",
                    "Farmhash (type 2) is unimplemented in the code (null checksum with a 4-byte field): every such message is rejected; no detection claimed",
                    "C02_type_change_never_complete is stated for messages whose FIRST fragment has type none, crc32 or crc32c (a first fragment of type "
                    "Farmhash is itself rejected by the checksum comparison on the wire: four checksum bytes against the null checksum's empty sum) and "
                    "for scripts of reader operations that do not panic; the fragments are the parsed ones (type bytes >= 4 are rejected by "
                    "parseInboundFragment before the reader sees them: C02_type_range, engine c02typesweep oracle)"],
}
