# check configuration for C02
from common_props import COMMON_TRUSTED

CFG = {
    "engines": [["fragck", 250, 3000], ["relayappend", 40, 500]],
    "rule": "fragck/crc: random and boundary byte strings, split at arbitrary points, both polynomials, arbitrary initial values, "
            "against hash/crc32; fragck-writer: every fragment of writer scripts as in C01 against an independently computed "
            "running CRC; fragck-corrupt: for messages from the real writer, one byte of one fragment altered (argument byte or "
            "checksum byte; bit flips, 0x00, 0xff, +1) or the checksum type changed mid-message, read back by the real reader with "
            "all read patterns: the read must fail no later than the end of that fragment and never complete; relayappend: real "
            "relay with a host that appends key/value pairs to arg2, frames re-emitted to the destination checked against an "
            "independent CRC. All cases non-trivial; distinct by input.",
    "trusted_base": COMMON_TRUSTED + [
        "modelled by hand (tied by correspondence): checksum objects (New/Add/Sum/Reset, null and hash kinds), running checksum in "
        "writer and reader; hash/crc32 re-modelled from its definition (bitwise, table-free) and compared with the library on every run",
    ],
    "assumptions": ["detection is claimed for an alteration confined to one byte (two coordinated alterations can collide in any 32-bit CRC)",
                    "bytes of chunk-length fields and flags are covered by correspondence (fragparse) only",
                    "Farmhash (type 2) is unimplemented in the code (null checksum with a 4-byte field): every such message is rejected; no detection claimed"],
}
