# check configuration for C10
# engines: [harness engine name, cases at quick tier, cases at thorough tier]
from common_props import COMMON_TRUSTED

CFG = {
    "engines": [
        [
            "respwire",
            210,
            2500
        ],
        [
            "relaywire",
            100,
            1500
        ], ["relayinactive", 3, 20]],
    "rule": "respwire: scripted connections to a real server (handlers driven one API call at a time; deadline expiry, cancel frames, graceful close, peer cut, duplicate id, undecodable request forced at chosen points) compared with Model/RespWire.v (run_respwire: frames per id, result of every API call, final connection state); many concurrent ids with free-running handlers (complete 1..n fragments / system error / partial then system error / overrun / blackhole) directly and through a real relay (RelayMaxTimeout 150 ms) judged by the frame-grammar oracle written from the property text, incl. exactly one timeout error frame and nothing after it. The close-vs-admission window of handleCallReq (Close between newExchange and the state re-check: the call is declined with one error frame) is forced with the schedule point inbound.afterNewExchange in every 8th scripted case. relaywire: the forced relay schedules of engine relaysched (see C09) judged by the same grammar oracle on the caller's connection and compared with Model/RelayItems.v (frame logs of both connections); every schedule is classified by the extracted proved predicates (sub relaycalm, Model/RelayCalm.v): a grammar violation on the implementation or in the model inside the class of C10_relay_grammar_calm (no overlap, causal, destination frames well-formed) fails the case. Non-trivial = a call that produced frames; distinct by script/schedule.",
    "trusted_base": COMMON_TRUSTED + [
        "server side modelled by hand (tied by correspondence): inbound.go handleCallReq/dispatchInbound/InboundCallResponse, reqres.go reqResWriter, fragmenting_writer.go state machine, mex.go checkError/shutdown/inboundExpired/handleCancel/stopExchanges, connection.go SendSystemError/protocolError/close/checkExchanges (mex.shutdown and checkExchanges are one atomic action each)",
        "relay side: Model/RelayItems.v as for C09",
        "Spec/WireOk.v: the response grammar, written from the property text; harness/overlay/zz_verif_c10.go (accessors)"
    ],
    "assumptions": [
        "ids requested at most once per connection (duplicate in-flight ids are C04's protocol-error case); handlers call SendSystemError only while doneSending has not run (the property's quantifier)",
        "relay: C10_relay_grammar is refuted on this tree (known finding relay:response-frame-after-timeout-error); proved for all interleavings: nothing for ids never requested, nothing after the item is settled, the timeout path leaves exactly one timeout error frame to send; the prefix-of-an-accepted-word clause is proved (C10_relay_grammar_calm) for all fresh-id schedules without overlap (Model/RelayCalm.v no_overlap: no goroutine acts on a call while another goroutine holds a looked-up copy of its item) under two hypotheses on the destination: per message id its frames are a prefix of an accepted word (dest_ok) and it does not answer a message id the relay has not allocated on that connection (causal; without it the clause is false: the tail of an earlier stream is forwarded under a fresh id)",
        "wall-clock: that a relayed call times out within its clamped ttl is checked by the oracle with generous slack, not proved"
    ]
}
