# check configuration for C14
# engines: [harness engine name, cases at quick tier, cases at thorough tier]
from common_props import COMMON_TRUSTED

CFG = {
    "engines": [
        ["ttl", 300, 4000],
        ["cancelprop", 200, 2000],
    ],
    "rule": "ttl_begin: real Channel.BeginCall on a client with a stub clock (ChannelOptions.TimeNow) and contexts with chosen deadline/Err(); remaining times at 0, 1ns, 999us, 1ms-1ns, 1ms, 1ms+1ns, 1.999999ms, 2ms, relay default max +-1ms, 2^32ms +-1ns/1ms, 2x/3x 2^32ms, negative, +-300 years (saturating Time.Sub), plus random ones in six magnitudes; the ttl field is read off the wire by a raw peer. ttl_in: the real newIncomingContext for ttl fields {0,1,2,999,1000,1001,60000,120000,2^31+-1,2^32-2,2^32-1,random} with no / earlier / later / expired base deadline, and the context a real server hands to its handler for call reqs sent by a raw client (with and without a ConnContext deadline). ttl_relay / ttl_hops: eleven real relay channels with RelayMaxTimeout in {0,20ms,20.5ms,50ms,1s,2min,(2^32-1)ms,2^32ms,-5s,999us,maxint64} and five chains of 2-3 relays between a raw client and a raw server, fields around each maximum and random. ttl_timer / ttl_e2e (oracle only): the relay's own timeout towards a silent destination; real client -> 0..2 real relays -> real server with the real clock. cancelprop: scripts of caller steps (BeginCall, request fragments, response fragment reads), handler steps (response fragments, completion, Blackhole) and events (caller cancel, deadline, connection failure) executed on real client/relay/server channels for every combination of SendCancelOnContextCanceled x PropagateCancel(server) x PropagateCancel(relay), direct and through 1-2 relays: a fixed matrix (cancel while writing / waiting / reading a multi-frame request / response, before BeginCall, deadline, connection failure, blackhole) plus random scripts with 0-2 events inserted at random points. Non-trivial: ttl_begin with a deadline and live context, every ttl_in / relay case, cancel scripts in which the handler was dispatched; distinct by input.",
    "trusted_base": COMMON_TRUSTED + [
        "modelled by hand (tied by correspondence): Connection.beginCall ttl computation (Time.Sub saturation, <1ms rejection, context check order), callReq ttl encode/decode, newIncomingContext + ContextBuilder.Build timeout choice (contexts abstracted to their deadline), Relayer.handleCallReq clamp + lazyCallReq.SetTTL, and the cancellation transition system Model/Cancel.v (mex.go recvPeerFrame/checkError/onCtxErr/handleCancel/stopExchanges, reqres.go newFragment/flushFragment, connection.go onCancel/handleFrameRelay, inbound.go handleCallReq/handleCancel/watcher goroutine/doneSending/Blackhole, relay item lifetime)",
        "regenerated from source each run (go2v): GetContextError, validateRelayMaxTimeout, lazyCallReq.TTL, connection state / error code / relay default constants",
        "abstractions: a context.Context is seen as (deadline, Err() in {nil, DeadlineExceeded, Canceled, other}); time.Time as integer nanoseconds; Go timers/goroutines of clause (d) as atomic steps with instant frame delivery (the harness lets the real system settle between steps)",
    ],
    "assumptions": [
        "the caller's remaining time is measured at the start of the call (beginCall samples the clock once); the call req frame is flushed later, so time spent by the caller between BeginCall and the first flush is not deducted from the ttl on the wire",
        "'arrival' of clause (b) is the instant the connection's reader goroutine handles the call req (context.WithTimeout reads the real clock there); socket and scheduling delay before it is outside the model",
        "clause (d): the model fixes WHICH events end the handler's context and the caller's wait for every option combination and schedule; real-time aspects (how quickly a cancel message travels, timer accuracy) are only observed by the harness with generous bounds (350-600 ms) and three attempts per failing case",
        "the relay's timer duration min(ttl, max) is proved on the model and checked on the implementation by a timing oracle only (not bit-exact)",
        "remaining times >= 2^32 ms wrap in the uint32 ttl field (C14_wire_ttl_positive_refuted); the statement's bound 'never exceeds' still holds and is proved for all values",
        "a connection failure of a relay's outbound connection does not fail the relay items (caller waits until its deadline); this is modelled as it is and is the subject of C09/C10, not C14",
    ],
    "engine_timeout": 1200,
}
