# check configuration for C03
from common_props import COMMON_TRUSTED

CFG = {
    "engines": [["peerinput", 70, 1500], ["frag", 120, 1500], ["peerfx", 300, 6000], ["poolcross", 200, 4000]],
    # subs whose model output is PROVED equal to the specification of the pooled object's user on its own input
    # (Proofs/PoolReaderP.v, independent of the generated table): a disagreement is a concrete failing input
    "spec_subs": {"poolreader": ["theories/Proofs/PoolReaderSpecP.vo"], "poolwriter": ["theories/Proofs/PoolReaderSpecP.vo"]},
    "rule": "peerinput: a channel (server role, relay role with a backend) hosted in a CHILD process is attacked by a raw TCP peer with "
            "generated sequences: every message type byte, truncated payloads, payload bytes set to boundary values, size-field games, "
            "duplicate/unknown ids, frames in illegal order, short-ttl call then id re-use, error/cancel/init/ping variants, hostile "
            "handshakes, unknown checksum types, chunk-less fragments, split arg1 with a bad second fragment, lying counts, random frames, "
            "plus legitimate controls; peerinput-reuse (relay role, one child per sequence, run concurrently): the id of a call is re-used on the "
            "same connection after the relay timed it out (complete or half-sent request) / after an error frame by the peer / after a cancel "
            "(with and without cancel propagation) / while it is in flight / after it completed / after it was declined / with RelayMaxTombs=1, "
            "one to three times by calls that stay in flight, complete, are half-sent or time out themselves, then the sequence WAITS until every "
            "tombstone collection it can have scheduled has fired (3s constant of relay.go + slack; legitimate calls on other connections meanwhile) "
            "and probes: process alive, the attacked connection closed or answering a ping and a call with a fresh id, a fresh connection served; "
            "a duplicate of an id still in flight must never be answered with a call res; race0 (once per run): the forced two-goroutine schedule of the "
            "model witness C03_relay_reuse_unguarded_refuted on the real relay (child role relays: schedule controller, cancel relayed, 2-slot send queue; "
            "both peers raw): cancel parked after its lookup, backend response frames fill the non-reading caller's queue (call failed, entombed), cancel "
            "released (tombstone deleted early), id re-used and in flight, 3.7 s wait: the process must survive the stale collection; "
            "after each sequence: child alive, attacked connection closed or answering a ping, a legitimate call "
            "on a fresh connection answered. Client side: the child's outbound call answered with hostile frames. frag/fragparse: hostile "
            "fragment payloads through the real parser vs the model. peerfx: per-frame correspondence of the dispatch model (handle_frame): a real "
            "channel in this process dials a raw peer, which sends generated frames one at a time (valid / duplicate-id / truncated / byte-mutated "
            "call reqs, continuations and response-side frames for unknown and in-flight ids, error frames (truncated, protocol code, other codes), "
            "cancels, pings with payloads (legal on every connection that is not Closed: answered by a ping res also while the connection drains after a local Close), unknown types, init after the handshake, size-field lies, after local Close, with a stalled writer and a "
            "1-3 slot send buffer); after each frame: frames received, calls dispatched, frames queued on exchanges, contexts cancelled, exchanges "
            "stopped, and a snapshot of connection state + both exchange maps are compared with the model; oracle from the statement: a frame built "
            "to be malformed/illegal is only dropped, answered by one error frame, or shuts this connection down, dispatches nothing, touches no "
            "other exchange, and the reader goroutine always returns to reading. All sequences non-trivial; distinct by description and content. "
            "poolcross: state surviving in POOLED objects from one user to the next (garbage collector off while a case runs). Unit level in this process: "
            "poolreader = sequences of uses of pooled typed.Readers (thrift.ReadHeaders on well-formed / truncated / lying / empty / random header blocks whose "
            "underlying reader ends with io.EOF or its own error; scripted ReadUint16 / ReadString / ReadLen16String / Err), every second case after the pool "
            "was filled with Readers in an arbitrary prior state (every field, found by reflection, poisoned), the others on what the case's own uses leave behind; "
            "all values and errors compared with the model, oracle: a Reader fresh from NewReader has no error and a well-formed block decodes to its map; "
            "poolwriter = typed.Writer over a bounded writer with a poisoned scratch pool (bytes written, error); poolproto = thrift.ReadStruct on malformed "
            "bytes, then a well-formed struct must round-trip through the pooled protocol objects. Process level poolxconn: a CHILD process with a Thrift "
            "service, a JSON handler and a raw handler (one P / all Ps; half of the sequences on poisoned pools); connection A = a raw TCP peer sending 1-48 "
            "hostile calls with valid framing (header block 00 01 00 05 'a', cut at a random byte, count 65535, empty, trailing junk, second fragment with a bad "
            "checksum inside the header block, arg3 struct cut / random, malformed JSON, unknown methods, call cut by closing the connection, raw arg scheme, "
            "the child's OWN outbound Thrift call answered with a truncated header block); then connection B = a real client channel makes 8 well-formed "
            "Thrift / JSON calls: every one must return the right result and response headers (a deadline has to reproduce 3 of 3; a wrong result or a stale "
            "error fails at once) and the child must stay alive.",
    "trusted_base": COMMON_TRUSTED + [
        "modelled by hand (tied by correspondence, engine frag/fragparse and msg): parseInboundFragment, chunk loop, checksum pool lookup, "
        "message decoders, ReadBody size test, ReadBuffer guards; regenerated from source: Connection.handleFrameRelay routing, frameTypeFor, "
        "PayloadSize, checksumCount, ChecksumSize",
        "modelled by hand (tied by correspondence, engine peerfx): Connection.readFrames iteration, handleFrameNoRelay, handleCallReq up to dispatch, "
        "handleCallReqContinue/handleCallRes/handleCallResContinue/handleError/handleCancel/handlePingReq/handlePingRes, SendSystemError, "
        "protocolError, connectionError, close, checkExchanges, mexset/mex forwardPeerFrame",
        "regenerated from source (go2v, Gen/GenClose2.v pingReqAnswer) and proved equal to the model's decision and to the specification's legality of a ping req "
        "(C03_ping_state_test_generated, C03_ping_legal_generated): the state test of Connection.handlePingReq (only connectionClosed refuses a ping); "
        "go2v hints of that target: c.readState() => the state parameter, the protocolError statement => marker 0",
        "regenerated from source (go2v, Gen/GenRelayAdmit.v) and proved equal to the relay model's getDestination step (C03_relay_admission_generated): "
        "Relayer.getDestination incl. the duplicate-id check on ANY item of the outbound table; go2v hints of that target: r.outbound.Get(id,false) => "
        "(tomb, false, found), item.tomb => the tomb flag, the four call.Failed/SendSystemError statements => markers",
        "relay bookkeeping under id re-use: the hand model Model/RelayItems.v of C09/C10 (tied by their engines relaysched/relaywire); "
        "C03_relay_reuse_no_panic holds for schedules in which a re-used id meets an item at getDestination (re-use within the tombstone period)",
        "regenerated from source (go2v/poolreset.go, Gen/GenPoolReset.v) and checked by the executable discipline Model/PoolReset.v "
        "(C03_pool_reset_discipline_generated, C03_pool_table_complete, C03_pool_exceptions_current): for every sync.Pool of the library its element type, "
        "the fields of the pooled struct with the functions in which each is live on entry / assigned / aliased, the reset statements of every Get and Put "
        "site. Trusted there: the syntactic definite-assignment analysis of go2v (a field is 'live on entry' of a function iff read before an unconditional "
        "write in its block structure; calls into other functions are analysed per callee, not inlined), and the 14 reviewed exceptions of "
        "Model/PoolReset.pr_exceptions (scratch buffers, the third-party TBinaryProtocol, the relay timer re-initialised by Start), each pinned to the exact "
        "reader / writer function sets (and use statements) it was reviewed for; the frame pool is delegated (stale frame bytes are quantified over in Model/PeerInput.v)",
        "modelled by hand, Get / Put resets and field list regenerated and proved equal (C03_reader_get_path_generated), behaviour tied by correspondence "
        "(engine poolcross, subs poolreader / poolwriter) and proved equal to the specification of the thrift header block: typed.Reader (NewReader, ReadUint16, "
        "ReadString, ReadLen16String, Err, Release), thrift readHeaders / ReadHeaders, typed.Writer (WriteBytes, WriteUint16, WriteLen16Bytes), io.ReadFull over a "
        "reader that delivers bytes and then an error",
        "harness overlays typed.VerifPoisonObject / VerifPoisonReaderPool / VerifPoisonIntBufferPool, thrift.VerifPoisonProtocolPool (reflection + unsafe: put "
        "objects in an arbitrary prior state into the pools; pointers to foreign structs are left alone)",
        "NOT modelled (oracle only, child process): dispatch goroutines after the hand-over, exchange-set locking, handler scheduling, "
        "the relay under hostile input other than id re-use",
    ],
    "assumptions": ["pooled objects: the generic isolation theorem (C03_pool_discipline_isolates_users) assumes that a user's run reads only the fields go2v lists as "
                    "live on entry before writing them (respects); for typed.Reader / typed.Writer this is proved on the executable model instead of assumed; for the "
                    "thrift protocol pool, the argreader scratch and the relay timer it rests on the reviewed exceptions and the engine (poolproto, poolxconn)",
                    "pooled Reader: the underlying io.Reader delivers its bytes and then a non-nil error (a reader that returns (0, nil) forever would make io.ReadFull spin: "
                    "the argument readers of the library do not)",
                    "relay id re-use: the theorem's schedules re-use an id while the relay still holds an item for it; a re-use after the item is gone "
                    "(call completed, tombstone collected) is a fresh call for the code and is covered by the engine only; a tombstone deleted early while its "
                    "collection is still pending (two goroutines racing on one call) is outside the theorem (model witness C03_relay_reuse_unguarded_refuted) "
                    "and covered by the forced schedule race0 of the engine (defect c03:tombstone-collection-deletes-live-item, fixed by e53c62e)",
                    "clause (c) - no goroutine spins or deadlocks, other connections keep being served - is a scheduler-level liveness property: "
                    "exercised by the liveness probes, not proved",
                    "a frame whose size field exceeds the bytes sent leaves the stream mid-frame: the same-connection probe is skipped for it"],
}
