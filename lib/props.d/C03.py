# check configuration for C03
from common_props import COMMON_TRUSTED

CFG = {
    "engines": [["peerinput", 70, 1500], ["frag", 120, 1500]],
    "rule": "peerinput: a channel (server role, relay role with a backend) hosted in a CHILD process is attacked by a raw TCP peer with "
            "generated sequences: every message type byte, truncated payloads, payload bytes set to boundary values, size-field games, "
            "duplicate/unknown ids, frames in illegal order, short-ttl call then id re-use, error/cancel/init/ping variants, hostile "
            "handshakes, unknown checksum types, chunk-less fragments, split arg1 with a bad second fragment, lying counts, random frames, "
            "plus legitimate controls; after each sequence: child alive, attacked connection closed or answering a ping, a legitimate call "
            "on a fresh connection answered. Client side: the child's outbound call answered with hostile frames. frag/fragparse: hostile "
            "fragment payloads through the real parser vs the model. All sequences non-trivial; distinct by description and content.",
    "trusted_base": COMMON_TRUSTED + [
        "modelled by hand (tied by correspondence, engine frag/fragparse and msg): parseInboundFragment, chunk loop, checksum pool lookup, "
        "message decoders, ReadBody size test, ReadBuffer guards; regenerated from source: Connection.handleFrameRelay routing, frameTypeFor, "
        "PayloadSize, checksumCount, ChecksumSize",
        "NOT modelled (oracle only, child process): dispatch goroutines, exchange-set locking, handler scheduling, relay items under hostile input",
    ],
    "assumptions": ["clause (c) - no goroutine spins or deadlocks, other connections keep being served - is a scheduler-level liveness property: "
                    "exercised by the liveness probes, not proved",
                    "a frame whose size field exceeds the bytes sent leaves the stream mid-frame: the same-connection probe is skipped for it"],
}
