# check configuration for C04
# engines: [harness engine name, cases at quick tier, cases at thorough tier]
from common_props import COMMON_TRUSTED

CFG = {
    "engines": [
        [
            "mex",
            1500,
            20000
        ],
        [
            "multiplex",
            36,
            180
        ]
    ],
    "rule": "mex: operation scripts (newExchange, forwardPeerFrame with and without parking the forwarder at the schedule point mex.forward.afterLookup, recvPeerFrame, context deadline/cancel, shutdown, inboundExpired, removeExchange, stopExchanges, count; 6-40 ops, ids from a pool of 2-5 so that duplicates, re-use and stale lookups occur, queue capacities 1-3, 1 script in 7 with ids 0 / 2^32-1; 1 in 4 focused on one or two exchanges with queue capacity 1-2, many forwards/receives around a single stopExchanges / shutdown / context event) run against the REAL messageExchangeSet through overlay wrappers and against the extracted model (run_mex); 7 fixed schedules (error latch + full queue + late frame, stale lookup across shutdown and re-registration, duplicate id, interleaved ids, context done while blocked). mexids: Connection.NextMessageID from 1-8 goroutines, counters starting at 0, 1, 2^32-1, 2^32-3, random (run_mexids). multiplex (oracle only): 4-32 concurrent tagged calls of mixed sizes (0 B .. 330 kB, i.e. 1-6 frames each way), handler latency 0-30 ms, 1 caller in 5 with a short deadline or cancelling, over one connection: direct, both directions, through a relay, with a frame-parsing proxy on every hop; mux-gap: slow caller + failing writer + late fragment (checksum none) against a raw peer; mux-dupid: raw peer re-using an in-flight / a completed id. Non-trivial = script registers at least one exchange / every mux case; distinct by input.",
    "trusted_base": COMMON_TRUSTED + [
        "modelled by hand (tied by correspondence): mex.go newExchange/addExchange, forwardPeerFrame (set and exchange level, two steps), recvPeerFrame, shutdown, deleteExchange/removeExchange/expireExchange, stopExchanges/copyExchanges, errNotifier; connection.go NextMessageID. Regenerated from source each run: messageExchange.checkFrame (Gen/GenMex.v), mexChannelBufferSize and the message type codes (Gen/GenConsts.v)",
        "abstraction: a frame is (id, tag); an exchange's context is {live, deadline exceeded, cancelled}; errors are a small enum; goroutines of the script runner are observed as returned / blocked through their scheduler state (runtime.Stack)",
        "ghost history in the model (wire log, registration interval, arrived/delivered/received lists) is never read by the modelled code"
    ],
    "assumptions": [
        "clause (c) of the property, data-race freedom of concurrent API use, is a statement about the Go memory model and is NOT a theorem here; supporting evidence only: the thorough tier rebuilds the harness with -race and runs the multiplex and mex scenarios under the race detector, any report is a violation",
        "one reader goroutine per connection calls forwardPeerFrame (connection.go readFrames; the relay's fallback call is made by the same goroutine): the model has a single forwarder, the in-order clause depends on it",
        "C04_ids: fewer than 2^32 NextMessageID allocations between the start and the end of any one call",
        "unbuffered exchanges (bufferSize 0) are not modelled; the library passes mexChannelBufferSize (2) and 1",
        "the sender side (many calls sharing sendCh and one writer goroutine) is represented by C04_shuffle's arbitrary order-preserving interleaving, not by a model of sendCh"
    ]
}
