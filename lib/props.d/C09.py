# check configuration for C09
# engines: [harness engine name, cases at quick tier, cases at thorough tier]
from common_props import COMMON_TRUSTED

CFG = {
    "engines": [
        [
            "relaysched",
            160,
            2400
        ], ["relayinactive", 3, 20]],
    "rule": "relaysched: a real relay channel (spying RelayHost/RelayCall, RelayTimerVerification on) between two raw TCP peers; the engine lets ONE relay goroutine run at a time from one schedule point (relay.nonCallReq.afterGet, relay.Receive.afterGet, relayTimer.OnTimer, relay.timeout.afterEntomb) to the next, in an order chosen by a seeded walk after one of 8 directed prefixes: single/multi-frame request and response, error frame (also after a first fragment, late frames after the terminal), the known window (non-final frame looked up, then the origin timeout), every rejection path of handleCallReq, arg2 appends with 1/2 fragments or failing (also with a full destination buffer), 2-3 concurrent calls, request streaming with cancel; random: next caller/destination frame, continue a parked goroutine, fire the timeout of the originating or destination item, fill/drain the send buffer of either connection, lose a connection, graceful close. At the end every parked goroutine continues and every remaining timeout fires; 24 relays per run are kept until the 3 s tombstone GC has run and are then closed gracefully. The macro schedule is replayed by the extracted model (run_relaysched); compared: spy log, frames received by both peers, state/pending/items/tombstones of both connections. Non-trivial = more than two callbacks; distinct by schedule.",
    "trusted_base": COMMON_TRUSTED + [
        "modelled by hand (tied by correspondence): relay.go relayItems Get/Add/Delete/Entomb, Relayer.Receive, handleCallReq (all rejection paths), handleNonCallReq, addRelayItem, timeoutRelayItem, failRelayItem, finishRelayItem, decrementPending, relayFragmentSender.flushFragment; relay_timer_pool.go Start/Stop/OnTimer/Release/verifyNotReleased; regenerated from source each run: finishesCall, frameTypeFor, relayRoute (handleFrameRelay), determinesCallSuccess, isCallResOK, hasMoreFragments, message type / frame type / connection state / error code constants",
        "atomicity in the model: one label = one lock-protected region of relayItems (Get incl. timer Stop, Add together with timer Start, Delete incl. timer Release, Entomb incl. its too-many-tombstones Delete), one atomic counter operation, one sendCh enqueue attempt, one RelayCall callback; RelayHost.Start, Destination() and getConnectionRelay are environment choices of the label",
        "abstraction: frames are (type, id, flags byte, code byte, parses?); reasons of Failed are small codes; tombstone counter derived from the table; connection close/failure are labels that change the state seen by canHandleNewCall/SendSystemError; checkExchanges is the label LDrained",
        "schedule points verifPoint(...) of the library copy (no-op without the verif build tag); two points added for this engine: conn.readFrames.handled, relayTimer.OnTimer.done; overlay harness/overlay/zz_verif_c09.go (snapshots of the relayer, firing a pending relay timer now, filling a send channel)"
    ],
    "assumptions": [
        "the theorems quantify over runs in which a caller never reuses a request id on a connection (run_fresh); duplicate ids are C04's protocol-error case. With id reuse inside the 3 s tombstone period the stale GC timer could delete a live item (Release of an active timer panics) -- outside the quantifier",
        "a destination does not answer a message id before the relay has sent the request carrying it (Add + timer Start of addRelayItem are one action)",
        "C09_end_exactly_once / C09_forgotten speak about quiescent states (no goroutine has code left, no timer armed); that the Go scheduler and timers eventually run everything is outside the model",
        "C09_silent_after_end is refuted on this tree (known finding); it is proved for calm schedules only"
    ]
}
