# check configuration for C09
# engines: [harness engine name, cases at quick tier, cases at thorough tier]
from common_props import COMMON_TRUSTED

CFG = {
    "engines": [
        [
            "relaysched",
            160,
            2400
        ]
    ],
    "rule": "TODO",
    "trusted_base": COMMON_TRUSTED + [],
    "assumptions": []
}
