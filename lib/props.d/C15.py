# check configuration for C15
# engines: [harness engine name, cases at quick tier, cases at thorough tier]
from common_props import COMMON_TRUSTED

CFG = {
    "engines": [
        [
            "peers",
            400,
            5000
        ],
        [
            "reqsel",
            480,
            4000
        ],
        [
            "loadnet",
            30,
            300
        ]
    ],
    "rule": "peers: histories on the REAL PeerList of a fresh channel and of 0..2 isolated sub-channel lists, with peerHeap.rng replaced by a scripted logged source and the SetStrategy map iteration order logged: (a) mixed histories of 10..50 (thorough ..110) ops Add/Remove/Get/GetNew/load change+Channel.updatePeer/SetStrategy over a pool of 3..12 host:ports on 4 shared hosts (plus port-less and empty-host strings), previously-selected sets built as AddSelectedPeer does, host:ports only, hosts only, every member, or arbitrary strings; loads (inbound, outbound, pending) and custom scores incl. 0, 2^31, 2^63, 2^64-1; (b) fairness windows of 3n consecutive Get(nil) after n<=14 Adds and random selections with random / largest / zero jitter, with and without a preceding shrink of a 6..35-peer list; (c) a fixed boundary script (empty list, duplicate Add, Remove of a non-member, re-Add, every member tried, peer shared with an isolated list); (d) one deterministic 40->2 shrink reproducing the recorded fairness finding. Every history is also run through the extracted model (results, draws consumed, chosenCount, full heap array with score/order/index, order counter, key set after every op). Non-trivial = history ending with more than one peer (mixed), every fairness/boundary history; distinct by input. Load changes build the peer's inert connections with the pending calls spread at random over connections of BOTH directions (all on connections the peer dialled in a third of the cases), every connection also carrying 0..3 calls of the peer's own and 1..3 expired ids; NumPendingOutbound / NumConnections are compared with the known numbers. reqsel: (a) 3/4 of the cases: a real RequestState taken through 3..6 attempts [Get(rs.PrevSelectedPeers()) then rs.AddSelectedPeer(peer)] on the real list of a channel or an isolated sub-channel, 1..2 requests per case, pools of 3..5 hosts x 1..3 ports (plus port-less, empty-host, multi-colon and bracketed-IPv6 pools), scores arranged so that the siblings of a tried peer rank ahead of untried hosts, 0..n other operations (Add/Remove/Get/load change) between attempts; model run_reqsel observes result, heap dump and the request's set after every attempt; statement oracles on the set handed to selection (every tried peer and host, nothing else) and on the selected peer (host tried only if no member on an untried host exists, host:port only if no untried member exists, minimum rank in the tier); (b) 1/12: Channel.RunWithRetry + SubChannel.BeginCall to 127.0.0.{1..4}:{1..3} where nothing listens (3..6 attempts, connection refused), same oracles; (c) 1/6 x 6: peerload cases (0..3 inert connections per direction with 0..4 exchanges per set) against run_peerload and against the known number of our calls and the statement's score. loadnet: hub + 2..4 remote channels over loopback, each remote connected by a connection it dialled / one the hub dialled / both / none; 8..17 random steps (hub starts / finishes a held call to a peer, a peer starts / finishes a call to the hub); after each step NumPendingOutbound of every peer = calls the harness has in flight to it, and Get(nil) on the channel's list and on an isolated sub-channel's list returns a peer with minimum (tier, pending); every peer's real connection loads also run through run_peerload.",
    "trusted_base": COMMON_TRUSTED + [
        "modelled by hand (tied by correspondence on every op incl. the internal heap array): peer_heap.go entirely, container/heap Push/Pop/Remove/Fix/up/down (re-modelled from the go1.23 stdlib source), PeerList.Add/Remove/Get/GetNew/choosePeer/onPeerChange/updatePeer/SetStrategy/Len/Copy/IntrospectList, Channel.updatePeer over the channel's list and isolated sub-channel lists, Peer.chosenCount; getHost/AddSelectedPeer are those of Model/Retry.v (C17)",
        "regenerated from source each run (go2v): preferIncomingCalculator.GetScore, leastPendingCalculator.GetScore, zeroCalculator.GetScore over (inbound, outbound, pending) with math.MaxUint64 / math.MaxInt32 as literals",
        "oracle inputs of the model, universally quantified in the theorems: the two rng.Intn draws (Intn k = raw mod k) and the map iteration order of SetStrategy; the harness scripts the former through rand.Source and logs the latter through the ScoreCalculator callback",
        "overlay harness/overlay/zz_verif_c15.go: snapshot of peerHeap.peerScores/order/peersByHostPort, rng replacement, inert connections giving a Peer a chosen (inbound, outbound, pending) load, Channel.updatePeer, the library's calculators, chosenCount",
        "regenerated from source each run (go2v method translator, Gen/GenPeerSel.v): retry.go getHost (search loop with early return), RequestState.AddSelectedPeer (nil-map test, map literal, insertions), RequestState.PrevSelectedPeers; peer.go Peer.NumConnections, Peer.NumPendingOutbound (both range loops); mex.go messageExchangeSet.count.  Proofs/GenPeerSelP.v proves them equal to Spec host_of, Model/Retry.v add_selected (as sets) and Model/ReqSel.v pending_calls",
        "translator extensions used by GenPeerSel (go2v/methods.go, semantics in Base/GoSemColl.v): map[string]struct{} as a nilable string set (nil test, literal, insertion with panic on nil, membership), struct{} as unit, []*T as list T (len, range), `return` inside a counted for loop (go_for_ret), Lock/Unlock/RLock/RUnlock of sync mutexes dropped (sequential meaning), StructRep.Only; hint `rs == nil` => false (the functions are translated for a non-nil RequestState; the nil receiver is exercised by the harness only); pointers to structs are never nil in the representation",
        "overlay: VerifSetPeerConns / VerifPeerConnLoads (inert connections with BOTH exchange sets and expired ids populated; field-by-field reader of real connections' exchange-set sizes)",
        "Spec/PeerSelect.v: eligibility tiers, least-loaded, default ranking, written from the property statement and the doc comments of Get/AddSelectedPeer/peer_strategies.go"
],
    "assumptions": [
        "sequential histories: operations of one PeerList are serialised by its lock; interleavings inside onPeerChange (score read under RLock, update under Lock) are outside this property's model (C04/C16)",
        "pending outbound calls < MaxInt32 for the tier order (at MaxInt32 the generated scores of adjacent tiers meet); uint64 order counter does not wrap within the window (explicit hypotheses of C15_fair_partial / C15_stamp_bound)",
        "fairness at full strength is refuted (C15_fair_refuted, known finding peerlist:fairness-after-shrink); C15_fair_partial holds under the stamp bound, which C15_stamp_bound establishes for histories without Remove; re-establishment of the bound after a Remove is not proved",
        "the heap order on (score, order) is NOT an invariant of the pinned code (C15_heap_order_refuted: swapOrder fixes stale positions); selection minimality and fairness are proved without it (heap order on the score; order only among elements stamped after the window bound)",
        "the request theorems (C15_retry_*) take the host function of the code: the text before the LAST ':' (after the fix of c15:ipv6-host a bracketed IPv6 host:port \"[::1]:80\" has host \"[::1]\"; the oracle's host function is written separately and is bracket-aware); they cover Get as SubChannel.BeginCall uses it, any history on the list between two attempts, and no concurrent mutation of one RequestState (a request's attempts are sequential)",
        "C15_pending_counts_our_calls / C15_default_rank_of_connections: total pending < 2^63 (int never wraps), pending < 2^31-1 and connection counts < 2^63 for the rank order",
        "scCount / root-list removal of peers (RootPeerList.onClosedConnRemoved) belong to C16 and are not modelled"
    ]
}
