# check configuration for C15
# engines: [harness engine name, cases at quick tier, cases at thorough tier]
from common_props import COMMON_TRUSTED

CFG = {
    "engines": [
        [
            "peers",
            300,
            4000
        ]
    ],
    "rule": "placeholder",
    "trusted_base": COMMON_TRUSTED + [],
    "assumptions": []
}
