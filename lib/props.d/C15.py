# check configuration for C15
# engines: [harness engine name, cases at quick tier, cases at thorough tier]
from common_props import COMMON_TRUSTED

CFG = {
    "engines": [
        [
            "peers",
            400,
            5000
        ]
    ],
    "rule": "peers: histories on the REAL PeerList of a fresh channel and of 0..2 isolated sub-channel lists, with peerHeap.rng replaced by a scripted logged source and the SetStrategy map iteration order logged: (a) mixed histories of 10..50 (thorough ..110) ops Add/Remove/Get/GetNew/load change+Channel.updatePeer/SetStrategy over a pool of 3..12 host:ports on 4 shared hosts (plus port-less and empty-host strings), previously-selected sets built as AddSelectedPeer does, host:ports only, hosts only, every member, or arbitrary strings; loads (inbound, outbound, pending) and custom scores incl. 0, 2^31, 2^63, 2^64-1; (b) fairness windows of 3n consecutive Get(nil) after n<=14 Adds and random selections with random / largest / zero jitter, with and without a preceding shrink of a 6..35-peer list; (c) a fixed boundary script (empty list, duplicate Add, Remove of a non-member, re-Add, every member tried, peer shared with an isolated list); (d) one deterministic 40->2 shrink reproducing the recorded fairness finding. Every history is also run through the extracted model (results, draws consumed, chosenCount, full heap array with score/order/index, order counter, key set after every op). Non-trivial = history ending with more than one peer (mixed), every fairness/boundary history; distinct by input.",
    "trusted_base": COMMON_TRUSTED + [
        "modelled by hand (tied by correspondence on every op incl. the internal heap array): peer_heap.go entirely, container/heap Push/Pop/Remove/Fix/up/down (re-modelled from the go1.23 stdlib source), PeerList.Add/Remove/Get/GetNew/choosePeer/onPeerChange/updatePeer/SetStrategy/Len/Copy/IntrospectList, Channel.updatePeer over the channel's list and isolated sub-channel lists, Peer.chosenCount; getHost/AddSelectedPeer are those of Model/Retry.v (C17)",
        "regenerated from source each run (go2v): preferIncomingCalculator.GetScore, leastPendingCalculator.GetScore, zeroCalculator.GetScore over (inbound, outbound, pending) with math.MaxUint64 / math.MaxInt32 as literals",
        "oracle inputs of the model, universally quantified in the theorems: the two rng.Intn draws (Intn k = raw mod k) and the map iteration order of SetStrategy; the harness scripts the former through rand.Source and logs the latter through the ScoreCalculator callback",
        "overlay harness/overlay/zz_verif_c15.go: snapshot of peerHeap.peerScores/order/peersByHostPort, rng replacement, inert connections giving a Peer a chosen (inbound, outbound, pending) load, Channel.updatePeer, the library's calculators, chosenCount",
        "Spec/PeerSelect.v: eligibility tiers, least-loaded, default ranking, written from the property statement and the doc comments of Get/AddSelectedPeer/peer_strategies.go"
],
    "assumptions": [
        "sequential histories: operations of one PeerList are serialised by its lock; interleavings inside onPeerChange (score read under RLock, update under Lock) are outside this property's model (C04/C16)",
        "pending outbound calls < MaxInt32 for the tier order (at MaxInt32 the generated scores of adjacent tiers meet); uint64 order counter does not wrap within the window (explicit hypotheses of C15_fair_partial / C15_stamp_bound)",
        "fairness at full strength is refuted (C15_fair_refuted, known finding peerlist:fairness-after-shrink); C15_fair_partial holds under the stamp bound, which C15_stamp_bound establishes for histories without Remove; re-establishment of the bound after a Remove is not proved",
        "the heap order on (score, order) is NOT an invariant of the pinned code (C15_heap_order_refuted: swapOrder fixes stale positions); selection minimality and fairness are proved without it (heap order on the score; order only among elements stamped after the window bound)",
        "scCount / root-list removal of peers (RootPeerList.onClosedConnRemoved) belong to C16 and are not modelled"
    ]
}
