# check configuration for C06
# engines: [harness engine name, cases at quick tier, cases at thorough tier]
from common_props import COMMON_TRUSTED

CFG = {
    "engines": [
        [
            "msg",
            250,
            3000
        ],
        [
            "msgwire",
            40,
            600
        ],
        [
            "msgreply",
            64,
            800
        ],
        [
            "c06inplace",
            400,
            4000
        ]
    ],
    # subs whose model output is proved equal to the independent specification encoder
    # (C06_layout_*): a model/implementation disagreement there is a concrete failing input
    "spec_subs": {"msg_enc": ["theories/Proofs/CodecP.vo", "theories/Model/MsgRun.vo"],
                  # reply headers: run_replyhdr / run_replyhdr_out = Spec/ReplyHdr.v (C06_reply_spec, C06_reply_out_spec)
                  "replyhdr": ["theories/Proofs/ReplySpecP.vo", "theories/Model/MsgRun.vo"],
                  "replyhdr_out": ["theories/Proofs/ReplySpecP.vo", "theories/Model/MsgRun.vo"],
                  # in-place accessors: run_c06inplace / run_c06ipwire = Spec/C06InPlaceSpec.v (C06_inplace_spec);
                  # Proofs/C06InPlaceP.v does not depend on the regenerated functions
                  "c06inplace": ["theories/Proofs/C06InPlaceP.vo", "theories/Model/C06InPlace.vo"],
                  "c06ipwire": ["theories/Proofs/C06InPlaceP.vo", "theories/Model/C06InPlace.vo"]},
    "rule": "msg: boundary-heavy message values (string lengths 0/1/254/255/256/65535/65536, ttl {0,1,2^31,2^32-1}, span patterns, 0..255 headers, small payload capacities) encoded by the real Frame.write+WriteOut vs the model (msg_enc); the valid encoding, junk-extended, random strict prefixes and byte-mutated payloads decoded by the real message.read vs the model (msg_dec); frames ++ junk, truncated frames and mutated size/reserved fields through the real Frame.ReadIn (frame_in). msgwire: a real client channel (frame pool with stale header bytes) against a raw TCP peer that parses/produces frames with an encoder written from the protocol document; sub callwire: the call req frames the real reqResWriter put on the wire (1..3 fragments) vs the reqResWriter model (Model/CallWire.v call_frames, the C01 writer inside), and for an unfragmented call req byte equality with a complete-payload encoder written from the protocol document (flags ttl tracing service~1 headers csumtype csum arg1~2 arg2~2 arg3~2). msgreply (sub replyhdr): a raw client written from the protocol document opens a connection to a real listening channel with an init req whose id is taken from {0, 1, 2, 7, 0x01000000, 0xFFFFFFFE, random} and runs a script of requests with ids from the same set (ping; call answered in one frame / in several frames / by an error frame: no such method, handler system error, cancel frame, channel closing, id of a call in flight; a fragmented call req; two calls answered in reverse order; handshake refusals: version 1, first frame not an init req): the (type, id) headers of every answer vs the reply-header model (run_replyhdr, proved equal to Spec/ReplyHdr.v) and the oracle that every frame of an answer carries the request id, the answering type and (call res) the arguments of that request; sub replyhdr_out: a real client against a raw listener that answers the init req with id + delta (delta in {0, 1, -1, 2^31-1, 6}): id of the init req, acceptance iff delta = 0, id of the error frame for a refused init res, id of the cancel frame of an abandoned call. c06inplace (sub c06inplace): the SECONDARY, in-place decoders / encoders -- for random call req frames (flags {0,1,2,0xfe,0xff,random}, ttl {0,1,1000,2^31,2^32-1,random} ms, span patterns zero / root / child with three different ids / all ones / single high bits / random, service of 0/1/7/30/254/255 bytes, 0..12 transport headers incl. repeated keys and the empty key, checksum types 0..3, arg1/arg2/arg3, arg2 ending the frame) laid out by an encoder written from the protocol document: callReqSpan, lazyCallReq.Span / TTL / Service / HasMoreFragments, hasMoreFragments, finishesCall, the payload after SetTTL(d) and the error frame Connection.SendSystemError(id, callReqSpan(frame), err) queues vs the FIELDS (model run_c06inplace proved equal to Spec/C06InPlaceSpec.v) and vs an oracle from the layout; frames with a flags byte of every type (isCallResOK, lazyCallRes.OK, hasMoreFragments, finishesCall) and error frames (lazyError.Code); the parse-dependent accessors (newLazyCallReq: Caller, Method, RoutingDelegate, RoutingKey, arg scheme, checksum type, arg2 / arg3 and their offsets, isArg2Fragmented; newLazyCallRes: ArgScheme, Arg2, Arg2IsFragmented, OK) by oracle only (sub c06ipparse). Sub c06ipwire, end to end: a raw client sends a call req with a non-root / boundary span to a real relay channel whose RelayHost answers busy / refuses / has no destination / routes to a dead address / routes to a backend that never answers (relay timeout, ttl 120 ms), and in process Connection.handleCallReq on a connection in state start-close / inbound-closed: the error frame observed must carry the call's id and its 25 tracing bytes (spanid parentid traceid flags as sent). msg additionally truncates every decoded message exactly in front of every field of its layout and one byte into it (one-byte fields included) and requires an error for every strict prefix, for all message kinds. Every case counts as non-trivial; distinct by input.",
    "trusted_base": COMMON_TRUSTED + [
        "regenerated from source on every run and proved equal to the hand model: (C06_typedbuf_generated) every loop-free method of typed.ReadBuffer / typed.WriteBuffer and the Update methods of the deferred references (Gen/GenTypedBuf.v); (C06_messages_generated) read/write of callReq, callRes, errorMessage, cancelMessage, initMessage, transportHeaders (loops included), noBodyMsg, callResContinue, Span, FrameHeader (Gen/GenMessages.v). Translator: go2v/methods.go (state-passing Gallina over the Go state: remaining []byte + err / backing array + offset,length + err; panics = None; counted for => go_for, range over a map => go_range over its entries in a universally quantified order). Trusted there: the translator, the per-construct semantics Base/GoSem.v (slices with cap abstracted to len, BigEndian, copy, nil, map as entry list / insertion log), the views absR/absW/abs<Message> of Proofs/GenTypedBufP.v, Proofs/GenMessagesP.v, and the typing hypotheses written in the theorems (byte values 0..255, []byte holds bytes, FrameHeader.reserved is the zero array)",
        "modelled by hand (tied by correspondence only): Frame.write/read/WriteOut/ReadBody/ReadIn (interface-typed message, io.Reader/io.Writer), ReadUvarint/WriteUvarint (loops inside encoding/binary), typed.Reader/Writer; regenerated from source: SetPayloadSize, PayloadSize, all message type codes, MaxFramePayloadSize, FrameHeaderSize",
        "in-place accessors (C06_inplace_generated, C06_inplace_span_generated, C06_inplace_error_frame_generated): messages.go callReqSpan, relay_messages.go lazyCallReq.Span / TTL / SetTTL / Service / HasMoreFragments, lazyError.Code, isCallResOK, lazyCallRes.OK, hasMoreFragments, finishesCall, frame.go SizedPayload / messageType are regenerated from the source on every run by the method translator (go2v/c06inplace.go -> Gen/GenC06InPlace.v) and proved equal to Model/C06InPlace.v, which is proved to return the fields of the message at the places Spec/Protocol.v puts them (C06_inplace_callreq, C06_inplace_bytes, C06_inplace_spec). Trusted there: the translator incl. its extensions for embedded structs / promoted fields and for binary.BigEndian.PutUintN into a slice expression of a []byte field (Base/GoSem.v bs_put), the view of a Frame as header + payload bytes (buffer / headerBuffer alias the same array and are not represented), []byte holds bytes. The parsing constructors newLazyCallReq / newLazyCallRes stay hand-modelled (Model/RelayLazy.v, property C08, lazy_callreq_layout) and are tied here by oracle only; the call sites that pass the span on (relay.go, inbound.go) are tied by the end-to-end cases of engine c06inplace",
        "Spec/Protocol.v and Spec/ProtocolCall.v: the independent encoders (message headers; complete call req / call res payload), written from the protocol document with literals",
        "modelled by hand (tied by correspondence, sub callwire): reqResWriter.newFragment/flushFragment around the fragmenting writer (Model/CallWire.v)",
        "reply headers (C06_reply_headers_generated, C06_out_headers_generated, C06_reply_sites_closed): regenerated from source on every run by go2v/replyids.go + go2v/c06targets.go -- Gen/GenReplySites.v (per function of the answer path the list of the id expressions at ALL its sites of one kind: call argument, composite-literal key, assignment, map index; local variables resolved to their last dominating assignment; the table of every FrameHeader.ID/.messageType write, every Connection.SendSystemError/protocolError call and every id-carrying message literal of the package) and Gen/GenReplyIds.v (ID()/messageType() of every message struct, Frame.write's header assignments, readMessage's id result, outboundHandshake's id test). Trusted there: the site selection (by source text of the callee / lvalue and by go/types for the table), the resolution rule for local variables, hints `frame.Header.ID => fid`, `response.mex.msgID / w.mex.msgID => mex_id`; the chaining of the pieces (Proofs/ReplyHdrP.v code_*) follows the Go call structure by hand and is tied by engine msgreply"
],
    "assumptions": [
        "Go map iteration order is a universally quantified list order in the theorems; the harness recovers the emitted order from the bytes",
        "header counts above 255/65535 (byte(len)/uint16(len) casts) are outside protocol limits and carry the explicit hypothesis zlen <= 255/65535"
    ]
}
