# check configuration for C18
# engines: [harness engine name, cases at quick tier, cases at thorough tier]
from common_props import COMMON_TRUSTED

CFG = {
    "engines": [
        [
            "codecs",
            120,
            1500
        ],
        [
            "hdrpath",
            120,
            2000
        ]
    ],
    "rule": "codecs: thrift header maps (0..300 entries, boundary lengths 65535/65536) through the real WriteHeaders/ReadHeaders and the arg2 KeyValIterator; HTTP requests/responses (methods, URLs up to 16384 bytes, status codes, multi-valued and non-canonical header keys, over-size buffers) through the real WriteRequest/ReadRequest/ResponseWriter/ReadResponse on in-memory arg streams; uvarints; each valid encoding also as hostile variants (every kind of truncation, boundary bytes, junk, random, varints >= 2^63), every call under recover() so a panic is an observation. hdrpath: real thrift and JSON client/server pairs, headers attached to the context vs. headers seen by the handler and response headers seen by the caller. All cases distinct by input.",
    "trusted_base": COMMON_TRUSTED + [
        "regenerated from source on every run and proved equal to the hand model (C18_codecs_generated; go2v method translator, Gen/GenCodecs.v + Gen/GenTypedBuf.v): arg2 NewKeyValIterator/Next (one step = kv_next), typed.ReadBuffer.ReadBytes for every Go int (= r_bytes_go, hence the slice guard incl. negative lengths), NewReadBuffer/NewWriteBuffer, http readVarintString/writeVarintString (over a hand re-model of encoding/binary's uvarint loops on the generated ReadByte/WriteBytes, Model/UvarintG.v). Trusted there: go2v/methods.go, Base/GoSem.v, the views of Proofs/GenTypedBufP.v",
        "modelled by hand (tied by correspondence): thrift WriteHeaders/readHeaders, the iteration loop around KeyValIterator.Next, http writeHeaders/readHeaders/WriteRequest/ReadRequest/ResponseWriter/ReadResponse byte layer, encoding/binary uvarint (re-modelled from its source)",
        "library oracles, not modelled: encoding/json, thrift struct (de)serialisation, net/http request/URL construction (cases the library rejects are skipped); the thrift/JSON header path through client/server is covered by the hdrpath oracle only"
],
    "assumptions": [
        "WriteRequest ignores the write buffer's error for arg2 above 10000 bytes (sender reports success, receiver fails): outside the statement's 'within their size limits'; noted in DESIGN.md"
    ]
}
