# check configuration for C18
# engines: [harness engine name, cases at quick tier, cases at thorough tier]
from common_props import COMMON_TRUSTED

CFG = {
    "engines": [
        [
            "codecs",
            120,
            1500
        ],
        [
            "hdrpath",
            120,
            2000
        ],
        [
            "hdrseq",
            1500,
            20000
        ]
    ],
    "spec_subs": {"hdrseq": ["theories/Proofs/HdrSlotP.vo"]},
    "rule": "codecs: thrift header maps (0..300 entries, boundary lengths 65535/65536) through the real WriteHeaders/ReadHeaders and the arg2 KeyValIterator; HTTP requests/responses (methods, URLs up to 16384 bytes, status codes, multi-valued and non-canonical header keys, over-size buffers) through the real WriteRequest/ReadRequest/ResponseWriter/ReadResponse on in-memory arg streams; uvarints; each valid encoding also as hostile variants (every kind of truncation, boundary bytes, junk, random, varints >= 2^63), every call under recover() so a panic is an observation. hdrpath: real thrift and JSON client/server pairs, headers attached to the context vs. headers seen by the handler and response headers seen by the caller (one call per context). hdrseq: sequences of 2..4 (thorough: up to 8) thrift (generated client -> thrift client.Call) and JSON (Client.Call, CallPeer, CallSC) calls made with the SAME ContextWithHeaders, interleaved with WithHeaders (thrift/json/tchannel spelling, nil or empty map), Child() and back-to-parent; every handler answers ok / application error / (sub hdrseq_err) system error and sets response headers from {never set, nil, empty, 1 pair, several pairs, same keys as the previous response with other values, subset, superset, colliding small keys}; after every operation the context's Headers() and ResponseHeaders(), per call the result, whether the handler ran and the request headers it saw are compared with the model (sub hdrseq: proved equal to Spec/HdrPath.v, so a disagreement is a concrete failing input) and judged by an oracle written from the statement (after call k the context shows exactly handler k's response headers, nothing of an earlier call; the handler sees exactly the headers attached last, its own arg scheme, runs once; the caller gets the handler's outcome; a child context does not write into its parent). Every 8th case: a sequence of raw calls on the same connection/context/handler with changing arg scheme and application-error flag (each call and its response must show its own). All cases distinct by input.",
    "trusted_base": COMMON_TRUSTED + [
        "regenerated from source on every run and proved equal to the hand model (C18_codecs_generated; go2v method translator, Gen/GenCodecs.v + Gen/GenTypedBuf.v): arg2 NewKeyValIterator/Next (one step = kv_next), typed.ReadBuffer.ReadBytes for every Go int (= r_bytes_go, hence the slice guard incl. negative lengths), NewReadBuffer/NewWriteBuffer, http readVarintString/writeVarintString (over a hand re-model of encoding/binary's uvarint loops on the generated ReadByte/WriteBytes, Model/UvarintG.v). Trusted there: go2v/methods.go, Base/GoSem.v, the views of Proofs/GenTypedBufP.v",
        "modelled by hand (tied by correspondence): thrift WriteHeaders/readHeaders, the iteration loop around KeyValIterator.Next, http writeHeaders/readHeaders/WriteRequest/ReadRequest/ResponseWriter/ReadResponse byte layer, encoding/binary uvarint (re-modelled from its source)",
        "library oracles, not modelled: encoding/json, thrift struct (de)serialisation, net/http request/URL construction (cases the library rejects are skipped)",
        "the header path for contexts used for several calls: Model/HdrSlot.v (the container of context_header.go, headers through the modelled thrift codec, the clients' statements after the retry loop), proved to observe Spec/HdrPath.v on every operation sequence (C18_ctx_model_is_spec) and tied by correspondence (engine hdrseq). Regenerated from the source on every run and proved equal to the model (C18_ctx_generated; go2v statement targets with After, Gen/GenHdrPath.v): the statements of thrift client.Call / json Client.Call after RunWithRetry and of json wrapCall after makeCall, headerCtx.Headers / ResponseHeaders / SetResponseHeaders / Child and WrapWithHeaders. Trusted there: the hints printed in Gen/GenHdrPath.v (ctx.SetResponseHeaders(respHeaders) = `let slot := respHeaders`, the composite literal of WrapWithHeaders, c.headers() = has_container), JSON encode/decode of a header map is the identity (library oracle), the server side (thrift server.handle, json handler.Handle build a fresh context per call and write ctx.ResponseHeaders()) and the retry loop are modelled by hand and covered by correspondence only"
],
    "assumptions": [
        "WriteRequest ignores the write buffer's error for arg2 above 10000 bytes (sender reports success, receiver fails): outside the statement's 'within their size limits'; noted in DESIGN.md"
    ]
}
