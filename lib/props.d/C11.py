# check configuration for C11
# engines: [harness engine name, cases at quick tier, cases at thorough tier]
from common_props import COMMON_TRUSTED

CFG = {
    "engines": [
        [
            "quiesce",
            30,
            300
        ], ["relayinactive", 3, 20], ["inboundleak", 8, 60]],
    "engine_timeout": 1500,
    "rule": "quiesce (n = 30 quick / 300 thorough histories): each history builds a server, in 1/3 of the cases a relay in front of it, a client whose sockets can be made to fail writes, fail reads, stall or be cut, with random options (idle sweeps, health checks, cancel propagation, relay max timeout), then runs 3-10 operations drawn from: bursts of calls (echo, slow, blackhole, system error, application error, 150 KB response, early error, unknown method; timeouts 30-300 ms; argument sizes 0-200 KB; cancellation after 1-30 ms), 15 kinds of raw client peers (valid call, half call then silence/close, bad checksum continuation, duplicate id, garbage, old init version, connect-and-stall, protocol error frame, unknown frame type, cancel/callres for unknown ids, truncated frame, abrupt reset, huge TTL), 10 kinds of raw server peers (answers, never answers, truncated/ wrong-id / bad-checksum / endless responses, closes mid-response, error frame, bad init res, reset), socket faults, graceful connection closes from either side, pings, pauses; then quiescence and the oracle of the statement (polled up to 2 s). n/20+2 relay histories (each with a blackholed call that always leaves tombstones) are checked only after the 3 s tombstone period. Every run also covers 2 scripted histories (a peer that stops reading for good while the client channel closes, without and with health checks + a one-frame send buffer) and 3 forced schedules through the library's schedule points (connection starts closing between exchange registration and dispatch, inbound and outbound; relay timer callback racing the response). Closing is staged: first only the client channel (its peers alive: the channel must reach Closed, all its sockets must have been closed by the library, the remaining reader/writer goroutines must not outnumber the connections the open channels hold), then everything (no goroutine with a library frame remains). Component subs with model counterparts: mexdrain 8n label sequences on the real messageExchangeSet (ids reused from a range of 1-4), connbook 3n on the real Channel/Peer bookkeeping with Peer.addConnection parked between its two halves, relaydrain 2n on the real Relayer of a live relay connection (timers fired through the schedule point relayTimer.OnTimer, maxTombs 1 / 30000), teardown n+13 (13 scripted label sequences, then random ones) on a real connection against a raw peer that stays alive (close, peer gone, write fault, read fault, forced write, write blocking and returning, blocked outbound/inbound calls, duplicate-id protocol error, protocol error frame), observed after every label once all library goroutines are blocked, ledger: every creating site of a library goroutine seen in goroutine dumps during the run. Non-trivial = more than one operation / object; distinct by input.",
    "trusted_base": COMMON_TRUSTED + [
        "modelled by hand (tied by correspondence): mex.go drain side (newExchange, shutdown, expireExchange, removeExchange, stopExchanges), relay.go relayItems + relay_timer_pool.go + Relayer add/finish/fail/timeout, channel.go/peer.go connection bookkeeping, connection.go close/checkExchanges/connectionError/protocolError/closeNetwork/readFrames/writeFrames exits, health.go and idle_sweep.go exits; regenerated from source each run: the list of go statements of package tchannel (Gen/GenSites.go_sites), connection and channel state constants",
        "the ledger's exit conditions and the assumption that an enabled goroutine exit step is eventually taken (scheduler fairness) are outside the model; the quiesce engine observes goroutine stacks instead",
        "time.AfterFunc sites (relay tombstone GC, relay timers) are listed in the ledger by hand; go2v regenerates go statements only"
    ],
    "assumptions": [
        "callers drive every call to completion or to its first error and handlers finish their response (respond, SendSystemError or Blackhole); an abandoned OutboundCall keeps its exchange by design",
        "stopHealthCheck's wait for the health goroutine is not modelled (its self-deadlock is property C19's finding, reported here under key c19:health-self-deadlock when the quiescence oracle meets it)",
        "relay item ids are added only when absent (getDestination's duplicate check / NextMessageID); the relay pending counter under id reuse within the tombstone period is left to C09"
    ]
}
