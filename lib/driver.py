import fcntl, glob, hashlib, json, os, re, shutil, subprocess, sys, time

from props import PROPS

VERIF = os.path.dirname(os.path.dirname(os.path.abspath(__file__)))
REPO = os.environ.get("VERIF_REPO", "/repo")
BUILD = os.path.join(VERIF, "build")
COQ = os.path.join(VERIF, "coq")
BIN = os.path.join(BUILD, "bin")

GOENV = dict(os.environ, GOFLAGS="-mod=mod", GOPROXY="off", GOSUMDB="off", GOTOOLCHAIN="local",
             CGO_ENABLED="0")

FORBIDDEN = re.compile(
    r"\b(Admitted|admit|Axiom|Axioms|Parameter|Parameters|Conjecture|Admit Obligations|"
    r"Unset Guard Checking|Unset Positivity Checking|Unset Universe Checking|bypass_check|"
    r"type-in-type|impredicative-set)\b")


def log(*a):
    print("[check]", *a, flush=True)


def run(cmd, cwd=None, env=None, timeout=None, stdin=None):
    t0 = time.time()
    try:
        p = subprocess.run(cmd, cwd=cwd, env=env, timeout=timeout, input=stdin,
                           stdout=subprocess.PIPE, stderr=subprocess.STDOUT, text=True, errors="replace")
        return p.returncode, p.stdout, time.time() - t0
    except subprocess.TimeoutExpired as e:
        out = e.stdout if isinstance(e.stdout, str) else (e.stdout or b"").decode(errors="replace")
        return 124, (out or "") + "\nTIMEOUT after %ss" % timeout, time.time() - t0


# ------------------------------------------------------------------ build steps

def build_go2v():
    os.makedirs(BIN, exist_ok=True)
    rc, out, _ = run(["go", "build", "-o", os.path.join(BIN, "go2v"), "."], cwd=os.path.join(VERIF, "go2v"), env=GOENV, timeout=600)
    if rc != 0:
        raise RuntimeError("building go2v failed:\n" + out)


def run_go2v():
    """Regenerate coq/theories/Gen/*.v from the current tree.  Returns (ok, output)."""
    rc, out, _ = run([os.path.join(BIN, "go2v"), "-repo", REPO, "-out", os.path.join(COQ, "theories", "Gen")],
                     env=GOENV, timeout=600)
    return rc == 0, out


def coq_makefile():
    vfiles = sorted(glob.glob(os.path.join(COQ, "theories", "**", "*.v"), recursive=True))
    vfiles = [os.path.relpath(v, COQ) for v in vfiles if "Dbg_tmp" not in v]
    listing = "\n".join(vfiles)
    stamp = os.path.join(COQ, ".vfiles")
    old = open(stamp).read() if os.path.exists(stamp) else None
    if old != listing or not os.path.exists(os.path.join(COQ, "Makefile")):
        rc, out, _ = run(["coq_makefile", "-f", "_CoqProject"] + vfiles + ["-o", "Makefile"], cwd=COQ)
        if rc != 0:
            raise RuntimeError("coq_makefile failed:\n" + out)
        open(stamp, "w").write(listing)


def coq_make(targets, timeout=3000):
    """Full .vo build of the given targets (never -vos).  Returns (ok, output)."""
    coq_makefile()
    rc, out, dt = run(["make", "-j16", "-k"] + targets, cwd=COQ, timeout=timeout)
    return rc == 0, out, dt


def forbidden_scan():
    bad = []
    for v in glob.glob(os.path.join(COQ, "**", "*.v"), recursive=True):
        txt = open(v, errors="replace").read()
        # strip comments (non-nested approximation is enough: we only look for vernacular)
        stripped = re.sub(r"\(\*.*?\*\)", " ", txt, flags=re.S)
        for m in FORBIDDEN.finditer(stripped):
            bad.append("%s: %s" % (os.path.relpath(v, VERIF), m.group(0)))
    return bad


def props_recheck(pid):
    """Re-compile Props/<pid>.v alone to capture Print Assumptions.  Returns dict."""
    f = os.path.join("theories", "Props", pid + ".v")
    src = open(os.path.join(COQ, f)).read()
    stripped = re.sub(r"\(\*.*?\*\)", " ", src, flags=re.S)
    theorems = re.findall(r"^\s*(?:Theorem|Lemma|Corollary)\s+(\w+)", stripped, flags=re.M)
    examples = re.findall(r"^\s*Example\s+(\w+)", stripped, flags=re.M)
    rc, out, dt = run(["coqc", "-Q", "theories", "Verif", "-w", "-notation-overridden,-deprecated-hint-without-locality,-deprecated-instance-without-locality", f], cwd=COQ, timeout=1800)
    closed = out.count("Closed under the global context")
    axioms = []
    for m in re.finditer(r"Axioms:\n((?:.+\n?)+?)(?:\n|$)", out):
        axioms.append(m.group(1).strip())
    return dict(ok=(rc == 0), output=out, theorems=theorems, examples=examples, closed=closed,
                axioms=axioms, wall=dt)


def build_runner():
    d = os.path.join(BUILD, "runner")
    os.makedirs(d, exist_ok=True)
    shutil.copy(os.path.join(COQ, "extract", "Extract.v"), os.path.join(d, "Extract.v"))
    rc, out, _ = run(["coqc", "-Q", os.path.join(COQ, "theories"), "Verif", "Extract.v"], cwd=d, timeout=900)
    if rc != 0:
        return False, "extraction failed:\n" + out
    for f in ("driver.ml", "engines.ml"):
        shutil.copy(os.path.join(VERIF, "runner", f), os.path.join(d, f))
    h = hashlib.sha256()
    for f in ("model.ml", "model.mli", "driver.ml", "engines.ml"):
        h.update(open(os.path.join(d, f), "rb").read())
    stamp = os.path.join(d, ".hash")
    exe = os.path.join(BIN, "runner")
    if os.path.exists(exe) and os.path.exists(stamp) and open(stamp).read() == h.hexdigest():
        return True, "runner up to date"
    rc, out, _ = run(["ocamlfind", "ocamlopt", "-w", "-a", "-O2", "model.mli", "model.ml", "engines.ml", "driver.ml", "-o", exe], cwd=d, timeout=900)
    if rc != 0:
        rc, out, _ = run(["ocamlfind", "ocamlopt", "-w", "-a", "model.mli", "model.ml", "engines.ml", "driver.ml", "-o", exe], cwd=d, timeout=900)
    if rc != 0:
        return False, "ocaml build failed:\n" + out
    open(stamp, "w").write(h.hexdigest())
    return True, "runner rebuilt"


def build_harness():
    hd = os.path.join(VERIF, "harness")
    shutil.copy(os.path.join(REPO, "go.sum"), os.path.join(hd, "go.sum"))
    repl = {}
    for f in glob.glob(os.path.join(hd, "overlay", "*.go")):
        repl[os.path.join(REPO, os.path.basename(f))] = f
    for sub in glob.glob(os.path.join(hd, "overlay", "*", "")):
        name = os.path.basename(os.path.dirname(sub))
        for f in glob.glob(os.path.join(sub, "*.go")):
            repl[os.path.join(REPO, name.replace("__", "/"), os.path.basename(f))] = f
    os.makedirs(BUILD, exist_ok=True)
    json.dump({"Replace": repl}, open(os.path.join(BUILD, "overlay.json"), "w"))
    rc, out, _ = run(["go", "build", "-tags", "verif", "-overlay", os.path.join(BUILD, "overlay.json"),
                      "-o", os.path.join(BIN, "harness"), "."], cwd=hd, env=GOENV, timeout=1200)
    return rc == 0, out


# ------------------------------------------------------------------ engines

def run_engine(pid, eng, seed, n, tier, outdir, timeout):
    os.makedirs(outdir, exist_ok=True)
    for suffix in (".cases", ".impl", ".oracle", ".stats.json", ".model"):
        try:
            os.remove(os.path.join(outdir, eng + suffix))
        except FileNotFoundError:
            pass
    rc, out, dt = run([os.path.join(BIN, "harness"), eng, str(seed), str(n), outdir, tier], env=GOENV, timeout=timeout, cwd=outdir)
    res = dict(engine=eng, seed=seed, n=n, tier=tier, rc=rc, output=out[-4000:], wall=dt, outdir=outdir)
    if rc != 0:
        res["crashed"] = True
        return res
    res["stats"] = json.load(open(os.path.join(outdir, eng + ".stats.json")))
    return res


def run_model(outdir, eng, timeout=1800):
    cases = os.path.join(outdir, eng + ".cases")
    model = os.path.join(outdir, eng + ".model")
    with open(cases) as fin, open(model, "w") as fout:
        try:
            # extracted list functions are not tail-recursive: give the runner an unlimited stack
            p = subprocess.run(["bash", "-c", "ulimit -s unlimited 2>/dev/null || ulimit -s 4000000; exec " + os.path.join(BIN, "runner")], stdin=fin, stdout=fout, stderr=subprocess.PIPE, timeout=timeout)
        except subprocess.TimeoutExpired:
            return False, "model runner timeout"
    if p.returncode != 0:
        return False, "model runner failed: " + p.stderr.decode(errors="replace")[-2000:]
    return True, ""


def compare(outdir, eng, limit=20):
    """Line-by-line diff of model vs implementation observables."""
    dis = []
    n = 0
    with open(os.path.join(outdir, eng + ".model")) as fm, open(os.path.join(outdir, eng + ".impl")) as fi, \
            open(os.path.join(outdir, eng + ".cases")) as fc:
        for lm, li, lc in zip(fm, fi, fc):
            n += 1
            if lm != li:
                if len(dis) < limit:
                    pm, pi, pc = lm.split(), li.split(), lc.split()
                    dis.append(dict(sub=pc[0], case_id=pc[1], input=" ".join(pc[2:])[:20000],
                                    model=" ".join(pm[2:])[:20000], impl=" ".join(pi[2:])[:20000]))
                else:
                    dis.append(None)
    return n, dis


def oracle_failures(outdir, eng):
    fails = []
    p = os.path.join(outdir, eng + ".oracle")
    if os.path.exists(p):
        for line in open(p):
            parts = line.rstrip("\n").split(" ", 3)
            if len(parts) >= 3 and parts[2] == "FAIL":
                fails.append(dict(sub=parts[0], case_id=parts[1], message=parts[3] if len(parts) > 3 else ""))
    return fails


def case_input(outdir, eng, sub, case_id):
    p = os.path.join(outdir, eng + ".cases")
    if not os.path.exists(p):
        return None
    pre = "%s %s " % (sub, case_id)
    for line in open(p):
        if line.startswith(pre) or line.rstrip("\n") == pre.strip():
            return line[len(pre):].strip()[:50000]
    return None


# ------------------------------------------------------------------ known findings

def load_known():
    p = os.path.join(VERIF, "known_findings.json")
    if not os.path.exists(p):
        return []
    return json.load(open(p))["findings"]


def finding_key(message):
    m = re.match(r"\[([\w:.\-]+)\]", message)
    return m.group(1) if m else None


# ------------------------------------------------------------------ main

def write_replay(pid, name, payload):
    d = os.path.join(BUILD, "replay")
    os.makedirs(d, exist_ok=True)
    h = hashlib.sha256(json.dumps(payload, sort_keys=True).encode()).hexdigest()[:12]
    path = os.path.join(d, "%s-%s-%s.json" % (pid, name, h))
    json.dump(payload, open(path, "w"), indent=1)
    return path


def setup():
    t0 = time.time()
    build_go2v()
    ok, out = run_go2v()
    print(out)
    if not ok:
        print("go2v failed on the current tree (setup continues)")
    ok, out, dt = coq_make(["all"], timeout=7200)
    print(out[-3000:])
    if not ok:
        print("coq build failed")
        return 1
    ok, msg = build_runner()
    print(msg)
    if not ok:
        return 1
    ok, out = build_harness()
    print(out[-3000:])
    if not ok:
        return 1
    print("setup done in %.0fs" % (time.time() - t0))
    return 0


def main(argv):
    if not argv:
        print(__doc__)
        return 2
    os.makedirs(BUILD, exist_ok=True)
    lock = open(os.path.join(BUILD, ".lock"), "w")
    fcntl.flock(lock, fcntl.LOCK_EX)
    if argv[0] == "--setup":
        return setup()
    pid = argv[0]
    tier = os.environ.get("VERIF_TIER", "quick")
    replay = None
    i = 1
    while i < len(argv):
        if argv[i] == "--tier":
            tier = argv[i + 1]; i += 2
        elif argv[i] == "--replay":
            replay = argv[i + 1]; i += 2
        else:
            print("unknown argument", argv[i]); return 2
    if pid not in PROPS:
        print("unknown property", pid); return 2
    if tier not in ("quick", "thorough"):
        tier = "quick"
    seed = int(os.environ.get("VERIF_SEED", "1") or "1")
    if replay:
        return do_replay(pid, replay)
    return check(pid, tier, seed)


def do_replay(pid, path):
    r = json.load(open(path))
    if "engine" not in r:
        print("replay file names a proof obligation / build step, not a case:")
        print(json.dumps(r, indent=1)[:4000])
        # re-run the whole check: the obligation is re-decided on the current tree
        return check(pid, r.get("tier", "quick"), r.get("seed", 1))
    build_go2v(); run_go2v()
    ok, out = build_harness()
    if not ok:
        print(out); return 1
    outdir = os.path.join(BUILD, "out", pid, "replay")
    res = run_engine(pid, r["engine"], r["seed"], r["n"], r["tier"], outdir, 3600)
    fails = [f for f in oracle_failures(outdir, r["engine"]) if f["case_id"] == r.get("case_id")]
    print(json.dumps(dict(run=res.get("rc"), oracle=fails), indent=1))
    if res.get("crashed") or fails:
        print("VIOLATION property=%s replay=%s" % (pid, path))
        return 1
    ok, _ = build_runner()
    if ok and run_model(outdir, r["engine"])[0]:
        n, dis = compare(outdir, r["engine"], limit=100000)
        dis = [d for d in dis if d and d["case_id"] == r.get("case_id")]
        if dis:
            print(json.dumps(dis[0], indent=1)[:3000])
            print("VIOLATION property=%s replay=%s" % (pid, path))
            return 1
    print("replayed case passes on the current tree")
    return 0


def check(pid, tier, seed):
    t0 = time.time()
    cfg = PROPS[pid]
    problems = []     # broken obligations / correspondence (not yet a concrete failing input)
    trusted = list(cfg.get("trusted_base", []))
    known = [k for k in load_known() if k["property"] == pid]
    known_keys = {k["key"]: k for k in known if k.get("status") == "known"}

    # 1. translator
    build_go2v()
    ok, out = run_go2v()
    log(out.strip().replace("\n", " | "))
    if not ok:
        problems.append(dict(kind="translator", what=out.strip()[-2000:]))

    # 2. proofs
    bad = forbidden_scan()
    if bad:
        problems.append(dict(kind="forbidden-vernacular", what=bad[:20]))
    pv = "theories/Props/%s.vo" % pid
    # the models are rebuilt too (extraction needs a consistent set of .vo files)
    model_vos = [os.path.relpath(v, COQ)[:-2] + ".vo" for v in sorted(glob.glob(os.path.join(COQ, "theories", "Model", "*.v")))]
    okmm, outmm, _ = coq_make(model_vos, timeout=3000)
    okm, outm, dtm = coq_make([pv], timeout=3000)
    log("coq make %s: %s in %.1fs" % (pv, "ok" if okm else "FAILED", dtm))
    obligations = discharged = 0
    theorems = []
    pa = dict(closed=0, axioms=[], theorems=[], examples=[], output="")
    if not okm:
        errs = re.findall(r'File "([^"]+)", line (\d+).*?\n(Error:.*?)(?:\n\n|\nmake|\Z)', outm, flags=re.S)
        problems.append(dict(kind="proof", what=[dict(file=f, line=int(l), error=e[:1500]) for f, l, e in errs][:5] or outm[-3000:]))
        src = open(os.path.join(COQ, "theories", "Props", pid + ".v")).read()
        theorems = re.findall(r"^\s*(?:Theorem|Lemma|Corollary)\s+(\w+)", src, flags=re.M)
        obligations = len(theorems)
    else:
        pa = props_recheck(pid)
        theorems = pa["theorems"]
        obligations = len(theorems)
        if not pa["ok"]:
            problems.append(dict(kind="proof", what=pa["output"][-3000:]))
        else:
            discharged = obligations
        if pa["axioms"]:
            trusted.append("Print Assumptions reports axioms: " + " ; ".join(pa["axioms"]))
        else:
            trusted.append("Print Assumptions: 'Closed under the global context' for all %d theorems of Props/%s.v" % (pa["closed"], pid))
        allowed = cfg.get("allowed_axioms", [])
        for a in pa["axioms"]:
            for line in a.split("\n"):
                name = line.strip().split(" ")[0]
                if name and ":" in line and not any(name.endswith(x) for x in allowed):
                    problems.append(dict(kind="axiom", what="theorem depends on axiom " + line.strip()))

    # 3. runner + harness
    okr, msgr = build_runner()
    if not okr:
        problems.append(dict(kind="extraction", what=msgr[-3000:]))
    okh, outh = build_harness()
    if not okh:
        problems.append(dict(kind="harness-build", what=outh[-3000:]))

    # 4. engines: correspondence + oracles
    evaluations = 0
    distinct = 0
    traces = 0
    samples = []
    hist = {}
    violations = []   # concrete failing inputs (oracle)
    known_hits = {}
    disagreements = []
    eng_runs = []

    def do_engines(seed_, tier_, scale=1):
        nonlocal evaluations, distinct, traces
        found = []
        for eng, nq, nt in cfg["engines"]:
            n = (nq if tier_ == "quick" else nt) * scale
            outdir = os.path.join(BUILD, "out", pid, "%s-%s-%d" % (eng, tier_, seed_))
            res = run_engine(pid, eng, seed_, n, tier_, outdir, cfg.get("engine_timeout", 3000))
            eng_runs.append(dict(engine=eng, seed=seed_, n=n, tier=tier_, wall=round(res["wall"], 1), rc=res["rc"]))
            if res.get("crashed"):
                msg = res["output"]
                rp = write_replay(pid, eng + "-crash", dict(property=pid, engine=eng, seed=seed_, n=n, tier=tier_,
                                  case_id=None, what="harness engine exited with status %d" % res["rc"], output=msg))
                found.append(dict(kind="engine-crash", engine=eng, replay=rp, message="[harness-crash] " + msg[-600:]))
                continue
            st = res["stats"]
            evaluations += st["evaluations"]
            distinct += st["distinct_nontrivial"]
            for k, v in st["histogram"].items():
                hist[eng + ":" + k] = hist.get(eng + ":" + k, 0) + v
            for s in (st["samples"] or []):
                if len(samples) < 6:
                    samples.append(s)
            for f in oracle_failures(outdir, eng):
                key = finding_key(f["message"])
                if key in known_keys:
                    known_hits.setdefault(key, 0)
                    known_hits[key] += 1
                    continue
                rp = write_replay(pid, eng, dict(property=pid, engine=eng, seed=seed_, n=n, tier=tier_, sub=f["sub"],
                                  case_id=f["case_id"], input=case_input(outdir, eng, f["sub"], f["case_id"]),
                                  oracle=f["message"]))
                found.append(dict(kind="oracle", engine=eng, replay=rp, message=f["message"]))
            if okr and os.path.getsize(os.path.join(outdir, eng + ".cases")) > 0:
                okm_, msg = run_model(outdir, eng)
                if not okm_:
                    problems.append(dict(kind="model-run", what=msg))
                else:
                    nlines, dis = compare(outdir, eng)
                    traces += nlines - len(dis)
                    if dis:
                        real = [d for d in dis if d]
                        # a disagreement on a case whose oracle failure is a known finding is expected
                        disagreements.append(dict(engine=eng, seed=seed_, n=n, tier=tier_, count=len(dis), first=real[:3]))
        return found

    if okh:
        for cs in cfg.get("corpus_seeds", []):
            violations += do_engines(cs, "quick")
        violations += do_engines(seed, tier)

    # disagreements that coincide with known findings are expected (the model is of the
    # documented behaviour); everything else breaks the correspondence
    expected_dis = set(cfg.get("expected_disagreement_subs", []))
    for d in disagreements:
        first = [x for x in d["first"] if x["sub"] not in expected_dis]
        if first:
            problems.append(dict(kind="correspondence", engine=d["engine"], seed=d["seed"], n=d["n"], tier=d["tier"],
                                 count=d["count"], first=first))

    # 5. failing-input search when an obligation or the correspondence broke
    searched = 0
    if problems and not violations and okh:
        log("obligation/correspondence broken (%s): searching for a failing input" % ", ".join(sorted({p["kind"] for p in problems})))
        budget = time.time() + cfg.get("search_budget_s", 240)
        s = seed
        while time.time() < budget and not violations:
            s += 7919
            searched += 1
            violations += do_engines(s, "thorough" if searched > 1 else tier, scale=1)
            if searched >= cfg.get("search_rounds", 6):
                break

    # 6. verdict
    rc = 0
    for key, k in known_keys.items():
        if known_hits.get(key):
            print("KNOWN-FINDING: property=%s %s (key %s, %d case(s) this run)" % (pid, k["what"], key, known_hits[key]))
        elif k.get("always_report", True):
            print("KNOWN-FINDING: property=%s %s (key %s; not triggered by this run's cases)" % (pid, k["what"], key))
    if violations:
        v = violations[0]
        log("failing input: " + v["message"][:500])
        print("VIOLATION property=%s replay=%s" % (pid, v["replay"]))
        rc = 1
    elif problems:
        rp = write_replay(pid, "obligation", dict(property=pid, tier=tier, seed=seed, broken=problems,
                          note="no concrete failing input was found; the property is no longer shown to hold"))
        for p in problems:
            log("broken: %s: %s" % (p["kind"], json.dumps(p.get("what", p.get("first", "")))[:1500]))
        print("VIOLATION property=%s replay=%s no-failing-input-found" % (pid, rp))
        rc = 1

    # 7. evidence
    wall = time.time() - t0
    ev = dict(
        property_id=pid, tier=tier, seed=seed, level="proof",
        coverage=dict(
            obligations=max(obligations, 1), discharged=discharged,
            checker_cmd="make -C /verif/coq -j16 theories/Props/%s.vo && coqc -Q theories Verif theories/Props/%s.v  (Coq 8.16.1, full .vo build; Gen/*.v regenerated from /repo by go2v first)" % (pid, pid),
            trusted_base=trusted,
            theorems=theorems, examples=pa.get("examples", []),
            evaluations=evaluations, distinct_nontrivial=distinct,
            traces_validated_against_impl=traces,
            rule=cfg.get("rule", ""), samples=samples or [dict(note="no engine ran")],
            input_distribution=hist, engine_runs=eng_runs,
            model_impl_disagreements=sum(d["count"] for d in disagreements),
            broken_obligations=[p["kind"] for p in problems], search_rounds=searched,
            known_findings_reported=sorted(known_keys.keys()),
            exhaustive=False,
        ),
        assumptions=cfg.get("assumptions", []),
        wall_s=round(wall, 1), violations=len(violations) + (1 if (problems and not violations) else 0),
    )
    if discharged == 0:
        # schema: a proof-level coverage block needs discharged >= 1; with nothing discharged the
        # generic counts (evaluations / distinct_nontrivial) carry the evidence instead
        del ev["coverage"]["discharged"]
        ev["coverage"]["discharged_count"] = 0
    os.makedirs(os.path.join(VERIF, "evidence"), exist_ok=True)
    tmp = os.path.join(VERIF, "evidence", pid + ".json.tmp")
    json.dump(ev, open(tmp, "w"), indent=1)
    os.replace(tmp, os.path.join(VERIF, "evidence", pid + ".json"))
    log("%s %s: %d theorems (%d discharged), %d cases (%d distinct non-trivial), %d model/impl agreements, %.0fs"
        % (pid, tier, obligations, discharged, evaluations, distinct, traces, wall))
    return rc
