# shared pieces of the per-property check configuration

COMMON_TRUSTED = [
    "Coq 8.16.1 kernel via coqc (full .vo build through coq_makefile; vm_compute used for finite sweeps/examples; native_compute not used)",
    "go2v translator (Go constants and loop-free decision functions -> Gallina; hints listed in each generated file)",
    "extraction with ExtrOcamlBasic only (Extract Inductive bool/option/unit/list/prod/sumbool/sumor, Extract Inlined Constant andb/orb/negb/fst/snd); numbers stay positive/N/Z; OCaml 4.13.1; runner/driver.ml",
    "Go harness + build-time overlay wrappers (call the real code and print what it returns); python driver (diff, evidence)",
]

