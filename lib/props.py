# Per-property configuration of the check driver: one file per property under lib/props.d/.
import glob, importlib.util, os

PROPS = {}
for _f in sorted(glob.glob(os.path.join(os.path.dirname(os.path.abspath(__file__)), "props.d", "C*.py"))):
    _spec = importlib.util.spec_from_file_location("props_" + os.path.basename(_f)[:-3], _f)
    _m = importlib.util.module_from_spec(_spec)
    _spec.loader.exec_module(_m)
    PROPS[os.path.basename(_f)[:-3]] = _m.CFG
