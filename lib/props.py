# Per-property configuration of the check driver.
# engines: (harness engine name, cases at quick tier, cases at thorough tier)

COMMON_TRUSTED = [
    "Coq 8.16.1 kernel via coqc (full .vo build through coq_makefile; vm_compute used for finite sweeps/examples; native_compute not used)",
    "go2v translator (Go constants and loop-free decision functions -> Gallina; hints listed in each generated file)",
    "extraction with ExtrOcamlBasic only (Extract Inductive bool/option/unit/list/prod/sumbool/sumor, Extract Inlined Constant andb/orb/negb/fst/snd); numbers stay positive/N/Z; OCaml 4.13.1; runner/driver.ml",
    "Go harness + build-time overlay wrappers (call the real code and print what it returns); python driver (diff, evidence)",
]

PROPS = {
    "C17": dict(
        engines=[("retry", 400, 6000)],
        rule="canretry: the full table 7 policies x 256 codes x {system, net.Error, other}; retry: random scripts "
             "(policy, MaxAttempts in {0,1,2,3,5,7,10}, outcome list with position of first success, peers marked per attempt, "
             "optional per-attempt timeout) run through the real Channel.RunWithRetry; retry-avoid: real sub-channel peer lists of "
             "1..6 peers. Non-trivial = more than one attempt (retry), more than one peer (avoid), every table point; distinct by input.",
        trusted_base=COMMON_TRUSTED + [
            "modelled by hand (tied by correspondence): RunWithRetry loop, getRetryOptions, AddSelectedPeer, getHost; "
            "regenerated from source each run: CanRetry, getErrCode, GetSystemErrorCode, RetryOn/ErrCode constants, defaultRetryOptions.MaxAttempts",
            "abstraction: a Go error is seen as (nil?, SystemError? with code, net.Error?)",
        ],
        assumptions=["sub-channel avoidance clause is decided by C15's theorems on PeerList.Get; here it is exercised by the oracle only",
                     "MaxAttempts < 0 (loop runs zero times, returns nil) is outside the statement's domain"],
    ),
    "C06": dict(
        engines=[("msg", 250, 3000), ("msgwire", 40, 600)],
        rule="msg: boundary-heavy message values (string lengths 0/1/254/255/256/65535/65536, ttl {0,1,2^31,2^32-1}, span patterns, "
             "0..255 headers, small payload capacities) encoded by the real Frame.write+WriteOut vs the model (msg_enc); the valid encoding, "
             "junk-extended, random strict prefixes and byte-mutated payloads decoded by the real message.read vs the model (msg_dec); "
             "frames ++ junk, truncated frames and mutated size/reserved fields through the real Frame.ReadIn (frame_in). "
             "msgwire: a real client channel (frame pool with stale header bytes) against a raw TCP peer that parses/produces frames with an "
             "encoder written from the protocol document. Every case counts as non-trivial; distinct by input.",
        trusted_base=COMMON_TRUSTED + [
            "modelled by hand (tied by correspondence): typed.ReadBuffer/WriteBuffer, all message read/write methods, Span codec, "
            "FrameHeader read/write, Frame.write/WriteOut/ReadBody/ReadIn; regenerated from source: SetPayloadSize, PayloadSize, all message type "
            "codes, MaxFramePayloadSize, FrameHeaderSize",
            "Spec/Protocol.v: the independent encoder, written from the protocol document with literals",
        ],
        assumptions=["Go map iteration order is a universally quantified list order in the theorems; the harness recovers the emitted order from the bytes",
                     "header counts above 255/65535 (byte(len)/uint16(len) casts) are outside protocol limits and carry the explicit hypothesis zlen <= 255/65535"],
    ),
    "C18": dict(
        engines=[("codecs", 120, 1500), ("hdrpath", 120, 2000)],
        rule="codecs: thrift header maps (0..300 entries, boundary lengths 65535/65536) through the real WriteHeaders/ReadHeaders and the "
             "arg2 KeyValIterator; HTTP requests/responses (methods, URLs up to 16384 bytes, status codes, multi-valued and non-canonical "
             "header keys, over-size buffers) through the real WriteRequest/ReadRequest/ResponseWriter/ReadResponse on in-memory arg streams; "
             "uvarints; each valid encoding also as hostile variants (every kind of truncation, boundary bytes, junk, random, varints >= 2^63), "
             "every call under recover() so a panic is an observation. hdrpath: real thrift and JSON client/server pairs, headers attached to "
             "the context vs. headers seen by the handler and response headers seen by the caller. All cases distinct by input.",
        trusted_base=COMMON_TRUSTED + [
            "modelled by hand (tied by correspondence): thrift WriteHeaders/readHeaders, arg2 KeyValIterator, http writeHeaders/readHeaders/"
            "readVarintString/WriteRequest/ReadRequest/ResponseWriter/ReadResponse byte layer, typed.ReadBuffer.ReadBytes guard, "
            "encoding/binary uvarint (re-modelled from its source)",
            "library oracles, not modelled: encoding/json, thrift struct (de)serialisation, net/http request/URL construction (cases the "
            "library rejects are skipped); the thrift/JSON header path through client/server is covered by the hdrpath oracle only",
        ],
        assumptions=["WriteRequest ignores the write buffer's error for arg2 above 10000 bytes (sender reports success, receiver fails): outside "
                     "the statement's 'within their size limits'; noted in DESIGN.md"],
    ),
}
