package main

// Engine "c15scunit" (property C15): the channel's connection callbacks ONE AT A TIME.
//
// The operations of Model/C15Score.v are the callbacks a Connection invokes on its channel --
// connection active (Channel.addConnectionToPeer for the announced host:port and, from
// Channel.Connect, for the dialled one), OnCloseStateChange (Channel.connectionCloseStateChange),
// OnExchangeUpdated (Channel.exchangeUpdated) -- and the list operations.  A live connection fires
// several callbacks in a row (close = close-state change, exchange check, close-state change ...),
// so a callback that forgets to re-score a peer can be covered up by the next one.  Here every
// callback is run alone, on INERT connection objects (never served; overlay) registered with the
// real peers of a real channel, and after each one the contract is checked that theorem
// C15_score_sequential states for the model: every entry of every list (the channel's, two isolated
// sub-channel lists) stores strategy(live connections, pending) of its peer -- alias peers
// (dialled != announced) included.  The peers' own accessors (NumConnections, NumPendingOutbound)
// must agree with the harness's bookkeeping first.  Every history also runs through run_c15score.

import (
	"bytes"
	"fmt"
	"math/rand"
	"sort"

	tchannel "github.com/uber/tchannel-go"
)

type c15suConn struct {
	id   int
	ann  string
	dial string
	open bool
	pend int
	obj  *tchannel.Connection
}

func init() { engines["c15scunit"] = engineC15ScUnit }

func engineC15ScUnit(rng *rand.Rand, n int, tier string, o *Out) {
	for c := 0; c < n; c++ {
		in, obs, verdict, key := c15suCase(rng, c, tier, o)
		o.Case("c15score", fmt.Sprintf("su%d", c), in, obs, true, verdict)
		if c < 2 {
			o.Sample(map[string]interface{}{"case": fmt.Sprintf("su%d", c), "ops": key, "verdict": verdict})
		}
	}
}

func c15suCase(rng *rand.Rand, cidx int, tier string, o *Out) (in, obs []int64, verdict, key string) {
	ch, err := tchannel.NewChannel("hub", &tchannel.ChannelOptions{Logger: tchannel.NullLogger})
	if err != nil {
		panic(err)
	}
	defer ch.Close()
	niso := rng.Intn(3)
	lists := []*tchannel.PeerList{ch.Peers()}
	strat := []int{0}
	for i := 0; i < niso; i++ {
		lists = append(lists, ch.GetSubChannel(fmt.Sprintf("iso%d", i), tchannel.Isolated).Peers())
		strat = append(strat, 1)
	}
	ch.GetSubChannel("shared") // a sub-channel that shares the channel's list
	hook := &c15scHook{}
	member := make([]map[string]bool, len(lists))
	for j := range lists {
		member[j] = map[string]bool{}
		if rng.Intn(2) == 0 { // half of the cases keep the library's own calculator objects
			lists[j].SetStrategy(c15scCalc(strat[j], j, hook))
		}
	}
	// symbolic host:ports: r<i> announced, a<i>/b<i> two addresses that lead to r<i>, x<i> never connected
	k := 2 + rng.Intn(3)
	var syms []string
	real := map[string]string{}
	for i := 0; i < k; i++ {
		for _, p := range []string{"r", "a", "b"} {
			s := fmt.Sprintf("%s%d", p, i)
			syms = append(syms, s)
			real[s] = fmt.Sprintf("10.0.%d.%d:%d", len(p)+int(p[0]), i+1, 4000+i)
		}
	}
	for i := 0; i < 2; i++ {
		s := fmt.Sprintf("x%d", i)
		syms = append(syms, s)
		real[s] = fmt.Sprintf("10.9.9.%d:1", i+1)
	}
	symOf := func(hp string) string {
		for s, r := range real {
			if r == hp {
				return s
			}
		}
		return "?" + hp
	}
	var conns []*c15suConn
	attrs := func(sym string) (inb, out, pend int) {
		for _, c := range conns {
			if !c.open {
				continue
			}
			if c.dial == "" && c.ann == sym {
				inb++
				pend += c.pend
			}
			if c.dial != "" && (c.ann == sym || c.dial == sym) {
				out++
				pend += c.pend
			}
		}
		return
	}
	history := func() string {
		s := ""
		for _, c := range conns {
			d := "inbound"
			if c.dial != "" {
				d = "dialled " + c.dial
			}
			s += fmt.Sprintf("[conn %d announced %s %s open=%v pending=%d] ", c.id, c.ann, d, c.open, c.pend)
		}
		for j := range lists {
			var ms []string
			for m := range member[j] {
				ms = append(ms, m)
			}
			sort.Strings(ms)
			s += fmt.Sprintf("[list %d strategy %d members %v] ", j, strat[j], ms)
		}
		return s
	}
	in = []int64{int64(niso), 0}
	nops := 0
	emit := func(code int64, rest ...int64) {
		in = append(in, code)
		in = append(in, rest...)
		nops++
	}
	judge := func(what string) string {
		v := ""
		for _, sym := range syms {
			ei, eo, ep := attrs(sym)
			li, lo, lp := 0, 0, 0
			if p, ok := ch.RootPeers().Get(real[sym]); ok {
				li, lo = p.NumConnections()
				lp = p.NumPendingOutbound()
			}
			if (ei != li || eo != lo || ep != lp) && v == "" {
				v = fmt.Sprintf("after op %d (%s): peer %s reports inbound=%d outbound=%d pending=%d, the callbacks so far leave it inbound=%d outbound=%d pending=%d; %s",
					nops, what, sym, li, lo, lp, ei, eo, ep, history())
			}
		}
		obs = append(obs, 1, int64(len(lists)))
		for j, l := range lists {
			type ent struct {
				sym          string
				stored, live uint64
			}
			var es []ent
			seen := map[string]bool{}
			for _, e := range l.IntrospectList(nil) {
				sym := symOf(e.HostPort)
				seen[sym] = true
				i, o2, p := attrs(sym)
				want := c15scExpect(strat[j], i, o2, p)
				es = append(es, ent{sym, e.Score, want})
				if !member[j][sym] && v == "" {
					v = fmt.Sprintf("after op %d (%s): list %d holds %s which was not added; %s", nops, what, j, sym, history())
				}
				if e.Score != want && v == "" {
					v = fmt.Sprintf("after op %d (%s) returned: list %d (strategy %d) stores score %d for peer %s, whose live state (inbound=%d outbound=%d pending=%d) scores %d; %s",
						nops, what, j, strat[j], e.Score, sym, i, o2, p, want, history())
				}
			}
			for m := range member[j] {
				if !seen[m] && v == "" {
					v = fmt.Sprintf("after op %d (%s): list %d lost member %s; %s", nops, what, j, m, history())
				}
			}
			sort.Slice(es, func(a, b int) bool { return bytes.Compare([]byte(es[a].sym), []byte(es[b].sym)) < 0 })
			obs = append(obs, int64(len(es)))
			for _, e := range es {
				obs = putBytes(obs, []byte(e.sym))
				obs = append(obs, 2, int64(e.stored), int64(e.live))
			}
		}
		return v
	}
	nextID := 1
	nsteps := 10 + rng.Intn(25)
	if tier != "quick" {
		nsteps = 10 + rng.Intn(60)
	}
	// a third of the cases start with the members in place, so that connection events find entries
	if rng.Intn(3) == 0 {
		for j := range lists {
			for _, s := range syms {
				if rng.Intn(2) == 0 {
					lists[j].Add(real[s])
					member[j][s] = true
					emit(4, append([]int64{int64(j)}, c15scBytes(s)...)...)
					if v := judge(fmt.Sprintf("list %d Add(%s)", j, s)); v != "" {
						in[1] = int64(nops)
						return in, obs, v, fmt.Sprintf("%d ops", nops)
					}
				}
			}
		}
	}
	for step := 0; step < nsteps; step++ {
		var open []*c15suConn
		for _, c := range conns {
			if c.open {
				open = append(open, c)
			}
		}
		what := ""
		switch x := rng.Intn(100); {
		case x < 18: // outbound connection: dialled directly or through one of the two alias addresses
			i := rng.Intn(k)
			ann := fmt.Sprintf("r%d", i)
			dial := []string{ann, fmt.Sprintf("a%d", i), fmt.Sprintf("b%d", i)}[rng.Intn(3)]
			c := &c15suConn{id: nextID, ann: ann, dial: dial, open: true}
			nextID++
			c.obj = tchannel.VerifC15ScInertConn(uint32(1000+c.id), real[ann], real[dial])
			conns = append(conns, c)
			tchannel.VerifC15ScAddToPeer(ch, real[ann], c.obj)
			if dial != ann {
				tchannel.VerifC15ScAddToPeer(ch, real[dial], c.obj)
			}
			emit(0, append(append([]int64{int64(c.id)}, c15scBytes(ann)...), c15scBytes(dial)...)...)
			what = fmt.Sprintf("outbound connection %d to %s (announces %s) became active", c.id, dial, ann)
			o.Hist("op:connect(alias=" + fmt.Sprint(dial != ann) + ")")
		case x < 26: // inbound connection
			ann := fmt.Sprintf("r%d", rng.Intn(k))
			c := &c15suConn{id: nextID, ann: ann, open: true}
			nextID++
			c.obj = tchannel.VerifC15ScInertConn(uint32(1000+c.id), real[ann], "")
			conns = append(conns, c)
			tchannel.VerifC15ScAddToPeer(ch, real[ann], c.obj)
			emit(1, append([]int64{int64(c.id)}, c15scBytes(ann)...)...)
			what = fmt.Sprintf("inbound connection %d from %s became active", c.id, ann)
			o.Hist("op:accept")
		case x < 40 && len(open) > 0: // OnCloseStateChange (with or without calls still in flight)
			c := open[rng.Intn(len(open))]
			c.open = false
			tchannel.VerifC15ScCloseStateChange(ch, c.obj)
			emit(2, int64(c.id))
			what = fmt.Sprintf("Channel.connectionCloseStateChange(connection %d: announced %s, dialled %q)", c.id, c.ann, c.dial)
			o.Hist("op:close(alias=" + fmt.Sprint(c.dial != "" && c.dial != c.ann) + ")")
		case x < 62 && len(open) > 0: // OnExchangeUpdated
			c := open[rng.Intn(len(open))]
			d := 1
			if c.pend > 0 && rng.Intn(2) == 0 {
				d = -1
			}
			c.pend += d
			tchannel.VerifC15ScExchange(ch, c.obj, d)
			emit(3, int64(c.id), int64(d))
			what = fmt.Sprintf("Channel.exchangeUpdated(connection %d: announced %s, dialled %q) after %+d exchange", c.id, c.ann, c.dial, d)
			o.Hist("op:exchange(alias=" + fmt.Sprint(c.dial != "" && c.dial != c.ann) + ")")
		case x < 76:
			j, s := rng.Intn(len(lists)), syms[rng.Intn(len(syms))]
			lists[j].Add(real[s])
			member[j][s] = true
			emit(4, append([]int64{int64(j)}, c15scBytes(s)...)...)
			what = fmt.Sprintf("list %d Add(%s)", j, s)
			o.Hist("op:Add")
		case x < 83:
			j, s := rng.Intn(len(lists)), syms[rng.Intn(len(syms))]
			lists[j].Remove(real[s])
			delete(member[j], s)
			emit(5, append([]int64{int64(j)}, c15scBytes(s)...)...)
			what = fmt.Sprintf("list %d Remove(%s)", j, s)
			o.Hist("op:Remove")
		case x < 91:
			j, st := rng.Intn(len(lists)), rng.Intn(4)
			lists[j].SetStrategy(c15scCalc(st, j, hook))
			strat[j] = st
			emit(6, int64(j), int64(st))
			what = fmt.Sprintf("list %d SetStrategy(%d)", j, st)
			o.Hist("op:SetStrategy")
		default: // Get: a member with the minimum live score
			j := rng.Intn(len(lists))
			p, err := lists[j].Get(nil)
			emit(7, int64(j))
			what = fmt.Sprintf("list %d Get(nil)", j)
			if err != nil {
				if len(member[j]) > 0 {
					verdict = fmt.Sprintf("op %d: list %d Get(nil) = %v although it has members; %s", nops, j, err, history())
				}
			} else {
				sym := symOf(p.HostPort())
				gi, go_, gp := attrs(sym)
				got := c15scExpect(strat[j], gi, go_, gp)
				for m := range member[j] {
					mi, mo, mp := attrs(m)
					if s := c15scExpect(strat[j], mi, mo, mp); s < got && verdict == "" {
						verdict = fmt.Sprintf("op %d: list %d (strategy %d) Get(nil) returned %s (inbound=%d outbound=%d pending=%d: score %d) although member %s (inbound=%d outbound=%d pending=%d) scores %d; %s",
							nops, j, strat[j], sym, gi, go_, gp, got, m, mi, mo, mp, s, history())
					}
				}
			}
			o.Hist("op:Get")
		}
		if what == "" {
			continue
		}
		if v := judge(what); v != "" && verdict == "" {
			verdict = v
		}
		if verdict != "" {
			break
		}
	}
	in[1] = int64(nops)
	return in, obs, verdict, fmt.Sprintf("%d ops, %d lists, %d connections", nops, len(lists), len(conns))
}
