package main

import (
	"bufio"
	"bytes"
	"errors"
	"fmt"
	"io"
	"math/rand"
	"net"
	"os"
	"runtime"
	"runtime/debug"
	"strings"
	"sync/atomic"
	"time"

	tchannel "github.com/uber/tchannel-go"
	"github.com/uber/tchannel-go/json"
	"github.com/uber/tchannel-go/raw"
	"github.com/uber/tchannel-go/thrift"
	gen "github.com/uber/tchannel-go/thrift/gen-go/test"
	"github.com/uber/tchannel-go/typed"
	"golang.org/x/net/context"
)

// poolcross (C03): state that survives in a POOLED OBJECT from one user to the next.
//
// "Malformed input leads only to the frame being dropped, an error frame, or that one connection
// being closed; the channel keeps serving its other connections."  The library keeps several
// process-wide sync.Pools (typed.Reader for thrift application headers, the 8-byte scratch of
// typed.Writer, thrift protocol objects, the scratch of argreader.EnsureEmpty, ...).  An object
// that a peer's malformed input drove into a failed state goes back into the pool and is drawn
// by a later user -- of any connection.
//
// Parts (all seeded, the garbage collector is switched off while a case runs so that the pools
// are not emptied between the hostile use and the next one):
//
//	poolreader (sub, model Model/PoolReader.run_poolreader, spec_subs): sequences of uses of
//	    pooled typed.Readers in THIS process -- thrift.ReadHeaders on well-formed, truncated,
//	    lying and random header blocks whose underlying reader ends with io.EOF or with its own
//	    error, and scripted ReadUint16 / ReadString / ReadLen16String / Err sequences -- after the
//	    pool was filled with POISONED Readers (overlay typed.VerifPoisonReaderPool: every field of
//	    the struct, found by reflection, in the state a hostile previous user may leave).
//	    Observables: every value read and every error, compared with the model (which is proved
//	    equal to the specification of the header block on each use alone).  Oracle from the
//	    statement: a Reader fresh from NewReader has no error; a well-formed block decodes to the
//	    map it was built from.
//	poolwriter (sub, model run_poolwriter, spec_subs): typed.Writer over a writer that accepts a
//	    bounded number of bytes, WriteUint16 / WriteBytes / WriteLen16Bytes, after the scratch
//	    pool was poisoned: bytes written and the error state.
//	poolproto (oracle): thrift.ReadStruct on truncated / random bytes (fails), then WriteStruct +
//	    ReadStruct of a well-formed struct must round-trip, with a poisoned protocol pool.
//	poolxconn (oracle): a channel with a Thrift service, a JSON handler and a raw handler in a
//	    CHILD process (roles pool1: one P, so that the next user draws the very object the
//	    hostile call released; pooln: all Ps, hostile calls in bursts).  Connection A: a raw TCP
//	    peer sends hostile calls with valid framing (truncated / lying / empty / trailing-junk
//	    header blocks, an arg2 whose second fragment has a bad checksum, truncated and random
//	    arg3 structs, malformed JSON, unknown methods, a call cut by closing the connection),
//	    optionally after the child's pools were poisoned; variant: the child's OWN outbound Thrift
//	    call is answered by a raw peer with a truncated header block.  Connection B: a real
//	    client channel makes well-formed Thrift and JSON calls; EVERY one must succeed with the
//	    right result and response headers, and the child must stay alive.  A failing call of B
//	    that is a timeout is repeated (3 of 3 must fail); a wrong result / a stale error fails
//	    at once.

func init() { engines["poolcross"] = enginePoolCross }

// ---------------------------------------------------------------- unit level: typed.Reader

var errC03pSrc = errors.New("c03p: error of the underlying reader")

type c03pSrc struct {
	b   []byte
	fin int // 1 io.EOF, 3 errC03pSrc
}

func (s *c03pSrc) Read(p []byte) (int, error) {
	if len(s.b) == 0 {
		if s.fin == 1 {
			return 0, io.EOF
		}
		return 0, errC03pSrc
	}
	n := copy(p, s.b)
	s.b = s.b[n:]
	return n, nil
}

func c03pErrCode(err error) int64 {
	switch err {
	case nil:
		return 0
	case io.EOF:
		return 1
	case io.ErrUnexpectedEOF:
		return 2
	case errC03pSrc:
		return 3
	}
	if _, ok := err.(typed.VerifPoison); ok {
		return 7
	}
	return 9
}

// a header block nh:2 (k~2 v~2)*
func c03pBlock(kvs [][2]string) []byte {
	b := []byte{byte(len(kvs) >> 8), byte(len(kvs))}
	for _, kv := range kvs {
		b = append(b, byte(len(kv[0])>>8), byte(len(kv[0])))
		b = append(b, kv[0]...)
		b = append(b, byte(len(kv[1])>>8), byte(len(kv[1])))
		b = append(b, kv[1]...)
	}
	return b
}

func c03pGenKVs(rng *rand.Rand) [][2]string {
	n := pick(rng, 0, 1, 1, 2, 3, 6)
	var kvs [][2]string
	for i := 0; i < n; i++ {
		kl, vl := pick(rng, 0, 1, 3, 8, 31, 32, 33, 40), pick(rng, 0, 1, 5, 32, 33, 70)
		k := fmt.Sprintf("k%d", i) + randBytes(rng, kl)
		if rng.Intn(8) == 0 && i > 0 {
			k = kvs[0][0] // duplicate key: the last binding wins
		}
		kvs = append(kvs, [2]string{k, randBytes(rng, vl)})
	}
	return kvs
}

// hostile and well-formed header blocks; wellFormed = decodes to want
func c03pGenBlock(rng *rand.Rand) (b []byte, desc string, want map[string]string) {
	kvs := c03pGenKVs(rng)
	full := c03pBlock(kvs)
	switch rng.Intn(10) {
	case 0:
		return []byte{0, 1, 0, 5, 'a'}, "count 1, key length 5, one byte", nil
	case 1:
		if len(full) > 2 {
			cut := 1 + rng.Intn(len(full)-1)
			return full[:cut], fmt.Sprintf("block of %d bytes cut at %d", len(full), cut), nil
		}
		return full[:1], "one byte", nil
	case 2:
		c := append([]byte{}, full...)
		c[0], c[1] = byte(pick(rng, 0, 1, 255)), byte(pick(rng, 7, 200, 255))
		return c, "count larger than the pairs present", nil
	case 3:
		return []byte{}, "empty block", nil
	case 4:
		return []byte(randBytes(rng, pick(rng, 1, 2, 3, 9, 40))), "random bytes", nil
	case 5:
		// a length field that runs past the end
		return append(c03pBlock(kvs[:imin(len(kvs), 1)]), 0, 1, 0xff, 0xff, 'x'), "string length beyond the block", nil
	default:
		want = map[string]string{}
		for _, kv := range kvs {
			want[kv[0]] = kv[1]
		}
		if len(kvs) == 0 {
			want = nil
		}
		return full, fmt.Sprintf("well-formed, %d pairs", len(kvs)), want
	}
}

func c03pMapEq(a, b map[string]string) bool {
	if len(a) != len(b) {
		return false
	}
	for k, v := range a {
		if w, ok := b[k]; !ok || w != v {
			return false
		}
	}
	return true
}

func c03pStale(err error) string {
	if _, ok := err.(typed.VerifPoison); ok {
		return fmt.Sprintf("returns the error %q that an earlier user left in the pooled object (harness poison: an arbitrary prior state)", err.Error())
	}
	return fmt.Sprintf("fails with %q, the stale error of an earlier user of the pooled object whose own input was malformed", err.Error())
}

func c03pReaderCase(rng *rand.Rand, id int, o *Out) {
	poisoned := id%2 == 0
	if poisoned {
		typed.VerifPoisonReaderPool(8)
	} else {
		// organic: only what the uses of this very case leave behind (two collections empty the pool)
		runtime.GC()
		runtime.GC()
	}
	nUses := pick(rng, 2, 3, 4, 6)
	in := []int64{int64(nUses)}
	var obs []int64
	verdict := ""
	descs := []string{}
	for u := 0; u < nUses; u++ {
		fin := pick(rng, 1, 1, 1, 3)
		if rng.Intn(3) > 0 {
			// thrift.ReadHeaders
			b, desc, want := c03pGenBlock(rng)
			descs = append(descs, "headers("+desc+")")
			in = append(in, 1, int64(fin))
			in = putBytes(in, b)
			m, err := thrift.ReadHeaders(&c03pSrc{b: append([]byte{}, b...), fin: fin})
			code := c03pErrCode(err)
			if code != 0 {
				obs = append(obs, code)
			} else if m == nil {
				obs = append(obs, 0, 1, 0)
			} else {
				obs = append(obs, 0, 0)
				obs = putKVs(obs, sortedKVs(m))
			}
			if want != nil || desc == "well-formed, 0 pairs" {
				if err != nil {
					verdict = fmt.Sprintf("[c03:pool-poison] use %d (after: %s): thrift.ReadHeaders of a well-formed header block (%s) %s", u, strings.Join(descs[:len(descs)-1], ", "), desc, c03pStale(err))
				} else if !c03pMapEq(m, want) {
					verdict = fmt.Sprintf("[c03:pool-poison] use %d: thrift.ReadHeaders of a well-formed header block (%s) returns other headers than the block holds", u, desc)
				}
			}
			continue
		}
		// scripted operations on one Reader
		b := []byte(randBytes(rng, pick(rng, 0, 1, 2, 3, 5, 12, 40, 80)))
		if rng.Intn(2) == 0 && len(b) >= 2 {
			b[0], b[1] = 0, byte(pick(rng, 0, 1, 3, len(b)-2, len(b)))
		}
		nOps := pick(rng, 1, 2, 3, 5)
		in = append(in, 0, int64(fin))
		in = putBytes(in, b)
		in = append(in, int64(nOps))
		descs = append(descs, fmt.Sprintf("ops(%d bytes)", len(b)))
		r := typed.NewReader(&c03pSrc{b: append([]byte{}, b...), fin: fin})
		if err := r.Err(); err != nil {
			verdict = fmt.Sprintf("[c03:pool-poison] use %d (after: %s): a Reader fresh from typed.NewReader is in the error state: it %s", u, strings.Join(descs[:len(descs)-1], ", "), c03pStale(err))
		}
		for k := 0; k < nOps; k++ {
			op, arg := rng.Intn(4), pick(rng, 0, 1, 2, 31, 32, 33, 60)
			in = append(in, int64(op), int64(arg))
			switch op {
			case 0:
				obs = append(obs, int64(r.ReadUint16()))
			case 1:
				obs = putBytes(obs, []byte(r.ReadString(arg)))
			case 2:
				obs = putBytes(obs, []byte(r.ReadLen16String()))
			default:
				obs = append(obs, c03pErrCode(r.Err()))
			}
		}
		obs = append(obs, c03pErrCode(r.Err()))
		r.Release()
	}
	o.Hist(fmt.Sprintf("poolreader: %d uses, poisoned pool %v", nUses, poisoned))
	if id < 2 {
		o.Sample(map[string]interface{}{"sub": "poolreader", "uses": descs})
	}
	o.Case("poolreader", fmt.Sprintf("r%d", id), in, obs, true, verdict)
}

// ---------------------------------------------------------------- unit level: typed.Writer

type c03pSink struct {
	buf  bytes.Buffer
	room int // -1 = unlimited
}

func (s *c03pSink) Write(p []byte) (int, error) {
	if s.room < 0 {
		return s.buf.Write(p)
	}
	if len(p) <= s.room {
		s.room -= len(p)
		return s.buf.Write(p)
	}
	n := s.room
	s.buf.Write(p[:n])
	s.room = 0
	return n, errC03pSrc
}

func c03pWriterCase(rng *rand.Rand, id int, o *Out) {
	typed.VerifPoisonIntBufferPool(8)
	room := pick(rng, -1, -1, -1, 0, 1, 2, 3, 7, 30)
	sink := &c03pSink{room: room}
	w := typed.NewWriter(sink)
	nOps := pick(rng, 1, 2, 4, 7)
	in := []int64{int64(room), int64(nOps)}
	for k := 0; k < nOps; k++ {
		op := rng.Intn(3)
		arg := pick(rng, 0, 1, 255, 256, 258, 0xaaaa, 65535)
		b := []byte(randBytes(rng, pick(rng, 0, 1, 2, 9, 40)))
		in = append(in, int64(op), int64(arg))
		in = putBytes(in, b)
		switch op {
		case 0:
			w.WriteUint16(uint16(arg))
		case 1:
			w.WriteBytes(b)
		default:
			w.WriteLen16Bytes(b)
		}
	}
	obs := putBytes(nil, sink.buf.Bytes())
	obs = append(obs, c03pErrCode(w.Err()))
	o.Hist("poolwriter")
	o.Case("poolwriter", fmt.Sprintf("w%d", id), in, obs, true, "")
}

// ---------------------------------------------------------------- unit level: thrift protocol pool

func c03pArgsBytes(d *gen.Data) []byte {
	var buf bytes.Buffer
	if err := thrift.WriteStruct(&buf, &gen.SimpleServiceCallArgs{Arg: d}); err != nil {
		panic(err)
	}
	return buf.Bytes()
}

func c03pGenData(rng *rand.Rand) *gen.Data {
	return &gen.Data{B1: rng.Intn(2) == 0, S2: utf8Safe(rng, pick(rng, 0, 1, 10, 64, 65, 300)), I3: int32(rng.Uint32())}
}

func c03pProtoCase(rng *rand.Rand, id int, o *Out) {
	thrift.VerifPoisonProtocolPool(8)
	verdict := ""
	good := c03pArgsBytes(c03pGenData(rng))
	nHostile := pick(rng, 1, 2, 4)
	for k := 0; k < nHostile; k++ {
		var b []byte
		switch rng.Intn(3) {
		case 0:
			b = good[:rng.Intn(len(good))]
		case 1:
			b = []byte(randBytes(rng, pick(rng, 1, 3, 20)))
		default:
			b = append([]byte{}, good...)
			b[rng.Intn(len(b))] = byte(pick(rng, 0, 0x7f, 0x80, 0xff))
		}
		var out gen.SimpleServiceCallArgs
		thrift.ReadStruct(&c03pSrc{b: b, fin: pick(rng, 1, 3)}, &out) // may fail: that is the point
	}
	for k := 0; k < 3 && verdict == ""; k++ {
		d := c03pGenData(rng)
		b := c03pArgsBytes(d)
		var out gen.SimpleServiceCallArgs
		if err := thrift.ReadStruct(&c03pSrc{b: b, fin: 1}, &out); err != nil {
			verdict = fmt.Sprintf("[c03:pool-poison] thrift.ReadStruct of a well-formed struct fails with %q after %d earlier users of the pooled protocol object read malformed structs", err.Error(), nHostile)
		} else if out.Arg == nil || *out.Arg != *d {
			verdict = "[c03:pool-poison] thrift.WriteStruct / ReadStruct of a well-formed struct does not round-trip after earlier users of the pooled protocol object read malformed structs"
		}
	}
	o.Hist("poolproto")
	o.Oracle("poolproto", fmt.Sprintf("p%d", id), true, fmt.Sprint(id, nHostile, len(good)), verdict)
}

// ---------------------------------------------------------------- the child process

type c03pLog struct{ errs *int64 }

func (l c03pLog) Enabled(level tchannel.LogLevel) bool              { return level >= tchannel.LogLevelError }
func (l c03pLog) Fatal(msg string)                                  { fmt.Fprintln(os.Stderr, "FATAL", msg); os.Exit(3) }
func (l c03pLog) Error(msg string)                                  { atomic.AddInt64(l.errs, 1) }
func (l c03pLog) Warn(msg string)                                   {}
func (l c03pLog) Infof(msg string, args ...interface{})             {}
func (l c03pLog) Info(msg string)                                   {}
func (l c03pLog) Debugf(msg string, args ...interface{})            {}
func (l c03pLog) Debug(msg string)                                  {}
func (l c03pLog) Fields() tchannel.LogFields                        { return nil }
func (l c03pLog) WithFields(f ...tchannel.LogField) tchannel.Logger { return l }

type c03pSimple struct{}

func (c03pSimple) Call(ctx thrift.Context, arg *gen.Data) (*gen.Data, error) {
	if arg == nil { // a struct without field 1 decodes to a nil argument: the handler's business
		return nil, errors.New("no argument")
	}
	h := map[string]string{"served": "thrift"}
	for k, v := range ctx.Headers() {
		h["echo-"+k] = v
	}
	ctx.SetResponseHeaders(h)
	return &gen.Data{B1: !arg.B1, S2: arg.S2 + "!", I3: arg.I3 + 1}, nil
}
func (c03pSimple) Simple(ctx thrift.Context) error       { return nil }
func (c03pSimple) SimpleFuture(ctx thrift.Context) error { return nil }

// c03pRunChild hosts the channel under attack (roles pool1 / pooln).  stdin/stdout protocol:
//
//	-> "READY <hostport>"
//	<- "gcoff" / "gcon"        -> "OK"     (gcon runs two collections: the pools are emptied)
//	<- "poison <n>"            -> "OK"     n poisoned objects into each of the three pools
//	<- "errs"                  -> "ERRS <n>"  error-level log lines so far (failed handlers)
//	<- "tcall <hostport>"      -> "TCALLDONE ok|err ..."  an outbound Thrift call of the child
//	stdin EOF                  exit 0
func c03pRunChild(role string) {
	if role == "pool1" {
		runtime.GOMAXPROCS(1)
	}
	var errs int64
	ch, err := tchannel.NewChannel("victim", &tchannel.ChannelOptions{Logger: c03pLog{&errs}})
	if err != nil {
		panic(err)
	}
	thrift.NewServer(ch).Register(gen.NewTChanSimpleServiceServer(c03pSimple{}))
	json.Register(ch, json.Handlers{
		"jecho": func(ctx json.Context, arg map[string]string) (map[string]string, error) {
			out := map[string]string{"served": "json"}
			for k, v := range arg {
				out[k] = v
			}
			return out, nil
		},
	}, func(ctx context.Context, err error) { atomic.AddInt64(&errs, 1) })
	ch.Register(raw.Wrap(childHandler{}), "echo")
	if err := ch.ListenAndServe("127.0.0.1:0"); err != nil {
		panic(err)
	}
	fmt.Printf("READY %s\n", ch.PeerInfo().HostPort)
	sc := bufio.NewScanner(os.Stdin)
	for sc.Scan() {
		w := strings.Fields(sc.Text())
		if len(w) == 0 {
			continue
		}
		switch w[0] {
		case "gcoff":
			debug.SetGCPercent(-1)
			fmt.Println("OK")
		case "gcon":
			debug.SetGCPercent(100)
			runtime.GC()
			runtime.GC()
			fmt.Println("OK")
		case "poison":
			n := 8
			if len(w) > 1 {
				fmt.Sscan(w[1], &n)
			}
			typed.VerifPoisonReaderPool(n)
			typed.VerifPoisonIntBufferPool(n)
			thrift.VerifPoisonProtocolPool(n)
			fmt.Println("OK")
		case "errs":
			fmt.Printf("ERRS %d\n", atomic.LoadInt64(&errs))
		case "tcall":
			ctx, cancel := tchannel.NewContextBuilder(500 * time.Millisecond).SetRetryOptions(&tchannel.RetryOptions{MaxAttempts: 1}).Build()
			cl := gen.NewTChanSimpleServiceClient(thrift.NewClient(ch, "rawpeer", &thrift.ClientOptions{HostPort: w[1]}))
			err := cl.Simple(thrift.Wrap(ctx))
			cancel()
			if err != nil {
				fmt.Printf("TCALLDONE err %s\n", strings.ReplaceAll(err.Error(), "\n", " "))
			} else {
				fmt.Println("TCALLDONE ok")
			}
		}
	}
	os.Exit(0)
}

func (c *child) c03pCmd(cmd string, timeout time.Duration) (string, bool) {
	fmt.Fprintf(c.stdin, "%s\n", cmd)
	c.stdin.Flush()
	res := make(chan string, 1)
	go func() {
		line, err := c.out.ReadString('\n')
		if err != nil {
			res <- ""
			return
		}
		res <- strings.TrimSpace(line)
	}()
	select {
	case l := <-res:
		return l, l != ""
	case <-time.After(timeout):
		return "", false
	}
}

func (c *child) c03pErrs() int {
	l, ok := c.c03pCmd("errs", 2*time.Second)
	n := -1
	if ok {
		fmt.Sscanf(l, "ERRS %d", &n)
	}
	return n
}

// the verdict for a dead child; the child's whole stderr (panic trace) is kept next to the case files
func c03pDied(c *child, what string) string {
	os.WriteFile("poolcross-child-stderr.txt", c.stderr.Bytes(), 0o644)
	return "[c03:process-died] the process hosting the channel exited " + what + ": " + lastLines(c.stderr.String())
}

// ---------------------------------------------------------------- hostile calls on connection A

type c03pHostile struct {
	desc     string
	frames   [][]byte
	logs     int  // handler failures the child will log
	closeMid bool // close connection A after the frames
	tcall    bool // instead: the child's outbound call answered with a truncated header block
}

func c03pThriftReq(id uint32, method string, arg2, arg3 []byte, maxPayload int, as string) [][]byte {
	hdr := rawCallReqHeader(1500, zeroTracing, "victim", [][2]string{{"as", as}, {"cn", "rawpeer"}})
	return buildRawCallFrames(true, id, hdr, 1, [3][]byte{[]byte(method), arg2, arg3}, maxPayload)
}

const c03pKinds = 14

func c03pGenHostile(rng *rand.Rand, id uint32, kind int) *c03pHostile {
	goodArgs := c03pArgsBytes(c03pGenData(rng))
	goodHdr := c03pBlock([][2]string{{"hk", "hv"}, {"trace", randBytes(rng, 20)}})
	const m = "SimpleService::Call"
	h := &c03pHostile{}
	if kind < 0 {
		kind = rng.Intn(c03pKinds)
	}
	switch kind {
	case 0:
		h.desc, h.logs = "thrift arg2 = 00 01 00 05 'a' (count 1, key length 5, one byte)", 1
		h.frames = c03pThriftReq(id, m, []byte{0, 1, 0, 5, 'a'}, goodArgs, 65519, "thrift")
	case 1:
		cut := 1 + rng.Intn(len(goodHdr)-1)
		h.desc, h.logs = fmt.Sprintf("thrift header block cut at %d of %d bytes", cut, len(goodHdr)), 1
		h.frames = c03pThriftReq(id, m, goodHdr[:cut], goodArgs, 65519, "thrift")
	case 2:
		b := append([]byte{}, goodHdr...)
		b[0], b[1] = 0xff, 0xff
		h.desc, h.logs = "thrift header count 65535 with two pairs present", 1
		h.frames = c03pThriftReq(id, m, b, goodArgs, 65519, "thrift")
	case 3:
		h.desc, h.logs = "thrift call with an empty arg2", 1
		h.frames = c03pThriftReq(id, m, nil, goodArgs, 65519, "thrift")
	case 4:
		h.desc, h.logs = "thrift header block followed by junk", 1
		h.frames = c03pThriftReq(id, m, append(append([]byte{}, goodHdr...), []byte(randBytes(rng, pick(rng, 1, 5, 200)))...), goodArgs, 65519, "thrift")
	case 5:
		cut := rng.Intn(len(goodArgs))
		h.desc = fmt.Sprintf("thrift arg3 struct cut at %d of %d bytes", cut, len(goodArgs))
		h.frames = c03pThriftReq(id, m, goodHdr, goodArgs[:cut], 65519, "thrift")
	case 6:
		h.desc = "thrift arg3 of random bytes"
		h.frames = c03pThriftReq(id, m, goodHdr, []byte(randBytes(rng, pick(rng, 1, 4, 30, 300))), 65519, "thrift")
	case 7:
		// arg2 spans two fragments; the second fragment's checksum is wrong: the argument reader
		// fails in the middle of the header block with an error that is not io.EOF
		big := c03pBlock([][2]string{{"k", randBytes(rng, 300)}})
		fr := c03pThriftReq(id, m, big, goodArgs, 200, "thrift")
		if len(fr) > 1 {
			c := append([]byte{}, fr[1]...)
			c[16+2] ^= 0x55 // first checksum byte of the continuation (flags:1 csumtype:1 csum:4)
			fr[1] = c
		}
		h.desc, h.logs = "thrift header block over two fragments, second fragment with a wrong checksum", 1
		h.frames = fr[:imin(len(fr), 2)]
	case 8:
		h.desc, h.logs = "json call with malformed arg2 / arg3", 1
		h.frames = c03pThriftReq(id, "jecho", []byte(pickS(rng, "{", "nope", "{\"a\":", "[1,2")), []byte(pickS(rng, "{\"a\":\"b\"", "{", "\x00\x01", "")), 65519, "json")
	case 9:
		h.desc = "thrift call for a method that is not registered / has no service separator"
		h.frames = c03pThriftReq(id, pickS(rng, "SimpleService::Nope", "NoSeparator", "SimpleService::", "::Call", ""), goodHdr, goodArgs, 65519, "thrift")
	case 10:
		// the first fragment of a call whose arg2 is incomplete, then the connection is closed
		big := c03pBlock([][2]string{{"k", randBytes(rng, 500)}})
		fr := c03pThriftReq(id, m, big, goodArgs, 150, "thrift")
		h.desc, h.logs, h.closeMid = "thrift call cut inside the header block by closing the connection", 1, true
		h.frames = fr[:1]
	case 11:
		h.desc, h.tcall = "the child's outbound thrift call answered with a truncated header block", true
	case 12:
		h.desc = "thrift call in the raw arg scheme with a one-byte arg2"
		h.frames = c03pThriftReq(id, m, []byte{7}, goodArgs, 65519, "raw")
		h.logs = 1
	default:
		h.desc = "well-formed thrift call from the raw peer (control)"
		h.frames = c03pThriftReq(id, m, goodHdr, goodArgs, 65519, "thrift")
	}
	return h
}

// the child's outbound Thrift call, answered by a raw peer with a truncated response header block
func c03pRunTcall(rng *rand.Rand, c *child) string {
	ln, err := net.Listen("tcp", "127.0.0.1:0")
	if err != nil {
		return "harness: " + err.Error()
	}
	defer ln.Close()
	arg2 := [][]byte{{0, 1, 0, 5, 'a'}, {0}, {0, 2, 0, 1, 'k', 0, 1, 'v'}, {}}[rng.Intn(4)]
	done := make(chan struct{})
	go func() {
		defer close(done)
		conn, err := ln.Accept()
		if err != nil {
			return
		}
		defer conn.Close()
		if _, _, err := rawServerHandshake(conn); err != nil {
			return
		}
		for {
			f, err := readRawFrame(conn, time.Second)
			if err != nil {
				return
			}
			if f.Type != 0x03 && f.Type != 0x13 {
				continue
			}
			if len(f.Payload) > 0 && f.Payload[0]&1 == 1 {
				continue
			}
			hdr := rawCallResHeader(0, zeroTracing, [][2]string{{"as", "thrift"}})
			for _, fr := range buildRawCallFrames(false, f.ID, hdr, 1, [3][]byte{{}, arg2, {0}}, 65519) {
				conn.SetWriteDeadline(time.Now().Add(time.Second))
				conn.Write(fr)
			}
			time.Sleep(60 * time.Millisecond)
			return
		}
	}()
	l, ok := c.c03pCmd("tcall "+ln.Addr().String(), 4*time.Second)
	<-done
	if !ok {
		if !c.alive() {
			return c03pDied(c, "while its outbound thrift call was answered with a truncated header block")
		}
		return "[c03:caller-wedged] the child's outbound thrift call answered with a truncated header block did not return within 4s (500ms deadline)"
	}
	_ = l // the call itself may fail: only the collateral damage is judged
	return ""
}

// ---------------------------------------------------------------- the well-behaved client on connection B

type c03pGood struct {
	ch      *tchannel.Channel
	tclient gen.TChanSimpleService
	jclient *json.Client
}

func c03pNewGood(hp string, n int) (*c03pGood, error) {
	ch, err := tchannel.NewChannel(fmt.Sprintf("good%d", n), &tchannel.ChannelOptions{Logger: tchannel.NullLogger})
	if err != nil {
		return nil, err
	}
	ch.Peers().Add(hp)
	return &c03pGood{ch: ch,
		tclient: gen.NewTChanSimpleServiceClient(thrift.NewClient(ch, "victim", nil)),
		jclient: json.NewClient(ch, "victim", nil)}, nil
}

// one well-formed call of B; "" = answered correctly; timeout = the failure was a deadline
func (g *c03pGood) call(rng *rand.Rand, kind int) (verdict string, timeout bool) {
	ctx, cancel := tchannel.NewContextBuilder(1500 * time.Millisecond).SetRetryOptions(&tchannel.RetryOptions{MaxAttempts: 1}).Build()
	defer cancel()
	isTimeout := func(err error) bool {
		return tchannel.GetSystemErrorCode(err) == tchannel.ErrCodeTimeout || err == context.DeadlineExceeded
	}
	switch kind {
	case 0:
		d := c03pGenData(rng)
		hk, hv := "h"+randBytes(rng, pick(rng, 0, 3, 40)), randBytes(rng, pick(rng, 0, 1, 33, 100))
		tctx := thrift.WithHeaders(ctx, map[string]string{hk: hv, "x": "y"})
		res, err := g.tclient.Call(tctx, d)
		if err != nil {
			return fmt.Sprintf("thrift call SimpleService::Call failed: %q", err.Error()), isTimeout(err)
		}
		if res == nil || res.B1 == d.B1 || res.S2 != d.S2+"!" || res.I3 != d.I3+1 {
			return "thrift call SimpleService::Call returned a wrong result", false
		}
		rh := tctx.ResponseHeaders()
		if rh["served"] != "thrift" || rh["echo-"+hk] != hv || rh["echo-x"] != "y" {
			return fmt.Sprintf("thrift call SimpleService::Call returned wrong response headers %s", hqFmt(rh)), false
		}
	case 1:
		if err := g.tclient.Simple(thrift.Wrap(ctx)); err != nil {
			return fmt.Sprintf("thrift call SimpleService::Simple failed: %q", err.Error()), isTimeout(err)
		}
	default:
		arg := map[string]string{"q": utf8Safe(rng, pick(rng, 0, 5, 60))}
		var out map[string]string
		if err := g.jclient.Call(json.Wrap(ctx), "jecho", arg, &out); err != nil {
			return fmt.Sprintf("json call jecho failed: %q", err.Error()), isTimeout(err)
		}
		if out["served"] != "json" || out["q"] != arg["q"] {
			return "json call jecho returned a wrong result", false
		}
	}
	return "", false
}

func c03pRunSeq(rng *rand.Rand, c *child, good *c03pGood, role string, poison bool, hs []*c03pHostile) string {
	if _, ok := c.c03pCmd("gcoff", 2*time.Second); !ok {
		return "harness: the child does not answer"
	}
	defer c.c03pCmd("gcon", 5*time.Second)
	if poison {
		c.c03pCmd("poison 8", 2*time.Second)
	}
	base := c.c03pErrs()
	descs := []string{}
	want := 0
	var conn net.Conn
	dialErr := ""
	dial := func() bool {
		for try := 0; try < 4; try++ {
			if try > 0 {
				time.Sleep(100 * time.Millisecond)
			}
			if !c.alive() {
				return false
			}
			var err error
			conn, err = net.DialTimeout("tcp", c.hp, time.Second)
			if err != nil {
				dialErr = err.Error()
				conn = nil
				continue
			}
			if _, err := rawClientHandshake(conn); err != nil {
				dialErr = "handshake: " + err.Error()
				conn.Close()
				conn = nil
				continue
			}
			return true
		}
		return false
	}
	for _, h := range hs {
		descs = append(descs, h.desc)
		if h.tcall {
			if v := c03pRunTcall(rng, c); v != "" {
				return v
			}
			continue
		}
		if conn == nil && !dial() {
			if !c.alive() {
				return c03pDied(c, "")
			}
			if strings.Contains(dialErr, "cannot assign requested address") || strings.Contains(dialErr, "too many open files") {
				return "" // the harness' own resources (ports, descriptors): not an observation about the channel
			}
			return "cannot open connection A (4 attempts): the channel no longer accepts connections: " + dialErr
		}
		want += h.logs
		for _, f := range h.frames {
			conn.SetWriteDeadline(time.Now().Add(2 * time.Second))
			if _, err := conn.Write(f); err != nil {
				conn.Close()
				conn = nil
				break
			}
		}
		if h.closeMid && conn != nil {
			time.Sleep(5 * time.Millisecond)
			conn.Close()
			conn = nil
		}
	}
	// barrier: the reader goroutine of connection A has dispatched everything (ping), and the handlers
	// of the hostile calls have failed (error log count), at most 300 ms
	if conn != nil {
		if err := writeRawFrame(conn, 0xd0, 0xfffffff1, nil); err == nil {
			deadline := time.Now().Add(500 * time.Millisecond)
			for {
				f, err := readRawFrame(conn, time.Until(deadline))
				if err != nil || (f.Type == 0xd1 && f.ID == 0xfffffff1) {
					break
				}
			}
		}
	}
	for t := 0; t < 60 && base >= 0; t++ {
		if n := c.c03pErrs(); n < 0 || n-base >= want {
			break
		}
		time.Sleep(5 * time.Millisecond)
	}
	if conn != nil {
		defer conn.Close()
	}
	if !c.alive() {
		return c03pDied(c, "after hostile calls ("+strings.Join(descs, "; ")+")")
	}
	// connection B: every well-formed call must be served
	kinds := []int{0, 0, 1, 0, 2, 0, 2, 0}
	for i, k := range kinds {
		v, timeout := good.call(rng, k)
		for try := 0; v != "" && timeout && try < 2; try++ {
			// a deadline alone is not evidence on a loaded machine: it has to reproduce
			v2, t2 := good.call(rng, k)
			if v2 == "" {
				v = ""
				break
			}
			v, timeout = v2, t2
		}
		if v != "" {
			if !c.alive() {
				return c03pDied(c, "("+strings.Join(descs, "; ")+")")
			}
			how := "after a raw peer sent, on ANOTHER connection: "
			if poison {
				how = "with pooled objects left in an arbitrary state by earlier users (poisoned pools) and after a raw peer sent, on ANOTHER connection: "
			}
			return fmt.Sprintf("[c03:pool-poison] role %s: well-formed call #%d of a well-behaved client on its own connection: %s -- %s%s", role, i, v, how, strings.Join(descs, "; "))
		}
	}
	if !c.alive() {
		return c03pDied(c, "")
	}
	return ""
}

func enginePoolCross(rng *rand.Rand, n int, tier string, o *Out) {
	old := debug.SetGCPercent(-1)
	// unit level, this process
	for i := 0; i < n; i++ {
		c03pReaderCase(rng, i, o)
		if i%3 == 0 {
			c03pWriterCase(rng, i, o)
		}
		if i%4 == 0 {
			c03pProtoCase(rng, i, o)
		}
		if i%64 == 63 {
			debug.SetGCPercent(old)
			runtime.GC()
			debug.SetGCPercent(-1)
		}
	}
	debug.SetGCPercent(old)
	runtime.GC()

	// process level: child roles
	nSeq := n/10 + 4
	for ri, role := range []string{"pool1", "pooln"} {
		c, err := startChild(role)
		if err != nil {
			o.Oracle("poolxconn", "start-"+role, true, role, "harness: "+err.Error())
			continue
		}
		good, err := c03pNewGood(c.hp, ri)
		if err != nil {
			o.Oracle("poolxconn", "client-"+role, true, role, "harness: "+err.Error())
			c.stop()
			continue
		}
		// B works before anything hostile happened (control, and it opens connection B)
		if v, _ := good.call(rng, 0); v != "" {
			o.Oracle("poolxconn", "control-"+role, true, role, "[c03:pool-poison] role "+role+": a well-formed call of a well-behaved client failed before any hostile input was sent to the serving process: "+v)
		}
		cnt, failed := nSeq, 0
		if role == "pooln" {
			cnt = nSeq/2 + 1
		}
		for i := 0; i < cnt; i++ {
			nCalls := pick(rng, 1, 1, 2, 4)
			if role == "pooln" {
				nCalls = pick(rng, 8, 24, 48) // cover the slots of every P
			}
			var hs []*c03pHostile
			burstKind := rng.Intn(c03pKinds) // bursts: half of the calls repeat one kind, to fill the slots of every P
			for k := 0; k < nCalls; k++ {
				kind := -1
				if role == "pooln" && k%2 == 0 {
					kind = burstKind
				}
				h := c03pGenHostile(rng, uint32(1000+i*100+k), kind)
				if h.tcall && k > 0 {
					continue
				}
				hs = append(hs, h)
			}
			poison := rng.Intn(2) == 0
			if failed >= 3 { // three failing sequences per role are evidence enough (each costs up to three deadlines)
				break
			}
			v := c03pRunSeq(rng, c, good, role, poison, hs)
			if v != "" {
				failed++
			}
			o.Hist(role + ": " + strings.SplitN(hs[0].desc, " ", 4)[0] + " " + strings.SplitN(hs[0].desc+"  ", " ", 4)[1] + " " + strings.SplitN(hs[0].desc+"   ", " ", 4)[2])
			if i < 2 {
				o.Sample(map[string]interface{}{"sub": "poolxconn", "role": role, "hostile_calls": len(hs), "first": hs[0].desc, "poisoned_pools": poison})
			}
			o.Oracle("poolxconn", fmt.Sprintf("%s-%d", role, i), true, fmt.Sprint(role, i, len(hs), hs[0].desc, poison), v)
			if !c.alive() {
				good.ch.Close()
				if c, err = startChild(role); err != nil {
					break
				}
				if good, err = c03pNewGood(c.hp, ri+10+i); err != nil {
					break
				}
			}
		}
		if good != nil {
			good.ch.Close()
		}
		if c != nil {
			c.stop()
		}
	}
}
