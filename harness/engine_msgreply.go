package main

// Engine "msgreply" (property C06, clause "frame headers carry the exact ... type and id"):
// the header of every RESPONSE the library sends carries the id of the request it answers and
// the message type the protocol document pairs with that request.
//
// sub replyhdr: a raw TCP client (encoder/decoder of rawpeer.go, written from the protocol
// document) opens a connection to a real listening channel with an init req whose id is taken
// from {0, 1, 2, 7, 0x01000000, 0xFFFFFFFE, random} (tchannel-go's own client always uses 1) and
// then runs a script of requests with ids from the same set, one at a time, reading the complete
// answer of each before the next:
//   ping req -> ping res; call req -> call res (+ call res continue frames for a 70000 byte
//   answer); a fragmented call req; call req answered by an error frame (no such method / the
//   handler's system error / cancelled by a cancel frame of the same id / refused while the
//   channel is closing / a second call req with an id still in flight -> protocol error);
//   two calls in flight answered in reverse order;
//   handshake refusals: init req with version 1, a first frame that is not an init req.
// Observation = the (type, id) pairs of the frames read per request (consecutive duplicates
// collapsed) vs Model/MsgRun.v run_replyhdr (proved equal to Spec/ReplyHdr.v).  Oracle, written
// from the protocol document: every frame of the answer carries the request's id, its type is the
// answering type, and a call res carries the arguments of THAT request.
//
// sub replyhdr_out: a real client channel dials a raw listener: the id of the init req it sends,
// whether it accepts an init res with id + delta (delta 0 only), the id of the error frame it
// answers a foreign init res with (its init req's id), and the id of the cancel frame it sends
// for a call it gives up (the call req's id).

import (
	"bytes"
	"fmt"
	"math/rand"
	"net"
	"sync"
	"time"

	tchannel "github.com/uber/tchannel-go"
	"github.com/uber/tchannel-go/raw"
	"golang.org/x/net/context"
)

func init() { engines["msgreply"] = engineMsgReply }

var c06rIDSet = []uint32{0, 1, 2, 7, 0x01000000, 0xFFFFFFFE}

func c06rPickID(rng *rand.Rand, k int) uint32 {
	if k%7 == 6 {
		for {
			v := rng.Uint32()
			if v != 0xFFFFFFFF {
				return v
			}
		}
	}
	return c06rIDSet[k%7]
}

// ---------------------------------------------------------------- the served side

type c06rHandler struct {
	mu      sync.Mutex
	gates   map[string]chan struct{}
	entered chan string
}

func (h *c06rHandler) gate(key string) chan struct{} {
	h.mu.Lock()
	defer h.mu.Unlock()
	g, ok := h.gates[key]
	if !ok {
		g = make(chan struct{})
		h.gates[key] = g
	}
	return g
}

func (h *c06rHandler) release(key string) { close(h.gate(key)) }

func (h *c06rHandler) Handle(ctx context.Context, call *tchannel.InboundCall) {
	var arg2, arg3 []byte
	if err := tchannel.NewArgReader(call.Arg2Reader()).Read(&arg2); err != nil {
		return
	}
	if err := tchannel.NewArgReader(call.Arg3Reader()).Read(&arg3); err != nil {
		return
	}
	resp := call.Response()
	switch call.MethodString() {
	case "busy":
		resp.SendSystemError(tchannel.ErrServerBusy)
		return
	case "block":
		g := h.gate(string(arg2))
		h.entered <- string(arg2)
		select {
		case <-g:
		case <-ctx.Done():
			resp.SendSystemError(tchannel.GetContextError(ctx.Err()))
			return
		}
	case "big":
		b := byte('x')
		if len(arg3) > 0 {
			b = arg3[0]
		}
		arg3 = bytes.Repeat([]byte{b}, 70000)
	case "apperr":
		resp.SetApplicationError()
	}
	if err := tchannel.NewArgWriter(resp.Arg2Writer()).Write(arg2); err != nil {
		return
	}
	tchannel.NewArgWriter(resp.Arg3Writer()).Write(arg3)
}

func c06rServer() (*tchannel.Channel, *c06rHandler, error) {
	ch, err := tchannel.NewChannel("svc", &tchannel.ChannelOptions{
		DefaultConnectionOptions: tchannel.ConnectionOptions{PropagateCancel: true},
	})
	if err != nil {
		return nil, nil, err
	}
	h := &c06rHandler{gates: map[string]chan struct{}{}, entered: make(chan string, 64)}
	for _, m := range []string{"echo", "big", "apperr", "busy", "block"} {
		ch.Register(h, m)
	}
	if err := ch.ListenAndServe("127.0.0.1:0"); err != nil {
		ch.Close()
		return nil, nil, err
	}
	return ch, h, nil
}

// c06rDraining: the channel is closing and every inbound connection has left the active state.
func c06rDraining(srv *tchannel.Channel) bool {
	if srv.State() == tchannel.ChannelListening {
		return false
	}
	st := srv.IntrospectState(&tchannel.IntrospectionOptions{})
	return st.NumConnections > 0 && len(st.InactiveConnections) == st.NumConnections
}

// ---------------------------------------------------------------- script

// step kinds (the model's encoding): 0 ping; 1 call answered by one call res; 2 call answered by
// call res + continuation(s); 3 call answered by an error frame; 4 two calls answered b then a;
// 5 (closing) b refused with an error frame, then a answered; 6 a second call req with the id of
// a call in flight: protocol error with that id.
type c06rStep struct {
	kind    int
	a, b    uint32
	variant int // kind 1: 0 echo, 1 app error, 2 fragmented call req; kind 3: 0 no such method, 1 busy, 2 cancelled
}

type c06rCase struct {
	initKind int // 0 accepted, 1 version 1 (refused), 2 first frame is a ping req (refused)
	initID   uint32
	steps    []c06rStep
}

func (cs *c06rCase) input() []int64 {
	ik := int64(0)
	if cs.initKind != 0 {
		ik = 1
	}
	in := []int64{ik, int64(cs.initID)}
	for _, s := range cs.steps {
		in = append(in, int64(s.kind), int64(s.a), int64(s.b))
	}
	return in
}

func c06rGen(rng *rand.Rand, c int) *c06rCase {
	cs := &c06rCase{initID: c06rPickID(rng, c)}
	switch c % 8 {
	case 6:
		cs.initKind = 1
		return cs
	case 7:
		cs.initKind = 2
		return cs
	}
	used := map[uint32]bool{}
	k := rng.Intn(7)
	callID := func() uint32 {
		for {
			k++
			v := c06rPickID(rng, k)
			if !used[v] {
				used[v] = true
				return v
			}
		}
	}
	nsteps := 3 + rng.Intn(3)
	for i := 0; i < nsteps; i++ {
		switch rng.Intn(6) {
		case 0:
			k++
			cs.steps = append(cs.steps, c06rStep{kind: 0, a: c06rPickID(rng, k)})
		case 1:
			cs.steps = append(cs.steps, c06rStep{kind: 1, a: callID(), variant: rng.Intn(3)})
		case 2:
			cs.steps = append(cs.steps, c06rStep{kind: 2, a: callID()})
		case 3, 4:
			cs.steps = append(cs.steps, c06rStep{kind: 3, a: callID(), variant: rng.Intn(3)})
		case 5:
			cs.steps = append(cs.steps, c06rStep{kind: 4, a: callID(), b: callID()})
		}
	}
	switch rng.Intn(4) {
	case 0:
		cs.steps = append(cs.steps, c06rStep{kind: 5, a: callID(), b: callID()})
	case 1:
		cs.steps = append(cs.steps, c06rStep{kind: 6, a: callID()})
	default:
		k++
		cs.steps = append(cs.steps, c06rStep{kind: 0, a: c06rPickID(rng, k)})
	}
	return cs
}

// ---------------------------------------------------------------- the raw client

var c06rTracing = []byte{0, 0, 0, 0, 0, 0, 0, 9, 0, 0, 0, 0, 0, 0, 0, 8, 0, 0, 0, 0, 0, 0, 0, 7, 0}

const c06rWait = 5 * time.Second

type c06rRun struct {
	conn    net.Conn
	obs     []int64
	verdict string
	last    [2]int64
	fresh   bool
}

func (r *c06rRun) fail(format string, args ...interface{}) {
	if r.verdict == "" {
		r.verdict = fmt.Sprintf(format, args...)
	}
}

// note records the (type, id) of a frame read in answer to the current request.
func (r *c06rRun) note(f *rawFrame) {
	p := [2]int64{int64(f.Type), int64(f.ID)}
	if r.fresh || p != r.last {
		r.obs = append(r.obs, p[0], p[1])
	}
	r.last, r.fresh = p, false
}

func (r *c06rRun) sendCall(id uint32, method string, arg2, arg3 []byte, maxPayload int) bool {
	hdr := rawCallReqHeader(4000, c06rTracing, "svc", [][2]string{{"as", "raw"}, {"cn", "verif-raw"}})
	var all []byte
	for _, fr := range buildRawCallFrames(true, id, hdr, 1, [3][]byte{[]byte(method), arg2, arg3}, maxPayload) {
		all = append(all, fr...)
	}
	r.conn.SetWriteDeadline(time.Now().Add(c06rWait))
	if _, err := r.conn.Write(all); err != nil {
		r.fail("harness: write call req: %v", err)
		return false
	}
	return true
}

// expectOne reads one frame and checks it against the protocol document's pairing.
func (r *c06rRun) expectOne(what string, wantType byte, id uint32) *rawFrame {
	r.fresh = true
	f, err := readRawFrame(r.conn, c06rWait)
	if err != nil {
		r.fail("%s with id %#x: no answer (%v)", what, id, err)
		return nil
	}
	r.note(f)
	if f.Type != wantType {
		r.fail("%s with id %#x is answered by a frame of type %#x (id %#x), the protocol pairs it with type %#x", what, id, f.Type, f.ID, wantType)
	} else if f.ID != id {
		r.fail("%s with id %#x is answered by a frame of type %#x that carries id %#x", what, id, f.Type, f.ID)
	}
	return f
}

// expectCallRes reads a complete call res (call res, then continuation frames while the
// more-fragments flag is set) and checks header ids, types and the echoed arguments.
func (r *c06rRun) expectCallRes(id uint32, wantArg2, wantArg3 []byte, wantFrag bool, wantCode byte) {
	r.fresh = true
	var frags []*rawCall
	for {
		f, err := readRawFrame(r.conn, c06rWait)
		if err != nil {
			r.fail("call req with id %#x: no complete call res (%v after %d frames)", id, err, len(frags))
			return
		}
		r.note(f)
		want := byte(0x04)
		if len(frags) > 0 {
			want = 0x14
		}
		if f.Type != want {
			r.fail("frame %d of the answer to call req id %#x has type %#x (id %#x), want %#x", len(frags), id, f.Type, f.ID, want)
			return
		}
		if f.ID != id {
			r.fail("frame %d (type %#x) of the answer to call req id %#x carries id %#x", len(frags), f.Type, id, f.ID)
			return
		}
		pc, err := parseRawCall(f.Type, f.Payload)
		if err != nil {
			r.fail("call res frame does not parse per the specification: %v", err)
			return
		}
		if len(frags) == 0 && pc.Code != wantCode {
			r.fail("call res for id %#x has response code %d, want %d", id, pc.Code, wantCode)
		}
		frags = append(frags, pc)
		if pc.Flags&1 == 0 {
			break
		}
	}
	if wantFrag != (len(frags) > 1) {
		r.fail("harness: call res for id %#x came in %d frames (fragmented expected: %v)", id, len(frags), wantFrag)
	}
	args := collectArgs(frags)
	if len(args) != 3 || !bytes.Equal(args[1], wantArg2) || !bytes.Equal(args[2], wantArg3) {
		r.fail("the call res with id %#x does not carry the arguments of the call req with that id", id)
	}
}

func c06rTag(id uint32, n int) []byte {
	return bytes.Repeat([]byte{byte('a' + id%23)}, n)
}

func (cs *c06rCase) run(shared *tchannel.Channel, sharedH *c06rHandler, caseNo int) (obs []int64, verdict string) {
	srv, h := shared, sharedH
	for _, s := range cs.steps {
		if s.kind == 5 {
			var err error
			srv, h, err = c06rServer()
			if err != nil {
				return []int64{-2}, "harness: server: " + err.Error()
			}
			defer srv.Close()
		}
	}
	conn, err := net.DialTimeout("tcp", srv.PeerInfo().HostPort, 2*time.Second)
	if err != nil {
		return []int64{-2}, "harness: dial: " + err.Error()
	}
	defer conn.Close()
	r := &c06rRun{conn: conn}

	// ---- handshake
	switch cs.initKind {
	case 0:
		if err := writeRawFrame(conn, 0x01, cs.initID, rawInitPayload(2, defaultInitParams)); err != nil {
			return []int64{-2}, "harness: write init req: " + err.Error()
		}
		if f := r.expectOne("init req", 0x02, cs.initID); f != nil && r.verdict == "" {
			if in, err := parseRawInit(f.Payload); err != nil || in.Version != 2 {
				r.fail("init res does not parse per the specification (%v)", err)
			}
		}
	case 1:
		writeRawFrame(conn, 0x01, cs.initID, rawInitPayload(1, defaultInitParams))
		r.expectOne("init req (version 1)", 0xff, cs.initID)
		return r.obs, r.verdict
	case 2:
		writeRawFrame(conn, 0xd0, cs.initID, nil)
		r.expectOne("first frame (ping req instead of init req)", 0xff, cs.initID)
		return r.obs, r.verdict
	}
	if r.verdict != "" {
		return r.obs, r.verdict
	}

	waitEntered := func(key string) bool {
		select {
		case k := <-h.entered:
			if k != key {
				r.fail("harness: handler entered for %q, expected %q", k, key)
				return false
			}
			return true
		case <-time.After(c06rWait):
			r.fail("harness: the blocking handler was not entered")
			return false
		}
	}

	// ---- script
	for i, s := range cs.steps {
		if r.verdict != "" {
			break
		}
		key := fmt.Sprintf("c%d-s%d", caseNo, i)
		switch s.kind {
		case 0:
			if err := writeRawFrame(conn, 0xd0, s.a, nil); err != nil {
				r.fail("harness: write ping: %v", err)
				break
			}
			r.expectOne("ping req", 0xd1, s.a)
		case 1:
			a2, a3 := []byte(key), c06rTag(s.a, 40)
			switch s.variant {
			case 0:
				if r.sendCall(s.a, "echo", a2, a3, 65519) {
					r.expectCallRes(s.a, a2, a3, false, 0)
				}
			case 1:
				if r.sendCall(s.a, "apperr", a2, a3, 65519) {
					r.expectCallRes(s.a, a2, a3, false, 1)
				}
			default:
				a3 = c06rTag(s.a, 900)
				if r.sendCall(s.a, "echo", a2, a3, 400) { // a call req in several frames
					r.expectCallRes(s.a, a2, a3, false, 0)
				}
			}
		case 2:
			a2, a3 := []byte(key), c06rTag(s.a, 3)
			if r.sendCall(s.a, "big", a2, a3, 65519) {
				r.expectCallRes(s.a, a2, c06rTag(s.a, 70000), true, 0)
			}
		case 3:
			switch s.variant {
			case 0:
				if r.sendCall(s.a, "nosuch", []byte(key), nil, 65519) {
					r.expectOne("call req (no such method)", 0xff, s.a)
				}
			case 1:
				if r.sendCall(s.a, "busy", []byte(key), nil, 65519) {
					r.expectOne("call req (handler answers with a system error)", 0xff, s.a)
				}
			default:
				if r.sendCall(s.a, "block", []byte(key), nil, 65519) && waitEntered(key) {
					p := append([]byte{0, 0, 0, 0}, c06rTracing...)
					p = append(p, str2("cancelled by verif peer")...)
					writeRawFrame(conn, 0xc0, s.a, p)
					r.expectOne("call req (cancelled by a cancel frame of the same id)", 0xff, s.a)
				}
			}
		case 4:
			ka, kb := key+"a", key+"b"
			if r.sendCall(s.a, "block", []byte(ka), c06rTag(s.a, 30), 65519) && waitEntered(ka) &&
				r.sendCall(s.b, "block", []byte(kb), c06rTag(s.b, 31), 65519) && waitEntered(kb) {
				h.release(kb)
				r.expectCallRes(s.b, []byte(kb), c06rTag(s.b, 31), false, 0)
				h.release(ka)
				r.expectCallRes(s.a, []byte(ka), c06rTag(s.a, 30), false, 0)
			}
		case 5:
			ka := key + "a"
			if r.sendCall(s.a, "block", []byte(ka), c06rTag(s.a, 30), 65519) && waitEntered(ka) {
				go srv.Close()
				// wait until the connection itself has left the active state (it learns of the close
				// right after the channel's state change)
				deadline := time.Now().Add(c06rWait)
				for !c06rDraining(srv) && time.Now().Before(deadline) {
					time.Sleep(time.Millisecond)
				}
				if !c06rDraining(srv) {
					r.fail("harness: the connection did not start closing")
					break
				}
				if r.sendCall(s.b, "echo", []byte(key), nil, 65519) {
					r.expectOne("call req (channel closing)", 0xff, s.b)
				}
				h.release(ka)
				r.expectCallRes(s.a, []byte(ka), c06rTag(s.a, 30), false, 0)
			}
		case 6:
			ka := key + "a"
			if r.sendCall(s.a, "block", []byte(ka), nil, 65519) && waitEntered(ka) {
				if r.sendCall(s.a, "echo", []byte(key), nil, 65519) {
					r.expectOne("call req (id of a call in flight)", 0xff, s.a)
				}
			}
			h.release(ka)
		}
	}
	return r.obs, r.verdict
}

// ---------------------------------------------------------------- the connecting side

// c06rOut: a real client against a raw listener answering the init req with id + delta.
func c06rOut(delta uint32) (in, obs []int64, verdict string) {
	ln, err := net.Listen("tcp", "127.0.0.1:0")
	if err != nil {
		return nil, nil, "harness: listen: " + err.Error()
	}
	defer ln.Close()
	type srvObs struct {
		initType, errType, cancelType   byte
		initID, errID, callID, cancelID uint32
		gotErr, gotCancel               bool
		problem                         string
	}
	done := make(chan *srvObs, 1)
	cancelNow := make(chan func(), 1)
	go func() {
		so := &srvObs{}
		defer func() { done <- so }()
		conn, err := ln.Accept()
		if err != nil {
			so.problem = "harness: accept: " + err.Error()
			return
		}
		defer conn.Close()
		f, err := readRawFrame(conn, c06rWait)
		if err != nil {
			so.problem = "no init req: " + err.Error()
			return
		}
		so.initType, so.initID = f.Type, f.ID
		if err := writeRawFrame(conn, 0x02, f.ID+delta, rawInitPayload(2, defaultInitParams)); err != nil {
			so.problem = "harness: write init res: " + err.Error()
			return
		}
		if delta != 0 {
			// the client must refuse: an error frame carrying the id of ITS init req, then close
			if f, err := readRawFrame(conn, c06rWait); err == nil {
				so.gotErr, so.errType, so.errID = true, f.Type, f.ID
			}
			return
		}
		// accepted: answer the ping, then take the call req and wait for the cancel frame
		for {
			f, err := readRawFrame(conn, c06rWait)
			if err != nil {
				so.problem = "connection accepted, but: " + err.Error()
				return
			}
			switch f.Type {
			case 0xd0:
				writeRawFrame(conn, 0xd1, f.ID, nil)
			case 0x03:
				so.callID = f.ID
				if len(f.Payload) > 0 && f.Payload[0]&1 == 0 {
					(<-cancelNow)()
				}
			case 0xc0:
				so.gotCancel, so.cancelType, so.cancelID = true, f.Type, f.ID
				return
			}
		}
	}()

	ch, err := tchannel.NewChannel("verif-reply-client", &tchannel.ChannelOptions{
		DefaultConnectionOptions: tchannel.ConnectionOptions{SendCancelOnContextCanceled: true},
	})
	if err != nil {
		return nil, nil, "harness: NewChannel: " + err.Error()
	}
	defer ch.Close()
	pctx, pcancel := tchannel.NewContext(3 * time.Second)
	perr := ch.Ping(pctx, ln.Addr().String())
	pcancel()
	accepted := perr == nil
	if accepted {
		cctx, ccancel := tchannel.NewContextBuilder(4 * time.Second).Build()
		cancelNow <- ccancel
		call, err := ch.BeginCall(cctx, ln.Addr().String(), "svc", "m", nil)
		if err == nil {
			raw.WriteArgs(call, []byte("a2"), []byte("a3")) // returns when the context is cancelled
		}
		ccancel()
	}
	var so *srvObs
	select {
	case so = <-done:
	case <-time.After(2 * c06rWait):
		return nil, nil, "harness: raw listener did not finish"
	}
	if so.problem != "" {
		verdict = so.problem
	}
	in = []int64{int64(delta), int64(so.callID)}
	obs = []int64{int64(so.initType), int64(so.initID), b2i(accepted)}
	if accepted {
		obs = append(obs, int64(so.cancelType), int64(so.cancelID))
	} else {
		obs = append(obs, int64(so.errType), int64(so.errID))
	}
	if verdict == "" {
		switch {
		case so.initType != 0x01:
			verdict = fmt.Sprintf("the first frame of a connecting channel has type %#x, not init req", so.initType)
		case accepted != (delta == 0):
			verdict = fmt.Sprintf("init req id %#x, init res id %#x: accepted=%v", so.initID, so.initID+delta, accepted)
		case !accepted && (!so.gotErr || so.errType != 0xff || so.errID != so.initID):
			verdict = fmt.Sprintf("refused init res: the error frame (present %v, type %#x) carries id %#x, the init req had id %#x", so.gotErr, so.errType, so.errID, so.initID)
		case accepted && (!so.gotCancel || so.cancelID != so.callID):
			verdict = fmt.Sprintf("cancel frame (present %v) carries id %#x, the call req it cancels had id %#x", so.gotCancel, so.cancelID, so.callID)
		}
	}
	return in, obs, verdict
}

// ---------------------------------------------------------------- engine

func engineMsgReply(rng *rand.Rand, n int, tier string, o *Out) {
	srv, h, err := c06rServer()
	if err != nil {
		panic(err)
	}
	defer srv.Close()
	nOut := n / 8
	if nOut < 4 {
		nOut = 4
	}
	for c := 0; c < n-nOut; c++ {
		cs := c06rGen(rng, c)
		obs, verdict := cs.run(srv, h, c)
		o.Hist(fmt.Sprintf("init kind=%d", cs.initKind))
		o.Hist(fmt.Sprintf("init id=%#x", func() uint32 {
			if c%7 == 6 {
				return 0xdddddddd // random
			}
			return cs.initID
		}()))
		for _, s := range cs.steps {
			o.Hist(fmt.Sprintf("step kind=%d", s.kind))
		}
		if c < 2 {
			o.Sample(map[string]interface{}{"sub": "replyhdr", "init_id": cs.initID, "init_kind": cs.initKind, "steps": fmt.Sprint(cs.steps)})
		}
		o.Case("replyhdr", fmt.Sprintf("r%d", c), cs.input(), obs, true, verdict)
	}
	deltas := []uint32{0, 1, 0xFFFFFFFF, 0, 0x7fffffff, 0, 6, 0}
	for c := 0; c < nOut; c++ {
		d := deltas[c%len(deltas)]
		in, obs, verdict := c06rOut(d)
		if in == nil {
			o.Oracle("replyhdr_out", fmt.Sprintf("o%d", c), false, fmt.Sprint(c), verdict)
			continue
		}
		o.Hist(fmt.Sprintf("out delta=%#x", d))
		o.Case("replyhdr_out", fmt.Sprintf("o%d", c), in, obs, true, verdict)
	}
}
