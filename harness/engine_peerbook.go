package main

// Engine "peerbook" (property C16): several REAL channels in one process, driven by a random
// script of connect / accept / graceful close / simultaneous closes / abrupt socket failure /
// idle sweep (stubbed clock and ticker) / Channel.Close / PeerList Add and Remove, with the
// activating goroutine optionally parked at the schedule point peer.addConnection.afterCheck
// while other operations run.  After every operation the harness waits for quiescence, takes a
// snapshot of every channel through the public introspection API (IntrospectState root peers and
// connection ids, OnPeerStatusChanged log) and
//   - judges it with oracles written from the statement of C16 (no model involved),
//   - records it as the implementation observable; the per-channel script of macro operations
//     (handshakes, observed connection state changes, list operations, parks) is replayed by the
//     extracted model Model.PeerBook.run_peerbook, which must predict the same snapshots.

import (
	"fmt"
	"math/rand"
	"net"
	"sort"
	"strings"
	"sync"
	"time"

	tchannel "github.com/uber/tchannel-go"
	"golang.org/x/net/context"
)

func init() { engines["peerbook"] = enginePeerbook }

const pbPoint = "peer.addConnection.afterCheck"
const pbAddPoint = "peerlist.Add.afterRootAdd"

// Two further points make the ORDER of a connection's state change and the steps of its own
// activation observable: pbAppended fires (on the activating goroutine) right after a successful
// append in Peer.addConnection, pbRoundDone after every Peer.addConnection call of
// Channel.addConnectionToPeer, appended or not.  A connection can stop being active (remote close,
// socket failure seen by the reader, a delayed idle sweep) while its activation is still going
// through its host:ports; whether the append for a host:port happened before or after that change
// cannot be told from states and snapshots.  With the points the harness knows, once the
// activation is over, for exactly how many host:ports the implementation appended, and places the
// state change in the model's script in front of the first append that did not happen.  In a
// library without the points such cases are judged by the oracles only (histogram label).
const pbAppended = "peer.addConnection.appended"
const pbRoundDone = "chan.addConnectionToPeer.done"

var pbHasPoints bool

type pbClock struct {
	mu  sync.Mutex
	now time.Time
}

func (c *pbClock) Now() time.Time { c.mu.Lock(); defer c.mu.Unlock(); return c.now }
func (c *pbClock) Advance(d time.Duration) {
	c.mu.Lock()
	c.now = c.now.Add(d)
	c.mu.Unlock()
}

// one Connection object (one side of a link) in one channel
type pbSide struct {
	pc        *pbChan
	id        uint32
	ord       int
	conn      *tchannel.Connection
	info      tchannel.VerifConnInfo16
	hps       []string // host:ports it must be listed under, by round
	accepted  bool     // was in ch.mutable.conns when first seen
	lastState int
	arrivals  int
	parked    int // round currently parked at (0 = not parked)
	parkCh    chan struct{}
	parkPeer  map[int]*tchannel.Peer // root peer of the round's host:port when the goroutine parked
	returned  bool                   // dial side: Channel.Connect returned this connection
	link      *pbLink
	appends   int  // successful appends of the activation (pbAppended)
	dones     int  // Peer.addConnection calls of the activation that are over (pbRoundDone)
	modelDone bool // the model's activation goroutine has been run to its end by a settle op of the script
}

// finished: every round of the activation is over in the implementation (only meaningful with
// the points; the dial side is also over when Connect has returned).
func (s *pbSide) finished() bool {
	if s.returned {
		return true
	}
	if s.info.Dir == 2 {
		return s.dones >= len(s.hps)
	}
	return s.dones >= 1
}

type pbLink struct {
	dial, acc *pbSide
	sock      net.Conn
}

type pbPeerView struct {
	in, out []uint32
	sc      int
}

type pbView struct {
	conns []uint32
	peers map[string]pbPeerView
	cbs   map[string]int
	objs  map[string]*tchannel.Peer // root list: host:port -> Peer object
}

type pbChan struct {
	idx      int
	ch       *tchannel.Channel
	hp       string // listening host:port, "" for a client-only channel
	ticker   chan time.Time
	cbMu     sync.Mutex
	cbLog    []string
	cbObjs   map[*tchannel.Peer]bool // Peer objects that fired a status callback; true = the object was the root list's peer at one of them
	script   []int64
	obs      []int64
	sides    []*pbSide
	lists    []*tchannel.PeerList
	closed   bool
	verdict  string
	failed   bool
	tainted  map[string]bool            // host:ports hit by the known finding
	seen     map[string]map[uint32]bool // host:port -> connection ids ever observed listed
	prev     *pbView
	parkWant [3]bool // park the next activation on this channel at round 1 / 2
	nconn    int
	// ambiguous != "": the order of two events of this channel could not be observed; the case is
	// judged by the oracles only (no model correspondence)
	ambiguous string
	// strengthening U16 (engine_peerbook_dial.go)
	hang    map[string]*pbDial        // host:port -> connection attempt that will hang in the dialer
	hasDial bool                      // the script contains dial ops (12-14): replayed by run_peerdial (sub peerdial)
	gcDue   map[*tchannel.Peer]string // root Peer objects seen losing their last connection while unreferenced, still rooted then
}

type pbScenario struct {
	mu      sync.Mutex
	rng     *rand.Rand
	chans   []*pbChan
	clock   *pbClock
	names   map[string]int64
	nextEph int64
	sides   map[uint32]*pbSide
	byAddr  map[string]*pbSide
	socks   map[string]net.Conn
	links   []*pbLink
	arrived int
	gate    chan struct{}
	gateIn  chan struct{}
	desc    []string
	timeout time.Duration
	o       *Out
	// PeerList.Add parked between RootPeerList.Add and addSC
	parkAdd    bool
	addArrived chan struct{}
	addRelease chan struct{}
	// strengthening U16 (engine_peerbook_dial.go)
	dials    []*pbDial
	dialSock map[string]*pbDial // local socket address of a connection dialled by a hanging attempt
	raws     []*pbRaw
}

var pbFailures int

// pbProbePoints: does the library under test have the two ordering points?
func pbProbePoints() bool {
	var mu sync.Mutex
	seen := map[string]bool{}
	tchannel.VerifSetHook(func(name string, id uint32) { mu.Lock(); seen[name] = true; mu.Unlock() })
	defer tchannel.VerifSetHook(nil)
	srv, err := tchannel.NewChannel("pb-probe-srv", &tchannel.ChannelOptions{Logger: tchannel.NullLogger})
	if err != nil {
		panic(err)
	}
	defer srv.Close()
	if err := srv.ListenAndServe("127.0.0.1:0"); err != nil {
		panic(err)
	}
	cli, err := tchannel.NewChannel("pb-probe-cli", &tchannel.ChannelOptions{Logger: tchannel.NullLogger})
	if err != nil {
		panic(err)
	}
	defer cli.Close()
	ctx, cancel := context.WithTimeout(context.Background(), 3*time.Second)
	defer cancel()
	if _, err := cli.Connect(ctx, srv.PeerInfo().HostPort); err != nil {
		return false
	}
	mu.Lock()
	defer mu.Unlock()
	return seen[pbAppended] && seen[pbRoundDone]
}

func enginePeerbook(rng *rand.Rand, n int, tier string, o *Out) {
	pbHasPoints = pbProbePoints()
	if !pbHasPoints {
		o.Hist("library has no points " + pbAppended + " / " + pbRoundDone + ": state changes during an activation are judged by the oracles only")
	}
	for k := 0; k < n; k++ {
		sc := newPbScenario(rng, o)
		nops := 4 + rng.Intn(7)
		if tier != "quick" {
			nops = 5 + rng.Intn(14)
		}
		switch {
		case k%12 == 7:
			sc.runParkedAdd()
		case k%6 == 2:
			sc.runDial(k/6, nops) // connection attempts that hang, overlap other operations, then fail or complete
		case k%6 == 5:
			sc.runRawHP(k/6, nops) // raw peers announcing unusual host:ports
		default:
			sc.run(nops)
		}
		sc.finish(fmt.Sprintf("s%d", k))
	}
	tchannel.VerifSetHook(nil)
}

func newPbScenario(rng *rand.Rand, o *Out) *pbScenario {
	sc := &pbScenario{rng: rng, o: o, clock: &pbClock{now: time.Unix(1700000000, 0)}, names: map[string]int64{},
		nextEph: 100, sides: map[uint32]*pbSide{}, byAddr: map[string]*pbSide{}, socks: map[string]net.Conn{},
		timeout: 3 * time.Second, dialSock: map[string]*pbDial{}}
	if pbFailures >= 3 {
		sc.timeout = 150 * time.Millisecond // many failing scenarios (a broken tree): do not wait 3 s for each
	}
	tchannel.VerifSetHook(sc.hook)
	nsrv := 2 + rng.Intn(2)
	ncli := 0
	if rng.Intn(4) == 0 {
		ncli = 1
	}
	for i := 0; i < nsrv+ncli; i++ {
		pc := &pbChan{idx: i, ticker: make(chan time.Time), tainted: map[string]bool{}, seen: map[string]map[uint32]bool{}, cbObjs: map[*tchannel.Peer]bool{},
			hang: map[string]*pbDial{}, gcDue: map[*tchannel.Peer]string{}}
		opts := &tchannel.ChannelOptions{
			OnPeerStatusChanged: func(p *tchannel.Peer) {
				isRoot := false
				if pc.ch != nil {
					cur, ok := pc.ch.RootPeers().Get(p.HostPort())
					isRoot = ok && cur == p
				}
				pc.cbMu.Lock()
				pc.cbLog = append(pc.cbLog, p.HostPort())
				pc.cbObjs[p] = pc.cbObjs[p] || isRoot
				pc.cbMu.Unlock()
			},
			TimeNow: sc.clock.Now,
			TimeTicker: func(d time.Duration) *time.Ticker {
				t := time.NewTicker(time.Hour)
				t.C = pc.ticker
				return t
			},
			IdleCheckInterval: time.Hour,
			MaxIdleTime:       time.Minute,
			Dialer: func(ctx context.Context, network, hostPort string) (net.Conn, error) {
				return sc.dialer(pc, ctx, network, hostPort)
			},
		}
		ch, err := tchannel.NewChannel(fmt.Sprintf("svc%d", i), opts)
		if err != nil {
			panic(err)
		}
		pc.ch = ch
		if i < nsrv {
			if err := ch.ListenAndServe("127.0.0.1:0"); err != nil {
				panic(err)
			}
			pc.hp = ch.PeerInfo().HostPort
			sc.names[pc.hp] = int64(10 + i)
			sc.names[pbAlias(pc.hp)] = int64(30 + i)
		}
		pc.lists = []*tchannel.PeerList{ch.Peers(), ch.GetSubChannel("iso1", tchannel.Isolated).Peers(), ch.GetSubChannel("iso2", tchannel.Isolated).Peers()}
		sc.chans = append(sc.chans, pc)
	}
	sc.names["127.0.0.1:1"] = 50 // a host:port nobody listens on
	o.Hist(fmt.Sprintf("channels=%d+%dclient", nsrv, ncli))
	return sc
}

func pbAlias(hp string) string { return strings.Replace(hp, "127.0.0.1:", "localhost:", 1) }

func (sc *pbScenario) name(hp string) int64 {
	if n, ok := sc.names[hp]; ok {
		return n
	}
	sc.nextEph++
	sc.names[hp] = sc.nextEph
	return sc.nextEph
}

func (sc *pbScenario) dialer(pc *pbChan, ctx context.Context, network, hostPort string) (net.Conn, error) {
	sc.mu.Lock()
	gate, gateIn := sc.gate, sc.gateIn
	sc.gate, sc.gateIn = nil, nil
	hang := pc.hang[hostPort]
	delete(pc.hang, hostPort)
	sc.mu.Unlock()
	if gate != nil {
		close(gateIn)
		<-gate
	}
	if hang != nil {
		// a connection attempt that hangs (a remote that is restarting), then fails or goes on
		if err := hang.park(ctx); err != nil {
			return nil, err
		}
	}
	real := strings.Replace(hostPort, "localhost:", "127.0.0.1:", 1)
	var d net.Dialer
	c, err := d.DialContext(ctx, network, real)
	if err == nil {
		sc.mu.Lock()
		sc.socks[c.LocalAddr().String()] = c
		if hang != nil {
			sc.dialSock[c.LocalAddr().String()] = hang
		}
		sc.mu.Unlock()
	}
	return c, err
}

// ---- registration of connections and the schedule-point hook ----

// caller holds sc.mu
func (sc *pbScenario) register(pc *pbChan, c *tchannel.Connection, accepted bool) *pbSide {
	info := tchannel.VerifConnInfoOf(c)
	if s, ok := sc.sides[info.ID]; ok {
		return s
	}
	s := &pbSide{pc: pc, id: info.ID, ord: len(pc.sides), conn: c, info: info, accepted: accepted, lastState: 1,
		parkPeer: map[int]*tchannel.Peer{}}
	s.hps = []string{info.RemoteHP}
	ohp := int64(0)
	if info.Dir == 2 {
		ohp = sc.name(info.OutboundHP)
		if info.OutboundHP != info.RemoteHP {
			s.hps = append(s.hps, info.OutboundHP)
		}
	}
	pc.sides = append(pc.sides, s)
	pc.nconn++
	sc.sides[info.ID] = s
	if d := sc.dialSock[info.LocalAddr]; d != nil && info.Dir == 2 && d.pc == pc && !d.scripted {
		// the handshake of a hanging attempt completed: DOk of Model/PeerDial.v (the dialled host:port
		// is the peer's, the connection gets the next ordinal as for op 0)
		d.scripted = true
		pc.script = append(pc.script, 14, int64(d.k), sc.name(info.RemoteHP))
	} else {
		pc.script = append(pc.script, 0, int64(info.Dir), sc.name(info.RemoteHP), ohp)
	}
	// pair the two sides of a link by their socket addresses
	sc.byAddr[info.LocalAddr+"|"+info.RemoteAddr] = s
	if other, ok := sc.byAddr[info.RemoteAddr+"|"+info.LocalAddr]; ok && other.link == nil && s.link == nil {
		l := &pbLink{}
		if info.Dir == 2 {
			l.dial, l.acc = s, other
		} else {
			l.dial, l.acc = other, s
		}
		l.sock = sc.socks[l.dial.info.LocalAddr]
		s.link, other.link = l, l
		sc.links = append(sc.links, l)
	}
	return s
}

func (sc *pbScenario) hook(name string, id uint32) {
	if name == pbAddPoint {
		sc.mu.Lock()
		park, arrived, release := sc.parkAdd, sc.addArrived, sc.addRelease
		sc.parkAdd = false
		sc.mu.Unlock()
		if park {
			close(arrived)
			<-release
		}
		return
	}
	if name == pbAppended || name == pbRoundDone {
		sc.mu.Lock()
		if s := sc.sides[id]; s != nil {
			if name == pbAppended {
				s.appends++
			} else {
				s.dones++
			}
		}
		sc.mu.Unlock()
		return
	}
	if name != pbPoint {
		return
	}
	sc.mu.Lock()
	s := sc.sides[id]
	if s == nil {
		for _, pc := range sc.chans {
			if c, ok := tchannel.VerifChannelConn(pc.ch, id); ok {
				s = sc.register(pc, c, true)
				break
			}
		}
		if s == nil {
			sc.mu.Unlock()
			return
		}
	}
	s.arrivals++
	round := s.arrivals
	pc := s.pc
	if round > 2 || !pc.parkWant[round] {
		sc.mu.Unlock()
		return
	}
	pc.parkWant[round] = false
	s.parked = round
	s.parkCh = make(chan struct{})
	ch := s.parkCh
	rest := int64(len(s.hps) - round) // host:ports still to visit after this one
	pc.script = append(pc.script, 7, int64(s.ord), rest)
	if p, ok := pc.ch.RootPeers().Get(s.hps[round-1]); ok {
		s.parkPeer[round] = p
	}
	sc.arrived++
	sc.mu.Unlock()
	<-ch
}

func (sc *pbScenario) releaseAll() {
	sc.mu.Lock()
	for _, s := range sc.sides {
		if s.parked != 0 {
			s.pc.script = append(s.pc.script, 8, int64(s.ord))
			s.parked = 0
			close(s.parkCh)
		}
	}
	for _, pc := range sc.chans {
		pc.parkWant = [3]bool{}
	}
	sc.mu.Unlock()
}

// ---- snapshots ----

func (sc *pbScenario) view(pc *pbChan) *pbView {
	st := pc.ch.IntrospectState(&tchannel.IntrospectionOptions{IncludeEmptyPeers: true})
	v := &pbView{peers: map[string]pbPeerView{}, cbs: map[string]int{}}
	v.conns = append(v.conns, st.Connections...)
	sort.Slice(v.conns, func(a, b int) bool { return v.conns[a] < v.conns[b] })
	for hp, ps := range st.RootPeers {
		pv := pbPeerView{sc: int(ps.SCCount)}
		for _, c := range ps.InboundConnections {
			pv.in = append(pv.in, c.ID)
		}
		for _, c := range ps.OutboundConnections {
			pv.out = append(pv.out, c.ID)
		}
		v.peers[hp] = pv
	}
	pc.cbMu.Lock()
	for _, hp := range pc.cbLog {
		v.cbs[hp]++
	}
	pc.cbMu.Unlock()
	v.objs = pc.ch.RootPeers().Copy()
	return v
}

// caller holds sc.mu
func (sc *pbScenario) encode(pc *pbChan, v *pbView) []int64 {
	ord := func(id uint32) int64 {
		if s, ok := sc.sides[id]; ok && s.pc == pc {
			return int64(s.ord)
		}
		return -1
	}
	ords := func(ids []uint32) []int64 {
		r := make([]int64, 0, len(ids))
		for _, id := range ids {
			r = append(r, ord(id))
		}
		sort.Slice(r, func(a, b int) bool { return r[a] < r[b] })
		return r
	}
	put := func(dst []int64, xs []int64) []int64 { dst = append(dst, int64(len(xs))); return append(dst, xs...) }
	var enc []int64
	enc = put(enc, ords(v.conns))
	type named struct {
		n  int64
		hp string
	}
	var ps []named
	for hp := range v.peers {
		ps = append(ps, named{sc.name(hp), hp})
	}
	sort.Slice(ps, func(a, b int) bool { return ps[a].n < ps[b].n })
	enc = append(enc, int64(len(ps)))
	for _, p := range ps {
		pv := v.peers[p.hp]
		enc = append(enc, p.n)
		enc = put(enc, ords(pv.in))
		enc = put(enc, ords(pv.out))
		enc = append(enc, int64(pv.sc))
	}
	var cs []named
	for hp := range v.cbs {
		cs = append(cs, named{sc.name(hp), hp})
	}
	sort.Slice(cs, func(a, b int) bool { return cs[a].n < cs[b].n })
	enc = append(enc, int64(len(cs)))
	for _, c := range cs {
		enc = append(enc, c.n, int64(v.cbs[c.hp]))
	}
	return enc
}

// ---- oracles, written from the statement of C16 ----
// returns a verdict ("" = all clauses hold), and whether the verdict is definitive (cannot
// clear by waiting longer).  Caller holds sc.mu.
func (sc *pbScenario) judge(pc *pbChan, v *pbView) (string, bool) {
	state := func(s *pbSide) int { return tchannel.VerifConnState(s.conn) }
	has := func(ids []uint32, id uint32) int {
		n := 0
		for _, x := range ids {
			if x == id {
				n++
			}
		}
		return n
	}
	known := func(hp, msg string) string {
		pc.tainted[hp] = true
		return "[c16:peer-collected-during-add] " + msg
	}
	// known finding: a Peer object obtained by a parked activation is no longer the root's peer
	// for that host:port although connections are listed under it (an orphan)
	for _, s := range pc.sides {
		for round, was := range s.parkPeer {
			hp := s.hps[round-1]
			if cur, _ := pc.ch.RootPeers().Get(hp); cur != was {
				if in, out := was.NumConnections(); in+out > 0 {
					pc.tainted[hp] = true
				}
			}
		}
	}
	// the same window opened WITHOUT a forced schedule (e.g. a peer's last connection goes away while
	// a new connection from the same host:port is being activated): a Peer object that WAS the root
	// list's peer (seen as such when it fired a status callback) has been collected and still has
	// connections listed under it.  The interleaving is not in the channel's script, so the case is
	// judged by the oracles only; the verdict is the known finding.  (An object that never was the
	// root's peer does not qualify.)
	pc.cbMu.Lock()
	var wasRoot []*tchannel.Peer
	for p, r := range pc.cbObjs {
		if r {
			wasRoot = append(wasRoot, p)
		}
	}
	pc.cbMu.Unlock()
	for _, p := range wasRoot {
		hp := p.HostPort()
		if cur, _ := pc.ch.RootPeers().Get(hp); cur != p {
			if in, out := p.NumConnections(); in+out > 0 && !pc.tainted[hp] {
				pc.tainted[hp] = true
				if pc.ambiguous == "" {
					pc.ambiguous = "the known window c16:peer-collected-during-add opened without a forced schedule"
				}
			}
		}
	}
	// (1) each peer's inbound / outbound lists contain exactly the active connections to that host:port
	for hp, pv := range v.peers {
		for dir, ids := range [][]uint32{pv.in, pv.out} {
			for _, id := range ids {
				s, ok := sc.sides[id]
				what := []string{"inbound", "outbound"}[dir]
				if !ok || s.pc != pc {
					return fmt.Sprintf("peer %s lists unknown connection %d as %s", hp, id, what), false
				}
				if has(ids, id) > 1 || (dir == 0 && has(pv.out, id) > 0) {
					return fmt.Sprintf("peer %s lists connection #%d more than once", hp, s.ord), false
				}
				if s.info.Dir != dir+1 {
					return fmt.Sprintf("peer %s lists %s connection #%d in its %s list", hp, []string{"", "inbound", "outbound"}[s.info.Dir], s.ord, what), false
				}
				if hp != s.info.RemoteHP && !(s.info.Dir == 2 && hp == s.info.OutboundHP) {
					return fmt.Sprintf("peer %s lists connection #%d whose peer is %s (dialled %q)", hp, s.ord, s.info.RemoteHP, s.info.OutboundHP), false
				}
				if st := state(s); st != 1 {
					msg := fmt.Sprintf("peer %s still lists connection #%d which is in state %d (not active) at a quiescent moment", hp, s.ord, st)
					if pc.tainted[hp] {
						return known(hp, msg), true
					}
					return msg, false
				}
			}
		}
	}
	for _, s := range pc.sides {
		if state(s) != 1 || !s.accepted {
			continue
		}
		for r, hp := range s.hps {
			round := r + 1
			if !s.returned && (s.arrivals < round || s.parked == round) {
				continue // this round of the activation has not appended yet (Connect has not returned)
			}
			pv, ok := v.peers[hp]
			n := 0
			if ok {
				if s.info.Dir == 1 {
					n = has(pv.in, s.id)
				} else {
					n = has(pv.out, s.id)
				}
			}
			if n == 0 {
				msg := fmt.Sprintf("active %s connection #%d (peer %s, dialled %q) is not listed under root peer %s (peer present: %v)",
					[]string{"", "inbound", "outbound"}[s.info.Dir], s.ord, s.info.RemoteHP, s.info.OutboundHP, hp, ok)
				cur, _ := pc.ch.RootPeers().Get(hp)
				if was, parkedThere := s.parkPeer[round]; parkedThere && cur != was {
					// the Peer object the activation obtained from the root list was collected
					// (and possibly replaced) while the activation was between GetOrAdd and append
					return known(hp, msg+": the peer was removed from the root list while this connection was being added to it"), true
				}
				if pc.tainted[hp] {
					return known(hp, msg), true
				}
				return msg, false
			}
		}
	}
	// (2) the channel tracks exactly its not-yet-closed connections
	for _, id := range v.conns {
		s, ok := sc.sides[id]
		if !ok || s.pc != pc {
			return fmt.Sprintf("channel tracks unknown connection id %d", id), false
		}
		if state(s) == 4 {
			return fmt.Sprintf("channel still tracks connection #%d which is Closed", s.ord), false
		}
	}
	for _, s := range pc.sides {
		st := state(s)
		if s.accepted && st != 4 && has(v.conns, s.id) != 1 {
			return fmt.Sprintf("connection #%d is in state %d (not closed) but the channel does not track it", s.ord, st), false
		}
		if !s.accepted && st == 1 {
			return fmt.Sprintf("connection #%d was refused by the channel but is still active", s.ord), false
		}
		if st == 2 || st == 3 {
			return fmt.Sprintf("connection #%d is stuck in closing state %d with no call in flight", s.ord, st), false
		}
	}
	// (3) a status callback fired for every connection gained or lost: per host:port every
	// (connection, host:port) pair accounts for 0 (never listed), 1 (listed) or 2 (listed and removed) calls
	pairs := map[string]int{}
	for _, s := range pc.sides {
		for _, hp := range s.hps {
			pairs[hp]++
		}
	}
	hpset := map[string]bool{}
	for hp := range v.cbs {
		hpset[hp] = true
	}
	for hp := range v.peers {
		hpset[hp] = true
	}
	for hp := range pc.seen {
		hpset[hp] = true
	}
	for hp := range hpset {
		pv := v.peers[hp]
		now := len(pv.in) + len(pv.out)
		gone := 0
		for id := range pc.seen[hp] {
			if has(pv.in, id)+has(pv.out, id) == 0 {
				gone++
			}
		}
		n := v.cbs[hp]
		lo, hi := now+2*gone, now+2*(pairs[hp]-now)
		if n < lo || n > hi || (n-now)%2 != 0 {
			msg := fmt.Sprintf("peer %s: %d status callbacks, but %d connections listed now, %d seen listed and removed, %d connections ever had this host:port (expected between %d and %d, same parity as %d)",
				hp, n, now, gone, pairs[hp], lo, hi, now)
			if pc.tainted[hp] {
				return known(hp, msg), true
			}
			return msg, false
		}
	}
	// (4) a peer whose last connection was removed while no peer list references it leaves the root list;
	// scCount is the number of peer lists holding the peer, and they hold the root's Peer object
	for hp, pv := range v.peers {
		refs := 0
		root, _ := pc.ch.RootPeers().Get(hp)
		for lid, l := range pc.lists {
			if p, ok := l.Copy()[hp]; ok {
				refs++
				if p != root {
					msg := fmt.Sprintf("peer list %d holds a Peer object for %s that is not the one in the root list", lid, hp)
					if pc.tainted[hp] {
						return known(hp, msg), true
					}
					return msg, false
				}
			}
		}
		if refs != pv.sc {
			return fmt.Sprintf("peer %s: scCount %d but %d peer lists reference it", hp, pv.sc, refs), false
		}
		// "at a quiescent moment": while a connection attempt to hp is in flight on this channel the
		// clause is not judged (the loss is remembered in gcDue); once the attempt is over -- failed or
		// not -- a Peer object that lost its last connection while unreferenced must be gone
		if len(pv.in)+len(pv.out) == 0 && pv.sc == 0 && !sc.dialPending(pc, hp) {
			msg := ""
			if pc.prev != nil {
				if old, ok := pc.prev.peers[hp]; ok && len(old.in)+len(old.out) > 0 && old.sc == 0 && pc.prev.objs[hp] == v.objs[hp] {
					msg = fmt.Sprintf("peer %s lost its last connection while no peer list referenced it but is still in the root list", hp)
				}
			}
			if when, due := pc.gcDue[v.objs[hp]]; due && msg == "" {
				msg = fmt.Sprintf("peer %s lost its last connection while no peer list referenced it (%s) and is still in the root list now that nothing is in flight: 0 connections, 0 peer-list references", hp, when)
			}
			if msg != "" {
				if pc.tainted[hp] {
					return known(hp, msg), true
				}
				return msg, false
			}
		}
	}
	for lid, l := range pc.lists {
		for hp, p := range l.Copy() {
			if root, ok := pc.ch.RootPeers().Get(hp); !ok || root != p {
				msg := fmt.Sprintf("peer list %d references %s but the root list does not hold that peer", lid, hp)
				if pc.tainted[hp] {
					return known(hp, msg+": the peer was removed from the root list between RootPeerList.Add and addSC of PeerList.Add"), true
				}
				return msg, false
			}
		}
	}
	return "", false
}

// recordChanges appends the connection state changes observed so far to the scripts (after
// letting the model's unparked goroutines finish): used where the harness knows that these
// changes happened before what it does next.  Caller must not hold sc.mu.
func (sc *pbScenario) recordChanges() {
	sc.mu.Lock()
	defer sc.mu.Unlock()
	for _, pc := range sc.chans {
		sc.recordChangesOf(pc)
	}
}

// The settle op (11) lets every goroutine of the model that is not parked run to its end, the
// activation of a new or just released connection included, with the connection states recorded
// so far.  If such a connection is found not active any more, its state change has to go in front
// of the first append that the implementation did NOT perform (the activation saw the change),
// not behind the whole activation: the model's goroutine is parked at that append, the change is
// recorded, the goroutine released.  Which append that is, is known from the pbAppended count once
// the activation is over (settle waits for that); otherwise the order is unobservable and the
// channel's case is judged by the oracles only.
// caller holds sc.mu
func (sc *pbScenario) recordChangesOf(pc *pbChan) {
	states := make([]int, len(pc.sides))
	var post []int64
	for i, s := range pc.sides {
		states[i] = tchannel.VerifConnState(s.conn)
		if s.modelDone || s.parked != 0 {
			continue
		}
		if pbHasPoints && !s.finished() {
			// the implementation's activation is still on its way while the model's would be run to
			// its end: whatever is recorded or compared from here on may be out of step
			if pc.ambiguous == "" {
				pc.ambiguous = "an activation was still in flight at a recording point"
			}
		} else if s.lastState == 1 && states[i] != 1 && !pc.closed {
			if !pbHasPoints {
				if pc.ambiguous == "" {
					pc.ambiguous = "a connection stopped being active during or right after its activation (library without ordering points)"
				}
			} else if s.appends < len(s.hps) {
				// appended for the first s.appends host:ports only
				pc.script = append(pc.script, 7, int64(s.ord), int64(len(s.hps)-s.appends-1))
				post = append(post, 8, int64(s.ord))
				sc.o.Hist(fmt.Sprintf("ordered: state change placed before append %d of %d of the connection's activation", s.appends+1, len(s.hps)))
			}
		}
		s.modelDone = true
	}
	pc.script = append(pc.script, 11)
	for i, s := range pc.sides {
		if st := states[i]; st != s.lastState {
			pc.script = append(pc.script, 1, int64(s.ord), int64(st))
			s.lastState = st
		}
	}
	pc.script = append(pc.script, post...)
}

// settle waits for a quiescent moment at which the oracles hold (or the timeout), appends the
// observed state changes and a snapshot to every channel's script.
func (sc *pbScenario) settle() {
	deadline := time.Now().Add(sc.timeout)
	var last []string
	stable := 0
	for {
		ok := true
		var cur []string
		sc.mu.Lock()
		for _, pc := range sc.chans {
			v := sc.view(pc)
			cur = append(cur, fmt.Sprint(sc.encode(pc, v)))
			for _, s := range pc.sides {
				cur = append(cur, fmt.Sprint(tchannel.VerifConnState(s.conn)))
			}
			if !pc.failed {
				if msg, definitive := sc.judge(pc, v); msg != "" && !definitive {
					ok = false
				}
			}
			if pbHasPoints {
				// an activation that is neither parked nor replayed yet must be over before its
				// outcome is recorded
				for _, s := range pc.sides {
					if !s.modelDone && s.parked == 0 && !s.finished() {
						ok = false
					}
				}
			}
		}
		sc.mu.Unlock()
		if fmt.Sprint(cur) == fmt.Sprint(last) {
			stable++
		} else {
			stable = 0
		}
		last = cur
		if (ok && stable >= 2) || time.Now().After(deadline) {
			break
		}
		time.Sleep(300 * time.Microsecond)
	}
	sc.mu.Lock()
	defer sc.mu.Unlock()
	for _, pc := range sc.chans {
		sc.recordChangesOf(pc)
		v := sc.view(pc)
		pc.script = append(pc.script, 6)
		pc.obs = append(pc.obs, sc.encode(pc, v)...)
		msg, _ := sc.judge(pc, v)
		if msg != "" && pc.verdict == "" {
			pc.verdict = fmt.Sprintf("%s (channel %d, after operation %d: %s)", msg, pc.idx, len(sc.desc), sc.desc[len(sc.desc)-1])
			if !strings.HasPrefix(msg, "[") {
				pc.failed = true
				pbFailures++
			}
		}
		for hp, pv := range v.peers {
			if pc.seen[hp] == nil {
				pc.seen[hp] = map[uint32]bool{}
			}
			for _, id := range pv.in {
				pc.seen[hp][id] = true
			}
			for _, id := range pv.out {
				pc.seen[hp][id] = true
			}
		}
		sc.noteLosses(pc, v)
		pc.prev = v
	}
}

// ---- operations ----

func (sc *pbScenario) openLinks() []*pbLink {
	var r []*pbLink
	for _, l := range sc.links {
		if l.dial != nil && l.acc != nil && (tchannel.VerifConnState(l.dial.conn) == 1 || tchannel.VerifConnState(l.acc.conn) == 1) {
			r = append(r, l)
		}
	}
	return r
}

func (sc *pbScenario) servers() []*pbChan {
	var r []*pbChan
	for _, pc := range sc.chans {
		if pc.hp != "" {
			r = append(r, pc)
		}
	}
	return r
}

func (sc *pbScenario) say(f string, a ...interface{}) {
	sc.desc = append(sc.desc, fmt.Sprintf(f, a...))
}

func (sc *pbScenario) closeSide(s *pbSide) { s.conn.Close() }

func (sc *pbScenario) opCloseConn(l *pbLink, both bool) {
	if both {
		sc.say("simultaneous graceful close of link %d<->%d from both sides", l.dial.pc.idx, l.acc.pc.idx)
		var wg sync.WaitGroup
		for _, s := range []*pbSide{l.dial, l.acc} {
			wg.Add(1)
			go func(s *pbSide) { defer wg.Done(); sc.closeSide(s) }(s)
		}
		wg.Wait()
		sc.o.Hist("op=closeboth")
		return
	}
	s := l.dial
	if sc.rng.Intn(2) == 0 {
		s = l.acc
	}
	sc.say("graceful close of connection #%d on channel %d", s.ord, s.pc.idx)
	sc.closeSide(s)
	sc.o.Hist("op=closeconn")
}

func (sc *pbScenario) opCloseMany(pc *pbChan) {
	sc.say("simultaneous graceful close of every active connection of channel %d (random sides)", pc.idx)
	var wg sync.WaitGroup
	for _, s := range pc.sides {
		if tchannel.VerifConnState(s.conn) != 1 || s.link == nil || s.parked != 0 {
			continue
		}
		t := s
		if sc.rng.Intn(2) == 0 {
			if o := s.link.dial; o != s && o != nil {
				t = o
			} else if o := s.link.acc; o != s && o != nil {
				t = o
			}
		}
		if t.parked != 0 {
			t = s
		}
		wg.Add(1)
		go func(t *pbSide) { defer wg.Done(); sc.closeSide(t) }(t)
	}
	wg.Wait()
	sc.o.Hist("op=closemany")
}

func (sc *pbScenario) opFail(l *pbLink) {
	sc.say("abrupt failure: raw socket of link %d<->%d closed", l.dial.pc.idx, l.acc.pc.idx)
	if l.sock != nil {
		l.sock.Close()
	}
	sc.o.Hist("op=fail")
}

func (sc *pbScenario) opSweep(pc *pbChan) {
	sc.say("idle sweep on channel %d (clock +2min)", pc.idx)
	sc.clock.Advance(2 * time.Minute)
	for k := 0; k < 2; k++ {
		select {
		case pc.ticker <- time.Time{}:
		case <-time.After(100 * time.Millisecond):
		}
	}
	sc.o.Hist("op=sweep")
}

func (sc *pbScenario) opCloseCh(pcs ...*pbChan) {
	var wg sync.WaitGroup
	names := []string{}
	sc.mu.Lock()
	for _, pc := range pcs {
		pc.script = append(pc.script, 4)
		pc.closed = true
		names = append(names, fmt.Sprint(pc.idx))
	}
	sc.mu.Unlock()
	sc.say("Channel.Close on channel(s) %s", strings.Join(names, ","))
	for _, pc := range pcs {
		wg.Add(1)
		go func(pc *pbChan) { defer wg.Done(); pc.ch.Close() }(pc)
	}
	wg.Wait()
	sc.o.Hist(fmt.Sprintf("op=closech%d", len(pcs)))
}

func (sc *pbScenario) pickHP(pc *pbChan) string {
	srv := sc.servers()
	switch sc.rng.Intn(6) {
	case 0:
		return "127.0.0.1:1"
	case 1:
		return pbAlias(srv[sc.rng.Intn(len(srv))].hp)
	default:
		return srv[sc.rng.Intn(len(srv))].hp
	}
}

func (sc *pbScenario) opList(pc *pbChan, add bool) {
	lid := sc.rng.Intn(len(pc.lists))
	hp := sc.pickHP(pc)
	sc.mu.Lock()
	if add {
		pc.script = append(pc.script, 2, int64(lid), sc.name(hp))
	} else {
		pc.script = append(pc.script, 3, int64(lid), sc.name(hp))
	}
	sc.mu.Unlock()
	if add {
		sc.say("PeerList.Add(%s) on list %d of channel %d", hp, lid, pc.idx)
		pc.lists[lid].Add(hp)
		sc.o.Hist("op=listadd")
	} else {
		err := pc.lists[lid].Remove(hp)
		sc.say("PeerList.Remove(%s) on list %d of channel %d -> %v", hp, lid, pc.idx, err)
		sc.o.Hist("op=listremove")
	}
}

func (sc *pbScenario) opGetOrAdd(pc *pbChan) {
	hp := sc.pickHP(pc)
	sc.mu.Lock()
	pc.script = append(pc.script, 5, sc.name(hp))
	sc.mu.Unlock()
	sc.say("RootPeers().GetOrAdd(%s) on channel %d", hp, pc.idx)
	pc.ch.RootPeers().GetOrAdd(hp)
	sc.o.Hist("op=getoradd")
}

type pbConnRes struct {
	c   *tchannel.Connection
	err error
}

// connect from channel `from` to server `to`; parks as requested; runs `nested` while parked.
func (sc *pbScenario) opConnect(from, to *pbChan, alias bool, parkDial int, parkAcc bool, gate bool, nested func()) {
	target := to.hp
	if alias {
		target = pbAlias(to.hp)
	}
	sc.mu.Lock()
	want := 0
	if parkDial > 0 && !from.closed {
		from.parkWant[parkDial] = true
		want++
	}
	if parkAcc && !to.closed && !from.closed && from != to {
		to.parkWant[1] = true
		want++
	}
	base := sc.arrived
	var gateIn chan struct{}
	var gateCh chan struct{}
	if gate {
		gateCh, gateIn = make(chan struct{}), make(chan struct{})
		sc.gate, sc.gateIn = gateCh, gateIn
	}
	sc.mu.Unlock()
	sc.say("Connect channel %d -> channel %d via %q (park dial round %d, park accept %v, close-during-dial %v)", from.idx, to.idx, target, parkDial, parkAcc, gate)
	sc.o.Hist(fmt.Sprintf("op=connect alias=%v parkDial=%d parkAcc=%v gate=%v self=%v", alias, parkDial, parkAcc, gate, from == to))
	res := make(chan pbConnRes, 1)
	go func() {
		ctx, cancel := context.WithTimeout(context.Background(), 10*time.Second)
		defer cancel()
		c, err := from.ch.Connect(ctx, target)
		res <- pbConnRes{c, err}
	}()
	var got *pbConnRes
	if gate {
		select {
		case <-gateIn:
			// the dial is in progress: close the dialling channel now
			sc.mu.Lock()
			from.script = append(from.script, 4)
			from.closed = true
			sc.mu.Unlock()
			from.ch.Close()
			// Close closed the channel's existing connections synchronously, before the dial continues
			sc.mu.Lock()
			sc.recordChangesOf(from)
			sc.mu.Unlock()
			close(gateCh)
		case r := <-res:
			got = &r
			sc.mu.Lock()
			sc.gate, sc.gateIn = nil, nil
			sc.mu.Unlock()
		}
	}
	// wait until Connect returned or every requested park has been reached
	deadline := time.Now().Add(3 * time.Second)
	for got == nil {
		select {
		case r := <-res:
			got = &r
		case <-time.After(300 * time.Microsecond):
		}
		sc.mu.Lock()
		arrived := sc.arrived - base
		sc.mu.Unlock()
		if (want > 0 && arrived >= want) || time.Now().After(deadline) {
			break
		}
	}
	if got != nil {
		sc.afterConnect(from, got)
		// the accepting side may still be on its way to the park point / registration
		if got.err == nil {
			dl := time.Now().Add(2 * time.Second)
			for time.Now().Before(dl) {
				sc.mu.Lock()
				s := sc.sides[tchannel.VerifConnInfoOf(got.c).ID]
				done := s != nil && s.link != nil && (!to.parkWant[1] || to.closed)
				sc.mu.Unlock()
				if done {
					break
				}
				time.Sleep(200 * time.Microsecond)
			}
		}
	}
	sc.mu.Lock()
	parkedNow := sc.arrived - base
	for _, pc := range sc.chans {
		pc.parkWant = [3]bool{} // parks that were not reached are dropped
	}
	sc.mu.Unlock()
	if parkedNow > 0 {
		sc.o.Hist("parked")
		sc.settle()
		if nested != nil {
			nested()
		}
		sc.say("release the parked activation(s)")
		sc.releaseAll()
	}
	if got == nil {
		select {
		case r := <-res:
			sc.afterConnect(from, &r)
		case <-time.After(5 * time.Second):
			sc.say("Connect did not return")
		}
	}
}

func (sc *pbScenario) afterConnect(from *pbChan, r *pbConnRes) {
	if r.err != nil || r.c == nil {
		sc.o.Hist("connect-error")
		return
	}
	sc.mu.Lock()
	s, ok := sc.sides[tchannel.VerifConnInfoOf(r.c).ID]
	if !ok {
		// never reached the schedule point: refused by Channel.addConnection or already closing
		_, inMap := tchannel.VerifChannelConn(from.ch, tchannel.VerifConnInfoOf(r.c).ID)
		s = sc.register(from, r.c, inMap)
		sc.o.Hist("connect-refused-or-closing")
	}
	s.returned = true // every round of the activation is over
	sc.mu.Unlock()
}

func (sc *pbScenario) nestedOps(from, to *pbChan, parkDial int, parkAcc bool) func() {
	return func() {
		n := 1 + sc.rng.Intn(2)
		for k := 0; k < n; k++ {
			// the parked channel(s)
			var parkedCh []*pbChan
			sc.mu.Lock()
			var parkedSides []*pbSide
			for _, s := range sc.sides {
				if s.parked != 0 {
					parkedSides = append(parkedSides, s)
				}
			}
			sort.Slice(parkedSides, func(a, b int) bool { return parkedSides[a].id < parkedSides[b].id })
			for _, s := range parkedSides {
				parkedCh = append(parkedCh, s.pc)
			}
			sc.mu.Unlock()
			if len(parkedSides) == 0 {
				return
			}
			ps := parkedSides[sc.rng.Intn(len(parkedSides))]
			pc := ps.pc
			// other open links of the parked channel to the same host:port
			var same []*pbLink
			for _, l := range sc.openLinks() {
				for _, s := range []*pbSide{l.dial, l.acc} {
					if s.pc == pc && s != ps && s.parked == 0 && tchannel.VerifConnState(s.conn) == 1 {
						for _, hp := range s.hps {
							if hp == ps.hps[ps.parked-1] {
								same = append(same, l)
							}
						}
					}
				}
			}
			r := sc.rng.Intn(10)
			switch {
			case r < 3 && len(same) > 0:
				sc.o.Hist("nested=close-other-connection-to-same-peer")
				sc.opCloseConn(same[sc.rng.Intn(len(same))], sc.rng.Intn(3) == 0)
			case r < 5:
				sc.o.Hist("nested=sweep-parked-channel")
				sc.opSweep(pc)
			case r < 7 && !pc.closed:
				sc.o.Hist("nested=close-parked-channel")
				sc.opCloseCh(pc)
			case r < 8 && ps.link != nil:
				sc.o.Hist("nested=fail-parked-link")
				sc.opFail(ps.link)
			case r < 9 && ps.link != nil:
				// the other side closes the link gracefully
				o := ps.link.dial
				if o == ps {
					o = ps.link.acc
				}
				if o != nil && o.parked == 0 {
					sc.o.Hist("nested=remote-closes-parked-link")
					sc.say("graceful close of connection #%d on channel %d (remote side of the parked connection)", o.ord, o.pc.idx)
					sc.closeSide(o)
				} else {
					sc.opList(pc, true)
				}
			default:
				sc.o.Hist("nested=list-op")
				sc.opList(pc, sc.rng.Intn(2) == 0)
			}
			sc.settle()
		}
	}
}

func (sc *pbScenario) run(nops int) {
	srv := sc.servers()
	var lastFrom, lastTo *pbChan
	for k := 0; k < nops; k++ {
		links := sc.openLinks()
		r := sc.rng.Intn(100)
		if len(links) == 0 && r < 78 && sc.rng.Intn(10) < 7 {
			r = 0 // nothing to close: mostly connect
		}
		if r >= 95 && k < nops/2 {
			r = sc.rng.Intn(95) // Channel.Close only in the second half of a scenario
		}
		switch {
		case r < 38 || len(sc.links) == 0:
			from := sc.chans[sc.rng.Intn(len(sc.chans))]
			to := srv[sc.rng.Intn(len(srv))]
			for try := 0; try < 3 && (from.closed || to.closed); try++ {
				// mostly avoid channels that were closed (a few connects to / from closed channels remain)
				from = sc.chans[sc.rng.Intn(len(sc.chans))]
				to = srv[sc.rng.Intn(len(srv))]
			}
			if lastFrom != nil && sc.rng.Intn(2) == 0 && !(lastFrom.closed || lastTo.closed) {
				from, to = lastFrom, lastTo
			} else if from == to && sc.rng.Intn(3) != 0 {
				to = srv[(to.idx+1)%len(srv)]
			}
			lastFrom, lastTo = from, to
			alias := sc.rng.Intn(10) < 3
			parkDial, parkAcc, gate := 0, false, false
			switch p := sc.rng.Intn(20); {
			case p < 4:
				parkDial = 1
			case p < 6 && alias:
				parkDial = 2
			case p < 9:
				parkAcc = true
			case p < 10:
				parkDial, parkAcc = 1, true
			case p < 11:
				gate = true
			}
			sc.opConnect(from, to, alias, parkDial, parkAcc, gate, sc.nestedOps(from, to, parkDial, parkAcc))
		case r < 50 && len(links) > 0:
			sc.opCloseConn(links[sc.rng.Intn(len(links))], false)
		case r < 57 && len(links) > 0:
			sc.opCloseConn(links[sc.rng.Intn(len(links))], true)
		case r < 62:
			sc.opCloseMany(sc.chans[sc.rng.Intn(len(sc.chans))])
		case r < 71 && len(links) > 0:
			sc.opFail(links[sc.rng.Intn(len(links))])
		case r < 78:
			sc.opSweep(sc.chans[sc.rng.Intn(len(sc.chans))])
		case r < 86:
			sc.opList(sc.chans[sc.rng.Intn(len(sc.chans))], true)
		case r < 92:
			sc.opList(sc.chans[sc.rng.Intn(len(sc.chans))], false)
		case r < 95:
			sc.opGetOrAdd(sc.chans[sc.rng.Intn(len(sc.chans))])
		case r < 98:
			sc.opCloseCh(sc.chans[sc.rng.Intn(len(sc.chans))])
		default:
			a := sc.chans[sc.rng.Intn(len(sc.chans))]
			b := sc.chans[sc.rng.Intn(len(sc.chans))]
			if a == b {
				sc.opCloseCh(a)
			} else {
				sc.opCloseCh(a, b)
			}
		}
		sc.settle()
	}
}

// runParkedAdd forces the window inside PeerList.Add: the peer returned by RootPeerList.Add
// loses its only connection (and is collected) before addSC takes the reference.  While the
// Add is parked it holds the list's write lock, so the channel cannot be introspected: no
// snapshot is taken until the release.  If the implementation has no such schedule point the
// schedule is infeasible (not a failure).
func (sc *pbScenario) runParkedAdd() {
	a, b := sc.chans[0], sc.chans[1]
	sc.opConnect(a, b, false, 0, false, false, nil)
	sc.settle()
	if len(a.sides) == 0 || tchannel.VerifConnState(a.sides[0].conn) != 1 {
		return
	}
	lid := sc.rng.Intn(len(a.lists))
	hp := b.hp
	sc.mu.Lock()
	sc.parkAdd, sc.addArrived, sc.addRelease = true, make(chan struct{}), make(chan struct{})
	arrived, release := sc.addArrived, sc.addRelease
	a.script = append(a.script, 9, int64(lid), 2, int64(lid), sc.name(hp))
	sc.mu.Unlock()
	sc.say("PeerList.Add(%s) on list %d of channel %d, parked between RootPeerList.Add and addSC", hp, lid, a.idx)
	sc.o.Hist("op=listadd-parked")
	done := make(chan struct{})
	go func() { a.lists[lid].Add(hp); close(done) }()
	select {
	case <-arrived:
	case <-time.After(time.Second):
		sc.mu.Lock()
		sc.parkAdd = false
		a.script = append(a.script, 10, int64(lid))
		sc.mu.Unlock()
		<-done
		sc.o.Hist("parked-add-infeasible")
		sc.settle()
		return
	}
	was, _ := a.ch.RootPeers().Get(hp)
	// the only connection to hp closes (its callbacks block later, on the list lock, after the collection)
	side := a.sides[0]
	if sc.rng.Intn(2) == 0 && side.link != nil && side.link.acc != nil {
		side = side.link.acc
	}
	sc.say("graceful close of connection #%d on channel %d while the Add is parked", side.ord, side.pc.idx)
	go sc.closeSide(side)
	collected := false
	for dl := time.Now().Add(2 * time.Second); time.Now().Before(dl); time.Sleep(300 * time.Microsecond) {
		if _, ok := a.ch.RootPeers().Get(hp); !ok {
			collected = true
			break
		}
	}
	sc.mu.Lock()
	sc.recordChangesOf(a)
	// the close callbacks ran (removal and collection observed above) before the release
	a.script = append(a.script, 11, 10, int64(lid))
	sc.mu.Unlock()
	sc.say("release the parked Add (peer collected meanwhile: %v)", collected)
	close(release)
	<-done
	if cur, _ := a.ch.RootPeers().Get(hp); collected && cur != was {
		a.tainted[hp] = true
	}
	sc.settle()
}

func (sc *pbScenario) finish(id string) {
	sc.releaseAll()
	sc.endAllDials()
	for i, pc := range sc.chans {
		sub := "peerbook"
		if pc.hasDial {
			sub = "peerdial"
		}
		nontrivial := pc.nconn > 0
		sc.o.Hist(fmt.Sprintf("conns-per-channel=%d", pbMinInt(pc.nconn, 6)))
		if pc.ambiguous != "" {
			// oracle-only: the statement-level verdict stands, the model is not consulted
			sc.o.Hist("oracle-only: " + pc.ambiguous)
			sc.o.Oracle(sub, fmt.Sprintf("%sc%d", id, i), nontrivial, fmt.Sprint(pc.script), pc.verdict)
			continue
		}
		sc.o.Case(sub, fmt.Sprintf("%sc%d", id, i), pc.script, pc.obs, nontrivial, pc.verdict)
	}
	sc.o.Sample(map[string]interface{}{"sub": "peerbook", "scenario": id, "operations": sc.desc, "channel0_script": sc.chans[0].script})
	for _, pc := range sc.chans {
		pc.ch.Close()
	}
	sc.mu.Lock()
	for _, c := range sc.socks {
		c.Close()
	}
	raws := sc.raws
	sc.mu.Unlock()
	for _, r := range raws {
		r.close()
	}
}

func pbMinInt(a, b int) int {
	if a < b {
		return a
	}
	return b
}
