package main

// Engine "poolmux" (property C04), the thrift half: see engine_c04pool.go.
//
//   pool-hdr     thrift.ReadHeaders / thrift.ReadStruct / typed.Writer called directly on streams
//                the harness controls.  A stream can PAUSE at a chosen offset (an argument that
//                continues in the next fragment), so that reads of different calls overlap
//                exactly: truncated blocks first (cut at every kind of position: inside the
//                count, inside a key length, a key, a value), then 1-3 paused reads, complete
//                reads in between, resumption in random order.  After every step a census of
//                the pools; with one P the differences between two censuses are the Get / Put
//                events of the step, attributed to the operation that ran.  Oracle from the
//                statement: every read returns exactly the data of its own stream.
//   pool-thrift  the same through one connection, a thrift server and a thrift client: a raw call
//                whose thrift header block is cut short (or continues in a fragment that never
//                comes), a call whose arg3 is not a struct, then calls whose header block spans
//                two fragments with complete calls served in between.  Every call with a generous
//                deadline must get its own application headers and its own struct back.

import (
	"bytes"
	"encoding/binary"
	"fmt"
	"io"
	"math/rand"
	"reflect"
	"sort"
	"sync"
	"time"

	tchannel "github.com/uber/tchannel-go"
	"github.com/uber/tchannel-go/thrift"
	gen "github.com/uber/tchannel-go/thrift/gen-go/test"
	"github.com/uber/tchannel-go/typed"
)

// ---------------------------------------------------------------- streams that pause

type c04Gate struct {
	data    []byte
	pos     int
	pauseAt int
	once    sync.Once
	opened  sync.Once
	reached chan struct{}
	gate    chan struct{}
}

func (r *c04Gate) open() { r.opened.Do(func() { close(r.gate) }) }

// c04Wait: a shared pooled object can make a read wait on ANOTHER stream's gate; the harness
// never waits without a limit.
func c04Wait(ch <-chan struct{}) bool {
	select {
	case <-ch:
		return true
	case <-time.After(3 * time.Second):
		return false
	}
}

func newC04Gate(data []byte, pauseAt int) *c04Gate {
	return &c04Gate{data: data, pauseAt: pauseAt, reached: make(chan struct{}), gate: make(chan struct{})}
}

func (r *c04Gate) Read(p []byte) (int, error) {
	if r.pos == r.pauseAt {
		r.once.Do(func() { close(r.reached) })
		<-r.gate
	}
	if r.pos >= len(r.data) {
		return 0, io.EOF
	}
	end := len(r.data)
	if r.pos < r.pauseAt {
		end = r.pauseAt
	}
	n := copy(p, r.data[r.pos:end])
	r.pos += n
	return n, nil
}

// c04GateW is a writer that pauses before it accepts its first byte.
type c04GateW struct {
	buf     bytes.Buffer
	once    sync.Once
	opened  sync.Once
	reached chan struct{}
	gate    chan struct{}
}

func (w *c04GateW) open() { w.opened.Do(func() { close(w.gate) }) }

func (w *c04GateW) Write(p []byte) (int, error) {
	w.once.Do(func() { close(w.reached) })
	<-w.gate
	return w.buf.Write(p)
}

type c04FailW struct{}

func (c04FailW) Write(p []byte) (int, error) { return 0, io.ErrClosedPipe }

// ---------------------------------------------------------------- independent header codec

func c04EncodeHeaders(kvs [][2]string) []byte {
	b := []byte{0, 0}
	binary.BigEndian.PutUint16(b, uint16(len(kvs)))
	for _, kv := range kvs {
		for _, s := range kv {
			var l [2]byte
			binary.BigEndian.PutUint16(l[:], uint16(len(s)))
			b = append(append(b, l[:]...), s...)
		}
	}
	return b
}

func c04DecodeHeaders(b []byte) (map[string]string, bool) {
	str := func() (string, bool) {
		if len(b) < 2 {
			return "", false
		}
		n := int(binary.BigEndian.Uint16(b))
		b = b[2:]
		if len(b) < n {
			return "", false
		}
		s := string(b[:n])
		b = b[n:]
		return s, true
	}
	if len(b) < 2 {
		return nil, false
	}
	n := int(binary.BigEndian.Uint16(b))
	b = b[2:]
	m := map[string]string{}
	for i := 0; i < n; i++ {
		k, ok := str()
		if !ok {
			return nil, false
		}
		v, ok := str()
		if !ok {
			return nil, false
		}
		m[k] = v
	}
	return m, true
}

func c04RandHeaders(rng *rand.Rand, who string) ([][2]string, map[string]string) {
	n := pick(rng, 1, 1, 2, 3, 5)
	kvs := [][2]string{{"who", who}}
	for i := 1; i < n; i++ {
		// some values longer than the 32 byte buffer inside a pooled typed.Reader
		kvs = append(kvs, [2]string{fmt.Sprintf("k%d-%s", i, who), who + "-" + randHex(rng, pick(rng, 0, 3, 20, 60))})
	}
	m := map[string]string{}
	for _, kv := range kvs {
		m[kv[0]] = kv[1]
	}
	return kvs, m
}

func randHex(rng *rand.Rand, n int) string {
	const hex = "0123456789abcdef"
	b := make([]byte, n)
	for i := range b {
		b[i] = hex[rng.Intn(16)]
	}
	return string(b)
}

func c04MapsEqual(a, b map[string]string) bool {
	if len(a) == 0 && len(b) == 0 {
		return true
	}
	return reflect.DeepEqual(a, b)
}

func c04ShowMap(m map[string]string) string {
	var ks []string
	for k := range m {
		ks = append(ks, k)
	}
	sort.Strings(ks)
	s := "{"
	for _, k := range ks {
		v := m[k]
		if len(v) > 24 {
			v = v[:24] + "..."
		}
		s += k + ":" + v + " "
	}
	return s + "}"
}

// ---------------------------------------------------------------- pool-hdr

type c04HdrOp struct {
	id     int64
	who    string
	want   map[string]string
	gate   *c04Gate
	res    chan c04HdrRes
	isData bool // ReadStruct of a gen.Data instead of ReadHeaders
	wantD  gen.Data
}

type c04HdrRes struct {
	m   map[string]string
	d   gen.Data
	err error
}

func c04EncodeData(d *gen.Data) []byte {
	var b bytes.Buffer
	if err := thrift.WriteStruct(&b, d); err != nil {
		panic(err)
	}
	return b.Bytes()
}

func c04HdrScenario(rng *rand.Rand, o *Out, id string, oneP bool) (verdict, poolVerdict, key string) {
	rec := c04Epoch()
	var gates []*c04Gate
	defer func() {
		for _, g := range gates {
			g.open()
		}
	}()
	nextOp := int64(0)
	holderOf := func(op int64) int64 {
		if oneP {
			return op
		}
		return 0
	}
	fail := func(s string) {
		if verdict == "" {
			verdict = s
		}
	}
	newOp := func(isData bool) *c04HdrOp {
		nextOp++
		op := &c04HdrOp{id: nextOp, who: fmt.Sprintf("%s-op%d", id, nextOp), res: make(chan c04HdrRes, 1), isData: isData}
		return op
	}
	// start a read that pauses in the middle of its stream
	startPaused := func(isData bool) *c04HdrOp {
		op := newOp(isData)
		var enc []byte
		if isData {
			op.wantD = gen.Data{B1: rng.Intn(2) == 0, S2: op.who + "-" + randHex(rng, pick(rng, 0, 10, 50)), I3: int32(rng.Intn(1 << 20))}
			enc = c04EncodeData(&op.wantD)
		} else {
			var kvs [][2]string
			kvs, op.want = c04RandHeaders(rng, op.who)
			enc = c04EncodeHeaders(kvs)
		}
		op.gate = newC04Gate(enc, 1+rng.Intn(len(enc)-1))
		go func() {
			var r c04HdrRes
			if isData {
				r.err = thrift.ReadStruct(op.gate, &r.d)
			} else {
				r.m, r.err = thrift.ReadHeaders(op.gate)
			}
			op.res <- r
		}()
		gates = append(gates, op.gate)
		if !c04Wait(op.gate.reached) {
			fail(fmt.Sprintf("the read of stream %s never asked its stream for the bytes at its pause offset %d (3 s)", op.who, op.gate.pauseAt))
		}
		rec.censusStep(holderOf(op.id), "start of "+op.who+" (paused inside its stream)")
		return op
	}
	resume := func(op *c04HdrOp) {
		op.gate.open()
		var r c04HdrRes
		select {
		case r = <-op.res:
		case <-time.After(3 * time.Second):
			fail(fmt.Sprintf("the read of stream %s, paused while other reads ran, did not return within 3 s after its stream went on (it waits on another stream)", op.who))
			rec.censusStep(holderOf(op.id), "end of "+op.who+" (never returned)")
			return
		}
		rec.censusStep(holderOf(op.id), "end of "+op.who)
		if op.isData {
			if r.err != nil || r.d != op.wantD {
				fail(fmt.Sprintf("ReadStruct of stream %s, paused while other reads ran, returned %+v, %v; its stream holds %+v", op.who, r.d, r.err, op.wantD))
			}
			return
		}
		if r.err != nil || !c04MapsEqual(r.m, op.want) {
			fail(fmt.Sprintf("ReadHeaders of stream %s, paused while other reads ran, returned %s, %v; its stream holds %s (the reader was re-targeted at another stream while in use)", op.who, c04ShowMap(r.m), r.err, c04ShowMap(op.want)))
		}
	}
	complete := func(isData bool) {
		op := newOp(isData)
		if isData {
			want := gen.Data{B1: true, S2: op.who, I3: int32(op.id)}
			var got gen.Data
			err := thrift.ReadStruct(bytes.NewReader(c04EncodeData(&want)), &got)
			rec.censusStep(holderOf(op.id), "ReadStruct "+op.who)
			if err != nil || got != want {
				fail(fmt.Sprintf("ReadStruct of stream %s returned %+v, %v; want %+v", op.who, got, err, want))
			}
			return
		}
		kvs, want := c04RandHeaders(rng, op.who)
		m, err := thrift.ReadHeaders(bytes.NewReader(c04EncodeHeaders(kvs)))
		rec.censusStep(holderOf(op.id), "ReadHeaders "+op.who)
		if err != nil || !c04MapsEqual(m, want) {
			fail(fmt.Sprintf("ReadHeaders of stream %s returned %s, %v; want %s", op.who, c04ShowMap(m), err, c04ShowMap(want)))
		}
	}
	truncated := func(isData bool) {
		op := newOp(isData)
		if isData {
			enc := c04EncodeData(&gen.Data{B1: true, S2: op.who + randHex(rng, 20), I3: 7})
			cut := rng.Intn(len(enc))
			var got gen.Data
			err := thrift.ReadStruct(bytes.NewReader(enc[:cut]), &got)
			rec.censusStep(holderOf(op.id), fmt.Sprintf("ReadStruct of a struct cut at byte %d of %d", cut, len(enc)))
			if err == nil {
				fail(fmt.Sprintf("ReadStruct of a struct cut at byte %d of %d succeeded", cut, len(enc)))
			}
			key += fmt.Sprintf("ts%d,", cut)
			return
		}
		kvs, _ := c04RandHeaders(rng, op.who)
		enc := c04EncodeHeaders(kvs)
		// cut positions of every kind: inside the count, right after it, inside the first key's
		// length, inside the key, inside a later value, one byte short
		cuts := []int{0, 1, 2, 3, 4, 5, len(enc) / 2, len(enc) - 1}
		cut := cuts[rng.Intn(len(cuts))]
		if cut >= len(enc) {
			cut = len(enc) - 1
		}
		_, wantOK := c04DecodeHeaders(enc[:cut])
		m, err := thrift.ReadHeaders(bytes.NewReader(enc[:cut]))
		rec.censusStep(holderOf(op.id), fmt.Sprintf("ReadHeaders of a block cut at byte %d of %d", cut, len(enc)))
		if (err == nil) != wantOK {
			fail(fmt.Sprintf("ReadHeaders of a block cut at byte %d of %d returned %s, %v; an independent decoder says ok=%v", cut, len(enc), c04ShowMap(m), err, wantOK))
		}
		key += fmt.Sprintf("th%d,", cut)
	}
	u16 := func() {
		// typed.Writer.WriteUint16 takes its scratch buffer from a pool for the duration of the Write
		nextOp++
		opA := nextOp
		gw := &c04GateW{reached: make(chan struct{}), gate: make(chan struct{})}
		done := make(chan error, 1)
		go func() {
			w := typed.NewWriter(gw)
			w.WriteUint16(0xA1B2)
			done <- w.Err()
		}()
		defer gw.open()
		if !c04Wait(gw.reached) {
			fail("a typed.Writer.WriteUint16 never reached its writer (3 s)")
		}
		rec.censusStep(holderOf(opA), "start of a paused typed.Writer.WriteUint16")
		nextOp++
		var b bytes.Buffer
		w := typed.NewWriter(&b)
		w.WriteUint16(0xC3D4)
		rec.censusStep(holderOf(nextOp), "typed.Writer.WriteUint16")
		gw.open()
		var err error
		select {
		case err = <-done:
		case <-time.After(3 * time.Second):
			err = fmt.Errorf("did not return within 3 s")
		}
		rec.censusStep(holderOf(opA), "end of the paused typed.Writer.WriteUint16")
		if err != nil || !bytes.Equal(gw.buf.Bytes(), []byte{0xA1, 0xB2}) || !bytes.Equal(b.Bytes(), []byte{0xC3, 0xD4}) {
			fail(fmt.Sprintf("two overlapping typed.Writer.WriteUint16 wrote %x and %x (want a1b2 and c3d4), %v", gw.buf.Bytes(), b.Bytes(), err))
		}
	}

	u16fail := func() {
		// the Write behind WriteUint16 fails: the error path of the scratch buffer
		nextOp++
		w := typed.NewWriter(c04FailW{})
		w.WriteUint16(0x0102)
		w.WriteUint16(0x0304)
		rec.censusStep(holderOf(nextOp), "typed.Writer.WriteUint16 on a writer that fails")
		if w.Err() == nil {
			fail("typed.Writer on a failing io.Writer reports no error")
		}
	}

	rec.censusStep(0, "start")
	rounds := pick(rng, 2, 3, 4)
	for r := 0; r < rounds; r++ {
		for k := pick(rng, 1, 1, 2, 3); k > 0; k-- {
			truncated(rng.Intn(4) == 0)
		}
		depth := pick(rng, 1, 1, 2, 3)
		var paused []*c04HdrOp
		for d := 0; d < depth; d++ {
			paused = append(paused, startPaused(rng.Intn(4) == 0))
			if rng.Intn(2) == 0 {
				complete(rng.Intn(4) == 0)
			}
		}
		complete(false)
		if rng.Intn(3) == 0 {
			u16fail()
			u16()
		}
		rng.Shuffle(len(paused), func(a, b int) { paused[a], paused[b] = paused[b], paused[a] })
		for _, op := range paused {
			resume(op)
			if rng.Intn(3) == 0 {
				complete(false)
			}
		}
		key += fmt.Sprintf("d%d;", depth)
	}
	poolVerdict = rec.emit(o, id)
	return verdict, poolVerdict, key
}

// ---------------------------------------------------------------- pool-thrift

type c04Simple struct{}

func (c04Simple) Call(ctx thrift.Context, arg *gen.Data) (*gen.Data, error) {
	ctx.SetResponseHeaders(ctx.Headers())
	return arg, nil
}
func (c04Simple) Simple(ctx thrift.Context) error {
	// slow: callers with a short deadline run into it
	select {
	case <-ctx.Done():
	case <-time.After(300 * time.Millisecond):
	}
	return nil
}
func (c04Simple) SimpleFuture(ctx thrift.Context) error { return nil }

func c04ThriftScenario(rng *rand.Rand, o *Out, id string, oneP bool) (verdict, poolVerdict, key string) {
	server, err := tchannel.NewChannel("svc", &tchannel.ChannelOptions{Logger: tchannel.NullLogger})
	if err != nil {
		return "harness: " + err.Error(), "", ""
	}
	defer server.Close()
	thrift.NewServer(server).Register(gen.NewTChanSimpleServiceServer(c04Simple{}))
	if err := server.ListenAndServe("127.0.0.1:0"); err != nil {
		return "harness: " + err.Error(), "", ""
	}
	hp := server.PeerInfo().HostPort
	client, err := tchannel.NewChannel("cli", &tchannel.ChannelOptions{Logger: tchannel.NullLogger})
	if err != nil {
		return "harness: " + err.Error(), "", ""
	}
	defer client.Close()
	tclient := gen.NewTChanSimpleServiceClient(thrift.NewClient(client, "svc", &thrift.ClientOptions{HostPort: hp}))
	copts := &tchannel.CallOptions{Format: tchannel.Thrift}
	fail := func(s string) {
		if verdict == "" {
			verdict = s
		}
	}
	// a complete call through the thrift client
	whole := func(who string) {
		_, want := c04RandHeaders(rng, who)
		base, cancel := tchannel.NewContext(5 * time.Second)
		defer cancel()
		ctx := thrift.WithHeaders(base, want)
		arg := &gen.Data{B1: true, S2: who, I3: int32(len(who))}
		res, err := tclient.Call(ctx, arg)
		if err != nil {
			fail(fmt.Sprintf("thrift call %s (complete, generous deadline) failed: %v", who, err))
			return
		}
		if res == nil || *res != *arg {
			fail(fmt.Sprintf("thrift call %s got the struct %+v back, sent %+v", who, res, arg))
		}
		if got := ctx.ResponseHeaders(); !c04MapsEqual(got, want) {
			fail(fmt.Sprintf("thrift call %s got the application headers %s back, sent %s", who, c04ShowMap(got), c04ShowMap(want)))
		}
	}
	{
		// warm-up
		whole(id + "-warm")
		if verdict != "" {
			return "harness: warm-up: " + verdict, "", ""
		}
	}
	rec := c04Epoch()
	rec.censusStep(0, "start")
	argsOf := func(d *gen.Data) []byte {
		var b bytes.Buffer
		if err := thrift.WriteStruct(&b, &gen.SimpleServiceCallArgs{Arg: d}); err != nil {
			panic(err)
		}
		return b.Bytes()
	}

	// 1. calls the server cannot serve
	for k := pick(rng, 1, 1, 2); k > 0; k-- {
		kind := pick(rng, 0, 0, 1, 2)
		kvs, _ := c04RandHeaders(rng, id+"-bad")
		enc := c04EncodeHeaders(kvs)
		ctx, cancel := tchannel.NewContext(time.Duration(pick(rng, 60, 100)) * time.Millisecond)
		call, err := client.BeginCall(ctx, hp, "svc", "SimpleService::Call", copts)
		if err != nil {
			cancel()
			return "harness: BeginCall: " + err.Error(), "", ""
		}
		switch kind {
		case 0: // the header block is cut short
			cut := pick(rng, 3, 4, 5, len(enc)/2, len(enc)-1)
			tchannel.NewArgWriter(call.Arg2Writer()).Write(enc[:cut])
			tchannel.NewArgWriter(call.Arg3Writer()).Write(argsOf(&gen.Data{S2: "x"}))
			key += fmt.Sprintf("cut%d,", cut)
		case 1: // the header block continues in a fragment that never comes
			w2, err := call.Arg2Writer()
			if err == nil {
				w2.Write(enc[:pick(rng, 3, 5, len(enc)/2)])
				w2.Flush()
			}
			key += "nofrag,"
		case 2: // arg3 is not a struct
			tchannel.NewArgWriter(call.Arg2Writer()).Write(enc)
			tchannel.NewArgWriter(call.Arg3Writer()).Write([]byte{0x0b, 0x00})
			key += "badstruct,"
		}
		var a2 []byte
		tchannel.NewArgReader(call.Response().Arg2Reader()).Read(&a2)
		<-ctx.Done()
		cancel()
		time.Sleep(30 * time.Millisecond)
		rec.censusStep(0, "a call the server cannot serve ("+key+")")
	}

	// 1b. thrift client calls that fail inside RunWithRetry: deadline during the handler, unknown host
	{
		ctx, cancel := thrift.NewContext(time.Duration(pick(rng, 30, 50)) * time.Millisecond)
		err := tclient.Simple(ctx)
		cancel()
		if err == nil {
			fail("a thrift call with a 30-50 ms deadline to a handler that takes 300 ms succeeded")
		}
		bad := gen.NewTChanSimpleServiceClient(thrift.NewClient(client, "svc", &thrift.ClientOptions{HostPort: "127.0.0.1:1"}))
		ctx, cancel = thrift.NewContext(200 * time.Millisecond)
		err = bad.Simple(ctx)
		cancel()
		if err == nil {
			fail("a thrift call to a port nobody listens on succeeded")
		}
		key += "retryfail,"
		time.Sleep(20 * time.Millisecond)
		rec.censusStep(0, "thrift client calls that failed inside RunWithRetry")
	}

	// 2. calls whose header block spans two fragments, complete calls in between
	depth := pick(rng, 1, 1, 2)
	type slow struct {
		who  string
		want map[string]string
		enc  []byte
		cut  int
		data *gen.Data
		call *tchannel.OutboundCall
		w2   tchannel.ArgWriter
		stop func()
	}
	var slows []*slow
	for d := 0; d < depth; d++ {
		s := &slow{who: fmt.Sprintf("%s-A%d", id, d)}
		var kvs [][2]string
		kvs, s.want = c04RandHeaders(rng, s.who)
		s.enc = c04EncodeHeaders(kvs)
		s.cut = pick(rng, 2, 3, 5, len(s.enc)/2)
		s.data = &gen.Data{B1: d%2 == 0, S2: s.who, I3: int32(1000 + d)}
		ctx, cancel := tchannel.NewContext(5 * time.Second)
		s.stop = cancel
		defer cancel()
		s.call, err = client.BeginCall(ctx, hp, "svc", "SimpleService::Call", copts)
		if err != nil {
			return "harness: BeginCall: " + err.Error(), "", ""
		}
		s.w2, err = s.call.Arg2Writer()
		if err != nil {
			return "harness: arg2 writer: " + err.Error(), "", ""
		}
		s.w2.Write(s.enc[:s.cut])
		if err := s.w2.Flush(); err != nil {
			return "harness: flush: " + err.Error(), "", ""
		}
		slows = append(slows, s)
	}
	// the server starts on the header blocks and waits for their second fragments
	time.Sleep(60 * time.Millisecond)
	rec.censusStep(0, "header blocks of slow calls half read")
	for k := pick(rng, 1, 2, 3); k > 0; k-- {
		whole(fmt.Sprintf("%s-B%d", id, k))
	}
	time.Sleep(10 * time.Millisecond)
	rec.censusStep(0, "complete calls served in between")
	rng.Shuffle(len(slows), func(a, b int) { slows[a], slows[b] = slows[b], slows[a] })
	for _, s := range slows {
		s.w2.Write(s.enc[s.cut:])
		if err := s.w2.Close(); err != nil {
			fail(fmt.Sprintf("thrift call %s (header block in two fragments): closing arg2 failed: %v", s.who, err))
			continue
		}
		if err := tchannel.NewArgWriter(s.call.Arg3Writer()).Write(argsOf(s.data)); err != nil {
			fail(fmt.Sprintf("thrift call %s (header block in two fragments): writing arg3 failed: %v", s.who, err))
			continue
		}
		var r2, r3 []byte
		if err := tchannel.NewArgReader(s.call.Response().Arg2Reader()).Read(&r2); err != nil {
			fail(fmt.Sprintf("thrift call %s (header block in two fragments, complete calls served in between, generous deadline) failed: %v", s.who, err))
			continue
		}
		if err := tchannel.NewArgReader(s.call.Response().Arg3Reader()).Read(&r3); err != nil {
			fail(fmt.Sprintf("thrift call %s: reading the response body failed: %v", s.who, err))
			continue
		}
		got, ok := c04DecodeHeaders(r2)
		if !ok || !c04MapsEqual(got, s.want) {
			fail(fmt.Sprintf("thrift call %s (header block in two fragments) got the application headers %s back, sent %s", s.who, c04ShowMap(got), c04ShowMap(s.want)))
		}
		var res gen.SimpleServiceCallResult
		if err := thrift.ReadStruct(bytes.NewReader(r3), &res); err != nil || res.Success == nil || *res.Success != *s.data {
			fail(fmt.Sprintf("thrift call %s got the struct %+v back (%v), sent %+v", s.who, res.Success, err, s.data))
		}
		s.stop()
	}
	key += fmt.Sprintf("slow%d", depth)
	time.Sleep(20 * time.Millisecond)
	rec.tracker()
	rec.censusStep(0, "the slow calls completed")
	poolVerdict = rec.emit(o, id)
	return verdict, poolVerdict, key
}
