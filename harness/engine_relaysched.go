package main

// relaysched (C09, C10): a REAL relay channel with a spying RelayHost/RelayCall, raw TCP peers as
// caller (connection 0) and destination (connection 1), and the schedule points of the relay
// hot path.  The engine lets exactly one relay goroutine run at a time, from one schedule
// point to the next, in an order chosen by a seeded random walk (plus directed scenarios):
// request frames, non-final / final response frames, error frames, cancel frames, timeout
// timers of the originating and of the destination item, full send buffers on either
// connection, connection loss.  The same macro schedule is replayed by the extracted model
// (Model/RelaySched.v: run_relaysched); observables: the spy log, the frames both raw peers
// received, and the relay bookkeeping (pending, items, tombstones) of both connections.
// Oracles written from the property text: End exactly once per started call, nothing
// reported after End, nothing left behind (items, pending; tombstones after their GC), both
// connections can close gracefully (C09); per request id the caller-side frames are a prefix
// of one well-formed response (C10).

import (
	"fmt"
	"math/rand"
	"net"
	"sort"
	"strings"
	"sync"
	"time"

	tchannel "github.com/uber/tchannel-go"
	"github.com/uber/tchannel-go/relay"
	"golang.org/x/net/context"
)

func init() {
	engines["relaysched"] = func(rng *rand.Rand, n int, tier string, o *Out) { engineRelaySched(rng, n, tier, o, false) }
	// the same schedules judged by the C10 oracle (caller-side frame grammar)
	engines["relaywire"] = func(rng *rand.Rand, n int, tier string, o *Out) { engineRelaySched(rng, n, tier, o, true) }
}

// ---------------------------------------------------------------- stallable connections

type rsGate struct {
	mu     sync.Mutex
	cond   *sync.Cond
	closed bool
}

func newRsGate() *rsGate { g := &rsGate{}; g.cond = sync.NewCond(&g.mu); return g }
func (g *rsGate) wait() {
	g.mu.Lock()
	for g.closed {
		g.cond.Wait()
	}
	g.mu.Unlock()
}
func (g *rsGate) set(closed bool) {
	g.mu.Lock()
	g.closed = closed
	g.cond.Broadcast()
	g.mu.Unlock()
}

type rsConn struct {
	net.Conn
	g *rsGate
}

func (c *rsConn) Write(b []byte) (int, error) { c.g.wait(); return c.Conn.Write(b) }

type rsListener struct {
	net.Listener
	g *rsGate
}

func (l *rsListener) Accept() (net.Conn, error) {
	c, err := l.Listener.Accept()
	if err != nil {
		return nil, err
	}
	return &rsConn{Conn: c, g: l.g}, nil
}

// ---------------------------------------------------------------- spying relay host

type spyEv struct {
	call   int
	kind   int // 1 SentBytes 2 ReceivedBytes 3 CallResponse 4 Succeeded 5 Failed 6 End
	reason string
}

type spyPlan struct {
	start   int    // e_start of the model
	code    int    // system error code for start 3/4
	dest    string // host:port; "" = Destination() not ok
	appendN int    // > 0: append a key/value of that many value bytes to arg2 (fragmentingSend)
}

type spyHost struct {
	mu     sync.Mutex
	ch     *tchannel.Channel
	log    []spyEv
	ncalls int
	plan   spyPlan
	// T09: one-shot park point inside handleCallReq, after canHandleNewCall's increment:
	// 1 = in RelayCall.Destination(), 2 = in the first RelayCall.Failed() (before it is logged)
	parkAt int
	ctl    *rsCtl
}

// maybePark parks the calling relay goroutine (the reader inside handleCallReq) at the armed
// callback; the schedule controller sees it as a park point named spy.park.
func (h *spyHost) maybePark(kind, idx int) {
	h.mu.Lock()
	hit := h.parkAt == kind && h.ctl != nil
	if hit {
		h.parkAt = 0
	}
	ctl := h.ctl
	h.mu.Unlock()
	if hit {
		ctl.hook("spy.park", uint32(idx))
	}
}

func (h *spyHost) armPark(kind int) {
	h.mu.Lock()
	h.parkAt = kind
	h.mu.Unlock()
}

func (h *spyHost) SetChannel(ch *tchannel.Channel) { h.ch = ch }

func (h *spyHost) Start(f relay.CallFrame, _ *relay.Conn) (tchannel.RelayCall, error) {
	h.mu.Lock()
	p := h.plan
	var call *spyCall
	if p.start == 0 || p.start == 1 || p.start == 3 {
		h.ncalls++
		call = &spyCall{h: h, idx: h.ncalls, dest: p.dest}
	}
	h.mu.Unlock()
	switch p.start {
	case 0:
		if p.appendN > 0 {
			f.Arg2Append([]byte("vk"), []byte(strings.Repeat("v", p.appendN)))
		}
		return call, nil
	case 1:
		return call, relay.RateLimitDropError{}
	case 2:
		return nil, relay.RateLimitDropError{}
	case 3:
		return call, tchannel.NewSystemError(tchannel.SystemErrCode(p.code), "spy refuses")
	default:
		return nil, tchannel.NewSystemError(tchannel.SystemErrCode(p.code), "spy refuses")
	}
}

func (h *spyHost) add(call, kind int, reason string) {
	h.mu.Lock()
	h.log = append(h.log, spyEv{call, kind, reason})
	h.mu.Unlock()
}

func (h *spyHost) snapshot() []spyEv {
	h.mu.Lock()
	defer h.mu.Unlock()
	return append([]spyEv(nil), h.log...)
}

type spyCall struct {
	h    *spyHost
	idx  int
	dest string
}

func (c *spyCall) Destination() (*tchannel.Peer, bool) {
	c.h.maybePark(1, c.idx)
	if c.dest == "" {
		return nil, false
	}
	return c.h.ch.RootPeers().GetOrAdd(c.dest), true
}
func (c *spyCall) SentBytes(uint16)             { c.h.add(c.idx, 1, "") }
func (c *spyCall) ReceivedBytes(uint16)         { c.h.add(c.idx, 2, "") }
func (c *spyCall) CallResponse(relay.RespFrame) { c.h.add(c.idx, 3, "") }
func (c *spyCall) Succeeded()                   { c.h.add(c.idx, 4, "") }
func (c *spyCall) Failed(reason string) {
	c.h.maybePark(2, c.idx)
	c.h.add(c.idx, 5, reason)
}
func (c *spyCall) End() { c.h.add(c.idx, 6, "") }

// reason strings -> the model's reason codes (Model/RelayItems.v)
var rsMetricKeys = map[string]int{"invalid": 0, "timeout": 1, "cancelled": 2, "busy": 3, "declined": 4, "unexpected-error": 5,
	"bad-request": 6, "network-error": 7, "protocol-error": 255}

func rsReasonCode(s string) int64 {
	switch s {
	case "relay-dropped":
		return 1
	case "relay-client-conn-inactive":
		return 3
	case "relay-bad-relay-host":
		return 5
	case "relay-connection-failed":
		return 6
	case "relay-remote-inactive":
		return 7
	case "relay-dest-conn-slow":
		return 9
	case "relay-source-conn-slow":
		return 10
	case "relay-not-found":
		return 11
	case "relay-arg2-modify-failed":
		return 12
	case "canceled":
		return 13
	case "application-error":
		return 14
	case "relay-unexpected-error":
		return 405
	}
	if c, ok := rsMetricKeys[s]; ok {
		return int64(100 + c)
	}
	if strings.HasPrefix(s, "relay-") {
		if c, ok := rsMetricKeys[strings.TrimPrefix(s, "relay-")]; ok {
			return int64(400 + c)
		}
	}
	return 99
}

// ---------------------------------------------------------------- schedule controller

type rsEvent struct {
	name string
	id   uint32
	tok  chan struct{} // non-nil: the goroutine is parked on it
}

type rsCtl struct {
	mu     sync.Mutex
	events []rsEvent
}

var rsParkPoints = map[string]bool{"relay.nonCallReq.afterGet": true, "relay.Receive.afterGet": true,
	"relayTimer.OnTimer": true, "relay.timeout.afterEntomb": true, "spy.park": true}

func (c *rsCtl) hook(name string, id uint32) {
	var tok chan struct{}
	if rsParkPoints[name] {
		tok = make(chan struct{})
	}
	c.mu.Lock()
	c.events = append(c.events, rsEvent{name, id, tok})
	c.mu.Unlock()
	if tok != nil {
		<-tok
	}
}

func (c *rsCtl) mark() int { c.mu.Lock(); defer c.mu.Unlock(); return len(c.events) }

// next waits for the first event after mark that is a park, or the named completion event.
func (c *rsCtl) next(mark int, doneName string, doneID uint32, timeout time.Duration) (rsEvent, bool) {
	deadline := time.Now().Add(timeout)
	for {
		c.mu.Lock()
		for i := mark; i < len(c.events); i++ {
			e := c.events[i]
			if e.tok != nil || (e.name == doneName && e.id == doneID) {
				c.mu.Unlock()
				return e, true
			}
		}
		mark = len(c.events)
		c.mu.Unlock()
		if time.Now().After(deadline) {
			return rsEvent{}, false
		}
		time.Sleep(200 * time.Microsecond)
	}
}

func (c *rsCtl) releaseAll() {
	c.mu.Lock()
	for i := range c.events {
		if c.events[i].tok != nil {
			select {
			case <-c.events[i].tok:
			default:
				close(c.events[i].tok)
			}
		}
	}
	c.mu.Unlock()
}

// ---------------------------------------------------------------- raw peers

type rsFrame struct {
	typ   byte
	id    uint32
	flags byte
	code  byte
}

type rsPeer struct {
	conn   net.Conn
	mu     sync.Mutex
	frames []rsFrame
	closed bool
}

func (p *rsPeer) readLoop() {
	for {
		f, err := readRawFrame(p.conn, 30*time.Second)
		if err != nil {
			p.mu.Lock()
			p.closed = true
			p.mu.Unlock()
			return
		}
		fr := rsFrame{typ: f.Type, id: f.ID}
		if len(f.Payload) > 0 {
			fr.flags = f.Payload[0]
			fr.code = f.Payload[0]
		}
		p.mu.Lock()
		p.frames = append(p.frames, fr)
		p.mu.Unlock()
	}
}

func (p *rsPeer) snapshot() []rsFrame {
	p.mu.Lock()
	defer p.mu.Unlock()
	return append([]rsFrame(nil), p.frames...)
}

var rsZeroTracing = make([]byte, 25)

func rsCallResFrame(id uint32, more bool, code byte, wf bool) []byte {
	fl := byte(0)
	if more {
		fl = 1
	}
	if !wf {
		return rawFrameBytes(0x04, id, []byte{fl, code})
	}
	p := []byte{fl}
	p = append(p, rawCallResHeader(code, rsZeroTracing, nil)...)
	p = append(p, 0)          // checksum type none
	p = append(p, 0, 0, 0, 0) // arg1 empty, arg2 empty
	p = append(p, 0, 3, 'r', 'e', 's')
	return rawFrameBytes(0x04, id, p)
}

func rsContFrame(mt byte, id uint32, more bool) []byte {
	fl := byte(0)
	if more {
		fl = 1
	}
	return rawFrameBytes(mt, id, []byte{fl, 0, 0, 4, 'c', 'o', 'n', 't'})
}

func rsCancelFrame(id uint32) []byte {
	p := []byte{0, 0, 0, 100}
	p = append(p, rsZeroTracing...)
	p = append(p, str2("stop")...)
	return rawFrameBytes(0xC0, id, p)
}

// a call req frame (checksum none) carrying arg1 "m", a thrift-shaped arg2 and arg3
func rsCallReqFrame(id uint32, more bool, thrift bool, arg3Len int) []byte {
	fl := byte(0)
	if more {
		fl = 1
	}
	as := "raw"
	if thrift {
		as = "thrift"
	}
	p := []byte{fl}
	p = append(p, rawCallReqHeader(300000, rsZeroTracing, "svc", [][2]string{{"as", as}, {"cn", "caller"}})...)
	p = append(p, 0) // checksum type none
	p = append(p, 0, 1, 'm')
	arg2 := []byte{0, 1, 0, 1, 'k', 0, 1, 'v'}
	p = append(p, byte(len(arg2)>>8), byte(len(arg2)))
	p = append(p, arg2...)
	p = append(p, byte(arg3Len>>8), byte(arg3Len))
	p = append(p, make([]byte, arg3Len)...)
	return rawFrameBytes(0x03, id, p)
}

// ---------------------------------------------------------------- one case

type rsThread struct {
	parked bool
	tok    chan struct{}
	point  string
	call   int // call the goroutine is working for (0 = none/unknown)
}

type rsCallSt struct {
	idx       int    // model call number (spy index), 0 if the host returned no call
	origID    uint32 // id on connection 0
	did       uint32 // real id on connection 1 (0 = not forwarded)
	mdid      int64  // model id on connection 1
	admitted  bool
	tmDest    int64
	tmOrig    int64
	reqCont   int // request continuation frames still to send
	cancelled bool
	resp      []int // dest script: 1 res more, 2 res last, 3 cont more, 4 cont last, 5 error, 6 res last app-error, 7 malformed res last
	respPos   int
	firedO    bool
	firedD    bool
	suspect   bool // a callback after End can be the known finding (C09)
	suspect10 bool // a goroutine held a looked-up originating item inside Receive while another one ran (C10)
	started   bool
	frag      bool
}

type rsWorld struct {
	rng      *rand.Rand
	rly      *tchannel.Channel
	host     *spyHost
	ctl      *rsCtl
	peers    [2]*rsPeer
	gates    [2]*rsGate
	connID   [2]uint32
	connH    [2]*tchannel.Connection
	dln      net.Listener
	daddr    string
	didBase  uint32
	full     [2]bool
	lost     [2]bool
	cancelOn bool
	maxTombs int
	macros   []int64
	nmacro   int
	threads  map[string]*rsThread // "r0" "r1" "t<tm>"
	calls    []*rsCallSt
	nAdmit   int
	infeas   string
	trace    []string
	lastTomb time.Time
	closing  [2]bool
	// T09
	usedU       bool    // a macro MArriveU was emitted: id re-use or an extra park point (outside the classified schedules)
	wantClosed  [2]bool // a graceful close of the connection was started: it must reach the closed state
	chanClosing bool    // Channel.Close() was called on the relay: the channel must reach ChannelClosed
	t09         string  // label of the T09 scenario for the histogram
	c10LogPark  int32   // engine_c10timer.go: 1 = the next "Too many tombstones" warning parks its goroutine
}

func (w *rsWorld) mask() int64 {
	m := int64(0)
	for i := 0; i < 2; i++ {
		if w.full[i] {
			m |= 1 << uint(i)
		}
	}
	return m
}

func (w *rsWorld) snap(k int) tchannel.VerifRelayConn { return tchannel.VerifRelayConnOf(w.connH[k]) }

func newRsWorld(rng *rand.Rand, cancelOn bool, maxTombs int) (*rsWorld, error) {
	w := &rsWorld{rng: rng, cancelOn: cancelOn, maxTombs: maxTombs, threads: map[string]*rsThread{}}
	w.gates[0], w.gates[1] = newRsGate(), newRsGate()
	w.host = &spyHost{}
	w.ctl = &rsCtl{}
	w.host.ctl = w.ctl
	opts := &tchannel.ChannelOptions{
		RelayHost:              w.host,
		RelayMaxTombs:          uint64(maxTombs),
		RelayTimerVerification: !c10TimerRecycle, // engine_c10timer.go: its cases may ask for recycled (pooled) relay timers
		RelayMaxTimeout:        10 * time.Minute,
		Dialer: func(ctx context.Context, network, hostPort string) (net.Conn, error) {
			d := net.Dialer{}
			c, err := d.DialContext(ctx, network, hostPort)
			if err != nil {
				return nil, err
			}
			return &rsConn{Conn: c, g: w.gates[1]}, nil
		},
		DefaultConnectionOptions: tchannel.ConnectionOptions{SendBufferSize: 64, PropagateCancel: cancelOn},
		Logger:                   c10TimerLoggerFor(w), // engine_c10timer.go: NullLogger with one park point ("Too many tombstones")
	}
	rly, err := tchannel.NewChannel("relay", opts)
	if err != nil {
		return nil, err
	}
	w.rly = rly
	ln, err := net.Listen("tcp", "127.0.0.1:0")
	if err != nil {
		return nil, err
	}
	if err := rly.Serve(&rsListener{Listener: ln, g: w.gates[0]}); err != nil {
		return nil, err
	}
	// destination raw peer: listens, the relay dials it
	w.dln, err = net.Listen("tcp", "127.0.0.1:0")
	if err != nil {
		return nil, err
	}
	w.daddr = w.dln.Addr().String()
	acc := make(chan net.Conn, 1)
	go func() {
		c, err := w.dln.Accept()
		if err != nil {
			acc <- nil
			return
		}
		if _, _, err := rawServerHandshake(c); err != nil {
			c.Close()
			acc <- nil
			return
		}
		acc <- c
	}()
	ctx, cancel := context.WithTimeout(context.Background(), 2*time.Second)
	_, err = rly.Connect(ctx, w.daddr)
	cancel()
	if err != nil {
		return nil, fmt.Errorf("relay cannot connect to the raw destination: %v", err)
	}
	dc := <-acc
	w.dln.Close() // later connection attempts of the relay are refused at once
	if dc == nil {
		return nil, fmt.Errorf("destination handshake failed")
	}
	w.peers[1] = &rsPeer{conn: dc}
	// caller raw peer
	ac, err := net.DialTimeout("tcp", ln.Addr().String(), 2*time.Second)
	if err != nil {
		return nil, err
	}
	if _, err := rawClientHandshake(ac); err != nil {
		return nil, fmt.Errorf("caller handshake failed: %v", err)
	}
	w.peers[0] = &rsPeer{conn: ac}
	go w.peers[0].readLoop()
	go w.peers[1].readLoop()
	deadline := time.Now().Add(2 * time.Second)
	for {
		n := 0
		for _, c := range tchannel.VerifRelayConns(rly) {
			if c.IsOutbound {
				w.connID[1], w.connH[1] = c.ConnID, c.Conn
				w.didBase = c.NextID
			} else {
				w.connID[0], w.connH[0] = c.ConnID, c.Conn
			}
			n++
		}
		if n == 2 {
			break
		}
		if time.Now().After(deadline) {
			return nil, fmt.Errorf("relay has %d connections, want 2", n)
		}
		time.Sleep(time.Millisecond)
	}
	tchannel.VerifSetHook(w.ctl.hook)
	return w, nil
}

func (w *rsWorld) close() {
	w.ctl.releaseAll()
	tchannel.VerifSetHook(nil)
	w.gates[0].set(false)
	w.gates[1].set(false)
	w.peers[0].conn.Close()
	w.peers[1].conn.Close()
	w.dln.Close()
	w.rly.Close()
}

func (w *rsWorld) tr(format string, a ...interface{}) {
	w.trace = append(w.trace, fmt.Sprintf(format, a...))
}

// run lets one goroutine go (trigger) and waits until it parks again or finishes.
func (w *rsWorld) run(th string, call int, trigger func(), doneName string, doneID uint32) bool {
	mark := w.ctl.mark()
	trigger()
	ev, ok := w.ctl.next(mark, doneName, doneID, 3*time.Second)
	if !ok {
		w.infeas = fmt.Sprintf("thread %s did not reach a schedule point or finish within 3s", th)
		return false
	}
	t := w.threads[th]
	if t == nil {
		t = &rsThread{}
		w.threads[th] = t
	}
	if ev.tok != nil {
		t.parked, t.tok, t.point, t.call = true, ev.tok, ev.name, call
		if ev.name == "relay.timeout.afterEntomb" {
			w.lastTomb = time.Now()
		}
	} else {
		delete(w.threads, th)
	}
	w.noteDrained()
	return true
}

func (w *rsWorld) markSuspects(call int, self string) {
	if call == 0 {
		return
	}
	for name, t := range w.threads {
		if name != self && t.parked && t.call == call {
			for _, c := range w.calls {
				if c.idx == call {
					c.suspect = true
					if t.point == "relay.Receive.afterGet" {
						c.suspect10 = true
					}
				}
			}
		}
	}
}

func (w *rsWorld) callByIdx(idx int) *rsCallSt {
	for _, c := range w.calls {
		if c.idx == idx {
			return c
		}
	}
	return nil
}

// send one frame on connection k (reader must be idle) and run the reader to its first park point
func (w *rsWorld) arrive(k int, frame []byte, mt, id, flags, code int64, wf bool, env [4]int64, call int) bool {
	w.markSuspects(call, "")
	if c := w.callByIdx(call); c != nil && (c.firedO || c.firedD) {
		c.suspect = true
	}
	w.macros = append(w.macros, 0, int64(k), mt, id, flags, code, b2i(wf), env[0], env[1], env[2], env[3], w.mask())
	w.nmacro++
	w.tr("arrive k=%d mt=%#x id=%d flags=%d code=%d call=%d mask=%d", k, mt, id, flags, code, call, w.mask())
	return w.run(fmt.Sprintf("r%d", k), call, func() { w.peers[k].conn.Write(frame) }, "conn.readFrames.handled", w.connID[k])
}

// arriveU: like arrive, for a call req whose id may be in use and/or with the spy's extra park
// point armed (pk: 0 none, 1 Destination(), 2 Failed()); macro MArriveU of the model.
func (w *rsWorld) arriveU(k int, frame []byte, mt, id, flags, code int64, wf bool, env [4]int64, call int, pk int) bool {
	w.usedU = true
	w.markSuspects(call, "")
	w.host.armPark(pk)
	w.macros = append(w.macros, 7, int64(k), mt, id, flags, code, b2i(wf), env[0], env[1], env[2], env[3], w.mask(), int64(pk))
	w.nmacro++
	w.tr("arriveU k=%d mt=%#x id=%d call=%d mask=%d park=%d", k, mt, id, call, w.mask(), pk)
	ok := w.run(fmt.Sprintf("r%d", k), call, func() { w.peers[k].conn.Write(frame) }, "conn.readFrames.handled", w.connID[k])
	w.host.armPark(0)
	return ok
}

// startCallU: a single-frame call req on connection 0 through arriveU.  dup != nil: the call req
// carries the id of that earlier call (a duplicate id).  edest is the model's e_dest as it will
// be WHEN Destination()/getConnectionRelay run (after the park, if any).
func (w *rsWorld) startCallU(plan spyPlan, pk int, edest int64, dup *rsCallSt) bool {
	c := &rsCallSt{origID: uint32(1000 + len(w.calls)), started: true}
	if dup != nil {
		c.origID = dup.origID
	}
	if plan.start == 0 {
		c.idx = w.host.ncalls + 1
	}
	w.calls = append(w.calls, c)
	w.host.mu.Lock()
	w.host.plan = plan
	w.host.mu.Unlock()
	before := w.snap(1).NextID
	ok := w.arriveU(0, rsCallReqFrame(c.origID, false, false, 10), 0x03, int64(c.origID), 0, 0, true,
		[4]int64{int64(plan.start), int64(plan.code), edest, 0}, c.idx, pk)
	if w.snap(1).NextID > before {
		c.admitted, c.did = true, before
		c.mdid = int64(before-w.didBase) + 1
		w.nAdmit++
		c.tmDest, c.tmOrig = int64(2*w.nAdmit-1), int64(2*w.nAdmit)
	}
	return ok
}

// closeChan starts a graceful close of the whole relay channel (Channel.Close): both
// connections enter connectionStartClose; an idle one completes its close at once.
func (w *rsWorld) closeChan() {
	w.tr("channel close")
	act := [2]bool{w.snap(0).State == 1, w.snap(1).State == 1}
	w.rly.Close()
	w.chanClosing = true
	for k := 0; k < 2; k++ {
		if act[k] {
			w.macros = append(w.macros, 4, int64(k))
			w.nmacro++
			w.closing[k] = true
			w.wantClosed[k] = true
		}
	}
	w.noteDrained()
}

// oracleClose (C09: "so both connections can complete a graceful close"): every connection on
// which a graceful close was started has, once every call has ended and its pending count is
// zero, reached the closed state -- and the channel, if it was closed, ChannelClosed.
func (w *rsWorld) oracleClose() string {
	deadline := time.Now().Add(2 * time.Second)
	for {
		bad := ""
		for k := 0; k < 2; k++ {
			if !w.wantClosed[k] {
				continue
			}
			if c := w.snap(k); c.State != 4 && c.Pending == 0 {
				bad = fmt.Sprintf("connection %d does not complete its graceful close: state %d with pending=0 and no live relay item (%d+%d live items) -- the pending count reached zero while the connection was closing and nobody re-ran the close check",
					k, c.State, c.OutItems-c.OutTombs, c.InItems-c.InTombs)
			} else if c.State != 4 {
				bad = fmt.Sprintf("connection %d does not complete its graceful close: state %d pending=%d after every call ended", k, c.State, c.Pending)
			}
		}
		if bad == "" && w.chanClosing && w.wantClosed[0] && w.wantClosed[1] && w.rly.State() != tchannel.ChannelClosed {
			bad = fmt.Sprintf("relay channel does not complete its graceful close: channel state %v, connection states %d/%d", w.rly.State(), w.snap(0).State, w.snap(1).State)
		}
		if bad == "" {
			return ""
		}
		if time.Now().After(deadline) {
			return bad
		}
		time.Sleep(2 * time.Millisecond)
	}
}

func (w *rsWorld) cont(th string) bool {
	t := w.threads[th]
	if t == nil || !t.parked {
		return true
	}
	w.markSuspects(t.call, th)
	doneName, doneID := "conn.readFrames.handled", uint32(0)
	if th[0] == 'r' {
		k := int(th[1] - '0')
		doneID = w.connID[k]
		w.macros = append(w.macros, 1, 0, int64(k), w.mask())
	} else {
		var tm int64
		fmt.Sscanf(th[1:], "%d", &tm)
		doneName = "relayTimer.OnTimer.done"
		for _, c := range w.calls {
			if c.tmOrig == tm {
				doneID = c.origID
			} else if c.tmDest == tm {
				doneID = c.did
			}
		}
		w.macros = append(w.macros, 1, 1, tm, w.mask())
	}
	w.nmacro++
	w.tr("cont %s (parked at %s) mask=%d", th, t.point, w.mask())
	tok := t.tok
	t.parked = false
	if t.point == "relayTimer.OnTimer" || t.point == "relay.timeout.afterEntomb" {
		w.lastTomb = time.Now()
	}
	return w.run(th, t.call, func() { close(tok) }, doneName, doneID)
}

func (w *rsWorld) fire(c *rsCallSt, orig bool) bool {
	k, inb, id, mid, tm := 0, false, c.origID, int64(c.origID), c.tmOrig
	if !orig {
		k, inb, id, mid, tm = 1, true, c.did, c.mdid, c.tmDest
	}
	mark := w.ctl.mark()
	if orig {
		c.firedO = true
	} else {
		c.firedD = true
	}
	if !tchannel.VerifRelayFire(w.connH[k], inb, id) {
		return true // not pending any more: the label would not be enabled in the model either
	}
	w.markSuspects(c.idx, "")
	// the origin timer beating the destination item (still live) is the known window
	c.suspect = c.suspect || orig
	dir := int64(0)
	if inb {
		dir = 1
	}
	w.macros = append(w.macros, 2, int64(k), dir, mid)
	w.nmacro++
	w.tr("fire call=%d orig=%v", c.idx, orig)
	ev, ok := w.ctl.next(mark, "", 0, 3*time.Second)
	if !ok || ev.name != "relayTimer.OnTimer" {
		w.infeas = "fired timer did not reach relayTimer.OnTimer"
		return false
	}
	w.threads[fmt.Sprintf("t%d", tm)] = &rsThread{parked: true, tok: ev.tok, point: ev.name, call: c.idx}
	return true
}

func (w *rsWorld) setFull(k int, full bool) {
	if w.full[k] == full || w.lost[k] {
		return
	}
	w.tr("full k=%d %v", k, full)
	if full {
		w.gates[k].set(true)
		tchannel.VerifFillSendCh(w.connH[k])
		time.Sleep(3 * time.Millisecond) // the writer goroutine takes one frame and blocks in Write
		tchannel.VerifFillSendCh(w.connH[k])
		time.Sleep(time.Millisecond)
		tchannel.VerifFillSendCh(w.connH[k])
	} else {
		w.gates[k].set(false)
		deadline := time.Now().Add(2 * time.Second)
		for time.Now().Before(deadline) {
			if w.snap(k).SendChLen == 0 {
				break
			}
			time.Sleep(200 * time.Microsecond)
		}
	}
	w.full[k] = full
}

func (w *rsWorld) lose(k int) bool {
	w.setFull(k, false)
	w.tr("lost k=%d", k)
	w.peers[k].conn.Close()
	deadline := time.Now().Add(3 * time.Second)
	for {
		if w.snap(k).State == 4 {
			break
		}
		if time.Now().After(deadline) {
			w.infeas = "connection did not reach the closed state after the peer went away"
			return false
		}
		time.Sleep(500 * time.Microsecond)
	}
	w.lost[k] = true
	w.macros = append(w.macros, 5, int64(k))
	w.nmacro++
	return true
}

// ---- scripted actions of the two peers

func (w *rsWorld) startCall(plan spyPlan, more bool, nCont int, thrift bool, arg3Len int, mode int64, resp []int) bool {
	c := &rsCallSt{origID: uint32(1000 + len(w.calls)), reqCont: nCont, resp: resp, started: true}
	if plan.start == 0 || plan.start == 1 || plan.start == 3 {
		c.idx = w.host.ncalls + 1
	}
	w.calls = append(w.calls, c)
	w.host.mu.Lock()
	w.host.plan = plan
	w.host.mu.Unlock()
	edest := int64(1)
	if plan.dest == "" {
		edest = -1
	} else if plan.dest != w.daddr || w.lost[1] {
		edest = -2
	}
	fl := int64(0)
	if more {
		fl = 1
	}
	before := w.snap(1).NextID
	ok := w.arrive(0, rsCallReqFrame(c.origID, more, thrift, arg3Len), 0x03, int64(c.origID), fl, 0, true,
		[4]int64{int64(plan.start), int64(plan.code), edest, mode}, c.idx)
	// the relay took a message id of the destination connection: both relay items (and
	// their timers) exist
	if w.snap(1).NextID > before {
		c.admitted, c.did = true, before
		c.mdid = int64(before-w.didBase) + 1
		w.nAdmit++
		c.tmDest, c.tmOrig = int64(2*w.nAdmit-1), int64(2*w.nAdmit)
	}
	return ok
}

func (w *rsWorld) sendReqCont(c *rsCallSt) bool {
	c.reqCont--
	more := c.reqCont > 0
	return w.arrive(0, rsContFrame(0x13, c.origID, more), 0x13, int64(c.origID), b2i(more), 0, true, [4]int64{}, c.idx)
}

func (w *rsWorld) sendCancel(c *rsCallSt) bool {
	c.cancelled = true
	return w.arrive(0, rsCancelFrame(c.origID), 0xC0, int64(c.origID), 0, 0, true, [4]int64{}, c.idx)
}

func (w *rsWorld) sendResp(c *rsCallSt, kind int, errCode byte) bool {
	id, mid := c.did, c.mdid
	switch kind {
	case 1:
		return w.arrive(1, rsCallResFrame(id, true, 0, true), 0x04, mid, 1, 0, true, [4]int64{}, c.idx)
	case 2:
		return w.arrive(1, rsCallResFrame(id, false, 0, true), 0x04, mid, 0, 0, true, [4]int64{}, c.idx)
	case 3:
		return w.arrive(1, rsContFrame(0x14, id, true), 0x14, mid, 1, 0, true, [4]int64{}, c.idx)
	case 4:
		return w.arrive(1, rsContFrame(0x14, id, false), 0x14, mid, 0, 0, true, [4]int64{}, c.idx)
	case 5:
		return w.arrive(1, rawFrameBytes(0xff, id, rawErrorPayload(errCode, rsZeroTracing, "boom")), 0xff, mid, int64(errCode), int64(errCode), true, [4]int64{}, c.idx)
	case 6:
		return w.arrive(1, rsCallResFrame(id, false, 1, true), 0x04, mid, 0, 1, true, [4]int64{}, c.idx)
	default:
		return w.arrive(1, rsCallResFrame(id, false, 0, false), 0x04, mid, 0, 0, false, [4]int64{}, c.idx)
	}
}

func (w *rsWorld) readerIdle(k int) bool {
	_, busy := w.threads[fmt.Sprintf("r%d", k)]
	return !busy && !w.lost[k]
}

func (w *rsWorld) parkedThreads() []string {
	var out []string
	for name, t := range w.threads {
		if t.parked {
			out = append(out, name)
		}
	}
	sort.Strings(out)
	return out
}

// one random step of the walk; false = nothing left to do or infeasible
func (w *rsWorld) randomStep() bool {
	type act func() bool
	var acts []act
	var weights []int
	add := func(wt int, a act) { acts = append(acts, a); weights = append(weights, wt) }
	for _, th := range w.parkedThreads() {
		th := th
		add(6, func() bool { return w.cont(th) })
	}
	if w.readerIdle(0) {
		for _, c := range w.calls {
			c := c
			if c.admitted && c.reqCont > 0 {
				add(3, func() bool { return w.sendReqCont(c) })
			}
			if c.admitted && !c.cancelled && w.rng.Intn(6) == 0 {
				add(1, func() bool { return w.sendCancel(c) })
			}
		}
	}
	if w.readerIdle(1) {
		for _, c := range w.calls {
			c := c
			if c.admitted && c.respPos < len(c.resp) {
				add(4, func() bool {
					k := c.resp[c.respPos]
					c.respPos++
					return w.sendResp(c, k, byte(pick(w.rng, 1, 3, 5, 7)))
				})
			}
		}
	}
	for _, c := range w.calls {
		c := c
		if c.admitted && !c.firedO && w.rng.Intn(4) == 0 {
			add(1, func() bool { return w.fire(c, true) })
		}
		if c.admitted && !c.firedD && w.rng.Intn(3) == 0 {
			add(1, func() bool { return w.fire(c, false) })
		}
	}
	for k := 0; k < 2; k++ {
		k := k
		if !w.lost[k] {
			add(1, func() bool { w.setFull(k, !w.full[k]); return true })
		}
		if w.readerIdle(k) && !w.closing[k] && len(w.calls) > 0 && w.rng.Intn(12) == 0 {
			add(1, func() bool { return w.lose(k) })
		}
	}
	if len(acts) == 0 {
		return false
	}
	tot := 0
	for _, x := range weights {
		tot += x
	}
	r := w.rng.Intn(tot)
	for i, x := range weights {
		if r < x {
			return acts[i]()
		}
		r -= x
	}
	return false
}

// finish: everything that is still possible happens: buffers drain, parked goroutines
// continue, the remaining timers fire.  Afterwards every started call must have ended.
func (w *rsWorld) finish() bool {
	w.setFull(0, false)
	w.setFull(1, false)
	for round := 0; round < 200; round++ {
		ths := w.parkedThreads()
		if len(ths) > 0 {
			if !w.cont(ths[0]) {
				return false
			}
			continue
		}
		fired := false
		for _, c := range w.calls {
			if c.admitted && !c.firedD {
				c.firedD = true
				if !w.fireQuiet(c, false) {
					return false
				}
				fired = true
				break
			}
			if c.admitted && !c.firedO {
				c.firedO = true
				if !w.fireQuiet(c, true) {
					return false
				}
				fired = true
				break
			}
		}
		if !fired {
			return true
		}
	}
	w.infeas = "finish did not converge"
	return false
}

// fireQuiet fires a timer in the final phase (no race intended: nothing else is in flight)
func (w *rsWorld) fireQuiet(c *rsCallSt, orig bool) bool {
	s := c.suspect
	if orig {
		c.firedO = false
	} else {
		c.firedD = false
	}
	ok := w.fire(c, orig)
	if orig {
		c.firedO = true
	} else {
		c.firedD = true
	}
	c.suspect = s
	return ok
}

// ---------------------------------------------------------------- observation and oracles

func (w *rsWorld) observe(lostAny bool) (obs []int64, spy []spyEv, frames [2][]rsFrame, conns [2]tchannel.VerifRelayConn) {
	// let the writers drain
	deadline := time.Now().Add(2 * time.Second)
	for time.Now().Before(deadline) {
		idle := true
		for k := 0; k < 2; k++ {
			if c := w.snap(k); c.State != 4 && c.SendChLen > 0 {
				idle = false
			}
		}
		if idle {
			break
		}
		time.Sleep(500 * time.Microsecond)
	}
	time.Sleep(3 * time.Millisecond)
	spy = w.host.snapshot()
	obs = append(obs, int64(w.nmacro), 0, int64(len(spy)))
	for _, e := range spy {
		r := int64(0)
		if e.kind == 5 {
			r = rsReasonCode(e.reason)
		}
		obs = append(obs, int64(e.call), int64(e.kind), r)
	}
	for k := 0; k < 2; k++ {
		c := w.snap(k)
		conns[k] = c
		obs = append(obs, int64(c.State), int64(c.Pending), int64(c.OutItems-c.OutTombs), int64(c.OutTombs), int64(c.InItems-c.InTombs), int64(c.InTombs))
		if c.State == 4 {
			obs = append(obs, -1)
			continue
		}
		// wait for the frames the relay has written to arrive
		var fs []rsFrame
		for _, f := range w.peers[k].snapshot() {
			switch f.typ {
			case 0x03, 0x04, 0x13, 0x14, 0xC0, 0xff:
				fs = append(fs, f)
			}
		}
		frames[k] = fs
		obs = append(obs, int64(len(fs)))
		for _, f := range fs {
			id := int64(f.id)
			if k == 1 {
				id = int64(f.id-w.didBase) + 1
			}
			code := int64(0)
			if f.typ == 0xff {
				code = int64(f.code)
			}
			fl := int64(f.flags & 1)
			if f.typ == 0xff || f.typ == 0xC0 {
				fl = 0
			}
			obs = append(obs, id, int64(f.typ), fl, code)
		}
	}
	return
}

// oracleC09: End exactly once, silence after End, nothing left behind.
func (w *rsWorld) oracleC09(spy []spyEv, conns [2]tchannel.VerifRelayConn, finished bool) string {
	ends := map[int]int{}
	after := map[int][]int{}
	for _, e := range spy {
		if ends[e.call] > 0 && e.kind != 6 {
			after[e.call] = append(after[e.call], e.kind)
		}
		if e.kind == 6 {
			ends[e.call]++
		}
	}
	for call, n := range ends {
		if n > 1 {
			return fmt.Sprintf("call %d: End reported %d times", call, n)
		}
	}
	if finished {
		for i := 1; i <= w.host.ncalls; i++ {
			if ends[i] != 1 {
				return fmt.Sprintf("call %d: End reported %d times after every frame was handled and every timeout fired", i, ends[i])
			}
		}
		for k := 0; k < 2; k++ {
			c := conns[k]
			if c.Pending != 0 || c.OutItems-c.OutTombs != 0 || c.InItems-c.InTombs != 0 {
				return fmt.Sprintf("after all calls ended connection %d still holds pending=%d, %d outbound and %d inbound live items",
					k, c.Pending, c.OutItems-c.OutTombs, c.InItems-c.InTombs)
			}
		}
	}
	var calls []int
	for call := range after {
		calls = append(calls, call)
	}
	sort.Ints(calls)
	for _, call := range calls {
		msg := fmt.Sprintf("call %d: callbacks %v reported after End", call, after[call])
		if c := w.callByIdx(call); c != nil && !c.suspect && c.frag {
			return "[c09:fragment-after-failed-send] " + msg + " (further fragments of a re-fragmented call req were reported after the failed send ended the call)"
		}
		if c := w.callByIdx(call); c != nil && c.suspect {
			return "[relay:nonfinal-frame-vs-timer:report-after-End] " + msg + " (a frame of the call was in flight, or its destination item still live, when the call was completed by another goroutine)"
		}
		return msg
	}
	return ""
}

// oracleC10: per request id the caller-side frames are a prefix of one well-formed response
func (w *rsWorld) oracleC10(frames []rsFrame) string {
	perID := map[uint32][]rsFrame{}
	var ids []uint32
	for _, f := range frames {
		if f.typ == 0x04 || f.typ == 0x14 || f.typ == 0xff {
			if _, ok := perID[f.id]; !ok {
				ids = append(ids, f.id)
			}
			perID[f.id] = append(perID[f.id], f)
		}
	}
	requested := map[uint32]*rsCallSt{}
	for _, c := range w.calls {
		requested[c.origID] = c
	}
	for _, id := range ids {
		seq := perID[id]
		c := requested[id]
		if c == nil {
			return fmt.Sprintf("frames for id %d which was never requested", id)
		}
		bad := rsWireCheck(seq)
		if bad == "" {
			continue
		}
		msg := fmt.Sprintf("id %d: caller-side frames %s: %s", id, rsWireString(seq), bad)
		if c.suspect10 {
			return "[relay:response-frame-after-timeout-error] " + msg
		}
		return msg
	}
	return ""
}

// rsCalmBits: what the implementation showed, for the classifier case
func rsCalmBits(spy []spyEv, frames []rsFrame) (sv, gv int64) {
	ended := map[int]bool{}
	for _, e := range spy {
		if ended[e.call] && e.kind != 6 {
			sv = 1
		}
		if e.kind == 6 {
			ended[e.call] = true
		}
	}
	perID := map[uint32][]rsFrame{}
	for _, f := range frames {
		if f.typ == 0x04 || f.typ == 0x14 || f.typ == 0xff {
			perID[f.id] = append(perID[f.id], f)
		}
	}
	for _, seq := range perID {
		if rsWireCheck(seq) != "" {
			gv = 1
		}
	}
	return
}

func rsWireString(seq []rsFrame) string {
	var parts []string
	for _, f := range seq {
		switch {
		case f.typ == 0xff:
			parts = append(parts, fmt.Sprintf("Err(%d)", f.code))
		case f.typ == 0x04 && f.flags&1 != 0:
			parts = append(parts, "Res[more]")
		case f.typ == 0x04:
			parts = append(parts, "Res[last]")
		case f.flags&1 != 0:
			parts = append(parts, "Cont[more]")
		default:
			parts = append(parts, "Cont[last]")
		}
	}
	return strings.Join(parts, " ")
}

// rsWireCheck: "" iff seq is a prefix of Res[last] | Res[more] Cont[more]* Cont[last] | proper prefix + Err | Err
func rsWireCheck(seq []rsFrame) string {
	state := 0 // 0 nothing yet, 1 inside a response (more expected), 2 terminated
	for i, f := range seq {
		if state == 2 {
			return fmt.Sprintf("frame %d follows the terminal frame", i+1)
		}
		switch f.typ {
		case 0xff:
			state = 2
		case 0x04:
			if state != 0 {
				return fmt.Sprintf("frame %d is a second call res", i+1)
			}
			if f.flags&1 != 0 {
				state = 1
			} else {
				state = 2
			}
		case 0x14:
			if state != 1 {
				return fmt.Sprintf("frame %d is a continuation without an open response", i+1)
			}
			if f.flags&1 == 0 {
				state = 2
			}
		}
	}
	return ""
}

// ---------------------------------------------------------------- engine

type rsLinger struct {
	w      *rsWorld
	id     string
	macros []int64
	nmacro int
}

func engineRelaySched(rng *rand.Rand, n int, tier string, o *Out, wire bool) {
	var lingering []*rsLinger
	infeasible := 0
	for ci := 0; ci < n; ci++ {
		cancelOn := rng.Intn(3) != 0
		maxTombs := pick(rng, 30000, 30000, 30000, 1)
		w, err := newRsWorld(rng, cancelOn, maxTombs)
		if err != nil {
			o.Oracle("relaysched", fmt.Sprintf("rs%d", ci), false, "", "harness: "+err.Error())
			continue
		}
		scenario := ci % 11
		ok := w.scenario(scenario)
		steps := 0
		for ok && w.infeas == "" && steps < 40 {
			if !w.randomStep() {
				break
			}
			steps++
		}
		finished := w.infeas == "" && w.finish()
		id := fmt.Sprintf("rs%d", ci)
		if w.infeas != "" {
			infeasible++
			o.Hist("infeasible")
			o.Oracle("relaysched", id, false, "", "")
			if infeasible > n/10+2 {
				o.Oracle("relaysched", id+"-infeasible", false, "", "harness: too many schedules the implementation could not follow: "+w.infeas+" trace: "+strings.Join(w.trace, "; "))
			}
			w.close()
			continue
		}
		linger := !wire && finished && len(lingering) < 24 && (w.lost[0] == false && w.lost[1] == false)
		obs, spy, frames, conns := w.observe(false)
		verdict := ""
		if wire {
			verdict = w.oracleC10(frames[0])
		} else {
			verdict = w.oracleC09(spy, conns, finished)
			if verdict == "" && finished {
				if verdict = w.oracleClose(); verdict != "" {
					// the observation is taken again: the states the verdict speaks about
					obs, spy, frames, conns = w.observe(false)
				}
			}
		}
		in := append([]int64{int64(maxTombs), b2i(cancelOn), 2, int64(w.nmacro)}, w.macros...)
		nontrivial := len(spy) > 2
		o.Case("relaysched", id, in, obs, nontrivial, verdict)
		// the same schedule judged by the PROVED classifier (Model/RelayCalm.v run_relaycalm): the
		// model answers [1] iff the schedule is outside the class covered by C09_silent_after_end_calm /
		// C10_relay_grammar_calm whenever the implementation shows a callback after End (sv) or a
		// caller-side frame sequence that is not a prefix of an accepted word (gv)
		sv, gv := rsCalmBits(spy, frames[0])
		if !w.usedU {
			o.Case("relaycalm", id+"-calm", append(append([]int64(nil), in...), sv, gv), []int64{1}, nontrivial, "")
		}
		if w.t09 != "" {
			o.Hist("t09:" + w.t09)
		}
		if sv != 0 {
			o.Hist("impl-callback-after-End")
		}
		if gv != 0 {
			o.Hist("impl-grammar-violation")
		}
		o.Hist(fmt.Sprintf("scenario=%d", scenario))
		o.Hist(fmt.Sprintf("macros=%d", (w.nmacro/5)*5))
		o.Hist(fmt.Sprintf("calls=%d", len(w.calls)))
		for _, c := range w.calls {
			if c.suspect {
				o.Hist("race-injected")
				break
			}
		}
		if ci < 3 {
			o.Sample(map[string]interface{}{"sub": "relaysched", "scenario": scenario, "macro_labels": w.nmacro, "trace": w.trace, "spy_events": len(spy)})
		}
		if linger {
			lingering = append(lingering, &rsLinger{w: w, id: id, macros: append([]int64(nil), w.macros...), nmacro: w.nmacro})
		} else {
			w.close()
		}
	}
	if wire {
		// C10, strengthening V10: the timeout-vs-finishing-frame window of the relay timer protocol
		c10TimerCases(rng, n, tier, o)
	}
	// tombstone GC (3 s after the last entomb) and graceful close of the lingering relays
	if len(lingering) > 0 {
		var last time.Time
		for _, l := range lingering {
			if l.w.lastTomb.After(last) {
				last = l.w.lastTomb
			}
		}
		if d := time.Until(last.Add(3300 * time.Millisecond)); d > 0 {
			time.Sleep(d)
		}
		for _, l := range lingering {
			w := l.w
			w.macros = append(w.macros, 3)
			w.nmacro++
			obs, spy, _, conns := w.observe(false)
			verdict := w.oracleC09(spy, conns, true)
			for k := 0; k < 2 && verdict == ""; k++ {
				if conns[k].OutItems != 0 || conns[k].InItems != 0 || conns[k].OutTombs != 0 || conns[k].InTombs != 0 {
					verdict = fmt.Sprintf("after the tombstone period connection %d still holds %d+%d items (%d+%d tombstones)", k,
						conns[k].OutItems, conns[k].InItems, conns[k].OutTombs, conns[k].InTombs)
				}
			}
			// both connections can complete a graceful close
			for k := 0; k < 2 && verdict == ""; k++ {
				tchannel.VerifConnClose(w.connH[k])
				deadline := time.Now().Add(2 * time.Second)
				for {
					c := w.snap(k)
					if c.State == 4 {
						break
					}
					if time.Now().After(deadline) {
						verdict = fmt.Sprintf("connection %d does not complete a graceful close after all calls ended (state %d, pending %d)", k, c.State, c.Pending)
						break
					}
					time.Sleep(time.Millisecond)
				}
			}
			in := append([]int64{int64(w.maxTombs), b2i(w.cancelOn), 2, int64(w.nmacro)}, w.macros...)
			o.Case("relaysched", l.id+"-gc", in, obs, true, verdict)
			o.Hist("tomb-gc+graceful-close")
			w.close()
		}
	}
}

// close starts a graceful close of relay connection k (Connection.Close)
func (w *rsWorld) closeConn(k int) {
	w.tr("close k=%d", k)
	if w.snap(k).State != 1 {
		return
	}
	tchannel.VerifConnClose(w.connH[k])
	w.macros = append(w.macros, 4, int64(k))
	w.nmacro++
	w.closing[k] = true
	w.wantClosed[k] = true
	w.noteDrained()
}

// noteDrained: a closing connection whose relayer has nothing pending completes its close
// inside decrementPending/checkExchanges; the model has a separate label for it.
func (w *rsWorld) noteDrained() {
	for k := 0; k < 2; k++ {
		if w.closing[k] && !w.lost[k] {
			deadline := time.Now().Add(20 * time.Millisecond)
			for w.snap(k).Pending == 0 && w.snap(k).State != 4 && time.Now().Before(deadline) {
				time.Sleep(200 * time.Microsecond)
			}
			if w.snap(k).State == 4 {
				w.tr("drained k=%d", k)
				w.macros = append(w.macros, 6, int64(k))
				w.nmacro++
				w.closing[k] = false
				w.lost[k] = true // its writer has stopped: a full send channel stays full
			}
		}
	}
}

// directed prefixes; the random walk continues from where they stop
func (w *rsWorld) scenario(s int) bool {
	okPlan := spyPlan{dest: w.daddr}
	switch s {
	case 0: // single-frame call, single-frame response
		return w.startCall(okPlan, false, 0, false, 10, 0, []int{pick(w.rng, 2, 2, 6, 7)})
	case 1: // multi-frame request and response
		return w.startCall(okPlan, true, pick(w.rng, 1, 2), false, 10, 0, [][]int{{1, 4}, {1, 3, 4}, {1, 3, 3, 4}}[w.rng.Intn(3)])
	case 2: // error frame from the destination (possibly after a first fragment), late frames after it
		return w.startCall(okPlan, false, 0, false, 10, 0, [][]int{{5}, {1, 5}, {5, 4}, {2, 4}, {1, 5, 3}}[w.rng.Intn(5)])
	case 3: // the known window: a non-final response frame looked up, then the origin timer completes the call
		if !w.startCall(okPlan, false, 0, false, 10, 0, []int{1, 3, 4}) {
			return false
		}
		if !w.cont("r0") || !w.cont("r0") {
			return false
		}
		c := w.calls[0]
		if !c.admitted {
			return true
		}
		c.respPos = 1
		if !w.sendResp(c, 1, 0) { // parks at relay.nonCallReq.afterGet
			return false
		}
		if w.rng.Intn(2) == 0 {
			if !w.cont("r1") || !w.cont("r1") { // ... up to relay.Receive.afterGet on the caller's connection
				return false
			}
		}
		if !w.fire(c, true) {
			return false
		}
		th := fmt.Sprintf("t%d", c.tmOrig)
		for i := 0; i < 3 && w.threads[th] != nil; i++ {
			if w.rng.Intn(4) == 0 {
				break
			}
			if !w.cont(th) {
				return false
			}
		}
		return true
	case 4: // rejections: every path of handleCallReq that ends the call itself
		switch w.rng.Intn(7) {
		case 0:
			return w.startCall(spyPlan{start: 1}, false, 0, false, 10, 0, nil)
		case 1:
			return w.startCall(spyPlan{start: 2}, false, 0, false, 10, 0, nil)
		case 2:
			return w.startCall(spyPlan{start: 3, code: pick(w.rng, 3, 4, 6)}, false, 0, false, 10, 0, nil)
		case 3:
			return w.startCall(spyPlan{start: 4, code: pick(w.rng, 3, 5)}, false, 0, false, 10, 0, nil)
		case 4:
			return w.startCall(spyPlan{dest: ""}, false, 0, false, 10, 0, nil)
		case 5:
			return w.startCall(spyPlan{dest: "127.0.0.1:1"}, false, 0, false, 10, 0, nil)
		default: // caller connection closing: relay-client-conn-inactive
			if !w.startCall(okPlan, true, 1, false, 10, 0, []int{2}) {
				return false
			}
			for w.threads["r0"] != nil {
				if !w.cont("r0") {
					return false
				}
			}
			w.closeConn(0)
			return w.startCall(okPlan, false, 0, false, 10, 0, []int{2})
		}
	case 5: // arg2 appended by the relay host: fragmentingSend with 1 or 2 fragments, or failing
		switch w.rng.Intn(4) {
		case 0:
			return w.startCall(spyPlan{dest: w.daddr, appendN: 10}, false, 0, true, 10, 1, []int{2})
		case 1:
			return w.startCall(spyPlan{dest: w.daddr, appendN: 40000}, false, 0, true, 30000, 2, []int{1, 4})
		case 2: // the destination's send buffer is full while the fragments are flushed
			w.setFull(1, true)
			if !w.startCall(spyPlan{dest: w.daddr, appendN: 40000}, false, 0, true, 30000, 2, []int{2}) {
				return false
			}
			w.calls[len(w.calls)-1].frag = true
			for w.threads["r0"] != nil {
				if !w.cont("r0") {
					return false
				}
			}
			return true
		default:
			return w.startCall(spyPlan{dest: w.daddr, appendN: 10}, false, 0, false, 10, -1, nil)
		}
	case 6: // two or three concurrent calls
		for i := 0; i < pick(w.rng, 2, 3); i++ {
			if !w.startCall(okPlan, w.rng.Intn(2) == 0, pick(w.rng, 0, 1), false, 10, 0, [][]int{{2}, {1, 4}, {5}}[w.rng.Intn(3)]) {
				return false
			}
			for w.threads["r0"] != nil {
				if !w.cont("r0") {
					return false
				}
			}
		}
		return true
	case 8: // T09 (b): a graceful close races with a call that is REJECTED after it was counted as pending
		closeIt := func() {
			if w.rng.Intn(2) == 0 {
				w.closeChan()
			} else {
				w.closeConn(0)
			}
		}
		switch w.rng.Intn(4) {
		case 0: // RelayHost without a destination; the reader parks inside Destination()
			w.t09 = "close-vs-reject:no-destination"
			if !w.startCallU(spyPlan{dest: ""}, 1, -1, nil) {
				return false
			}
			closeIt()
			return w.cont("r0")
		case 1: // connecting to the destination fails
			w.t09 = "close-vs-reject:connect-failure"
			if !w.startCallU(spyPlan{dest: "127.0.0.1:1"}, 1, -2, nil) {
				return false
			}
			closeIt()
			return w.cont("r0")
		case 2: // the destination connection goes away while the reader is parked: no usable connection
			w.t09 = "close-vs-reject:destination-closed"
			if !w.startCallU(okPlan, 1, -2, nil) {
				return false
			}
			w.closeChan()
			return w.cont("r0")
		default: // duplicate id: the reader parks inside Failed(duplicate); the live call ends by its timeout
			w.t09 = "close-vs-reject:duplicate-id"
			if !w.startCall(okPlan, false, 0, false, 10, 0, nil) {
				return false
			}
			for w.threads["r0"] != nil {
				if !w.cont("r0") {
					return false
				}
			}
			if !w.calls[0].admitted {
				return true
			}
			if !w.startCallU(okPlan, 2, 1, w.calls[0]) {
				return false
			}
			closeIt()
			return w.cont("r0")
		}
	case 9: // T09 (b'): a graceful close while a call is in flight; the walk then completes the call (finish / timeout / fail paths)
		if !w.startCall(okPlan, w.rng.Intn(2) == 0, pick(w.rng, 0, 1), false, 10, 0, [][]int{{2}, {1, 4}, {5}, {}}[w.rng.Intn(4)]) {
			return false
		}
		for w.threads["r0"] != nil {
			if !w.cont("r0") {
				return false
			}
		}
		switch w.rng.Intn(3) {
		case 0:
			w.t09 = "close-in-flight:caller-conn"
			w.closeConn(0)
		case 1:
			w.t09 = "close-in-flight:destination-conn"
			w.closeConn(1)
		default:
			w.t09 = "close-in-flight:channel"
			w.closeChan()
		}
		return true
	case 10: // T09 (a): a duplicate call req against the call IN FLIGHT (or its tombstone); the backend stays silent
		if !w.startCall(okPlan, false, 0, false, 10, 0, nil) {
			return false
		}
		for w.threads["r0"] != nil {
			if !w.cont("r0") {
				return false
			}
		}
		c := w.calls[0]
		if !c.admitted {
			return true
		}
		w.t09 = "duplicate-vs-live"
		if w.rng.Intn(4) == 0 { // the originating item has timed out: duplicate against its tombstone
			w.t09 = "duplicate-vs-tombstone"
			if !w.fire(c, true) {
				return false
			}
			th := fmt.Sprintf("t%d", c.tmOrig)
			for w.threads[th] != nil {
				if !w.cont(th) {
					return false
				}
			}
		}
		for i := 0; i < pick(w.rng, 1, 1, 2); i++ {
			if !w.startCallU(okPlan, 0, 1, c) {
				return false
			}
			for w.threads["r0"] != nil {
				if !w.cont("r0") {
					return false
				}
			}
		}
		return true
	default: // request streaming with a cancel, full buffers early
		if w.rng.Intn(2) == 0 {
			w.setFull(pick(w.rng, 0, 1), true)
		}
		return w.startCall(okPlan, true, pick(w.rng, 1, 2, 3), false, 10, 0, [][]int{{2}, {1, 3, 4}, {}}[w.rng.Intn(3)])
	}
}
