package main

// Sub-engine "budget" of engine "cut" (property C05 b): ties the connect / handshake budget
// model (Model/Budget.v connect_ctx, Model/CallPath.v init_deadline) to the implementation.
//
// A ChannelOptions.Dialer records the deadline of the context it is given by Channel.Connect
// and returns a net.Conn wrapper that records every SetDeadline call and whether connection
// I/O happens while no deadline is in force.  For many (context deadline, connect timeout)
// pairs, Channel.Connect (directly, or through BeginCall -> Peer.GetConnection) dials a
// specification-built raw server.  The clock readings inside the library are bracketed by
// readings of the harness (before Connect, on entering the dialer, on SetDeadline); the model
// (run_c05budget) decides whether the observed deadlines lie between its values at the two ends.
//
// Oracle (from the property statement, independent of the model): time spent establishing
// a connection counts against the caller's deadline -- the dialer's context and the
// handshake's connection deadline end no later than the caller's context; no handshake
// byte is read or written while the connection has no deadline.

import (
	"fmt"
	"math/rand"
	"net"
	"sync"
	"time"

	tchannel "github.com/uber/tchannel-go"
	"golang.org/x/net/context"
)

type c05DLCall struct {
	at time.Time // when SetDeadline was called
	t  time.Time // its argument
}

type c05DLConn struct {
	net.Conn
	mu        sync.Mutex
	calls     []c05DLCall
	armed     bool // a non-zero deadline is in force
	ioUnarmed int  // Read/Write calls made before any deadline was ever set
	everSet   bool
}

func (c *c05DLConn) SetDeadline(t time.Time) error {
	c.mu.Lock()
	c.calls = append(c.calls, c05DLCall{at: time.Now(), t: t})
	c.armed = !t.IsZero()
	c.everSet = true
	c.mu.Unlock()
	return c.Conn.SetDeadline(t)
}

func (c *c05DLConn) note() {
	c.mu.Lock()
	if !c.everSet {
		c.ioUnarmed++
	}
	c.mu.Unlock()
}

func (c *c05DLConn) Read(b []byte) (int, error)  { c.note(); return c.Conn.Read(b) }
func (c *c05DLConn) Write(b []byte) (int, error) { c.note(); return c.Conn.Write(b) }

type c05BudgetObs struct {
	mu     sync.Mutex
	tDial  time.Time
	hasDD  bool
	dd     time.Time
	conn   *c05DLConn
	dialed int
}

// c05BudgetServer: accepts, shakes hands as the specification says, keeps the connection open.
func c05BudgetServer(ln net.Listener, stop chan struct{}) {
	for {
		conn, err := ln.Accept()
		if err != nil {
			return
		}
		go func(conn net.Conn) {
			defer conn.Close()
			if _, _, err := rawServerHandshake(conn); err != nil {
				return
			}
			<-stop
		}(conn)
	}
}

type c05BudgetCase struct {
	hasD    bool
	d, ct   time.Duration
	viaCall bool
}

// c05RunBudget runs one case; returns model input, observable, verdict, harness problem.
func c05RunBudget(addr string, bc c05BudgetCase) (in []int64, obs []int64, verdict string, harness string) {
	ob := &c05BudgetObs{}
	opts := &tchannel.ChannelOptions{
		Dialer: func(ctx context.Context, network, hostPort string) (net.Conn, error) {
			now := time.Now()
			dd, has := ctx.Deadline()
			c, err := (&net.Dialer{}).DialContext(ctx, network, hostPort)
			if err != nil {
				return nil, err
			}
			w := &c05DLConn{Conn: c}
			ob.mu.Lock()
			ob.tDial, ob.dd, ob.hasDD, ob.conn = now, dd, has, w
			ob.dialed++
			ob.mu.Unlock()
			return w, nil
		},
	}
	ch, err := tchannel.NewChannel("c05-budget", opts)
	if err != nil {
		return nil, nil, "", "channel: " + err.Error()
	}
	defer ch.Close()

	var ctx context.Context
	var cancel context.CancelFunc
	var callerDL time.Time
	if bc.hasD {
		b := tchannel.NewContextBuilder(bc.d)
		if bc.ct != 0 {
			b = b.SetConnectTimeout(bc.ct)
		}
		ctx, cancel = b.Build()
		callerDL, _ = ctx.Deadline()
	} else {
		ctx, cancel = context.WithCancel(context.Background())
	}
	defer cancel()

	t0 := time.Now()
	if bc.viaCall {
		_, err = ch.BeginCall(ctx, addr, "svc", "m", nil)
	} else {
		_, err = ch.Connect(ctx, addr)
	}
	ob.mu.Lock()
	dialed, tDial, hasDD, dd, conn := ob.dialed, ob.tDial, ob.hasDD, ob.dd, ob.conn
	ob.mu.Unlock()
	if dialed != 1 || conn == nil {
		return nil, nil, "", fmt.Sprintf("the dialer ran %d times (err=%v)", dialed, err)
	}
	conn.mu.Lock()
	calls := append([]c05DLCall(nil), conn.calls...)
	ioUnarmed := conn.ioUnarmed
	conn.mu.Unlock()
	if len(calls) == 0 {
		return nil, nil, fmt.Sprintf("the handshake ran without a connection deadline: SetDeadline was never called (err=%v)", err), ""
	}
	set := calls[0]
	rel := func(t time.Time) int64 { return t.Sub(t0).Nanoseconds() }
	var dRel, ddRel int64
	if bc.hasD {
		dRel = rel(callerDL)
	}
	if hasDD {
		ddRel = rel(dd)
	}
	in = []int64{rel(tDial), b2i(bc.hasD), dRel, bc.ct.Nanoseconds(), b2i(hasDD), ddRel, rel(set.at), rel(set.t)}
	obs = []int64{1, 1}

	// oracle
	switch {
	case ioUnarmed > 0:
		verdict = fmt.Sprintf("%d handshake reads/writes were made before any connection deadline was set", ioUnarmed)
	case set.t.IsZero():
		verdict = "the first SetDeadline of the handshake clears the deadline instead of setting one"
	case bc.hasD && !hasDD:
		verdict = "the caller's context has a deadline but the dialer got a context without one"
	case bc.hasD && dd.After(callerDL):
		verdict = fmt.Sprintf("the dialer's context ends %v after the caller's deadline", dd.Sub(callerDL))
	case bc.hasD && set.t.After(callerDL):
		verdict = fmt.Sprintf("the handshake's connection deadline lies %v after the caller's deadline", set.t.Sub(callerDL))
	case bc.hasD && bc.ct > 0 && dd.After(tDial.Add(bc.ct)):
		verdict = fmt.Sprintf("connect timeout %v: the dialer's context ends %v after (entering the dialer + connect timeout)", bc.ct, dd.Sub(tDial.Add(bc.ct)))
	case !bc.hasD && set.t.After(set.at.Add(5*time.Second+time.Millisecond)):
		verdict = fmt.Sprintf("context without deadline: the handshake deadline is %v after the SetDeadline call (specified: 5 s)", set.t.Sub(set.at))
	}
	if verdict != "" {
		verdict += fmt.Sprintf(" [ctx deadline %v (has=%v), connect timeout %v, via BeginCall=%v]", bc.d, bc.hasD, bc.ct, bc.viaCall)
	}
	return
}

func engineCutBudget(rng *rand.Rand, n int, tier string, o *Out) {
	ln, err := net.Listen("tcp", "127.0.0.1:0")
	if err != nil {
		o.Oracle("c05budget", "listen", false, "listen", "[harness-crash] listen: "+err.Error())
		return
	}
	defer ln.Close()
	stop := make(chan struct{})
	defer close(stop)
	go c05BudgetServer(ln, stop)
	addr := ln.Addr().String()

	var cases []c05BudgetCase
	ms := time.Millisecond
	for _, d := range []time.Duration{150 * ms, 300 * ms, 1000 * ms, 2500 * ms, 60 * time.Second} {
		for _, ct := range []time.Duration{0, -1 * ms, d / 4, d / 2, d - ms, d, d + ms, 2 * d, time.Hour} {
			cases = append(cases, c05BudgetCase{hasD: true, d: d, ct: ct, viaCall: len(cases)%3 == 2})
		}
	}
	extra := 20
	if tier != "quick" {
		extra = 200
	}
	for i := 0; i < extra; i++ {
		d := time.Duration(100+rng.Intn(3000)) * ms
		ct := time.Duration(rng.Intn(4000)) * ms
		if rng.Intn(4) == 0 {
			ct = 0
		}
		if ct > 0 && ct < 40*ms {
			ct = 40 * ms // the connection has to come up for the handshake deadline to be seen
		}
		cases = append(cases, c05BudgetCase{hasD: true, d: d, ct: ct, viaCall: rng.Intn(3) == 0})
	}
	for i := 0; i < 4; i++ {
		cases = append(cases, c05BudgetCase{hasD: false}) // context.Background(): no deadline, no connect timeout
	}
	o.Sample(map[string]interface{}{"sub": "budget", "cases": len(cases),
		"what": "(ctx deadline, connect timeout) pairs: timeout unset / negative / below / equal / above the deadline, no deadline at all; Connect directly and through BeginCall"})
	for i, bc := range cases {
		id := fmt.Sprintf("b%d", i)
		in, obs, v, harness := c05RunBudget(addr, bc)
		if harness != "" {
			// e.g. the connect timeout expired before the dial: nothing to compare
			o.Hist("budget:infeasible")
			o.Oracle("c05budget", id, false, id, "")
			continue
		}
		cls := "ct=0"
		switch {
		case !bc.hasD:
			cls = "no-deadline"
		case bc.ct < 0:
			cls = "ct<0"
		case bc.ct > 0 && bc.ct < bc.d:
			cls = "ct<deadline"
		case bc.ct > 0 && bc.ct == bc.d:
			cls = "ct=deadline"
		case bc.ct > bc.d:
			cls = "ct>deadline"
		}
		o.Hist("budget:" + cls)
		o.Hist(fmt.Sprintf("budget:viaBeginCall=%v", bc.viaCall))
		if in == nil {
			o.Oracle("c05budget", id, true, id, v)
			continue
		}
		o.Case("c05budget", id, in, obs, true, v)
	}
}
