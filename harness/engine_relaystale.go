package main

// relaystale (C09, T09): the model witness C09_timer_protocol_unguarded_refuted
// (Proofs/RelayAdmitP.v ex_stale_finish) replayed on the REAL relay under a forced
// two-goroutine schedule, in a child process of the harness (the defect kills the process):
//
//   call req id X relayed; the destination's FINAL call res is read by the reader of the
//   destination connection, which looks the originating item up (relay.Receive.afterGet: timer
//   stopped, item copy held) and is parked there; the caller sends cancel X (relayed: both items
//   deleted, End) and RE-USES id X at once: no item, admitted, a live item with an armed timer
//   under the same key; the parked reader goes on: finishRelayItem(X).
//
// Property: the process survives, the re-using call keeps its item and pending count and is
// ended exactly once (by its timeout).  On a tree where finishRelayItem deletes by id alone the
// live item of the new call is deleted and the release of its active timer is the Go panic
// "only stopped or completed timers can be released" on the reader goroutine (finding
// c09:stale-finish-deletes-live-item, fixed: relayItems.deleteCall); a recurrence is a violation.

import (
	"bytes"
	"fmt"
	"math/rand"
	"os"
	"os/exec"
	"strings"
	"time"
)

func init() {
	engines["relaystale"] = engineRelayStale
	engines["relaystale-child"] = engineRelayStaleChild
}

const rstPanic = "only stopped or completed timers can be released"

func engineRelayStale(rng *rand.Rand, n int, tier string, o *Out) {
	for i := 0; i < n; i++ {
		seed := rng.Int63()
		dir, err := os.MkdirTemp("", "relaystale")
		if err != nil {
			o.Oracle("relaystale", fmt.Sprintf("stale%d", i), false, "", "harness: "+err.Error())
			continue
		}
		cmd := exec.Command(os.Args[0], "relaystale-child", fmt.Sprint(seed), "1", dir, tier)
		var out bytes.Buffer
		cmd.Stdout, cmd.Stderr = &out, &out
		done := make(chan error, 1)
		if err := cmd.Start(); err != nil {
			o.Oracle("relaystale", fmt.Sprintf("stale%d", i), false, "", "harness: "+err.Error())
			continue
		}
		go func() { done <- cmd.Wait() }()
		var werr error
		select {
		case werr = <-done:
		case <-time.After(40 * time.Second):
			cmd.Process.Kill()
			werr = fmt.Errorf("timeout")
		}
		os.RemoveAll(dir)
		txt := out.String()
		verdict := ""
		nontrivial := true
		switch {
		case strings.Contains(txt, "panic: "+rstPanic):
			verdict = "the relay process died: panic \"" + rstPanic + "\" in finishRelayItem on the reader of the destination connection: " +
				"it had looked the originating item of call req id X up for the final call res (relay.Receive.afterGet), the caller's cancel X was relayed (items deleted, End) and id X re-used (admitted, live item, armed timer); " +
				"the parked reader then deleted the LIVE item of the new call by id and released its active timer"
			o.Hist("child-panicked")
		case strings.Contains(txt, "STALE-INFEASIBLE"):
			nontrivial = false
			o.Hist("infeasible")
		case strings.Contains(txt, "STALE-BAD"):
			verdict = "after the stale finish: " + rstLine(txt, "STALE-BAD")
			o.Hist("bad")
		case werr == nil && strings.Contains(txt, "STALE-SURVIVED"):
			o.Hist("survived")
		default:
			verdict = fmt.Sprintf("harness: child failed (%v): %s", werr, rstTail(txt, 400))
		}
		o.Oracle("relaystale", fmt.Sprintf("stale%d", i), nontrivial, "c09:stale-finish-deletes-live-item", verdict)
		if i == 0 {
			o.Sample(map[string]interface{}{"sub": "relaystale", "child_output": rstTail(txt, 600)})
		}
	}
}

func rstLine(txt, key string) string {
	for _, l := range strings.Split(txt, "\n") {
		if strings.Contains(l, key) {
			return l
		}
	}
	return ""
}

func rstTail(s string, n int) string {
	if len(s) > n {
		return s[len(s)-n:]
	}
	return s
}

// the child: prints STALE-INFEASIBLE / STALE-BAD ... / STALE-SURVIVED, or dies
func engineRelayStaleChild(rng *rand.Rand, n int, tier string, o *Out) {
	w, err := newRsWorld(rng, true, 30000)
	if err != nil {
		fmt.Println("STALE-INFEASIBLE", err)
		return
	}
	okPlan := spyPlan{dest: w.daddr}
	must := func(ok bool) bool {
		if !ok || w.infeas != "" {
			fmt.Println("STALE-INFEASIBLE", w.infeas)
			w.close()
			return false
		}
		return true
	}
	drain := func(th string) bool {
		for w.threads[th] != nil {
			if !must(w.cont(th)) {
				return false
			}
		}
		return true
	}
	if !must(w.startCall(okPlan, false, 0, false, 10, 0, []int{2})) || !drain("r0") {
		return
	}
	c := w.calls[0]
	if !c.admitted {
		fmt.Println("STALE-INFEASIBLE call not admitted")
		w.close()
		return
	}
	// final call res: parks after handleNonCallReq's Get, then after Receive's Get on the originating item
	if !must(w.sendResp(c, 2, 0)) || !must(w.cont("r1")) {
		return
	}
	if t := w.threads["r1"]; t == nil || t.point != "relay.Receive.afterGet" {
		fmt.Println("STALE-INFEASIBLE the destination's reader is not parked at relay.Receive.afterGet")
		w.close()
		return
	}
	// cancel relayed: both items deleted, End of call 1
	if !must(w.sendCancel(c)) || !drain("r0") {
		return
	}
	if s := w.snap(0); s.OutItems != 0 || s.Pending != 0 {
		fmt.Println("STALE-INFEASIBLE the cancel did not complete the call")
		w.close()
		return
	}
	// the id is re-used: admitted
	if !must(w.startCallU(okPlan, 0, 1, c)) || !drain("r0") {
		return
	}
	c2 := w.calls[1]
	if !c2.admitted {
		fmt.Println("STALE-INFEASIBLE the re-using call req was not admitted")
		w.close()
		return
	}
	fmt.Println("STALE-STEP releasing the parked reader: finishRelayItem on the re-used id")
	if !must(w.cont("r1")) || !drain("r1") {
		return
	}
	time.Sleep(50 * time.Millisecond)
	if s := w.snap(0); s.OutItems-s.OutTombs != 1 || s.Pending != 1 {
		fmt.Printf("STALE-BAD the re-using call lost its relay item: connection 0 holds %d live items, pending=%d (want 1, 1)\n", s.OutItems-s.OutTombs, s.Pending)
		w.close()
		return
	}
	// everything that is left happens: the timeouts of the re-using call fire
	if !must(w.finish()) {
		return
	}
	_, spy, _, conns := w.observe(false)
	ends := map[int]int{}
	for _, e := range spy {
		if e.kind == 6 {
			ends[e.call]++
		}
	}
	if ends[1] != 1 || ends[2] != 1 {
		fmt.Printf("STALE-BAD End reported %d times for the cancelled call and %d times for the re-using call (want 1, 1)\n", ends[1], ends[2])
		w.close()
		return
	}
	for k := 0; k < 2; k++ {
		if conns[k].Pending != 0 {
			fmt.Printf("STALE-BAD connection %d keeps pending=%d after every call ended\n", k, conns[k].Pending)
			w.close()
			return
		}
	}
	fmt.Println("STALE-SURVIVED")
	w.close()
}
