package main

import (
	"encoding/binary"
	"fmt"
	"math/rand"
	"net"
	"os"
	"sort"
	"strings"
	"sync"
	"time"

	tchannel "github.com/uber/tchannel-go"
	"golang.org/x/net/context"
)

// peerfx (C03): per-frame correspondence between the dispatch model Model/PeerInput.v
// (handle_frame) and the real reader goroutine.  A real channel (in this process) dials a raw
// peer; the raw peer then sends generated frames one at a time.  After each frame the harness
// waits until the reader goroutine is back in Read with every sent byte consumed (the dialled
// net.Conn is wrapped), lets the writer flush (a marker frame queued behind everything), and
// records: frames received (type, id, error code), calls dispatched (schedule point
// inbound.afterNewExchange), frames put on an exchange's queue, contexts cancelled, whether the
// exchanges were stopped (connection shut down), and a snapshot of the connection state and the
// two exchange maps.  The model is run on the same ops and must print the same lines.
// The oracle is written from the property statement, not from the model: a frame the generator
// built to be malformed or illegal may only be dropped, be answered with one error frame, or
// shut this connection down; it must not dispatch a call or touch another exchange; and the
// reader goroutine must always come back to reading (it is never wedged).

func init() { engines["peerfx"] = enginePeerFx }

// ---- wrapped connection: reader progress and writer stall ----

type fxConn struct {
	net.Conn
	mu       sync.Mutex
	cond     *sync.Cond
	consumed int64
	waiting  bool
	readErr  bool
	stall    bool
	wblocked bool
	closed   bool
}

func (c *fxConn) Close() error {
	c.mu.Lock()
	c.closed = true
	c.cond.Broadcast()
	c.mu.Unlock()
	return c.Conn.Close()
}

func (c *fxConn) Read(p []byte) (int, error) {
	c.mu.Lock()
	c.waiting = true
	c.cond.Broadcast()
	c.mu.Unlock()
	n, err := c.Conn.Read(p)
	c.mu.Lock()
	c.waiting = false
	c.consumed += int64(n)
	if err != nil {
		c.readErr = true
	}
	c.cond.Broadcast()
	c.mu.Unlock()
	return n, err
}

func (c *fxConn) Write(p []byte) (int, error) {
	c.mu.Lock()
	for c.stall {
		c.wblocked = true
		c.cond.Broadcast()
		c.cond.Wait()
	}
	c.wblocked = false
	c.mu.Unlock()
	return c.Conn.Write(p)
}

// waitFor waits (with a deadline) until pred holds under the lock.
func (c *fxConn) waitFor(d time.Duration, pred func() bool) bool {
	deadline := time.Now().Add(d)
	stop := make(chan struct{})
	go func() { // wake the waiter periodically so that the deadline is honoured
		t := time.NewTicker(5 * time.Millisecond)
		defer t.Stop()
		for {
			select {
			case <-stop:
				return
			case <-t.C:
				c.mu.Lock()
				c.cond.Broadcast()
				c.mu.Unlock()
			}
		}
	}()
	defer close(stop)
	c.mu.Lock()
	defer c.mu.Unlock()
	for !pred() {
		if time.Now().After(deadline) {
			return false
		}
		c.cond.Wait()
	}
	return true
}

// ---- handler: records the message id, then blocks until the case is over ----

type fxHandler struct {
	mu      sync.Mutex
	invoked map[uint32]bool
	ctxs    map[uint32]context.Context
	seenErr map[uint32]bool
	release chan struct{}
}

// newlyCancelled lists the calls whose context has ended since the last look.
func (h *fxHandler) newlyCancelled() []uint32 {
	h.mu.Lock()
	defer h.mu.Unlock()
	var out []uint32
	for id, ctx := range h.ctxs {
		if !h.seenErr[id] && ctx.Err() != nil {
			h.seenErr[id] = true
			out = append(out, id)
		}
	}
	sort.Slice(out, func(i, j int) bool { return out[i] < out[j] })
	return out
}

func (h *fxHandler) Handle(ctx context.Context, call *tchannel.InboundCall) {
	id := tchannel.VerifC03CallID(call)
	h.mu.Lock()
	h.invoked[id] = true
	h.ctxs[id] = ctx
	h.mu.Unlock()
	<-h.release
}

func (h *fxHandler) was(id uint32) bool {
	h.mu.Lock()
	defer h.mu.Unlock()
	return h.invoked[id]
}

func (h *fxHandler) count() int {
	h.mu.Lock()
	defer h.mu.Unlock()
	return len(h.invoked)
}

// ---- cases ----

type fxOp struct {
	kind     int    // 0 frame, 1 local Close, 2 local outbound call
	vol      bool   // frame op: the frame's own id is left out of the snapshot
	wire     []byte // frame op: header + the bytes that follow
	eofAfter bool   // the raw peer closes its write side after this frame
	claim    bool   // generator: this frame is malformed or illegal in the state it arrives in
	desc     string
}

type fxCase struct {
	pc      bool
	room    int
	stalled bool
	ops     []fxOp
	desc    string
}

type fxGen struct {
	rng     *rand.Rand
	nextID  uint32
	inIDs   []uint32
	outN    int // outbound calls begun (their ids are only known at run time: placeholders)
	active  bool
	pc      bool
	deliver map[uint32]int
}

func (g *fxGen) fresh() uint32 { g.nextID += uint32(1 + g.rng.Intn(3)); return g.nextID }

const fxOutBase = 0xA0000000 // placeholder ids for outbound calls: fxOutBase+k = the k-th outbound call

var fxKnownTypes = []byte{0x01, 0x02, 0x03, 0x04, 0x13, 0x14, 0xc0, 0xd0, 0xd1, 0xff}

func isKnownType(t byte) bool {
	for _, k := range fxKnownTypes {
		if k == t {
			return true
		}
	}
	return false
}

func validReq(id uint32, nframes int, rng *rand.Rand) [][]byte {
	csum := byte(pick(rng, 0, 1, 3))
	if nframes <= 1 {
		return echoReqFrames(id, "echo", 20000, []byte("a2"), []byte(randBytes(rng, rng.Intn(40))), 65519, csum)
	}
	// first frame: arg1 complete + the start of arg2; then nframes-1 continuations
	max := 120
	a3 := 60
	if nframes == 3 {
		a3 = 150
	}
	fr := echoReqFrames(id, "echo", 20000, []byte(randBytes(rng, 40)), []byte(randBytes(rng, a3)), max, csum)
	return fr
}

func (g *fxGen) frameOp(desc string, wire []byte, claim bool) fxOp {
	return fxOp{kind: 0, wire: wire, claim: claim, desc: desc}
}

// somePoolID: an id that may or may not be in flight
func (g *fxGen) poolID() uint32 {
	if len(g.inIDs) > 0 && g.rng.Intn(2) == 0 {
		return g.inIDs[g.rng.Intn(len(g.inIDs))]
	}
	if g.outN > 0 && g.rng.Intn(2) == 0 {
		return fxOutBase + uint32(g.rng.Intn(g.outN))
	}
	return g.fresh()
}

func (g *fxGen) hasIn(id uint32) bool {
	for _, x := range g.inIDs {
		if x == id {
			return true
		}
	}
	return false
}
func (g *fxGen) isOut(id uint32) bool { return id >= fxOutBase && id < fxOutBase+uint32(g.outN) }

// hostile returns the next op(s) and whether the sequence must end after them.
func (g *fxGen) hostile() ([]fxOp, bool) {
	rng := g.rng
	switch k := rng.Intn(16); k {
	case 0: // unknown message type
		t := byte(rng.Intn(256))
		for isKnownType(t) {
			t = byte(rng.Intn(256))
		}
		return []fxOp{g.frameOp(fmt.Sprintf("unknown message type %#x", t), rawFrameBytes(t, g.poolID(), []byte(randBytes(rng, pick(rng, 0, 1, 7, 60)))), true)}, false
	case 1: // init frames after the handshake
		t := byte(pick(rng, 1, 2))
		return []fxOp{g.frameOp(fmt.Sprintf("init frame %#x after the handshake", t), rawFrameBytes(t, g.poolID(), rawInitPayload(2, defaultInitParams)), true)}, false
	case 2: // duplicate in-flight id
		if len(g.inIDs) == 0 || !g.active {
			return g.hostile()
		}
		id := g.inIDs[rng.Intn(len(g.inIDs))]
		return []fxOp{g.frameOp("call req re-using an in-flight id", validReq(id, 1, rng)[0], true)}, true
	case 3: // truncated call req
		f := validReq(g.fresh(), 1, rng)[0]
		p := f[16:]
		cut := rng.Intn(len(p))
		_, perr := parseRawCall(0x03, p[:cut])
		op := g.frameOp(fmt.Sprintf("call req payload truncated to %d of %d bytes", cut, len(p)), rawFrameBytes(0x03, binary.BigEndian.Uint32(f[4:]), p[:cut]), perr != nil || !g.active)
		op.vol = true
		return []fxOp{op}, true
	case 4: // one payload byte of a valid call req set to a boundary value
		f := append([]byte{}, validReq(g.fresh(), 1, rng)[0]...)
		pos := 16 + rng.Intn(imin(len(f)-16, 70))
		f[pos] = byte(pick(rng, 0, 1, 2, 3, 4, 0x7f, 0x80, 0xfe, 0xff))
		_, perr := parseRawCall(0x03, f[16:])
		op := g.frameOp(fmt.Sprintf("call req with payload byte %d set to %#x", pos-16, f[pos]), f, perr != nil || !g.active)
		op.vol = true
		return []fxOp{op}, true
	case 5: // call req continue: unknown id or in-flight id
		id := g.poolID()
		if g.isOut(id) {
			id = g.fresh()
		}
		if g.hasIn(id) && g.deliver[id] >= 2 {
			id = g.fresh()
		}
		payload := []byte(randBytes(rng, pick(rng, 0, 2, 30)))
		if rng.Intn(2) == 0 {
			payload = []byte{0, 0, 0, 1, 'x'}
		}
		if g.hasIn(id) {
			g.deliver[id]++
		}
		return []fxOp{g.frameOp("call req continue", rawFrameBytes(0x13, id, payload), !g.hasIn(id))}, false
	case 6: // call res / call res continue / ping res: unknown id or an outbound id
		t := byte(pick(rng, 0x04, 0x14, 0xd1))
		id := g.poolID()
		if g.hasIn(id) {
			id = g.fresh()
		}
		if g.isOut(id) && g.deliver[id] >= 2 {
			id = g.fresh()
		}
		if g.isOut(id) {
			g.deliver[id]++
		}
		return []fxOp{g.frameOp(fmt.Sprintf("response-side frame %#x", t), rawFrameBytes(t, id, []byte(randBytes(rng, pick(rng, 0, 3, 40)))), !g.isOut(id))}, false
	case 7: // error frames
		switch rng.Intn(4) {
		case 0:
			p := rawErrorPayload(byte(pick(rng, 1, 3, 5)), zeroTracing, "boo")
			return []fxOp{g.frameOp("error frame with a truncated payload", rawFrameBytes(0xff, g.poolID(), p[:rng.Intn(len(p))]), true)}, true
		case 1:
			return []fxOp{g.frameOp("error frame with the protocol-error code", rawFrameBytes(0xff, g.poolID(), rawErrorPayload(0xff, zeroTracing, "fatal")), false)}, true
		default:
			id := g.poolID()
			if g.hasIn(id) {
				id = g.fresh()
			}
			if g.isOut(id) && g.deliver[id] >= 2 {
				id = g.fresh()
			}
			if g.isOut(id) {
				g.deliver[id]++
			}
			return []fxOp{g.frameOp("error frame", rawFrameBytes(0xff, id, rawErrorPayload(byte(pick(rng, 0, 1, 3, 4, 6, 0x7f)), zeroTracing, "why")), !g.isOut(id))}, false
		}
	case 8: // cancel
		id := g.poolID()
		if g.isOut(id) {
			id = g.fresh()
		}
		payload := append(append([]byte{0, 0, 0, 0}, zeroTracing...), str2("why")...)
		if rng.Intn(2) == 0 {
			payload = []byte(randBytes(rng, rng.Intn(8)))
		}
		legal := g.hasIn(id) && g.pc
		if legal {
			for i, x := range g.inIDs {
				if x == id {
					g.inIDs = append(g.inIDs[:i:i], g.inIDs[i+1:]...)
					break
				}
			}
		}
		return []fxOp{g.frameOp("cancel frame", rawFrameBytes(0xc0, id, payload), !legal)}, false
	case 9: // ping req (with a payload): legal on every connection that is not Closed -- a connection
		// draining after a local Close answers it too (a run ends when the connection reaches Closed,
		// so no generated ping meets a Closed connection) -- and the sequence goes on
		return []fxOp{g.frameOp("ping req", rawFrameBytes(0xd0, g.fresh(), []byte(randBytes(rng, pick(rng, 0, 0, 5)))), false)}, false
	case 10: // size field below the header size
		f := append([]byte{}, validReq(g.fresh(), 1, rng)[0]...)
		sz := pick(rng, 0, 1, 15)
		f[0], f[1] = 0, byte(sz)
		return []fxOp{g.frameOp(fmt.Sprintf("frame header size field %d", sz), f, true)}, true
	case 11: // size field beyond the bytes sent, then the peer closes its side
		f := append([]byte{}, validReq(g.fresh(), 1, rng)[0]...)
		sz := len(f) + 1 + rng.Intn(50)
		f[0], f[1] = byte(sz>>8), byte(sz)
		op := g.frameOp("frame cut short by the peer closing", f, true)
		op.eofAfter = true
		return []fxOp{op}, true
	case 12: // a known type with a random payload
		t := fxKnownTypes[rng.Intn(len(fxKnownTypes))]
		id := g.poolID()
		// a third frame for an exchange nobody reads from makes the reader goroutine wait for
		// the call's deadline (by design: bounded by the TTL the peer itself chose); not generated
		if g.deliver[id] >= 2 {
			id = g.fresh()
		}
		op := g.frameOp(fmt.Sprintf("type %#x with a random payload", t), rawFrameBytes(t, id, []byte(randBytes(rng, rng.Intn(50)))), false)
		op.vol = t == 0x03
		return []fxOp{op}, true
	default: // a valid call req: dispatched on an active connection, declined on a closing one
		n := pick(rng, 1, 1, 2, 3)
		id := g.fresh()
		fr := validReq(id, n, rng)
		var ops []fxOp
		for i, f := range fr {
			if i == 0 {
				ops = append(ops, g.frameOp("valid call req", f, !g.active))
			} else {
				ops = append(ops, g.frameOp("continuation of a valid call req", f, !g.active))
			}
		}
		if g.active {
			g.inIDs = append(g.inIDs, id)
			g.deliver[id] = len(fr) - 1
		}
		return ops, false
	}
}

func genFxCase(rng *rand.Rand) *fxCase {
	g := &fxGen{rng: rng, nextID: uint32(10 + rng.Intn(1000)), active: true, pc: rng.Intn(2) == 0, deliver: map[uint32]int{}}
	c := &fxCase{pc: g.pc, room: 512}
	scen := rng.Intn(10)
	dispatchValid := func(n int) {
		for i := 0; i < n; i++ {
			id := g.fresh()
			fr := validReq(id, pick(rng, 1, 1, 2, 3), rng)
			for j, f := range fr {
				d := "valid call req"
				if j > 0 {
					d = "continuation of a valid call req"
				}
				c.ops = append(c.ops, g.frameOp(d, f, false))
			}
			g.inIDs = append(g.inIDs, id)
			g.deliver[id] = len(fr) - 1
		}
	}
	switch {
	case scen < 2:
		c.desc = "single frame on a fresh connection"
		ops, _ := g.hostile()
		c.ops = ops
		return c
	case scen < 6:
		c.desc = "calls in flight, then hostile frames"
		for i := rng.Intn(3); i > 0; i-- {
			c.ops = append(c.ops, fxOp{kind: 2, desc: "outbound call"})
			g.outN++
		}
		dispatchValid(rng.Intn(3))
	case scen < 9:
		c.desc = "closing connection"
		if rng.Intn(2) == 0 {
			c.ops = append(c.ops, fxOp{kind: 2, desc: "outbound call"})
			g.outN++
		}
		if g.outN == 0 || rng.Intn(2) == 0 {
			dispatchValid(1 + rng.Intn(2))
		}
		c.ops = append(c.ops, fxOp{kind: 1, desc: "local Close"})
		g.active = false
	default:
		c.desc = "stalled writer, small send buffer"
		c.stalled = true
		c.room = 1 + rng.Intn(3)
		dispatchValid(rng.Intn(2))
		if len(g.inIDs) > 0 && rng.Intn(2) == 0 {
			c.ops = append(c.ops, fxOp{kind: 1, desc: "local Close"})
			g.active = false
			for i := 0; i < c.room+1+rng.Intn(2); i++ {
				c.ops = append(c.ops, g.frameOp("valid call req", validReq(g.fresh(), 1, rng)[0], true))
			}
			// a legal frame on the draining connection; its answer finds the send buffer full
			c.ops = append(c.ops, g.frameOp("ping req", rawFrameBytes(0xd0, g.fresh(), nil), false))
		} else {
			for i := 0; i < c.room+1; i++ {
				c.ops = append(c.ops, g.frameOp("ping req", rawFrameBytes(0xd0, g.fresh(), nil), false))
			}
		}
		return c
	}
	for i := 1 + rng.Intn(5); i > 0; i-- {
		ops, end := g.hostile()
		c.ops = append(c.ops, ops...)
		if end {
			break
		}
	}
	return c
}

// ---- running a case ----

const fxMarkerID = 0xfffffff1

var fxLabels []string // outcome classes observed in the current case

type fxRun struct {
	cs      *fxCase
	ch      *tchannel.Channel
	conn    *tchannel.Connection
	raw     net.Conn
	wc      *fxConn
	frames  chan *rawFrame
	h       *fxHandler
	hookMu  sync.Mutex
	hookIDs []uint32
	sent    int64
	outIDs  []uint32
	prevQ   int
}

func encSends(s [][3]uint32) [][]int64 {
	var out [][]int64
	for _, f := range s {
		code := int64(0)
		if f[0] == 0xff {
			code = int64(f[2])
		}
		out = append(out, []int64{1, int64(f[0]), int64(f[1]), code})
	}
	return out
}

func encMexes(ms []tchannel.VerifC03Mex, skip *uint32) []int64 {
	sort.Slice(ms, func(i, j int) bool { return ms[i].ID < ms[j].ID })
	var body []int64
	n := 0
	for _, m := range ms {
		if skip != nil && m.ID == *skip {
			continue
		}
		n++
		body = append(body, int64(m.ID), int64(m.QLen), b2i(m.CtxErr), b2i(m.Notified))
	}
	return append([]int64{int64(n)}, body...)
}

func encSnap(s tchannel.VerifC03Snap, stalled bool, skip *uint32) []int64 {
	q := 0
	if stalled {
		q = s.SendQ
	}
	out := []int64{int64(s.State), int64(q)}
	out = append(out, encMexes(s.In, skip)...)
	return append(out, encMexes(s.Out, skip)...)
}

func findMex(ms []tchannel.VerifC03Mex, id uint32) *tchannel.VerifC03Mex {
	for i := range ms {
		if ms[i].ID == id {
			return &ms[i]
		}
	}
	return nil
}

// others: the exchanges other than `own`, as a comparable string
func othersKey(s tchannel.VerifC03Snap, own uint32) string {
	return fmt.Sprint(encMexes(append([]tchannel.VerifC03Mex{}, s.In...), &own), encMexes(append([]tchannel.VerifC03Mex{}, s.Out...), &own))
}

func (r *fxRun) collect(until func(f *rawFrame) bool, d time.Duration) (got [][3]uint32, eof bool, ok bool) {
	timer := time.NewTimer(d)
	defer timer.Stop()
	for {
		select {
		case f, open := <-r.frames:
			if !open {
				return got, true, false
			}
			if until != nil && until(f) {
				return got, false, true
			}
			var b0 uint32
			if len(f.Payload) > 0 {
				b0 = uint32(f.Payload[0])
			}
			got = append(got, [3]uint32{uint32(f.Type), f.ID, b0})
		case <-timer.C:
			return got, false, false
		}
	}
}

func (r *fxRun) syncReader(d time.Duration, needEOF bool) bool {
	if !r.wc.waitFor(d, func() bool {
		return r.wc.readErr || r.wc.closed || (!needEOF && r.wc.waiting && r.wc.consumed >= r.sent)
	}) {
		return false
	}
	r.wc.mu.Lock()
	gone := r.wc.readErr || r.wc.closed
	r.wc.mu.Unlock()
	if gone {
		// the reader goroutine hit a read error or the network was closed under it: it is in (or
		// past) connectionError; wait until the exchanges have been stopped
		dl := time.Now().Add(d)
		for time.Now().Before(dl) {
			s := tchannel.VerifC03Snapshot(r.conn)
			if s.Stopped && s.InShutdown && s.OutShutdown {
				break
			}
			time.Sleep(200 * time.Microsecond)
		}
	}
	return true
}

// runFxCase returns the model input, the observation in the model's output encoding, and the oracle verdict.
func runFxCase(cs *fxCase) (in []int64, obs []int64, verdict string) {
	fail := func(format string, a ...interface{}) {
		if verdict == "" {
			verdict = fmt.Sprintf(format, a...)
		}
	}
	ln, err := net.Listen("tcp", "127.0.0.1:0")
	if err != nil {
		return nil, nil, "harness: " + err.Error()
	}
	defer ln.Close()
	r := &fxRun{cs: cs, frames: make(chan *rawFrame, 256), h: &fxHandler{invoked: map[uint32]bool{}, ctxs: map[uint32]context.Context{}, seenErr: map[uint32]bool{}, release: make(chan struct{})}}
	var wcMu sync.Mutex
	opts := &tchannel.ChannelOptions{
		Logger:  tchannel.NullLogger,
		Handler: r.h,
		Dialer: func(ctx context.Context, network, hostPort string) (net.Conn, error) {
			c, err := (&net.Dialer{}).DialContext(ctx, network, hostPort)
			if err != nil {
				return nil, err
			}
			w := &fxConn{Conn: c}
			w.cond = sync.NewCond(&w.mu)
			wcMu.Lock()
			r.wc = w
			wcMu.Unlock()
			return w, nil
		},
		DefaultConnectionOptions: tchannel.ConnectionOptions{PropagateCancel: cs.pc, SendBufferSize: cs.room},
	}
	ch, err := tchannel.NewChannel("victim", opts)
	if err != nil {
		return nil, nil, "harness: " + err.Error()
	}
	r.ch = ch
	accepted := make(chan net.Conn, 1)
	go func() {
		c, err := ln.Accept()
		if err != nil {
			accepted <- nil
			return
		}
		if _, _, err := rawServerHandshake(c); err != nil {
			c.Close()
			accepted <- nil
			return
		}
		accepted <- c
	}()
	ctx, cancel := tchannel.NewContext(3 * time.Second)
	conn, err := ch.Connect(ctx, ln.Addr().String())
	cancel()
	if err != nil {
		ch.Close()
		return nil, nil, "harness: connect: " + err.Error()
	}
	r.conn = conn
	r.raw = <-accepted
	if r.raw == nil {
		ch.Close()
		return nil, nil, "harness: raw handshake failed"
	}
	releaseOut := make(chan struct{})
	var releaseOnce sync.Once
	doReleaseOut := func() { releaseOnce.Do(func() { close(releaseOut) }) }
	defer func() {
		doReleaseOut()
		r.wc.mu.Lock()
		r.wc.stall = false
		r.wc.cond.Broadcast()
		r.wc.mu.Unlock()
		close(r.h.release)
		tchannel.VerifSetHook(nil)
		r.raw.Close()
		ch.Close()
	}()
	tchannel.VerifSetHook(func(name string, id uint32) {
		if name == "inbound.afterNewExchange" {
			r.hookMu.Lock()
			r.hookIDs = append(r.hookIDs, id)
			r.hookMu.Unlock()
		}
	})
	go func() {
		defer close(r.frames)
		for {
			f, err := readRawFrame(r.raw, 30*time.Second)
			if err != nil {
				return
			}
			r.frames <- f
		}
	}()
	// the reader goroutine is idle: its byte count is the baseline
	if !r.wc.waitFor(3*time.Second, func() bool { return r.wc.waiting }) {
		return nil, nil, "harness: reader goroutine did not start"
	}
	r.wc.mu.Lock()
	r.sent = r.wc.consumed
	r.wc.mu.Unlock()

	if cs.stalled {
		// park the writer: it takes the answer to this ping and blocks in Write
		r.wc.mu.Lock()
		r.wc.stall = true
		r.wc.mu.Unlock()
		p := rawFrameBytes(0xd0, 5, nil)
		r.raw.Write(p)
		r.sent += int64(len(p))
		if !r.wc.waitFor(3*time.Second, func() bool { return r.wc.wblocked }) || !r.syncReader(3*time.Second, false) {
			return nil, nil, "harness: could not park the writer goroutine"
		}
	}

	in = []int64{b2i(cs.pc), int64(cs.room), b2i(cs.stalled), int64(len(cs.ops))}
	prev := tchannel.VerifC03Snapshot(r.conn)
	handlersBefore := 0
	for oi, op := range cs.ops {
		switch op.kind {
		case 2: // local outbound call
			k := len(r.outIDs)
			go func() {
				ctx, cancel := tchannel.NewContext(20 * time.Second)
				defer cancel()
				call, err := tchannel.VerifC03BeginCall(r.conn, ctx, "rawsvc", "m")
				if err != nil {
					return
				}
				if w, err := call.Arg2Writer(); err == nil {
					w.Write([]byte("o2"))
					w.Close()
				}
				if w, err := call.Arg3Writer(); err == nil {
					w.Write([]byte("o3"))
					w.Close()
				}
				<-releaseOut
				// the caller now waits for its response, as an application would: on a stopped
				// connection this fails at once and removes the exchange
				if rd, err := call.Response().Arg2Reader(); err == nil {
					rd.Close()
				}
			}()
			var id uint32
			_, _, ok := r.collect(func(f *rawFrame) bool {
				if f.Type == 0x03 && len(f.Payload) > 0 && f.Payload[0]&1 == 0 {
					id = f.ID
					return true
				}
				return false
			}, 3*time.Second)
			if !ok {
				return nil, nil, "harness: outbound call req not seen"
			}
			r.outIDs = append(r.outIDs, id)
			_ = k
			in = append(in, 2, int64(id))
			snap := tchannel.VerifC03Snapshot(r.conn)
			obs = append(obs, 0)
			obs = append(obs, encSnap(snap, cs.stalled, nil)...)
			prev = snap
		case 1: // local Close
			r.conn.Close()
			in = append(in, 1)
			snap := tchannel.VerifC03Snapshot(r.conn)
			obs = append(obs, 0)
			obs = append(obs, encSnap(snap, cs.stalled, nil)...)
			prev = snap
			if snap.State == 4 {
				fail("harness: generator closed a connection without exchanges")
				return in, obs, verdict
			}
		default:
			wire := append([]byte{}, op.wire...)
			// placeholder outbound ids -> the real ids
			if id := binary.BigEndian.Uint32(wire[4:]); id >= fxOutBase && int(id-fxOutBase) < len(r.outIDs) {
				binary.BigEndian.PutUint32(wire[4:], r.outIDs[id-fxOutBase])
			}
			own := binary.BigEndian.Uint32(wire[4:])
			in = append(in, 0, b2i(op.vol))
			in = putBytes(in, wire[:16])
			in = putBytes(in, wire[16:])
			r.hookMu.Lock()
			r.hookIDs = nil
			r.hookMu.Unlock()
			r.raw.SetWriteDeadline(time.Now().Add(2 * time.Second))
			if _, err := r.raw.Write(wire); err != nil {
				fail("harness: write to the connection failed at op %d: %v", oi, err)
				return in, obs, verdict
			}
			r.sent += int64(len(wire))
			if op.eofAfter {
				r.raw.(*net.TCPConn).CloseWrite()
			}
			if !r.syncReader(4*time.Second, op.eofAfter) {
				fail("[c03:reader-wedged] after '%s' the reader goroutine did not return to reading within 4s", op.desc)
				return in, obs, verdict
			}
			snap := tchannel.VerifC03Snapshot(r.conn)
			var sends [][3]uint32
			closed := snap.Stopped && !prev.Stopped
			if cs.stalled {
				q := tchannel.VerifC03SendQ(r.conn)
				if len(q) >= r.prevQ {
					sends = q[r.prevQ:]
				}
				r.prevQ = len(q)
			} else if closed {
				doReleaseOut()
				got, eof, _ := r.collect(nil, 4*time.Second)
				sends = got
				if !eof {
					fail("[c03:not-closed] after '%s' the exchanges were stopped but the network connection was not closed within 4s", op.desc)
				}
			} else {
				if !tchannel.VerifC03Flush(r.conn, fxMarkerID, 2*time.Second) {
					fail("harness: could not queue the flush marker")
					return in, obs, verdict
				}
				got, eof, ok := r.collect(func(f *rawFrame) bool { return f.Type == 0xd1 && f.ID == fxMarkerID }, 3*time.Second)
				sends = got
				// eof: the connection reached Closed gracefully meanwhile and the writer has gone
				if !ok && !eof {
					fail("[c03:writer-wedged] after '%s' frames queued on the connection were not written within 3s", op.desc)
					return in, obs, verdict
				}
			}
			r.hookMu.Lock()
			disp := append([]uint32{}, r.hookIDs...)
			r.hookMu.Unlock()
			effects := encSends(sends)
			if closed {
				effects = append(effects, []int64{2})
			}
			for _, d := range disp {
				effects = append(effects, []int64{3, int64(d)})
				if !op.vol && !closed {
					dl := time.Now().Add(3 * time.Second)
					for !r.h.was(d) && time.Now().Before(dl) {
						time.Sleep(200 * time.Microsecond)
					}
				}
			}
			var cancelled []uint32
			if !closed {
				for _, set := range [][2][]tchannel.VerifC03Mex{{prev.In, snap.In}, {prev.Out, snap.Out}} {
					if a, b := findMex(set[0], own), findMex(set[1], own); a != nil && b != nil && b.QLen > a.QLen {
						effects = append(effects, []int64{4, int64(own)})
					}
				}
				cancelled = r.h.newlyCancelled()
				for _, id := range cancelled {
					effects = append(effects, []int64{5, int64(id)})
					// the goroutine watching the call's context removes the exchange
					dl := time.Now().Add(3 * time.Second)
					for time.Now().Before(dl) {
						if findMex(tchannel.VerifC03Snapshot(r.conn).In, id) == nil {
							break
						}
						time.Sleep(200 * time.Microsecond)
					}
				}
			}
			if len(disp) > 0 || len(cancelled) > 0 {
				snap2 := tchannel.VerifC03Snapshot(r.conn)
				closed = closed || (snap2.Stopped && !prev.Stopped)
				snap = snap2
			}
			if len(effects) == 0 {
				effects = [][]int64{{0}}
			}
			obs = append(obs, int64(len(effects)))
			for _, e := range effects {
				obs = append(obs, e...)
				lab := [...]string{"dropped", "frame sent", "connection shut down", "call dispatched", "frame delivered to an exchange", "call cancelled"}[e[0]]
				if e[0] == 1 {
					lab = fmt.Sprintf("frame sent: type %#x code %d", e[1], e[3])
				}
				st := [...]string{"", "active", "start-close", "inbound-closed", "closed"}[prev.State]
				if cs.stalled {
					st += ", stalled writer"
				}
				fxLabels = append(fxLabels, "outcome ("+st+"): "+lab)
			}
			// ---- oracle, from the property statement ----
			if snap.InShutdown != snap.Stopped || snap.OutShutdown != snap.Stopped {
				fail("harness-assumption: stoppedExchanges=%v but mexset shutdown flags are %v/%v after '%s'", snap.Stopped, snap.InShutdown, snap.OutShutdown, op.desc)
			}
			if !closed && othersKey(prev, own) != othersKey(snap, own) && len(cancelled) == 0 {
				fail("[c03:other-exchange-touched] '%s' (id %d) changed an exchange with another id: %s -> %s", op.desc, own, othersKey(prev, own), othersKey(snap, own))
			}
			if op.claim {
				nerr := 0
				for _, s := range sends {
					if s[0] != 0xff {
						fail("[c03:malformed-effect] '%s' was answered with a frame of type %#x", op.desc, s[0])
					}
					nerr++
				}
				if nerr > 1 {
					fail("[c03:malformed-effect] '%s' was answered with %d error frames", op.desc, nerr)
				}
				// a frame the reader accepted (call req header intact) but whose chunks are broken is
				// handed to a goroutine that must reject it before the application handler runs
				for _, d := range disp {
					dl := time.Now().Add(3 * time.Second)
					for time.Now().Before(dl) && !r.h.was(d) && findMex(tchannel.VerifC03Snapshot(r.conn).In, d) != nil {
						time.Sleep(200 * time.Microsecond)
					}
				}
				if r.h.count() > handlersBefore {
					fail("[c03:malformed-effect] '%s' reached the application handler", op.desc)
				}
				if len(cancelled) > 0 {
					fail("[c03:malformed-effect] '%s' cancelled a call", op.desc)
				}
			}
			handlersBefore = r.h.count()
			if snap.Stopped {
				obs = append(obs, -1)
				return in, obs, verdict
			}
			var skip *uint32
			if op.vol {
				skip = &own
			}
			obs = append(obs, encSnap(snap, cs.stalled, skip)...)
			prev = snap
			if snap.State == 4 {
				return in, obs, verdict
			}
		}
	}
	return in, obs, verdict
}

func enginePeerFx(rng *rand.Rand, n int, tier string, o *Out) {
	for i := 0; i < n; i++ {
		cs := genFxCase(rng)
		fxLabels = nil
		in, obs, verdict := runFxCase(cs)
		for _, l := range fxLabels {
			o.Hist(l)
		}
		var descs []string
		for _, op := range cs.ops {
			descs = append(descs, op.desc)
		}
		o.Hist(cs.desc)
		for _, op := range cs.ops {
			if op.kind == 0 {
				d := strings.SplitN(op.desc, " to ", 2)[0]
				if strings.HasPrefix(d, "call req with payload byte") {
					d = "call req with one payload byte set to a boundary value"
				}
				if strings.HasPrefix(d, "unknown message type") {
					d = "unknown message type"
				}
				o.Hist("frame: " + d)
			}
		}
		if i < 3 {
			o.Sample(map[string]interface{}{"sub": "peerfx", "scenario": cs.desc, "ops": descs})
		}
		if dbg := os.Getenv("VERIF_FX_DEBUG"); dbg != "" {
			fmt.Fprintf(os.Stderr, "fx%d %s: %s\n", i, cs.desc, strings.Join(descs, " | "))
		}
		if in == nil {
			o.Oracle("peerfx", fmt.Sprintf("fx%d", i), false, fmt.Sprint(i), verdict)
			continue
		}
		o.Case("peerfx", fmt.Sprintf("fx%d", i), in, obs, true, verdict)
	}
}
