package main

// Engine "mex" (property C04): operation scripts against the REAL messageExchangeSet /
// messageExchange (through the overlay wrappers, no sockets), compared with the model's
// run_mex, plus oracles written from the property statement: frames reach only the
// exchange registered under their id, in arrival order and without holes; a duplicate live
// id is rejected; a frame is refused only when the exchange's context is done or its error
// latch is set.  Sub-engine "mexids": Connection.NextMessageID under concurrent callers.
//
// A script is executed by one controller goroutine.  Forward and Recv run in their own
// goroutines (they can block); after every operation the controller waits until every such
// goroutine has returned or is parked in a select / at the schedule point
// mex.forward.afterLookup (read off the goroutine's scheduler state, never a timing guess).

import (
	"bytes"
	"context"
	"fmt"
	"math/rand"
	"runtime"
	"sort"
	"strconv"
	"sync"
	"sync/atomic"
	"time"

	tchannel "github.com/uber/tchannel-go"
)

func init() { engines["mex"] = engineMex }

// scripted context: fires on demand with DeadlineExceeded (1) or Canceled (2)
type mexCtx struct {
	mu   sync.Mutex
	done chan struct{}
	err  error
	kind int
}

func newMexCtx() *mexCtx                            { return &mexCtx{done: make(chan struct{})} }
func (c *mexCtx) Deadline() (time.Time, bool)       { return time.Time{}, false }
func (c *mexCtx) Done() <-chan struct{}             { return c.done }
func (c *mexCtx) Value(key interface{}) interface{} { return nil }
func (c *mexCtx) Err() error                        { c.mu.Lock(); defer c.mu.Unlock(); return c.err }
func (c *mexCtx) fire(kind int) {
	c.mu.Lock()
	defer c.mu.Unlock()
	if c.err != nil {
		return
	}
	if kind == 1 {
		c.err = context.DeadlineExceeded
	} else {
		c.err = context.Canceled
	}
	c.kind = kind
	close(c.done)
}

func curGID() int64 {
	var b [64]byte
	n := runtime.Stack(b[:], false)
	f := bytes.Fields(b[:n])
	if len(f) < 2 {
		return -1
	}
	id, _ := strconv.ParseInt(string(f[1]), 10, 64)
	return id
}

var stackBuf = make([]byte, 1<<20)

// goroutineStatus returns the scheduler state text of goroutine gid ("select", "chan receive",
// "runnable", ...), or "" if it no longer exists.
func goroutineStatus(gid int64) string {
	n := runtime.Stack(stackBuf, true)
	key := []byte(fmt.Sprintf("goroutine %d [", gid))
	i := bytes.Index(stackBuf[:n], key)
	if i < 0 {
		return ""
	}
	rest := stackBuf[i+len(key) : n]
	j := bytes.IndexAny(rest, "],")
	if j < 0 {
		return ""
	}
	return string(rest[:j])
}

type asyncOp struct {
	gid   int64
	ready chan struct{}
	done  int32
	res   []int64
	fid   uint32 // id of the received frame (consumer)
}

func startAsync(fn func(op *asyncOp)) *asyncOp {
	op := &asyncOp{ready: make(chan struct{})}
	go func() {
		op.gid = curGID()
		close(op.ready)
		fn(op)
		atomic.StoreInt32(&op.done, 1)
	}()
	<-op.ready
	return op
}

// settled waits until the goroutine has returned (true) or is blocked (false).
func (op *asyncOp) settled() bool {
	for i := 0; ; i++ {
		if atomic.LoadInt32(&op.done) == 1 {
			return true
		}
		st := goroutineStatus(op.gid)
		if st == "select" || st == "chan receive" {
			// blocked inside forwardPeerFrame / recvPeerFrame, or parked at the schedule point
			if atomic.LoadInt32(&op.done) == 1 {
				return true
			}
			return false
		}
		if i > 200000 {
			return false
		}
		runtime.Gosched()
	}
}

type shEx struct {
	id         uint32
	cap        int
	vm         *tchannel.VerifMex
	ctx        *mexCtx
	registered bool // statement-level bookkeeping: from a successful newExchange to its own removal
	latched    bool
	shutCalled bool
	consumer   *asyncOp
	arrivals   []uint32
	accepted   []uint32
	received   []uint32
}

type mexOp struct{ k, a, b, d int64 }

func genMexScript(rng *rand.Rand, hostile bool) []mexOp {
	n := 6 + rng.Intn(34)
	var ops []mexOp
	// the generator keeps a light shadow only to produce mostly-meaningful scripts
	nex := 0
	parked, readerBusyGuess := false, false
	tag := int64(0)
	idPool := int64(2 + rng.Intn(4))
	for len(ops) < n {
		x := rng.Intn(100)
		switch {
		case x < 15 || nex == 0:
			cap := int64(pick(rng, 1, 2, 2, 2, 3))
			id := 1 + rng.Int63n(idPool)
			if hostile && rng.Intn(6) == 0 {
				id = int64(pick(rng, 0, 4294967295))
			}
			ops = append(ops, mexOp{0, id, cap, 0})
			nex++
		case x < 52:
			if parked {
				ops = append(ops, mexOp{2, 0, 0, 0})
				parked = false
				continue
			}
			tag++
			park := int64(0)
			if rng.Intn(5) == 0 {
				park = 1
				parked = true
			}
			id := 1 + rng.Int63n(idPool)
			ops = append(ops, mexOp{1, id, tag, park})
			_ = readerBusyGuess
		case x < 58:
			if parked {
				ops = append(ops, mexOp{2, 0, 0, 0})
				parked = false
			}
		case x < 78:
			ops = append(ops, mexOp{3, int64(rng.Intn(nex)), 0, 0})
		case x < 83:
			ops = append(ops, mexOp{4, int64(rng.Intn(nex)), int64(1 + rng.Intn(2)), 0})
		case x < 90:
			ops = append(ops, mexOp{5, int64(rng.Intn(nex)), 0, 0})
		case x < 93:
			ops = append(ops, mexOp{6, int64(rng.Intn(nex)), 0, 0})
		case x < 95:
			ops = append(ops, mexOp{7, 1 + rng.Int63n(idPool), 0, 0})
		case x < 97:
			ops = append(ops, mexOp{8, int64(10 + rng.Intn(5)), 0, 0})
		default:
			ops = append(ops, mexOp{9, 0, 0, 0})
		}
	}
	return ops
}

// focused scripts: one or two exchanges with small queues, many forwards/receives around a
// single stopExchanges / context event (full queue + error latch + late frames)
func genMexFocused(rng *rand.Rand) []mexOp {
	var ops []mexOp
	nex := 1 + rng.Intn(2)
	for i := 0; i < nex; i++ {
		ops = append(ops, mexOp{0, int64(1 + i), int64(pick(rng, 1, 2, 2)), 0})
	}
	n := 10 + rng.Intn(25)
	event := 2 + rng.Intn(n-4)
	tag := int64(0)
	parked := false
	for i := 0; i < n; i++ {
		if i == event {
			switch rng.Intn(4) {
			case 0:
				ops = append(ops, mexOp{4, int64(rng.Intn(nex)), int64(1 + rng.Intn(2)), 0})
			case 1:
				ops = append(ops, mexOp{5, int64(rng.Intn(nex)), 0, 0})
			default:
				ops = append(ops, mexOp{8, int64(10 + rng.Intn(5)), 0, 0})
			}
			continue
		}
		if parked && rng.Intn(2) == 0 {
			ops = append(ops, mexOp{2, 0, 0, 0})
			parked = false
			continue
		}
		if rng.Intn(5) < 3 {
			tag++
			park := int64(0)
			if !parked && rng.Intn(8) == 0 {
				park, parked = 1, true
			}
			ops = append(ops, mexOp{1, int64(1 + rng.Intn(nex)), tag, park})
		} else {
			ops = append(ops, mexOp{3, int64(rng.Intn(nex)), 0, 0})
		}
	}
	return ops
}

// fixed scripts: boundary / known-interesting schedules
func fixedMexScripts() [][]mexOp {
	return [][]mexOp{
		// error latch set while the queue is full, a later frame arrives after the consumer made room
		{{0, 7, 2, 0}, {1, 7, 1, 0}, {1, 7, 2, 0}, {8, 10, 0, 0}, {1, 7, 3, 0}, {3, 0, 0, 0}, {1, 7, 4, 0}, {3, 0, 0, 0}, {3, 0, 0, 0}, {3, 0, 0, 0}},
		// the same with the forwarder blocked on the full queue when the latch is set
		{{0, 7, 2, 0}, {1, 7, 1, 0}, {1, 7, 2, 0}, {1, 7, 3, 0}, {8, 11, 0, 0}, {3, 0, 0, 0}, {1, 7, 4, 0}, {3, 0, 0, 0}, {3, 0, 0, 0}, {3, 0, 0, 0}},
		// lookup, then the exchange is shut down and the id re-registered before delivery
		{{0, 3, 2, 0}, {1, 3, 1, 1}, {5, 0, 0, 0}, {0, 3, 2, 0}, {2, 0, 0, 0}, {3, 1, 0, 0}, {3, 0, 0, 0}, {1, 3, 2, 0}, {9, 0, 0, 0}},
		// duplicate live id, then reuse after shutdown
		{{0, 5, 2, 0}, {0, 5, 2, 0}, {5, 0, 0, 0}, {0, 5, 1, 0}, {0, 5, 1, 0}, {9, 0, 0, 0}},
		// consumer waiting first, frames of two ids interleaved
		{{0, 1, 2, 0}, {0, 2, 2, 0}, {3, 0, 0, 0}, {3, 1, 0, 0}, {1, 2, 1, 0}, {1, 1, 2, 0}, {1, 2, 3, 0}, {1, 1, 4, 0}, {3, 0, 0, 0}, {3, 1, 0, 0}},
		// context done while the forwarder is blocked, and while a consumer waits
		{{0, 1, 1, 0}, {1, 1, 1, 0}, {1, 1, 2, 0}, {4, 0, 1, 0}, {3, 0, 0, 0}, {0, 2, 1, 0}, {3, 1, 0, 0}, {4, 1, 2, 0}, {1, 2, 3, 0}},
		// expiry then stale shutdown, stop after shutdown, new after stop
		{{0, 4, 2, 0}, {6, 0, 0, 0}, {1, 4, 1, 0}, {5, 0, 0, 0}, {8, 12, 0, 0}, {8, 13, 0, 0}, {0, 4, 2, 0}, {9, 0, 0, 0}},
	}
}

func engineMex(rng *rand.Rand, n int, tier string, o *Out) {
	sched := NewSched()
	defer sched.Close()
	parkArrivals := 0
	const point = "mex.forward.afterLookup"

	runScript := func(cid string, ops []mexOp, kind string) {
		set := tchannel.VerifNewMexSet("outbound")
		var exs []*shEx
		var fwd *asyncOp
		var fwdTarget *shEx
		var fwdTag uint32
		parked := false
		tagID := map[uint32]uint32{}
		aliasRisk := false // set once a removal keyed by id has hit an exchange other than the caller's
		stopped := false
		verdict := ""
		fail := func(format string, a ...interface{}) {
			if verdict == "" {
				verdict = fmt.Sprintf(format, a...)
			}
		}
		in := []int64{int64(len(ops))}
		var obs []int64

		findRegistered := func(id uint32) *shEx {
			for _, e := range exs {
				if e.registered && e.id == id {
					return e
				}
			}
			return nil
		}
		deregister := func(id uint32) {
			if e := findRegistered(id); e != nil {
				e.registered = false
			}
		}

		// shutdown()/inboundExpired() of exchange e remove whatever is registered under e's id
		staleRemoval := func(e *shEx, what string) {
			victim := findRegistered(e.id)
			if victim == nil {
				return
			}
			victim.registered = false
			if victim == e {
				return
			}
			exch, _, _, _, _ := set.Snapshot()
			gone := true
			for _, k := range exch {
				if k == e.id {
					gone = false
				}
			}
			if gone {
				aliasRisk = true
				fail("[c04:stale-removal-by-id] %s of a finished exchange with id %d removed the NEWER exchange registered under the re-used id: its further frames are dropped as unknown", what, e.id)
			}
		}

		// wait for all goroutines to return or block; append the completions
		settle := func() {
			var fdone []int64
			cdone := map[int][]int64{}
			for {
				progress := false
				if fwd != nil && fwd.settled() {
					fdone = fwd.res
					code := fwd.res[0]
					o.Hist(fmt.Sprintf("forward-result=%d", code))
					if code == 0 && fwdTarget != nil {
						fwdTarget.accepted = append(fwdTarget.accepted, fwdTag)
					}
					if code != 0 && !aliasRisk {
						if fwdTarget == nil {
							fail("forwardPeerFrame returned error %d for a frame whose id has no registered exchange", code)
						} else if fwdTarget.ctx.kind == 0 && !fwdTarget.latched {
							fail("frame %d for id %d refused with error %d although the exchange's context is live and its error latch is clear", fwdTag, fwdTarget.id, code)
						}
					}
					fwd, fwdTarget, parked = nil, nil, false
					progress = true
				}
				for ref, e := range exs {
					if e.consumer != nil && e.consumer.settled() {
						res := e.consumer.res
						cdone[ref] = res
						if len(res) == 1 {
							o.Hist(fmt.Sprintf("recv-error=%d", res[0]))
							if res[0] >= 3 && !aliasRisk && len(e.accepted) > len(e.received) {
								fail("recvPeerFrame of the exchange for id %d returned the latched error %d although %d frame(s) accepted before were still queued: frames that had already arrived (possibly the complete response) are lost to the caller", e.id, res[0], len(e.accepted)-len(e.received))
							}
						}
						if res[0] == 0 && len(res) == 2 {
							tg := uint32(res[1])
							e.received = append(e.received, tg)
							if e.consumer.fid != e.id || tagID[tg] != e.id {
								fail("exchange for id %d received frame (id %d, tag %d) of another call", e.id, e.consumer.fid, tg)
							}
						}
						e.consumer = nil
						progress = true
					}
				}
				if !progress {
					break
				}
			}
			if fwd != nil {
				if parked {
					o.Hist("forwarder-parked-after-lookup")
				} else {
					o.Hist("forwarder-blocked-on-full-queue")
				}
			}
			if fdone != nil {
				obs = append(obs, 1, fdone[0])
			} else {
				obs = append(obs, 0)
			}
			refs := make([]int, 0, len(cdone))
			for r := range cdone {
				refs = append(refs, r)
			}
			sort.Ints(refs)
			obs = append(obs, int64(len(refs)))
			for _, r := range refs {
				obs = append(obs, int64(r), int64(len(cdone[r])))
				obs = append(obs, cdone[r]...)
			}
		}

		for _, op := range ops {
			in = append(in, op.k, op.a, op.b, op.d)
			o.Hist(fmt.Sprintf("op=%d", op.k))
			switch op.k {
			case 0:
				id := uint32(op.a)
				ctx := newMexCtx()
				vm, code := set.NewExchange(ctx, func() { ctx.fire(2) }, id, int(op.b))
				live := findRegistered(id)
				if code == 0 {
					exs = append(exs, &shEx{id: id, cap: int(op.b), vm: vm, ctx: ctx, registered: true})
					obs = append(obs, 0, int64(len(exs)-1))
					if !aliasRisk && (live != nil || stopped) {
						fail("newExchange(id %d) succeeded although the id is in flight (%v) / the set is shut down (%v)", id, live != nil, stopped)
					}
				} else {
					obs = append(obs, int64(code))
					if !aliasRisk && live == nil && !stopped {
						fail("newExchange(id %d) rejected with %d although the id is not in flight", id, code)
					}
					if !aliasRisk && live != nil && !stopped && code != 5 {
						fail("newExchange(id %d) on a live id returned %d, want the duplicate error", id, code)
					}
				}
			case 1:
				if fwd != nil {
					obs = append(obs, -2)
					break
				}
				id, tag := uint32(op.a), uint32(op.b)
				tagID[tag] = id
				fwdTarget, fwdTag = findRegistered(id), tag
				if fwdTarget != nil {
					fwdTarget.arrivals = append(fwdTarget.arrivals, tag)
				}
				if op.d != 0 {
					sched.ParkAt(point)
					parked = true
				}
				fwd = startAsync(func(a *asyncOp) { a.res = []int64{int64(set.Forward(id, tag))} })
				if op.d != 0 {
					parkArrivals++
					if !sched.WaitArrived(point, parkArrivals, 5*time.Second) {
						fail("harness: forwarder did not reach the schedule point")
					}
					sched.Unpark(point)
					obs = append(obs, 1)
				} else {
					obs = append(obs, 0)
				}
			case 2:
				obs = append(obs, b2i(parked))
				if parked {
					sched.Release(point)
					parked = false
				}
			case 3:
				ref := int(op.a)
				if ref < 0 || ref >= len(exs) {
					obs = append(obs, -1)
					break
				}
				e := exs[ref]
				if e.consumer != nil {
					obs = append(obs, -2)
					break
				}
				obs = append(obs, 0)
				e.consumer = startAsync(func(a *asyncOp) {
					code, tag, fid := e.vm.RecvID()
					a.fid = fid
					if code == 0 {
						a.res = []int64{0, int64(tag)}
					} else {
						a.res = []int64{int64(code)}
					}
				})
			case 4:
				ref := int(op.a)
				if ref < 0 || ref >= len(exs) || (op.b != 1 && op.b != 2) {
					obs = append(obs, -1)
					break
				}
				exs[ref].ctx.fire(int(op.b))
				obs = append(obs, 0)
			case 5:
				ref := int(op.a)
				if ref < 0 || ref >= len(exs) {
					obs = append(obs, -1)
					break
				}
				e := exs[ref]
				won := e.vm.Shutdown()
				obs = append(obs, int64(won))
				e.latched, e.shutCalled = true, true
				if won == 1 {
					staleRemoval(e, "shutdown()")
				}
			case 6:
				ref := int(op.a)
				if ref < 0 || ref >= len(exs) {
					obs = append(obs, -1)
					break
				}
				e := exs[ref]
				e.vm.Expire()
				staleRemoval(e, "inboundExpired()")
				obs = append(obs, 0)
			case 7:
				set.Remove(uint32(op.a))
				deregister(uint32(op.a))
				obs = append(obs, 0)
			case 8:
				was := set.Stop(tchannel.VerifStopErr{Code: int(op.a)})
				obs = append(obs, int64(was))
				if !stopped {
					for _, e := range exs {
						if e.registered {
							e.latched = true
						}
					}
				}
				stopped = true
			case 9:
				c := set.Count()
				obs = append(obs, int64(c))
				want := 0
				for _, e := range exs {
					if e.registered {
						want++
					}
				}
				if !aliasRisk && c != want {
					fail("count() = %d, %d exchanges are in flight", c, want)
				}
			default:
				obs = append(obs, -1)
			}
			settle()
		}

		// final dump (before the clean-up, which does not touch the queues)
		exch, expired, shutdown, added, removed := set.Snapshot()
		obs = append(obs, int64(len(exch)))
		for _, k := range exch {
			obs = append(obs, int64(k))
		}
		obs = append(obs, int64(len(expired)))
		for _, k := range expired {
			obs = append(obs, int64(k))
		}
		obs = append(obs, b2i(shutdown), added, removed)
		type exDump struct{ ctx, err, shut int64 }
		dumps := make([]exDump, len(exs))
		for i, e := range exs {
			dumps[i] = exDump{int64(e.ctx.kind), int64(e.vm.ErrCode()), b2i(e.vm.IsShut())}
		}
		// clean-up: unblock everything
		for _, e := range exs {
			e.ctx.fire(2)
		}
		sched.ReleaseAll()
		deadline := time.Now().Add(3 * time.Second)
		stuck := false
		wait := func(a *asyncOp) {
			for a != nil && atomic.LoadInt32(&a.done) == 0 {
				if time.Now().After(deadline) {
					stuck = true
					return
				}
				time.Sleep(50 * time.Microsecond)
			}
		}
		wait(fwd)
		for _, e := range exs {
			wait(e.consumer)
		}
		if stuck {
			fail("a goroutine inside forwardPeerFrame/recvPeerFrame did not return after its context was cancelled")
		}
		obs = append(obs, int64(len(exs)))
		for i, e := range exs {
			left := e.vm.Drain()
			obs = append(obs, int64(e.id), dumps[i].ctx, dumps[i].err, dumps[i].shut, int64(len(left)))
			for _, tg := range left {
				obs = append(obs, int64(tg))
			}
			// statement-level oracles per exchange
			if !isPrefix(e.received, e.arrivals) {
				key := ""
				if e.latched {
					key = "[c04:frame-gap-after-error-latch] "
				}
				fail("%sexchange for id %d received tags %v; the frames that arrived for it while registered were %v: not an initial segment (a frame was skipped or reordered)", key, e.id, e.received, e.arrivals)
			}
			if !aliasRisk {
				got := append(append([]uint32{}, e.received...), left...)
				if !equalU32(got, e.accepted) {
					fail("exchange for id %d: frames accepted by forwardPeerFrame %v, frames received+queued %v", e.id, e.accepted, got)
				}
			}
		}
		nontrivial := len(exs) > 0
		o.Hist("kind=" + kind)
		o.Hist(fmt.Sprintf("len=%d", (len(ops)/10)*10))
		if aliasRisk {
			o.Hist("stale-removal-hit-a-newer-exchange")
		}
		if len(o.samples) < 2 {
			o.Sample(map[string]interface{}{"sub": "mex", "ops(kind,a,b,d)": fmt.Sprint(ops), "exchanges": len(exs)})
		}
		o.Case("mex", cid, in, obs, nontrivial, verdict)
	}

	for i, sc := range fixedMexScripts() {
		runScript(fmt.Sprintf("f%d", i), sc, "fixed")
	}
	for c := 0; c < n; c++ {
		hostile := c%7 == 6
		kind := "random"
		if hostile {
			kind = "random-boundary-ids"
		}
		if c%4 == 1 {
			runScript(fmt.Sprintf("s%d", c), genMexFocused(rng), "focused-latch-and-full-queue")
			continue
		}
		runScript(fmt.Sprintf("s%d", c), genMexScript(rng, hostile), kind)
	}

	// ---- NextMessageID ----
	starts := []uint32{0, 1, 4294967295, 4294967293, 4294967200, 2147483647}
	nids := n / 10
	if nids < 12 {
		nids = 12
	}
	for c := 0; c < nids; c++ {
		start := starts[c%len(starts)]
		if c >= len(starts) {
			start = rng.Uint32()
		}
		cnt := 1 + rng.Intn(300)
		g := 1 + rng.Intn(8)
		per := tchannel.VerifNextMessageIDs(start, cnt, g)
		var all []uint32
		verdict := ""
		for _, l := range per {
			all = append(all, l...)
		}
		sort.Slice(all, func(i, j int) bool { return all[i]-start-1 < all[j]-start-1 })
		seen := map[uint32]bool{}
		for _, id := range all {
			if seen[id] {
				verdict = fmt.Sprintf("NextMessageID handed out id %d twice within %d allocations", id, cnt)
			}
			seen[id] = true
		}
		obs := make([]int64, len(all))
		for i, id := range all {
			obs[i] = int64(id)
		}
		o.Hist("kind=mexids")
		o.Case("mexids", fmt.Sprintf("i%d", c), []int64{int64(start), int64(cnt)}, obs, true, verdict)
	}
}

func isPrefix(a, b []uint32) bool {
	if len(a) > len(b) {
		return false
	}
	for i := range a {
		if a[i] != b[i] {
			return false
		}
	}
	return true
}

func equalU32(a, b []uint32) bool {
	if len(a) != len(b) {
		return false
	}
	for i := range a {
		if a[i] != b[i] {
			return false
		}
	}
	return true
}
