package main

// C10, strengthening V10 (part A): the relay's timeout against the frame that finishes the call.
//
// Extra cases of engine relaywire (called from engineRelaySched), on the same real relay / raw
// peers / spying RelayHost / schedule controller (rsWorld).  In every case the timeout timer of
// the ORIGINATING item of a relayed call has fired (the Go runtime has started relayTimer.OnTimer)
// BEFORE the destination sends the frame that finishes the call; the finishing frame is then
// looked up on the caller connection's relayer (Relayer.Receive -> relayItems.Get(id, true) ->
// relayTimer.Stop) at a chosen place of the timeout goroutine:
//
//	window 1  parked at relayTimer.OnTimer: fired, not yet marked inactive
//	window 2  RelayMaxTombs = 1 and two tombstones: parked INSIDE relayItems.Entomb, in the logger
//	          call "Too many tombstones, deleting relay item immediately." between Unlock and Delete
//	          (ChannelOptions.Logger, public API): marked inactive, item still live
//	window 3  default RelayMaxTombs: the reader and the timeout goroutine are both held at the
//	          entrance of their critical sections (the write lock of the relayItems table, taken by
//	          the harness), the reader queued first: it runs relayItems.Get after the callback
//	          marked the timer inactive and before Entomb -- then both park at their next points
//	          (relay.Receive.afterGet / relay.timeout.afterEntomb) and are released in either order
//	window 4  parked at relay.timeout.afterEntomb: the item is a tombstone (or deleted)
//
// x finishing frame (call res without the more flag / error frame / the last continuation of a
// response whose first fragment was forwarded before the timeout) x who continues first x
// PropagateCancel x RelayMaxTombs {default, 1} x relay timers fresh / recycled from the pool
// (RelayTimerVerification off after warm-up calls: a recycled timer was stopped in its former life).
//
// Oracle, from the property statement ("if a relayed call's response does not finish within its
// time-to-live the caller receives exactly one timeout error frame and late response frames are
// discarded; never two terminal frames"): on the caller's connection the frames of the id are the
// response fragments forwarded before the timeout followed by exactly ONE error frame with code
// timeout -- nothing else, in particular no call res / continuation frame after the timer fired.
// The case is also replayed by the model (sub relaysched, macro 8 = ONE instruction of a thread:
// the callback's marking) and classified by the proved predicates (sub relaycalm).

import (
	"fmt"
	"math/rand"
	"runtime"
	"strings"
	"sync/atomic"
	"time"

	tchannel "github.com/uber/tchannel-go"
)

func init() { rsParkPoints["c10timer.log.tombs"] = true }

// c10TimerRecycle: read by newRsWorld (RelayTimerVerification = !c10TimerRecycle)
var c10TimerRecycle bool

// c10TimerLog is NullLogger plus one park point: the warning relayItems.Entomb logs between
// Unlock and Delete when there are more than RelayMaxTombs tombstones.
type c10TimerLog struct {
	tchannel.Logger
	w  *rsWorld
	id uint32
}

func c10TimerLoggerFor(w *rsWorld) tchannel.Logger {
	return &c10TimerLog{Logger: tchannel.NullLogger, w: w}
}

func (l *c10TimerLog) WithFields(fields ...tchannel.LogField) tchannel.Logger {
	n := &c10TimerLog{Logger: tchannel.NullLogger, w: l.w, id: l.id}
	for _, f := range fields {
		if f.Key == "id" {
			if v, ok := f.Value.(uint32); ok {
				n.id = v
			}
		}
	}
	return n
}

func (l *c10TimerLog) Warn(msg string) {
	if strings.HasPrefix(msg, "Too many tombstones") && atomic.CompareAndSwapInt32(&l.w.c10LogPark, 1, 0) {
		l.w.ctl.hook("c10timer.log.tombs", l.id)
	}
}

type c10TimerCase struct {
	window   int // 1..4, see above
	final    int // sendResp kind of the finishing frame: 2 call res (last), 5 error frame, 4 last continuation (a Res[more] was forwarded before)
	first    int // 0 the reader continues first after the race, 1 the timeout goroutine
	maxTombs int
	cancelOn bool
	recycle  bool
}

func (cs c10TimerCase) String() string {
	return fmt.Sprintf("window=%d final=%d first=%d maxTombs=%d cancel=%v recycle=%v", cs.window, cs.final, cs.first, cs.maxTombs, cs.cancelOn, cs.recycle)
}

// c10TimerWaitBlocked waits until some goroutine is blocked on a mutex inside the named function.
func c10TimerWaitBlocked(fn string, d time.Duration) bool {
	buf := make([]byte, 4<<20)
	deadline := time.Now().Add(d)
	for {
		n := runtime.Stack(buf, true)
		for _, g := range strings.Split(string(buf[:n]), "\n\n") {
			if strings.Contains(g, fn) && (strings.Contains(g, "sync.(*RWMutex).Lock") || strings.Contains(g, "sync.(*Mutex).Lock") || strings.Contains(g, "sync.(*Mutex).lockSlow")) {
				return true
			}
		}
		if time.Now().After(deadline) {
			return false
		}
		time.Sleep(200 * time.Microsecond)
	}
}

func (w *rsWorld) c10RunAll(th string) bool {
	for i := 0; i < 12 && w.threads[th] != nil; i++ {
		if !w.cont(th) {
			return false
		}
	}
	if w.threads[th] != nil {
		w.infeas = "thread " + th + " does not finish"
		return false
	}
	return true
}

// c10ContMarked (window 2): the timeout goroutine runs from relayTimer.OnTimer through
// markTimerInactive into relayItems.Entomb and parks inside its too-many-tombstones warning.
// Model: ONE instruction of the thread (ITimerRun), macro 8.
func (w *rsWorld) c10ContMarked(th string, c *rsCallSt) bool {
	t := w.threads[th]
	if t == nil || !t.parked || t.point != "relayTimer.OnTimer" {
		w.infeas = "timeout goroutine is not parked at relayTimer.OnTimer"
		return false
	}
	atomic.StoreInt32(&w.c10LogPark, 1)
	w.markSuspects(t.call, th)
	w.macros = append(w.macros, 8, 1, c.tmOrig, w.mask())
	w.nmacro++
	w.tr("cont-one %s (callback marks the timer inactive; parks in the too-many-tombstones warning)", th)
	tok := t.tok
	t.parked = false
	ok := w.run(th, t.call, func() { close(tok) }, "relayTimer.OnTimer.done", c.origID)
	atomic.StoreInt32(&w.c10LogPark, 0)
	if !ok {
		return false
	}
	if nt := w.threads[th]; nt == nil || nt.point != "c10timer.log.tombs" {
		w.infeas = "the timeout goroutine did not reach the too-many-tombstones warning of relayItems.Entomb"
		return false
	}
	return true
}

// c10LockWindow (window 3): reader r1 is parked at relay.nonCallReq.afterGet with the finishing
// frame, the timeout goroutine at relayTimer.OnTimer.  Both are released while the harness holds
// the write lock of the caller connection's outbound relayItems: the reader queues at
// relayItems.Get first, then the callback marks the timer inactive and queues at
// relayItems.Entomb; the lock is released; both run to their next park points.
func (w *rsWorld) c10LockWindow(th string, c *rsCallSt) bool {
	tR, tT := w.threads["r1"], w.threads[th]
	if tR == nil || !tR.parked || tR.point != "relay.nonCallReq.afterGet" {
		w.infeas = "reader of the destination connection is not parked at relay.nonCallReq.afterGet"
		return false
	}
	if tT == nil || !tT.parked || tT.point != "relayTimer.OnTimer" {
		w.infeas = "timeout goroutine is not parked at relayTimer.OnTimer"
		return false
	}
	unlock := tchannel.VerifC10LockRelayItems(w.connH[0], false)
	held := true
	defer func() {
		if held {
			unlock()
		}
	}()
	mark := w.ctl.mark()
	w.markSuspects(tR.call, "r1")
	tR.parked = false
	close(tR.tok)
	if !c10TimerWaitBlocked("(*relayItems).Get", 2*time.Second) {
		w.infeas = "the reader did not reach the lock of relayItems.Get"
		return false
	}
	tT.parked = false
	close(tT.tok)
	if !c10TimerWaitBlocked("(*relayItems).Entomb", 2*time.Second) {
		w.infeas = "the timeout goroutine did not reach the lock of relayItems.Entomb"
		return false
	}
	// model: the callback's marking (one instruction), the reader up to relay.Receive.afterGet, the Entomb
	w.macros = append(w.macros, 8, 1, c.tmOrig, w.mask())
	w.macros = append(w.macros, 1, 0, 1, w.mask())
	w.macros = append(w.macros, 1, 1, c.tmOrig, w.mask())
	w.nmacro += 3
	w.tr("lock window: reader queued at relayItems.Get, then callback marked inactive and queued at relayItems.Entomb; unlock")
	w.lastTomb = time.Now()
	held = false
	unlock()
	delete(w.threads, "r1")
	delete(w.threads, th)
	gotR, gotT := false, false
	order := ""
	deadline := time.Now().Add(3 * time.Second)
	for !(gotR && gotT) {
		w.ctl.mu.Lock()
		evs := append([]rsEvent(nil), w.ctl.events[mark:]...)
		w.ctl.mu.Unlock()
		gotR, gotT, order = false, false, ""
		for _, e := range evs {
			switch {
			case !gotR && e.tok != nil && (e.name == "relay.Receive.afterGet" || e.name == "relay.nonCallReq.afterGet"):
				w.threads["r1"] = &rsThread{parked: true, tok: e.tok, point: e.name, call: c.idx}
				gotR = true
				order += "R"
			case !gotR && e.tok == nil && e.name == "conn.readFrames.handled" && e.id == w.connID[1]:
				gotR = true
				order += "R"
			case !gotT && e.tok != nil && e.name == "relay.timeout.afterEntomb":
				w.threads[th] = &rsThread{parked: true, tok: e.tok, point: e.name, call: c.idx}
				gotT = true
				order += "T"
			case !gotT && e.tok == nil && e.name == "relayTimer.OnTimer.done" && e.id == c.origID:
				gotT = true
				order += "T"
			}
		}
		if gotR && gotT {
			break
		}
		if time.Now().After(deadline) {
			w.infeas = "after the unlock the reader and the timeout goroutine did not both reach their next points"
			return false
		}
		time.Sleep(200 * time.Microsecond)
	}
	w.t09 = "c10timer:lock-window:" + order
	w.noteDrained()
	return true
}

// one case; returns the oracle verdict ("" = as the statement demands)
func c10TimerRun(rng *rand.Rand, cs c10TimerCase, o *Out, id string) {
	c10TimerRecycle = cs.recycle
	w, err := newRsWorld(rng, cs.cancelOn, cs.maxTombs)
	c10TimerRecycle = false
	if err != nil {
		o.Oracle("relaysched", id, false, "", "harness: "+err.Error())
		return
	}
	okPlan := spyPlan{dest: w.daddr}
	var c *rsCallSt
	prefix := ""
	ok := func() bool {
		start := func(resp []int) *rsCallSt {
			if !w.startCall(okPlan, false, 0, false, 10, 0, resp) || !w.c10RunAll("r0") {
				return nil
			}
			x := w.calls[len(w.calls)-1]
			if !x.admitted {
				w.infeas = "call req was not admitted"
				return nil
			}
			return x
		}
		if cs.recycle {
			// warm-up: complete calls put their (stopped) relay timers back into the pool
			for i := 0; i < 3; i++ {
				x := start(nil)
				if x == nil || !w.sendResp(x, 2, 0) || !w.c10RunAll("r1") {
					return false
				}
			}
		}
		if cs.maxTombs == 1 {
			// two calls time out: two tombstones in the caller connection's table (> RelayMaxTombs)
			for i := 0; i < 2; i++ {
				x := start(nil)
				if x == nil || !w.fire(x, true) || !w.c10RunAll(fmt.Sprintf("t%d", x.tmOrig)) {
					return false
				}
			}
		}
		if c = start(nil); c == nil {
			return false
		}
		if cs.final == 4 {
			// the first fragment of the response is forwarded in time
			if !w.sendResp(c, 1, 0) || !w.c10RunAll("r1") {
				return false
			}
			prefix = "Res[more] "
		}
		// the call's time-to-live expires: the runtime starts relayTimer.OnTimer
		if !w.fire(c, true) {
			return false
		}
		th := fmt.Sprintf("t%d", c.tmOrig)
		if w.threads[th] == nil {
			w.infeas = "the originating timer was not pending"
			return false
		}
		sendFinal := func() bool { return w.sendResp(c, cs.final, 3) }
		switch cs.window {
		case 1:
			if !sendFinal() || !w.cont("r1") {
				return false
			}
		case 2:
			if !sendFinal() || !w.c10ContMarked(th, c) || !w.cont("r1") {
				return false
			}
		case 3:
			if !sendFinal() || !w.c10LockWindow(th, c) {
				return false
			}
		default:
			if !w.cont(th) || !sendFinal() || !w.cont("r1") {
				return false
			}
		}
		if cs.first == 0 {
			return w.c10RunAll("r1") && w.c10RunAll(th)
		}
		return w.c10RunAll(th) && w.c10RunAll("r1")
	}()
	finished := ok && w.infeas == "" && w.finish()
	if w.infeas != "" || !finished {
		o.Hist("c10timer:infeasible: " + w.infeas)
		o.Oracle("relaysched", id, false, "", "")
		w.close()
		return
	}
	obs, spy, frames, _ := w.observe(false)
	var mine []rsFrame
	for _, f := range frames[0] {
		if f.id == c.origID && (f.typ == 0x04 || f.typ == 0x14 || f.typ == 0xff) {
			mine = append(mine, f)
		}
	}
	want := prefix + "Err(1)"
	verdict := ""
	if got := rsWireString(mine); got != want {
		verdict = fmt.Sprintf("c10timer (%v): the timeout of relayed call id %d fired in the relay before the destination sent the frame that finishes it: the caller must receive exactly [%s], received [%s] (schedule: %s)",
			cs, c.origID, want, got, strings.Join(w.trace, "; "))
	}
	if verdict == "" {
		// the other calls of the case (warm-up, tombstones): the generic grammar oracle
		verdict = w.oracleC10(frames[0])
	}
	in := append([]int64{int64(cs.maxTombs), b2i(cs.cancelOn), 2, int64(w.nmacro)}, w.macros...)
	o.Case("relaysched", id, in, obs, true, verdict)
	sv, gv := rsCalmBits(spy, frames[0])
	o.Case("relaycalm", id+"-calm", append(append([]int64(nil), in...), sv, gv), []int64{1}, true, "")
	o.Hist(fmt.Sprintf("c10timer:window=%d", cs.window))
	o.Hist(fmt.Sprintf("c10timer:final=%d", cs.final))
	o.Hist(fmt.Sprintf("c10timer:maxTombs=%d recycle=%v", cs.maxTombs, cs.recycle))
	if w.t09 != "" {
		o.Hist(w.t09)
	}
	w.close()
}

func c10TimerCases(rng0 *rand.Rand, n int, tier string, o *Out) {
	rng := rand.New(rand.NewSource(rng0.Int63()))
	rounds := 1
	if tier != "quick" {
		rounds = 4
	}
	k := 0
	for r := 0; r < rounds; r++ {
		for window := 1; window <= 4; window++ {
			for _, final := range []int{2, 5, 4} {
				for first := 0; first < 2; first++ {
					cs := c10TimerCase{window: window, final: final, first: first, maxTombs: 30000, cancelOn: rng.Intn(2) == 0, recycle: k%3 == 2}
					if window == 2 || (window != 3 && rng.Intn(3) == 0) {
						cs.maxTombs = 1
					}
					c10TimerRun(rng, cs, o, fmt.Sprintf("c10t%d", k))
					k++
				}
			}
		}
	}
}
