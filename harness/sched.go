package main

import (
	"fmt"
	"sync"
	"time"

	tchannel "github.com/uber/tchannel-go"
)

// Sched is the controller behind the verifPoint schedule points of /repo (build tag verif).
// Modes: log every point; park goroutines at selected (name,id) points until released.
type Sched struct {
	mu      sync.Mutex
	log     []SchedEvent
	park    map[string]bool            // point names (or name#id) at which goroutines are parked
	waiting map[string][]chan struct{} // parked goroutines by key
	arrived map[string]int
	cond    *sync.Cond
}

type SchedEvent struct {
	Name string
	ID   uint32
}

func NewSched() *Sched {
	s := &Sched{park: map[string]bool{}, waiting: map[string][]chan struct{}{}, arrived: map[string]int{}}
	s.cond = sync.NewCond(&s.mu)
	tchannel.VerifSetHook(s.hook)
	return s
}

func (s *Sched) Close() { s.ReleaseAll(); tchannel.VerifSetHook(nil) }

func key(name string, id uint32) string { return fmt.Sprintf("%s#%d", name, id) }

func (s *Sched) hook(name string, id uint32) {
	s.mu.Lock()
	s.log = append(s.log, SchedEvent{name, id})
	k := ""
	if s.park[key(name, id)] {
		k = key(name, id)
	} else if s.park[name] {
		k = name
	}
	if k == "" {
		s.mu.Unlock()
		return
	}
	ch := make(chan struct{})
	s.waiting[k] = append(s.waiting[k], ch)
	s.arrived[k]++
	s.cond.Broadcast()
	s.mu.Unlock()
	<-ch
}

// ParkAt makes goroutines stop at the named point (all ids) from now on.
func (s *Sched) ParkAt(name string) { s.mu.Lock(); s.park[name] = true; s.mu.Unlock() }

// ParkAtID makes goroutines stop at the named point for one id.
func (s *Sched) ParkAtID(name string, id uint32) {
	s.mu.Lock()
	s.park[key(name, id)] = true
	s.mu.Unlock()
}

// Unpark stops parking new arrivals at the point (already parked ones stay until Release).
func (s *Sched) Unpark(k string) { s.mu.Lock(); delete(s.park, k); s.mu.Unlock() }

// WaitArrived waits until n goroutines in total have arrived at key k (name or name#id).
func (s *Sched) WaitArrived(k string, n int, timeout time.Duration) bool {
	deadline := time.Now().Add(timeout)
	s.mu.Lock()
	defer s.mu.Unlock()
	for s.arrived[k] < n {
		if time.Now().After(deadline) {
			return false
		}
		s.mu.Unlock()
		time.Sleep(time.Millisecond)
		s.mu.Lock()
	}
	return true
}

// Release lets one goroutine parked at k continue; false if none is parked.
func (s *Sched) Release(k string) bool {
	s.mu.Lock()
	defer s.mu.Unlock()
	w := s.waiting[k]
	if len(w) == 0 {
		return false
	}
	close(w[0])
	s.waiting[k] = w[1:]
	return true
}

func (s *Sched) ReleaseAll() {
	s.mu.Lock()
	defer s.mu.Unlock()
	s.park = map[string]bool{}
	for k, w := range s.waiting {
		for _, ch := range w {
			close(ch)
		}
		delete(s.waiting, k)
	}
}

func (s *Sched) Log() []SchedEvent {
	s.mu.Lock()
	defer s.mu.Unlock()
	return append([]SchedEvent(nil), s.log...)
}
