package main

// Engine "c15score" (property C15): the score a list STORES for a peer is the score of the peer's
// LIVE state -- at every quiescent moment, for every list, for every member.
//
// A hub channel with its own peer list (default strategy) and an isolated sub-channel list
// (least-pending), 2..3 remote channels on the loopback, and in front of every remote a TCP
// forwarder: an address the hub can DIAL whose remote ANNOUNCES another host:port (an alias peer:
// the connection then belongs to two peers of the hub).  Random histories of
//     connect (to the announced address or through the forwarder), accept (a remote dials the hub),
//     close (either side), start / finish a held call over a chosen connection,
//     Add / Remove of announced, alias and never-connected addresses on either list, SetStrategy
//     (the three library calculators and a custom ScoreCalculatorFunc), Get.
// After EVERY operation the harness waits until the hub's peers report the connections and pending
// calls the harness itself knows of (its own bookkeeping: which connection was dialled where, which
// calls it holds), and then requires, from the statement alone:
//     IntrospectList score of every entry of every list == strategy(list)(live connections, pending)
//     Get(nil) returns a member with the minimum such score.
// A stale entry is re-read for another second (700 ms of polling, then three readings 100 ms
// apart) before it is reported (a re-scoring in flight is not a violation; a score that stays
// wrong is).  Every history also goes through the extracted
// model (Model/C15Score.v run_c15score: stored and live score of every entry after every
// operation; proved equal to each other, theorem C15_score_sequential).
//
// FORCED OVERLAPS (the window between "the score was computed" and "the score was published"):
// every list's calculator is wrapped; when armed for (list, peer) the wrapper computes the score,
// then lets the harness run a status change of the SAME peer (connect, close, a call starting or
// finishing) on another goroutine and waits up to 150 ms for it before it returns the score it
// had computed.  With the score computed and published under one hold of the list's write lock
// the other operation blocks on that lock (the wait times out, both then finish, the entry is
// fresh); if the score is computed outside the critical section that publishes it, the other
// operation runs to its end inside the window and the list keeps the older score.  Armed for the
// GetScore calls of PeerList.Add, of onPeerChange (a call starting while another one finishes)
// and of SetStrategy.  A fourth variant parks Add at the schedule point peerlist.Add.afterRootAdd.

import (
	"bytes"
	"fmt"
	"io"
	"math"
	"math/rand"
	"net"
	"sort"
	"sync"
	"time"

	tchannel "github.com/uber/tchannel-go"
	"github.com/uber/tchannel-go/raw"
	"golang.org/x/net/context"
)

const c15scWindow = 150 * time.Millisecond

// ---------------------------------------------------------------- TCP forwarder (an alias address)

type c15scFwd struct {
	ln     net.Listener
	target string
	mu     sync.Mutex
	conns  []net.Conn
	closed bool
}

func newC15scFwd(target string) (*c15scFwd, error) {
	ln, err := net.Listen("tcp", "127.0.0.1:0")
	if err != nil {
		return nil, err
	}
	f := &c15scFwd{ln: ln, target: target}
	go func() {
		for {
			c, err := ln.Accept()
			if err != nil {
				return
			}
			d, err := net.Dial("tcp", f.target)
			if err != nil {
				c.Close()
				continue
			}
			f.mu.Lock()
			if f.closed {
				f.mu.Unlock()
				c.Close()
				d.Close()
				return
			}
			f.conns = append(f.conns, c, d)
			f.mu.Unlock()
			go func() { io.Copy(d, c); d.Close(); c.Close() }()
			go func() { io.Copy(c, d); c.Close(); d.Close() }()
		}
	}()
	return f, nil
}

func (f *c15scFwd) HostPort() string { return f.ln.Addr().String() }

func (f *c15scFwd) Close() {
	f.mu.Lock()
	f.closed = true
	cs := f.conns
	f.conns = nil
	f.mu.Unlock()
	f.ln.Close()
	for _, c := range cs {
		c.Close()
	}
}

// ---------------------------------------------------------------- the wrapped calculator

type c15scHook struct {
	mu      sync.Mutex
	list    int
	hp      string // real host:port the hook is armed for ("" = not armed)
	entered chan struct{}
	resume  chan struct{}
}

func (h *c15scHook) arm(list int, hp string) (entered, resume chan struct{}) {
	h.mu.Lock()
	defer h.mu.Unlock()
	h.list, h.hp = list, hp
	h.entered, h.resume = make(chan struct{}), make(chan struct{})
	return h.entered, h.resume
}

func (h *c15scHook) disarm() {
	h.mu.Lock()
	h.hp = ""
	h.mu.Unlock()
}

// fire: called by a calculator after it computed a score
func (h *c15scHook) fire(list int, hp string) {
	h.mu.Lock()
	if h.hp == "" || h.hp != hp || h.list != list {
		h.mu.Unlock()
		return
	}
	h.hp = ""
	entered, resume := h.entered, h.resume
	h.mu.Unlock()
	close(entered)
	select {
	case <-resume:
	case <-time.After(c15scWindow + 2*time.Second): // the harness always resumes; this is a safety net
	}
}

// strategy codes: 0 preferIncoming, 1 leastPending, 2 zero (the library's), 3 custom
func c15scCustom(in, out, pend int) uint64 {
	return uint64(in)*1000003 + uint64(out)*1009 + uint64(pend)*7 + 11
}

func c15scCalc(strat, list int, h *c15scHook) tchannel.ScoreCalculator {
	return tchannel.ScoreCalculatorFunc(func(p *tchannel.Peer) uint64 {
		var s uint64
		if strat == 3 {
			in, out := p.NumConnections()
			s = c15scCustom(in, out, p.NumPendingOutbound())
		} else {
			s = tchannel.VerifScoreCalculator(strat).GetScore(p)
		}
		h.fire(list, p.HostPort())
		return s
	})
}

// the score the STATEMENT gives a peer with these live attributes
func c15scExpect(strat, in, out, pend int) uint64 {
	switch strat {
	case 0:
		if in+out == 0 {
			return math.MaxUint64
		}
		if in > 0 {
			return uint64(pend)
		}
		return uint64(math.MaxInt32) + uint64(pend)
	case 1:
		if in+out == 0 {
			return math.MaxUint64
		}
		return uint64(pend)
	case 2:
		return 0
	}
	return c15scCustom(in, out, pend)
}

// ---------------------------------------------------------------- the world of one case

type c15scConn struct {
	id      int
	ann     string // symbolic names
	dial    string // "" for inbound
	inb     bool
	open    bool
	pend    int
	hub     *tchannel.Connection // the hub's object
	rem     *tchannel.Connection // the remote's object (inbound only)
	hubID   uint32
	closing bool
}

type c15scCall struct {
	conn *c15scConn
	tok  string
	done chan error
}

type c15scWorld struct {
	rng     *rand.Rand
	o       *Out
	caseID  string
	hub     *tchannel.Channel
	hubHP   string
	lists   []*tchannel.PeerList
	strat   []int
	member  []map[string]bool // symbolic members of each list
	remotes []*tchannel.Channel
	holds   []*c15lnHold
	real    map[string]string // symbolic -> real host:port
	syms    []string
	conns   []*c15scConn
	calls   []*c15scCall
	hook    *c15scHook
	ctx     context.Context
	nextID  int
	tokn    int
	in      []int64 // model case
	obs     []int64
	nops    int
	markIn  int // length of w.in / number of ops at the last dump
	markOps int
	busy    *c15scConn // a connection a call is being started on: not to be closed by the overlapping operation
	closers []func()
}

func (w *c15scWorld) remoteOf(sym string) int { return int(sym[1] - '0') }

// expected live attributes of a peer, from the harness's own bookkeeping
func (w *c15scWorld) attrs(sym string) (in, out, pend int) {
	for _, c := range w.conns {
		if !c.open {
			continue
		}
		if c.inb && c.ann == sym {
			in++
			pend += c.pend
		}
		if !c.inb && (c.ann == sym || c.dial == sym) {
			out++
			pend += c.pend
		}
	}
	return
}

func (w *c15scWorld) liveAttrs(sym string) (in, out, pend int) {
	p, ok := w.hub.RootPeers().Get(w.real[sym])
	if !ok {
		return 0, 0, 0
	}
	in, out = p.NumConnections()
	return in, out, p.NumPendingOutbound()
}

// the live attributes of every peer, as one comparable value
func (w *c15scWorld) liveAll() string {
	s := ""
	for _, sym := range w.syms {
		i, o, p := w.liveAttrs(sym)
		s += fmt.Sprintf("%d/%d/%d ", i, o, p)
	}
	return s
}

func (w *c15scWorld) symOf(realHP string) string {
	for s, r := range w.real {
		if r == realHP {
			return s
		}
	}
	return "?" + realHP
}

// stale: the entries whose stored score differs from the expected one, and membership differences
func (w *c15scWorld) stale() []string {
	var bad []string
	for j, l := range w.lists {
		seen := map[string]bool{}
		for _, e := range l.IntrospectList(nil) {
			sym := w.symOf(e.HostPort)
			seen[sym] = true
			if !w.member[j][sym] {
				bad = append(bad, fmt.Sprintf("list %d holds %s which was not added", j, sym))
				continue
			}
			in, out, pend := w.attrs(sym)
			if want := c15scExpect(w.strat[j], in, out, pend); e.Score != want {
				bad = append(bad, fmt.Sprintf("list %d (strategy %d) stores score %d for peer %s, whose live state (inbound=%d outbound=%d pending=%d) scores %d",
					j, w.strat[j], e.Score, sym, in, out, pend, want))
			}
		}
		for sym := range w.member[j] {
			if !seen[sym] {
				bad = append(bad, fmt.Sprintf("list %d lost member %s", j, sym))
			}
		}
	}
	sort.Strings(bad)
	return bad
}

// settle: wait until the hub's peers report what the harness expects; then until no entry is stale.
// returns (infeasible, verdict)
func (w *c15scWorld) settle(what string) (bool, string) {
	deadline := time.Now().Add(3 * time.Second)
	for {
		ok := true
		for _, sym := range w.syms {
			ei, eo, ep := w.attrs(sym)
			li, lo, lp := w.liveAttrs(sym)
			if ei != li || eo != lo || ep != lp {
				ok = false
				break
			}
		}
		if ok {
			break
		}
		if time.Now().After(deadline) {
			w.o.Hist("infeasible: peers did not reach the expected state after: " + what[:c15scMin(len(what), 60)])
			if len(w.o.samples) < 5 {
				exp := ""
				for _, sym := range w.syms {
					i, o, p := w.attrs(sym)
					exp += fmt.Sprintf("%d/%d/%d ", i, o, p)
				}
				w.o.Sample(map[string]interface{}{"infeasible": what, "expected": exp, "live": w.liveAll(), "history": w.history()})
			}
			return true, ""
		}
		time.Sleep(time.Millisecond)
	}
	// the peers are in the expected state: every score must follow
	deadline = time.Now().Add(700 * time.Millisecond)
	var bad []string
	for {
		bad = w.stale()
		if len(bad) == 0 {
			return false, ""
		}
		if time.Now().After(deadline) {
			break
		}
		time.Sleep(2 * time.Millisecond)
	}
	// reproduce: three more readings, 100 ms apart
	for k := 0; k < 3; k++ {
		time.Sleep(100 * time.Millisecond)
		if len(w.stale()) == 0 {
			return false, ""
		}
	}
	// a list entry that points at a Peer object other than the root list's (known finding
	// c16:peer-collected-during-add: the collector deleted the peer while Add held it) is re-scored
	// from the orphan: not this property's subject
	for j, l := range w.lists {
		for hp, lp := range l.Copy() {
			if rp, ok := w.hub.RootPeers().Get(hp); !ok || rp != lp {
				w.o.Hist(fmt.Sprintf("infeasible: list %d holds an orphan Peer object (known finding c16:peer-collected-during-add)", j))
				return true, ""
			}
		}
	}
	// the attributes must still be the expected ones (nothing else moved)
	for _, sym := range w.syms {
		ei, eo, ep := w.attrs(sym)
		li, lo, lp := w.liveAttrs(sym)
		if ei != li || eo != lo || ep != lp {
			return true, ""
		}
	}
	return false, fmt.Sprintf("after op %d (%s), 1 s after the peers reached their final state: %s; history: %s", w.nops, what, bad[0], w.history())
}

func (w *c15scWorld) history() string {
	s := ""
	for _, c := range w.conns {
		d := "inbound"
		if !c.inb {
			d = "dialled " + c.dial
		}
		s += fmt.Sprintf("[conn %d announced %s %s open=%v pending=%d] ", c.id, c.ann, d, c.open, c.pend)
	}
	for j := range w.lists {
		var ms []string
		for m := range w.member[j] {
			ms = append(ms, m)
		}
		sort.Strings(ms)
		s += fmt.Sprintf("[list %d strategy %d members %v] ", j, w.strat[j], ms)
	}
	return s
}

// observable of the implementation in the model's encoding
func (w *c15scWorld) dump() {
	w.obs = append(w.obs, 1, int64(len(w.lists)))
	for j, l := range w.lists {
		type ent struct {
			sym    string
			stored uint64
			live   uint64
		}
		var es []ent
		for _, e := range l.IntrospectList(nil) {
			sym := w.symOf(e.HostPort)
			in, out, pend := w.attrs(sym)
			es = append(es, ent{sym, e.Score, c15scExpect(w.strat[j], in, out, pend)})
		}
		sort.Slice(es, func(a, b int) bool { return bytes.Compare([]byte(es[a].sym), []byte(es[b].sym)) < 0 })
		w.obs = append(w.obs, int64(len(es)))
		for _, e := range es {
			w.obs = putBytes(w.obs, []byte(e.sym))
			w.obs = append(w.obs, 2, int64(e.stored), int64(e.live))
		}
	}
	w.markIn, w.markOps = len(w.in), w.nops
}

func (w *c15scWorld) emit(silent bool, code int64, rest ...int64) {
	if silent {
		code += 100
	}
	w.in = append(w.in, code)
	w.in = append(w.in, rest...)
	w.nops++
}

func c15scBytes(s string) []int64 { return putBytes(nil, []byte(s)) }

// ---------------------------------------------------------------- operations (bookkeeping + the real call)

type c15scOp struct {
	what   string
	run    func() error // the real operation (may block while another one holds a list lock)
	commit func()       // harness bookkeeping once it has returned
	emit   func(silent bool)
	peer   string // the peer whose status changes ("" = none)
}

func (w *c15scWorld) opConnect(target string) *c15scOp {
	ann := "r" + target[1:2]
	c := &c15scConn{id: w.nextID, ann: ann, dial: target}
	w.nextID++
	return &c15scOp{
		what: fmt.Sprintf("hub dials %s (remote announces %s) as connection %d", target, ann, c.id),
		peer: target,
		run: func() error {
			conn, err := w.hub.Connect(w.ctx, w.real[target])
			if err != nil {
				return err
			}
			c.hub = conn
			c.hubID = tchannel.VerifC15ScConnID(conn)
			return nil
		},
		commit: func() { c.open = true; w.conns = append(w.conns, c) },
		emit: func(silent bool) {
			w.emit(silent, 0, append(append([]int64{int64(c.id)}, c15scBytes(ann)...), c15scBytes(target)...)...)
		},
	}
}

func (w *c15scWorld) opAccept(i int) *c15scOp {
	ann := fmt.Sprintf("r%d", i)
	c := &c15scConn{id: w.nextID, ann: ann, inb: true}
	w.nextID++
	return &c15scOp{
		what: fmt.Sprintf("remote %s dials the hub as connection %d", ann, c.id),
		peer: ann,
		run: func() error {
			conn, err := w.remotes[i].Connect(w.ctx, w.hubHP)
			if err != nil {
				return err
			}
			c.rem = conn
			return nil
		},
		commit: func() { c.open = true; w.conns = append(w.conns, c) },
		emit:   func(silent bool) { w.emit(silent, 1, append([]int64{int64(c.id)}, c15scBytes(ann)...)...) },
	}
}

// the hub's object of an inbound connection: the inbound connection of the peer that no record owns yet
func (w *c15scWorld) bindInbound() {
	for _, c := range w.conns {
		if !c.inb || c.hub != nil || !c.open {
			continue
		}
		p, ok := w.hub.RootPeers().Get(w.real[c.ann])
		if !ok {
			continue
		}
		in, _ := tchannel.VerifC15ScPeerConns(p)
		for _, x := range in {
			owned := false
			for _, d := range w.conns {
				if d.hub != nil && d.hubID == x.ID {
					owned = true
				}
			}
			if !owned {
				c.hub, c.hubID = x.Conn, x.ID
				break
			}
		}
	}
}

func (w *c15scWorld) opClose(c *c15scConn) *c15scOp {
	side := "hub"
	if c.inb && w.rng.Intn(2) == 0 {
		side = "remote"
	}
	return &c15scOp{
		what: fmt.Sprintf("%s closes connection %d (announced %s, dialled %q)", side, c.id, c.ann, c.dial),
		peer: c.ann,
		run: func() error {
			if side == "remote" {
				return c.rem.Close()
			}
			return c.hub.Close()
		},
		commit: func() { c.open = false },
		emit:   func(silent bool) { w.emit(silent, 2, int64(c.id)) },
	}
}

func (w *c15scWorld) opStartCall(c *c15scConn) *c15scOp {
	w.tokn++
	cl := &c15scCall{conn: c, tok: fmt.Sprintf("k%d", w.tokn), done: make(chan error, 1)}
	ri := w.remoteOf(c.ann)
	return &c15scOp{
		what: fmt.Sprintf("hub starts held call %s over connection %d (announced %s, dialled %q)", cl.tok, c.id, c.ann, c.dial),
		peer: c.ann,
		run: func() error {
			call, err := tchannel.VerifC15ScBeginCall(c.hub, w.ctx, "svc", "hold")
			if err != nil {
				return err
			}
			go func() {
				_, _, _, err := raw.WriteArgs(call, []byte(cl.tok), nil)
				cl.done <- err
			}()
			select {
			case <-w.holds[ri].arrived:
				return nil
			case <-time.After(5 * time.Second):
				return fmt.Errorf("call %s did not reach the handler", cl.tok)
			}
		},
		commit: func() { c.pend++; w.calls = append(w.calls, cl) },
		emit:   func(silent bool) { w.emit(silent, 3, int64(c.id), 1) },
	}
}

func (w *c15scWorld) opFinishCall(k int) *c15scOp {
	cl := w.calls[k]
	ri := w.remoteOf(cl.conn.ann)
	return &c15scOp{
		what: fmt.Sprintf("held call %s over connection %d finishes", cl.tok, cl.conn.id),
		peer: cl.conn.ann,
		run: func() error {
			close(w.holds[ri].gate(cl.tok))
			select {
			case err := <-cl.done:
				return err
			case <-time.After(5 * time.Second):
				return fmt.Errorf("call %s did not finish", cl.tok)
			}
		},
		commit: func() {
			cl.conn.pend--
			for i, x := range w.calls {
				if x == cl {
					w.calls = append(w.calls[:i], w.calls[i+1:]...)
					break
				}
			}
		},
		emit: func(silent bool) { w.emit(silent, 3, int64(cl.conn.id), -1) },
	}
}

func (w *c15scWorld) opAdd(j int, sym string) *c15scOp {
	return &c15scOp{
		what:   fmt.Sprintf("list %d Add(%s)", j, sym),
		run:    func() error { w.lists[j].Add(w.real[sym]); return nil },
		commit: func() { w.member[j][sym] = true },
		emit:   func(silent bool) { w.emit(silent, 4, append([]int64{int64(j)}, c15scBytes(sym)...)...) },
	}
}

func (w *c15scWorld) opRemove(j int, sym string) *c15scOp {
	return &c15scOp{
		what:   fmt.Sprintf("list %d Remove(%s)", j, sym),
		run:    func() error { w.lists[j].Remove(w.real[sym]); return nil },
		commit: func() { delete(w.member[j], sym) },
		emit:   func(silent bool) { w.emit(silent, 5, append([]int64{int64(j)}, c15scBytes(sym)...)...) },
	}
}

func (w *c15scWorld) opSetStrategy(j, strat int) *c15scOp {
	return &c15scOp{
		what:   fmt.Sprintf("list %d SetStrategy(%d)", j, strat),
		run:    func() error { w.lists[j].SetStrategy(c15scCalc(strat, j, w.hook)); return nil },
		commit: func() { w.strat[j] = strat },
		emit:   func(silent bool) { w.emit(silent, 6, int64(j), int64(strat)) },
	}
}

// a status change of the peer `sym` (or of a peer that shares a connection with it) that is possible now
func (w *c15scWorld) statusChange(sym string) *c15scOp {
	var cands []*c15scOp
	var mine []*c15scConn
	for _, c := range w.conns {
		if c.open && c.hub != nil && (c.ann == sym || c.dial == sym) {
			mine = append(mine, c)
		}
	}
	if sym[0] == 'r' || sym[0] == 'a' {
		cands = append(cands, w.opConnect(sym))
	}
	if sym[0] == 'r' {
		cands = append(cands, w.opAccept(w.remoteOf(sym)))
	}
	for _, c := range mine {
		if c.pend == 0 && c != w.busy {
			cands = append(cands, w.opClose(c))
		}
		if len(w.calls) < 6 {
			cands = append(cands, w.opStartCall(c))
		}
	}
	for k, cl := range w.calls {
		if cl.conn.open && (cl.conn.ann == sym || cl.conn.dial == sym) {
			cands = append(cands, w.opFinishCall(k))
		}
	}
	if len(cands) == 0 {
		return nil
	}
	return cands[w.rng.Intn(len(cands))]
}

// plain: one operation, then settle, judge, dump
func (w *c15scWorld) plain(op *c15scOp) (bool, string) {
	if err := op.run(); err != nil {
		w.o.Hist("infeasible: " + op.what[:c15scMin(len(op.what), 14)] + ": " + err.Error())
		return true, ""
	}
	op.commit()
	op.emit(false)
	w.o.Hist("op:" + op.what[:c15scMin(len(op.what), 12)])
	inf, v := w.settle(op.what)
	if inf {
		return true, ""
	}
	w.bindInbound()
	w.dump()
	return false, v
}

func c15scMin(a, b int) int {
	if a < b {
		return a
	}
	return b
}

// overlap: t1 computes a score for (list j, peer) -- the wrapped calculator stops right after --,
// t2 (a status change of that peer) runs in the window
func (w *c15scWorld) overlap(kind string, j int, peerSym string, t1, t2 *c15scOp, sched *Sched) (bool, string) {
	what := fmt.Sprintf("%s: [%s] with [%s] inside the window between the computation of the score of %s for list %d and its publication", kind, t1.what, t2.what, peerSym, j)
	d1, d2 := make(chan error, 1), make(chan error, 1)
	var entered, resume chan struct{}
	if sched == nil {
		entered, resume = w.hook.arm(j, w.real[peerSym])
	} else {
		sched.ParkAt("peerlist.Add.afterRootAdd")
	}
	go func() { d1 <- t1.run() }()
	reached := false
	if sched == nil {
		select {
		case <-entered:
			reached = true
		case err := <-d1:
			d1 <- err
		case <-time.After(2 * time.Second):
		}
	} else {
		reached = sched.WaitArrived("peerlist.Add.afterRootAdd", 1, 2*time.Second)
	}
	inside := false
	if reached {
		before := w.liveAll()
		t0 := time.Now()
		go func() { d2 <- t2.run() }()
		select {
		case err := <-d2:
			d2 <- err
			inside = true
			// t2 may only have TRIGGERED the change (the remote closed / dialled): keep the window open
			// until the hub's peers show it (or the window ends), and a little longer for the re-scoring
			for time.Since(t0) < c15scWindow && w.liveAll() == before {
				time.Sleep(time.Millisecond)
			}
			time.Sleep(10 * time.Millisecond)
		case <-time.After(c15scWindow):
		}
	}
	if sched == nil {
		w.hook.disarm()
		close(resume)
	} else {
		sched.Unpark("peerlist.Add.afterRootAdd")
		sched.Release("peerlist.Add.afterRootAdd")
	}
	wait := func(d chan error) error {
		select {
		case err := <-d:
			return err
		case <-time.After(8 * time.Second):
			return fmt.Errorf("did not return")
		}
	}
	if err := wait(d1); err != nil {
		w.o.Hist("infeasible: overlap " + kind + " first operation: " + err.Error())
		return true, ""
	}
	t1.commit()
	if !reached {
		// the calculator was not asked for this peer: t1 alone
		t1.emit(false)
		w.o.Hist("overlap-not-reached:" + kind)
		inf, v := w.settle(t1.what)
		if inf {
			return true, ""
		}
		w.bindInbound()
		w.dump()
		return false, v
	}
	if err := wait(d2); err != nil {
		w.o.Hist("infeasible: overlap " + kind + " second operation [" + t2.what[:c15scMin(len(t2.what), 14)] + "]: " + err.Error())
		return true, ""
	}
	t2.commit()
	t1.emit(true)
	t2.emit(false)
	if inside {
		w.o.Hist("overlap:" + kind + ":other-operation-ran-inside-the-window")
	} else {
		w.o.Hist("overlap:" + kind + ":other-operation-blocked-until-published")
	}
	inf, v := w.settle(what)
	if inf {
		return true, ""
	}
	w.bindInbound()
	w.dump()
	return false, v
}

// ---------------------------------------------------------------- one case

func init() { engines["c15score"] = engineC15Score }

func engineC15Score(rng *rand.Rand, n int, tier string, o *Out) {
	for c := 0; c < n; c++ {
		verdict, key, infeasible, in, obs := c15scCase(rng, c, tier, o)
		if infeasible {
			o.Hist("case-infeasible(timing)")
			o.Oracle("c15score", fmt.Sprintf("sc%d", c), false, key, "")
			continue
		}
		o.Case("c15score", fmt.Sprintf("sc%d", c), in, obs, true, verdict)
		if c < 2 {
			o.Sample(map[string]interface{}{"case": fmt.Sprintf("sc%d", c), "ops": key, "verdict": verdict})
		}
	}
}

func c15scCase(rng *rand.Rand, cidx int, tier string, o *Out) (verdict, key string, infeasible bool, in, obs []int64) {
	w := &c15scWorld{rng: rng, o: o, real: map[string]string{}, hook: &c15scHook{}, nextID: 1}
	defer func() {
		for _, cl := range w.calls {
			close(w.holds[w.remoteOf(cl.conn.ann)].gate(cl.tok))
		}
		for _, cl := range w.calls {
			select {
			case <-cl.done:
			case <-time.After(2 * time.Second):
			}
		}
		for i := len(w.closers) - 1; i >= 0; i-- {
			w.closers[i]()
		}
	}()
	defer func() {
		if r := recover(); r != nil {
			verdict = fmt.Sprintf("panic: %v", r)
			in, obs = w.finish()
		}
	}()
	mkch := func(name string, h *c15lnHold) *tchannel.Channel {
		ch, err := tchannel.NewChannel(name, &tchannel.ChannelOptions{Logger: tchannel.NullLogger})
		if err != nil {
			panic(err)
		}
		if h != nil {
			ch.Register(raw.Wrap(h), "hold")
		}
		if err := ch.ListenAndServe("127.0.0.1:0"); err != nil {
			panic(err)
		}
		w.closers = append(w.closers, ch.Close)
		return ch
	}
	ctx, cancel := tchannel.NewContextBuilder(60 * time.Second).Build()
	w.closers = append(w.closers, cancel)
	w.ctx = ctx
	w.hub = mkch("hub", nil)
	w.hubHP = w.hub.PeerInfo().HostPort
	iso := w.hub.GetSubChannel("iso", tchannel.Isolated)
	w.lists = []*tchannel.PeerList{w.hub.Peers(), iso.Peers()}
	w.strat = []int{0, 1}
	w.member = []map[string]bool{{}, {}}
	for j := range w.lists {
		w.lists[j].SetStrategy(c15scCalc(w.strat[j], j, w.hook))
	}
	k := 2 + rng.Intn(2)
	for i := 0; i < k; i++ {
		h := newC15lnHold()
		r := mkch("svc", h)
		w.remotes = append(w.remotes, r)
		w.holds = append(w.holds, h)
		rs := fmt.Sprintf("r%d", i)
		w.real[rs] = r.PeerInfo().HostPort
		f, err := newC15scFwd(w.real[rs])
		if err != nil {
			panic(err)
		}
		w.closers = append(w.closers, f.Close)
		as := fmt.Sprintf("a%d", i)
		w.real[as] = f.HostPort()
		w.syms = append(w.syms, rs, as)
	}
	// addresses nothing is ever connected to
	w.real["x0"], w.real["x1"] = "127.0.0.1:1", "127.0.0.1:2"
	w.syms = append(w.syms, "x0", "x1")
	w.in = []int64{1, 0} // nIsolated, nOps (patched at the end)

	var sched *Sched
	defer func() {
		if sched != nil {
			sched.Close()
		}
	}()

	nsteps := 14 + rng.Intn(10)
	if tier != "quick" {
		nsteps = 16 + rng.Intn(20)
	}
	forcedLeft := 2
	if tier != "quick" {
		forcedLeft = 4
	}
	// one case in eight each walks through a fixed story first: the alias peer, and the four forced overlaps
	getSched := func() *Sched { // a fresh controller per parked Add (it counts arrivals from zero)
		if sched != nil {
			sched.Close()
		}
		sched = NewSched()
		return sched
	}
	var script []func() (bool, string)
	switch cidx % 8 {
	case 0: // the alias peer: in both lists, connected through the forwarder, a call, the close
		script = []func() (bool, string){
			func() (bool, string) { return w.plain(w.opAdd(0, "a0")) },
			func() (bool, string) { return w.plain(w.opAdd(1, "a0")) },
			func() (bool, string) { return w.plain(w.opConnect("a0")) },
			func() (bool, string) { return w.plain(w.opStartCall(w.conns[0])) },
			func() (bool, string) { return w.plain(w.opFinishCall(0)) },
			func() (bool, string) { return w.plain(w.opClose(w.conns[0])) },
		}
	case 1: // Add while the peer gets its first connection / its alias connection
		script = []func() (bool, string){
			func() (bool, string) { return w.overlap("Add", 0, "r0", w.opAdd(0, "r0"), w.opConnect("r0"), nil) },
			func() (bool, string) { return w.overlap("Add", 1, "a1", w.opAdd(1, "a1"), w.opConnect("a1"), nil) },
			func() (bool, string) { return w.overlap("Add", 1, "r0", w.opAdd(1, "r0"), w.opClose(w.conns[0]), nil) },
		}
	case 2: // a call starts (its onPeerChange has computed the score) while another one finishes
		script = []func() (bool, string){
			func() (bool, string) { return w.plain(w.opAdd(0, "r0")) },
			func() (bool, string) { return w.plain(w.opAdd(1, "r0")) },
			func() (bool, string) { return w.plain(w.opConnect("r0")) },
			func() (bool, string) { return w.plain(w.opStartCall(w.conns[0])) },
			func() (bool, string) {
				return w.overlap("onPeerChange", 0, "r0", w.opStartCall(w.conns[0]), w.opFinishCall(0), nil)
			},
			func() (bool, string) {
				return w.overlap("onPeerChange", 1, "r0", w.opStartCall(w.conns[0]), w.opFinishCall(0), nil)
			},
		}
	case 3: // SetStrategy re-scores the alias peer while a call over its connection starts
		script = []func() (bool, string){
			func() (bool, string) { return w.plain(w.opAdd(0, "a0")) },
			func() (bool, string) { return w.plain(w.opConnect("a0")) },
			func() (bool, string) {
				return w.overlap("SetStrategy", 0, "a0", w.opSetStrategy(0, 1), w.opStartCall(w.conns[0]), nil)
			},
		}
	case 4: // Add parked at the schedule point while the peer dials the hub
		script = []func() (bool, string){
			func() (bool, string) {
				return w.overlap("Add parked at peerlist.Add.afterRootAdd", 1, "r1", w.opAdd(1, "r1"), w.opAccept(1), getSched())
			},
		}
	}
	for step := 0; step < nsteps; step++ {
		var inf bool
		var v string
		var openConns []*c15scConn
		for _, c := range w.conns {
			if c.open && c.hub != nil {
				openConns = append(openConns, c)
			}
		}
		pick := func() string { return w.syms[rng.Intn(len(w.syms))] }
		x := rng.Intn(100)
		if len(script) > 0 {
			inf, v = script[0]()
			script = script[1:]
		} else {
			switch {
			case x < 14: // Add
				inf, v = w.plain(w.opAdd(rng.Intn(2), pick()))
			case x < 19: // Remove
				inf, v = w.plain(w.opRemove(rng.Intn(2), pick()))
			case x < 33: // connect (half of them through a forwarder)
				i := rng.Intn(k)
				t := fmt.Sprintf("r%d", i)
				if rng.Intn(2) == 0 {
					t = fmt.Sprintf("a%d", i)
				}
				inf, v = w.plain(w.opConnect(t))
			case x < 40:
				inf, v = w.plain(w.opAccept(rng.Intn(k)))
			case x < 52 && len(openConns) > 0: // close a connection without calls in flight
				c := openConns[rng.Intn(len(openConns))]
				if c.pend > 0 {
					continue
				}
				inf, v = w.plain(w.opClose(c))
			case x < 66 && len(openConns) > 0 && len(w.calls) < 6:
				inf, v = w.plain(w.opStartCall(openConns[rng.Intn(len(openConns))]))
			case x < 76 && len(w.calls) > 0:
				inf, v = w.plain(w.opFinishCall(rng.Intn(len(w.calls))))
			case x < 81:
				inf, v = w.plain(w.opSetStrategy(rng.Intn(2), rng.Intn(4)))
			case x < 86: // Get: a member with the minimum live score
				j := rng.Intn(2)
				p, err := w.lists[j].Get(nil)
				w.emit(false, 7, int64(j))
				if err != nil {
					if len(w.member[j]) > 0 {
						v = fmt.Sprintf("op %d: list %d Get(nil) = %v although it has members; %s", w.nops, j, err, w.history())
					}
				} else {
					sym := w.symOf(p.HostPort())
					in, out, pend := w.attrs(sym)
					got := c15scExpect(w.strat[j], in, out, pend)
					for m := range w.member[j] {
						mi, mo, mp := w.attrs(m)
						if s := c15scExpect(w.strat[j], mi, mo, mp); s < got && v == "" {
							v = fmt.Sprintf("op %d: list %d (strategy %d) Get(nil) returned %s (inbound=%d outbound=%d pending=%d: score %d) although member %s (inbound=%d outbound=%d pending=%d) scores %d; %s",
								w.nops, j, w.strat[j], sym, in, out, pend, got, m, mi, mo, mp, s, w.history())
						}
					}
				}
				if v == "" {
					w.dump()
				}
				o.Hist("op:Get")
			case forcedLeft > 0: // forced overlaps
				forcedLeft--
				j := rng.Intn(2)
				switch kind := rng.Intn(4); kind {
				case 0, 3: // Add(j, peer) with a status change of the peer
					var cands []string
					for _, s := range w.syms {
						if !w.member[j][s] && s[0] != 'x' {
							cands = append(cands, s)
						}
					}
					if len(cands) == 0 {
						continue
					}
					sym := cands[rng.Intn(len(cands))]
					t2 := w.statusChange(sym)
					if t2 == nil {
						continue
					}
					if kind == 3 {
						inf, v = w.overlap("Add parked at peerlist.Add.afterRootAdd", j, sym, w.opAdd(j, sym), t2, getSched())
					} else {
						inf, v = w.overlap("Add", j, sym, w.opAdd(j, sym), t2, nil)
					}
				case 1: // a call starts (onPeerChange computes the score) while another status change happens
					var cands []*c15scConn
					for _, c := range openConns {
						if w.member[j][c.ann] || (c.dial != "" && w.member[j][c.dial]) {
							cands = append(cands, c)
						}
					}
					if len(cands) == 0 || len(w.calls) >= 6 {
						continue
					}
					c := cands[rng.Intn(len(cands))]
					sym := c.ann
					if !w.member[j][sym] || (c.dial != "" && w.member[j][c.dial] && rng.Intn(2) == 0) {
						sym = c.dial
					}
					t1 := w.opStartCall(c)
					w.busy = c
					t2 := w.statusChange(sym)
					w.busy = nil
					if t2 == nil {
						continue
					}
					inf, v = w.overlap("onPeerChange", j, sym, t1, t2, nil)
				case 2: // SetStrategy re-scores a member while its status changes
					var cands []string
					for s := range w.member[j] {
						if s[0] != 'x' {
							cands = append(cands, s)
						}
					}
					sort.Strings(cands)
					if len(cands) == 0 {
						continue
					}
					sym := cands[rng.Intn(len(cands))]
					t2 := w.statusChange(sym)
					if t2 == nil {
						continue
					}
					inf, v = w.overlap("SetStrategy", j, sym, w.opSetStrategy(j, rng.Intn(4)), t2, nil)
				}
			default:
				continue
			}
		}
		if inf {
			in, obs = w.finish()
			return "", fmt.Sprintf("%d ops", w.nops), true, in, obs
		}
		if v != "" {
			in, obs = w.finish()
			return v, fmt.Sprintf("%d ops", w.nops), false, in, obs
		}
	}
	in, obs = w.finish()
	return "", fmt.Sprintf("%d ops, %d connections", w.nops, len(w.conns)), false, in, obs
}

// finish: the model case covers exactly the operations that produced an observable (operations
// emitted after the last dump -- an infeasible one -- are cut off)
func (w *c15scWorld) finish() ([]int64, []int64) {
	if w.markIn < 2 {
		return []int64{1, 0}, nil
	}
	in := append([]int64(nil), w.in[:w.markIn]...)
	in[1] = int64(w.markOps)
	return in, w.obs
}
