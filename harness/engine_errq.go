package main

// Engine "errq" (property C05, clause (a) under "every scheduling of the error notification
// against pending frames"): ERROR NOTIFICATION VS QUEUED FRAMES.
//
// A real client channel calls a specification-built raw peer through a ChannelOptions.Dialer
// socket the harness controls.  The peer answers with a response of 4-6 frames (checksum
// type none / crc32 / crc32c), ONE FRAME AT A TIME under harness control; the caller reads
// the response FRAME BY FRAME under harness control (a "take" = reads of exactly the bytes
// that make the fragment reader fetch one more frame); and a connection error is raised from
// OUTSIDE the connection reader while frames still arrive:
//   kind 1  a write failure injected through the Dialer socket (writeFrames -> connectionError;
//           the socket's Close is held back so that the reader goes on delivering -- the
//           window between stopExchanges and closeNetwork, widened)
//   kind 2  a failed ping send (ErrSendBufferFull with a stalled socket -> connectionError; the
//           network stays open until the send queue drains)
//   kind 3  a protocol error reported by the peer in an error frame between two response
//           frames (handleError -> connectionError in the reader, between two frames)
//   kind 0  no error (lagging receiver only)
// A scenario is a word over {A = the next frame is written by the peer, T = the receiver is
// asked for one more frame, E = the error}; after every letter the harness waits until the
// connection reader and the receiver have returned or are parked in their select (read off
// the goroutines' scheduler state in ONE stop-the-world snapshot, never a timing guess).  At
// the end the peer writes the remaining frames and the receiver reads to the end.
//
// Model: Model/ErrQ.v run_c05errq (Model/Mex.v's step composed with Model/Cut.v's reader).
// Oracle (from the property statement): everything handed out is a prefix of the argument
// the peer sent; the call reports success only with exactly the bytes sent; control is back
// by the deadline + slack; no panic.

import (
	"bytes"
	"errors"
	"fmt"
	"io"
	"math/rand"
	"net"
	"runtime"
	"strings"
	"sync"
	"sync/atomic"
	"time"

	tchannel "github.com/uber/tchannel-go"
	"golang.org/x/net/context"
)

func init() { engines["errq"] = engineErrQ }

const (
	eqDeadline = 1500 * time.Millisecond
	eqSlack    = 400 * time.Millisecond
)

var errEqInjected = errors.New("verif: injected write error")

// ---------------------------------------------------------------- the client's socket

type eqConn struct {
	net.Conn
	mu          sync.Mutex
	failWrites  bool
	stall       chan struct{} // non-nil: writes block until it is closed
	blocked     int32
	closeCalled chan struct{}
	closeOnce   sync.Once
	release     chan struct{} // closed by the harness at the end: Close may proceed
}

func (c *eqConn) Write(b []byte) (int, error) {
	c.mu.Lock()
	st := c.stall
	c.mu.Unlock()
	if st != nil {
		atomic.AddInt32(&c.blocked, 1)
		select {
		case <-st:
		case <-c.release:
		}
	}
	c.mu.Lock()
	fail := c.failWrites
	c.mu.Unlock()
	if fail {
		return 0, errEqInjected
	}
	return c.Conn.Write(b)
}

func (c *eqConn) Close() error {
	c.closeOnce.Do(func() { close(c.closeCalled) })
	select {
	case <-c.release:
	case <-time.After(6 * time.Second):
	}
	return c.Conn.Close()
}

// ---------------------------------------------------------------- schedule-point hook

type eqHookState struct {
	lookups, handled, sent int32
	readerGid              int64
}

var eqHookCur atomic.Value // *eqHookState

func eqHook(name string, id uint32) {
	h, _ := eqHookCur.Load().(*eqHookState)
	if h == nil {
		return
	}
	switch name {
	case "mex.forward.afterLookup":
		atomic.StoreInt64(&h.readerGid, curGID())
		atomic.AddInt32(&h.lookups, 1)
	case "conn.readFrames.handled":
		atomic.StoreInt64(&h.readerGid, curGID())
		atomic.AddInt32(&h.handled, 1)
	case "conn.sendMessage.sent":
		atomic.AddInt32(&h.sent, 1)
	}
}

var eqStackBuf = make([]byte, 1<<20)

// eqStatuses: the scheduler states of the given goroutines in one snapshot ("" = gone)
func eqStatuses(gids ...int64) []string {
	n := runtime.Stack(eqStackBuf, true)
	out := make([]string, len(gids))
	for i, g := range gids {
		if g <= 0 {
			continue
		}
		key := []byte(fmt.Sprintf("goroutine %d [", g))
		k := bytes.Index(eqStackBuf[:n], key)
		if k < 0 {
			continue
		}
		rest := eqStackBuf[k+len(key) : n]
		j := bytes.IndexAny(rest, "],")
		if j >= 0 {
			out[i] = string(rest[:j])
		}
	}
	return out
}

// ---------------------------------------------------------------- the response and its layout

type eqResp struct {
	csum       byte
	long       int // the argument that spans the frames: 2 or 3
	res2, res3 []byte
	frames     [][]byte // wire bytes
	types      []byte
	payloads   [][]byte
	first      []int // long == 3: [len(arg2), bytes of arg3 in frame 1]; long == 2: [bytes of arg2 in frame 1]
	cont       []int // cont[k] = bytes of the long argument in frame k+2 (its chunk 0)
}

func eqBuildResp(rng *rand.Rand, id uint32, nframes int, csum byte, long int) *eqResp {
	hdr := rawCallResHeader(0, make([]byte, 25), [][2]string{{"as", "raw"}})
	for try := 0; try < 200; try++ {
		maxPayload := 72 + rng.Intn(100)
		csz := 0
		if csum != 0 {
			csz = 4
		}
		contChunk := maxPayload - 2 - csz - 2
		short := []byte(randBytes(rng, 3+rng.Intn(12)))
		firstRoom := maxPayload - 1 - len(hdr) - 1 - csz - 2 /* arg1 */ - 2
		var longLen int
		if long == 3 {
			firstRoom -= 2 + len(short)
		}
		if firstRoom < 2 {
			continue
		}
		longLen = firstRoom + (nframes-2)*contChunk + 1 + rng.Intn(contChunk-8)
		longArg := []byte(randBytes(rng, longLen))
		r := &eqResp{csum: csum, long: long}
		if long == 3 {
			r.res2, r.res3 = short, longArg
		} else {
			r.res2, r.res3 = longArg, short
		}
		r.frames = buildRawCallFrames(false, id, hdr, csum, [3][]byte{{}, r.res2, r.res3}, maxPayload)
		if len(r.frames) != nframes {
			continue
		}
		ok := true
		for k, fr := range r.frames {
			mt := fr[2]
			pc, err := parseRawCall(mt, fr[16:])
			if err != nil {
				ok = false
				break
			}
			r.types = append(r.types, mt)
			r.payloads = append(r.payloads, fr[16:])
			switch {
			case k == 0 && long == 3:
				if len(pc.Chunks) != 3 || len(pc.Chunks[1]) != len(short) || len(pc.Chunks[2]) < 1 {
					ok = false
				} else {
					r.first = []int{len(short), len(pc.Chunks[2])}
				}
			case k == 0:
				if len(pc.Chunks) != 2 || len(pc.Chunks[1]) < 1 {
					ok = false
				} else {
					r.first = []int{len(pc.Chunks[1])}
				}
			case k == nframes-1 && long == 2:
				if len(pc.Chunks) != 2 || len(pc.Chunks[0]) < 1 || len(pc.Chunks[1]) != len(short) {
					ok = false
				} else {
					r.cont = append(r.cont, len(pc.Chunks[0]))
				}
			default:
				if len(pc.Chunks) != 1 || len(pc.Chunks[0]) < 1 {
					ok = false
				} else {
					r.cont = append(r.cont, len(pc.Chunks[0]))
				}
			}
			if !ok {
				break
			}
		}
		if ok {
			return r
		}
	}
	return nil
}

// ---------------------------------------------------------------- the receiver

type eqRecv struct {
	resp     *tchannel.OutboundCallResponse
	lay      *eqResp
	kind     int
	gid      int64
	ops      chan int // 1 = take, 2 = finish
	issued   int32
	done     int32
	mu       sync.Mutex
	results  []int64
	finalErr error
	finalOK  bool
	finalAt  time.Time
	got2     []byte
	got3     []byte
	verdict  string
	panicked string
	finished chan struct{}
	// goroutine-local
	nt     int
	short  bool
	err    error
	cur    tchannel.ArgReader
	curArg int
}

func eqCode(err error, kind int) int64 {
	if err == nil {
		return 0
	}
	code := tchannel.GetSystemErrorCode(err)
	switch {
	case code == tchannel.ErrCodeTimeout:
		return 98
	case kind == 3 && code == tchannel.ErrCodeProtocol:
		return 13
	case (kind == 1 || kind == 2) && code == tchannel.ErrCodeNetwork:
		return int64(10 + kind)
	}
	return 99
}

func (r *eqRecv) fail(format string, a ...interface{}) {
	r.mu.Lock()
	if r.verdict == "" {
		r.verdict = fmt.Sprintf(format, a...)
	}
	r.mu.Unlock()
}

// hand: bytes the library handed out for argument arg; they must continue the argument the peer sent
func (r *eqRecv) hand(arg int, b []byte) {
	if len(b) == 0 {
		return
	}
	r.mu.Lock()
	got, want := &r.got3, r.lay.res3
	if arg == 2 {
		got, want = &r.got2, r.lay.res2
	}
	off := len(*got)
	*got = append(*got, b...)
	r.mu.Unlock()
	if off+len(b) > len(want) || !bytes.Equal(want[off:off+len(b)], b) {
		r.fail("the reader handed out %d bytes of arg%d at offset %d that are NOT the bytes the peer sent there (a frame is missing or foreign): the data read so far is not a prefix of the response", len(b), arg, off)
	}
}

func (r *eqRecv) readExact(n int) error {
	if n <= 0 {
		return nil
	}
	buf := make([]byte, n)
	m, err := io.ReadFull(r.cur, buf)
	r.hand(r.curArg, buf[:m])
	if err == io.EOF || err == io.ErrUnexpectedEOF {
		// the argument ended before the bytes the peer sent were read: the final reads decide
		r.short = true
		return nil
	}
	return err
}

func (r *eqRecv) record(err error) {
	if err != nil && r.err == nil {
		r.err = err
	}
	r.mu.Lock()
	r.results = append(r.results, eqCode(err, r.kind))
	r.mu.Unlock()
}

func (r *eqRecv) take() {
	r.nt++
	if r.err != nil {
		r.record(r.err)
		return
	}
	if r.short {
		r.mu.Lock()
		r.results = append(r.results, 96)
		r.mu.Unlock()
		return
	}
	if r.nt == 1 {
		rd2, err := r.resp.Arg2Reader()
		if err != nil {
			r.record(err)
			return
		}
		r.cur, r.curArg = rd2, 2
		if err := r.readExact(r.lay.first[0]); err != nil {
			r.record(err)
			return
		}
		if r.lay.long == 3 {
			if err := rd2.Close(); err != nil {
				r.record(err)
				return
			}
			rd3, err := r.resp.Arg3Reader()
			if err != nil {
				r.record(err)
				return
			}
			r.cur, r.curArg = rd3, 3
			if err := r.readExact(r.lay.first[1]); err != nil {
				r.record(err)
				return
			}
		}
		r.record(nil)
		return
	}
	k := r.nt - 2
	if k >= len(r.lay.cont) {
		r.record(nil) // nothing left to fetch
		return
	}
	one := make([]byte, 1)
	n, err := r.cur.Read(one) // the current chunk is exhausted: this fetches exactly one frame
	r.hand(r.curArg, one[:n])
	if err == io.EOF {
		// the library says the argument is over although the peer sent more of it: not an error
		// of the call -- the final reads decide what the caller is told
		r.short = true
		r.mu.Lock()
		r.results = append(r.results, 96)
		r.mu.Unlock()
		return
	}
	if err != nil {
		r.record(err)
		return
	}
	if err := r.readExact(r.lay.cont[k] - 1); err != nil {
		r.record(err)
		return
	}
	if r.short {
		r.mu.Lock()
		r.results = append(r.results, 96)
		r.mu.Unlock()
		return
	}
	r.record(nil)
}

func (r *eqRecv) finish() {
	defer func() {
		r.mu.Lock()
		r.finalAt = time.Now()
		r.mu.Unlock()
		close(r.finished)
	}()
	if r.err != nil {
		r.finalErr = r.err
		return
	}
	if r.cur == nil {
		rd2, err := r.resp.Arg2Reader()
		if err != nil {
			r.finalErr = err
			return
		}
		r.cur, r.curArg = rd2, 2
	}
	if r.curArg == 2 {
		rest, err := io.ReadAll(r.cur)
		r.hand(2, rest)
		if err == nil {
			err = r.cur.Close()
		}
		if err != nil {
			r.finalErr = err
			return
		}
		rd3, err := r.resp.Arg3Reader()
		if err != nil {
			r.finalErr = err
			return
		}
		r.cur, r.curArg = rd3, 3
	}
	rest, err := io.ReadAll(r.cur)
	r.hand(3, rest)
	if err == nil {
		err = r.cur.Close()
	}
	if err != nil {
		r.finalErr = err
		return
	}
	r.finalOK = true
}

func (r *eqRecv) loop() {
	defer func() {
		if p := recover(); p != nil {
			r.mu.Lock()
			r.panicked = fmt.Sprint(p)
			r.mu.Unlock()
			select {
			case <-r.finished:
			default:
				close(r.finished)
			}
		}
	}()
	for op := range r.ops {
		if op == 1 {
			r.take()
		} else {
			r.finish()
		}
		atomic.AddInt32(&r.done, 1)
	}
}

// ---------------------------------------------------------------- one scenario

type eqScenario struct {
	kind    int
	csum    byte
	long    int
	nframes int
	evs     []int // 0 A, 1 T, 2 E
}

func (s *eqScenario) word() string {
	var b strings.Builder
	for _, e := range s.evs {
		b.WriteByte("ATE"[e])
	}
	return b.String()
}

type eqResult struct {
	in, obs    []int64
	verdict    string
	infeasible string
}

func runErrQ(rng *rand.Rand, sc *eqScenario) (res eqResult) {
	hs := &eqHookState{}
	eqHookCur.Store(hs)
	defer eqHookCur.Store((*eqHookState)(nil))

	ln, err := net.Listen("tcp", "127.0.0.1:0")
	if err != nil {
		res.infeasible = "listen: " + err.Error()
		return
	}
	defer ln.Close()
	type peerUp struct {
		conn net.Conn
		id   uint32
		err  error
	}
	up := make(chan peerUp, 1)
	go func() {
		conn, err := ln.Accept()
		if err != nil {
			up <- peerUp{err: err}
			return
		}
		if _, _, err := rawServerHandshake(conn); err != nil {
			up <- peerUp{conn: conn, err: err}
			return
		}
		sentUp := false
		for {
			f, err := readRawFrame(conn, 8*time.Second)
			if err != nil {
				if !sentUp {
					up <- peerUp{conn: conn, err: err}
				}
				return
			}
			if !sentUp && (f.Type == 0x03 || f.Type == 0x13) {
				pc, err := parseRawCall(f.Type, f.Payload)
				if err != nil {
					up <- peerUp{conn: conn, err: err}
					return
				}
				if pc.Flags&1 == 0 {
					up <- peerUp{conn: conn, id: f.ID}
					sentUp = true
				}
			}
			// everything else (pings) is read and dropped
		}
	}()

	var ec *eqConn
	release := make(chan struct{})
	released := false
	doRelease := func() {
		if !released {
			released = true
			close(release)
		}
	}
	defer doRelease()
	copts := &tchannel.ChannelOptions{
		DefaultConnectionOptions: tchannel.ConnectionOptions{SendBufferSize: 2},
		Dialer: func(ctx context.Context, network, hostPort string) (net.Conn, error) {
			d := net.Dialer{}
			c, err := d.DialContext(ctx, network, hostPort)
			if err != nil {
				return nil, err
			}
			ec = &eqConn{Conn: c, closeCalled: make(chan struct{}), release: release}
			return ec, nil
		},
	}
	client, err := tchannel.NewChannel("c05-errq", copts)
	if err != nil {
		res.infeasible = "client: " + err.Error()
		return
	}
	defer client.Close()

	ctx, cancel := tchannel.NewContext(eqDeadline)
	defer cancel()
	start := time.Now()
	call, err := client.BeginCall(ctx, ln.Addr().String(), "errq", "m", nil)
	if err != nil {
		res.infeasible = "BeginCall: " + err.Error()
		return
	}
	if err := tchannel.NewArgWriter(call.Arg2Writer()).Write([]byte("a2")); err != nil {
		res.infeasible = "arg2: " + err.Error()
		return
	}
	if err := tchannel.NewArgWriter(call.Arg3Writer()).Write([]byte("a3")); err != nil {
		res.infeasible = "arg3: " + err.Error()
		return
	}
	var pu peerUp
	select {
	case pu = <-up:
	case <-time.After(2 * time.Second):
		res.infeasible = "the peer did not get the request"
		return
	}
	if pu.conn != nil {
		defer pu.conn.Close()
	}
	if pu.err != nil {
		res.infeasible = "peer: " + pu.err.Error()
		return
	}
	lay := eqBuildResp(rng, pu.id, sc.nframes, sc.csum, sc.long)
	if lay == nil {
		res.infeasible = "no layout"
		return
	}

	rc := &eqRecv{resp: call.Response(), lay: lay, kind: sc.kind, ops: make(chan int, 64), finished: make(chan struct{})}
	gidCh := make(chan int64, 1)
	go func() { gidCh <- curGID(); rc.loop() }()
	rc.gid = <-gidCh
	defer close(rc.ops)

	written := int32(0) // wire items the peer has written after the handshake
	nextFrame := 0
	writeItem := func(b []byte) bool {
		pu.conn.SetWriteDeadline(time.Now().Add(2 * time.Second))
		if _, err := pu.conn.Write(b); err != nil {
			return false
		}
		written++
		return true
	}
	// settle: wait until the connection reader and the receiver have returned or are parked in a select
	settle := func() bool {
		limit := time.Now().Add(3 * time.Second)
		for i := 0; ; i++ {
			h := atomic.LoadInt32(&hs.handled)
			rg := atomic.LoadInt64(&hs.readerGid)
			dn, is := atomic.LoadInt32(&rc.done), atomic.LoadInt32(&rc.issued)
			st := eqStatuses(rg, rc.gid)
			h2 := atomic.LoadInt32(&hs.handled)
			dn2 := atomic.LoadInt32(&rc.done)
			readerQuiet := (h == written && h2 == h) || (rg > 0 && st[0] == "select" && h2 == h)
			recvQuiet := (dn == is && dn2 == dn) || (st[1] == "select" && dn2 == dn)
			if readerQuiet && recvQuiet {
				return true
			}
			if time.Now().After(limit) {
				return false
			}
			if i < 50 {
				runtime.Gosched()
			} else {
				time.Sleep(50 * time.Microsecond)
			}
		}
	}
	bad := func(what string) eqResult {
		res.infeasible = what
		return res
	}

	errorDone := false
	var pings []chan error
	ping := func() chan error {
		ch := make(chan error, 1)
		go func() {
			pctx, pcancel := tchannel.NewContext(3 * time.Second)
			defer pcancel()
			ch <- client.Ping(pctx, ln.Addr().String())
		}()
		pings = append(pings, ch)
		return ch
	}
	for _, ev := range sc.evs {
		switch ev {
		case 0:
			if nextFrame < len(lay.frames) {
				if !writeItem(lay.frames[nextFrame]) {
					return bad("peer write failed")
				}
				nextFrame++
			}
		case 1:
			atomic.AddInt32(&rc.issued, 1)
			rc.ops <- 1
		case 2:
			if errorDone || sc.kind == 0 {
				break
			}
			errorDone = true
			switch sc.kind {
			case 1:
				ec.mu.Lock()
				ec.failWrites = true
				ec.mu.Unlock()
				ping()
				select {
				case <-ec.closeCalled:
				case <-time.After(3 * time.Second):
					return bad("the injected write error did not close the connection")
				}
			case 2:
				ec.mu.Lock()
				ec.stall = make(chan struct{})
				ec.mu.Unlock()
				full := false
				for k := 0; k < 8 && !full; k++ {
					before := atomic.LoadInt32(&hs.sent)
					p := ping()
					limit := time.Now().Add(3 * time.Second)
					for {
						select {
						case e := <-p:
							p <- e
							full = true
						default:
						}
						if full || atomic.LoadInt32(&hs.sent) > before {
							break
						}
						if time.Now().After(limit) {
							return bad("ping neither queued nor refused")
						}
						time.Sleep(20 * time.Microsecond)
					}
					if k == 0 && !full {
						for atomic.LoadInt32(&ec.blocked) == 0 {
							if time.Now().After(limit) {
								return bad("the writer did not reach the stalled socket")
							}
							time.Sleep(20 * time.Microsecond)
						}
					}
				}
				if !full {
					return bad("the send buffer never filled")
				}
			case 3:
				if !writeItem(rawFrameBytes(0xff, 0xffffffff, rawErrorPayload(0xff, make([]byte, 25), "verif: protocol error"))) {
					return bad("peer write failed")
				}
			}
		}
		if !settle() {
			return bad("no quiescence after an event")
		}
	}
	// the end: the peer writes what is left, the receiver reads to the end
	for nextFrame < len(lay.frames) {
		if !writeItem(lay.frames[nextFrame]) {
			return bad("peer write failed")
		}
		nextFrame++
	}
	if !settle() {
		return bad("no quiescence at the end")
	}
	// ... one frame at a time (everything settles in between), until it holds all frames, has
	// an error, or a take stays blocked
	for k := 0; k <= len(lay.frames); k++ {
		rc.mu.Lock()
		okTakes, failed := 0, false
		for _, c := range rc.results {
			if c == 0 {
				okTakes++
			} else {
				failed = true
			}
		}
		rc.mu.Unlock()
		if failed || okTakes >= len(lay.frames) || atomic.LoadInt32(&rc.issued) > atomic.LoadInt32(&rc.done) {
			break
		}
		atomic.AddInt32(&rc.issued, 1)
		rc.ops <- 1
		if !settle() {
			return bad("no quiescence in the final reads")
		}
	}
	atomic.AddInt32(&rc.issued, 1)
	rc.ops <- 2
	hung := false
	select {
	case <-rc.finished:
	case <-time.After(time.Until(start.Add(eqDeadline)) + eqSlack + 1500*time.Millisecond):
		hung = true
	}
	doRelease()

	// ---- observation
	rc.mu.Lock()
	results := append([]int64(nil), rc.results...)
	finalOK, finalErr, finalAt := rc.finalOK, rc.finalErr, rc.finalAt
	got2, got3 := append([]byte(nil), rc.got2...), append([]byte(nil), rc.got3...)
	verdict, panicked := rc.verdict, rc.panicked
	rc.mu.Unlock()

	code := int64(10 + sc.kind)
	in := []int64{int64(pu.id), int64(sc.kind), code, int64(len(sc.evs))}
	for _, e := range sc.evs {
		in = append(in, int64(e))
	}
	in = append(in, int64(len(lay.frames)))
	for k := range lay.frames {
		in = append(in, int64(lay.types[k]))
		in = putBytes(in, lay.payloads[k])
	}
	obs := []int64{int64(len(results))}
	obs = append(obs, results...)
	switch {
	case panicked != "":
		obs = append(obs, 2)
	case hung:
		obs = append(obs, 0, 97)
	case finalOK:
		obs = append(obs, 1)
		obs = putBytes(obs, got2)
		obs = putBytes(obs, got3)
	default:
		obs = append(obs, 0, eqCode(finalErr, sc.kind))
	}
	res.in, res.obs = in, obs

	// ---- oracle (from the statement)
	switch {
	case panicked != "":
		res.verdict = "panic in the caller's read path: " + panicked
	case hung:
		res.verdict = fmt.Sprintf("the caller did not get control back: still reading %v after the deadline of %v", eqSlack+1500*time.Millisecond, eqDeadline)
	case finalOK && !(bytes.Equal(got2, lay.res2) && bytes.Equal(got3, lay.res3)):
		res.verdict = fmt.Sprintf("call reported SUCCESS with an altered response: got %d/%d bytes of arg2/arg3, the peer sent %d/%d (frames %d, checksum type %d)",
			len(got2), len(got3), len(lay.res2), len(lay.res3), len(lay.frames), sc.csum)
		if verdict != "" {
			res.verdict += "; " + verdict
		}
	case verdict != "":
		res.verdict = verdict
	case finalAt.After(start.Add(eqDeadline + eqSlack)):
		res.verdict = fmt.Sprintf("control came back %v after the call began, deadline %v", finalAt.Sub(start), eqDeadline)
	}
	if res.verdict != "" {
		res.verdict = fmt.Sprintf("schedule %s (A = frame arrives, T = receiver takes a frame, E = connection error kind %d), response of %d frames, checksum type %d: %s",
			sc.word(), sc.kind, len(lay.frames), sc.csum, res.verdict)
	}

	// the old connection's reader must be gone before the next scenario installs its hook state
	eqHookCur.Store((*eqHookState)(nil))
	client.Close()
	pu.conn.Close()
	if rg := atomic.LoadInt64(&hs.readerGid); rg > 0 {
		limit := time.Now().Add(time.Second)
		for eqStatuses(rg)[0] != "" && time.Now().Before(limit) {
			time.Sleep(100 * time.Microsecond)
		}
	}
	for _, p := range pings {
		select {
		case <-p:
		case <-time.After(time.Second):
		}
	}
	return res
}

// ---------------------------------------------------------------- generation

func eqWord(s string) []int {
	out := make([]int, len(s))
	for i, c := range s {
		out[i] = strings.IndexRune("ATE", c)
	}
	return out
}

// the schedules every run plays: the error against a full buffer, with and without a frame in
// the reader's hands, and the receiver making room before the next frame
var eqFixedWords = []string{
	"AAEATA", "AAAETA", "AAEATATA", "AAAETATA", "AAEAATA", "AAEATTAT", "AAAETTAA", "TAAAEATA",
	"AAATEATA", "TATAAEATA", "AAAATTE", "AAEA", "AAAE", "EAAAA", "AEAATA", "TTTTAEAAA", "AAAETAA",
}

func eqAllWords(maxLen, nframes int) []string {
	var out []string
	var rec func(cur []byte, a, t, e int)
	rec = func(cur []byte, a, t, e int) {
		if len(cur) > 0 && e == 1 {
			out = append(out, string(cur))
		}
		if len(cur) == maxLen {
			return
		}
		if a < nframes {
			rec(append(cur, 'A'), a+1, t, e)
		}
		if t < nframes {
			rec(append(cur, 'T'), a, t+1, e)
		}
		if e == 0 {
			rec(append(cur, 'E'), a, t, 1)
		}
	}
	rec(nil, 0, 0, 0)
	return out
}

func eqRandomWord(rng *rand.Rand, nframes int, withErr bool) string {
	n := 3 + rng.Intn(2*nframes)
	epos := -1
	if withErr {
		epos = rng.Intn(n)
	}
	a, t := 0, 0
	var b []byte
	for i := 0; i < n; i++ {
		switch {
		case i == epos:
			b = append(b, 'E')
		case a < nframes && (t >= nframes || rng.Intn(100) < 62):
			b = append(b, 'A')
			a++
		case t < nframes:
			b = append(b, 'T')
			t++
		}
	}
	return string(b)
}

func engineErrQ(rng *rand.Rand, n int, tier string, o *Out) {
	tchannel.VerifSetHook(eqHook)
	defer tchannel.VerifSetHook(nil)
	var scs []*eqScenario
	csums := []byte{0, 1, 3}
	add := func(kind int, csum byte, long, nframes int, w string) {
		scs = append(scs, &eqScenario{kind: kind, csum: csum, long: long, nframes: nframes, evs: eqWord(w)})
	}
	// fixed words: every error kind, checksum none and one checksummed type
	for i, w := range eqFixedWords {
		for kind := 1; kind <= 3; kind++ {
			add(kind, 0, 3, 4, w)
			add(kind, csums[1+(i+kind)%2], 3-(i+kind)%2, 4+(i+kind)%3, w)
		}
	}
	// lagging receiver without any error
	for _, w := range []string{"AAAATTTT", "AATAATTA", "TTAAAA", "AAATATAT"} {
		add(0, 0, 3, 4, w)
		add(0, 1, 2, 5, w)
	}
	if tier != "quick" {
		// every word of length <= 7 with one E over a 4-frame response, every error kind, checksum none
		for _, w := range eqAllWords(7, 4) {
			for kind := 1; kind <= 3; kind++ {
				add(kind, 0, 3, 4, w)
			}
		}
	}
	for i := 0; i < n; i++ {
		nframes := 4 + rng.Intn(3)
		kind := rng.Intn(4)
		csum := csums[rng.Intn(3)]
		if rng.Intn(2) == 0 {
			csum = 0
		}
		long := 3
		if rng.Intn(4) == 0 {
			long = 2
		}
		add(kind, csum, long, nframes, eqRandomWord(rng, nframes, kind != 0))
	}
	infeasible, verdicts := 0, 0
	for i, sc := range scs {
		if verdicts >= 8 {
			// a broken tree can make every scenario wait for its deadline: enough evidence
			o.Hist("skipped-after-verdicts")
			continue
		}
		id := fmt.Sprintf("q%d-k%d-c%d-l%d-n%d-%s", i, sc.kind, sc.csum, sc.long, sc.nframes, sc.word())
		var r eqResult
		// a verdict is kept only when it reproduces: 3 of 3 runs
		for att := 0; att < 3; att++ {
			r = runErrQ(rng, sc)
			if r.infeasible != "" || r.verdict == "" {
				break
			}
		}
		if r.infeasible != "" {
			// once more: a harness-level hiccup (port, timing of the set-up) is not a verdict
			r = runErrQ(rng, sc)
		}
		if r.infeasible != "" {
			infeasible++
			o.Hist("infeasible: " + r.infeasible)
			continue
		}
		o.Hist(fmt.Sprintf("kind=%d", sc.kind))
		o.Hist(fmt.Sprintf("csum=%d", sc.csum))
		o.Hist(fmt.Sprintf("frames=%d long=arg%d", sc.nframes, sc.long))
		if len(r.obs) > 2 && r.obs[len(r.obs)-2] == 0 {
			o.Hist(fmt.Sprintf("outcome: error %d", r.obs[len(r.obs)-1]))
		} else {
			o.Hist("outcome: success")
		}
		if i%97 == 0 {
			o.Sample(map[string]interface{}{"sub": "c05errq", "schedule": sc.word(), "error_kind": sc.kind, "checksum": sc.csum,
				"frames": sc.nframes, "long_arg": sc.long, "obs": r.obs[:eqMin(len(r.obs), 12)]})
		}
		if r.verdict != "" {
			verdicts++
		}
		o.Case("c05errq", id, r.in, r.obs, true, r.verdict)
	}
	if infeasible*10 > len(scs) {
		o.Oracle("c05errq", "infeasible", false, "infeasible", fmt.Sprintf("[harness-crash] %d of %d scenarios could not be played", infeasible, len(scs)))
	}
}

func eqMin(a, b int) int {
	if a < b {
		return a
	}
	return b
}
