package main

import (
	"bytes"
	"fmt"
	"io"
	"io/ioutil"
	"math/rand"
	nethttp "net/http"
	"net/url"
	"runtime"
	"runtime/debug"
	"sort"
	"time"

	tchannel "github.com/uber/tchannel-go"
	thttp "github.com/uber/tchannel-go/http"
	"github.com/uber/tchannel-go/thrift"
	"github.com/uber/tchannel-go/thrift/arg2"
	"github.com/uber/tchannel-go/typed"
)

func init() { engines["codecs"] = engineCodecs }

// fake call objects: arg2/arg3 as in-memory streams
type memArgWriter struct{ bytes.Buffer }

func (m *memArgWriter) Close() error { return nil }
func (m *memArgWriter) Flush() error { return nil }

type memWritable struct{ a2, a3 memArgWriter }

func (m *memWritable) Arg2Writer() (tchannel.ArgWriter, error) { return &m.a2, nil }
func (m *memWritable) Arg3Writer() (tchannel.ArgWriter, error) { return &m.a3, nil }

type memReadable struct{ a2, a3 []byte }

func (m *memReadable) Arg2Reader() (tchannel.ArgReader, error) {
	return ioutil.NopCloser(bytes.NewReader(m.a2)), nil
}
func (m *memReadable) Arg3Reader() (tchannel.ArgReader, error) {
	return ioutil.NopCloser(bytes.NewReader(m.a3)), nil
}

func bytesIn(b []byte) []int64 {
	in := make([]int64, len(b))
	for i, c := range b {
		in[i] = int64(c)
	}
	return in
}

func sortedHeader(h nethttp.Header) []string {
	keys := make([]string, 0, len(h))
	for k := range h {
		keys = append(keys, k)
	}
	sort.Strings(keys)
	return keys
}

func putHeader(dst []int64, h nethttp.Header, keys []string) []int64 {
	dst = append(dst, int64(len(keys)))
	for _, k := range keys {
		dst = putBytes(dst, []byte(k))
		dst = append(dst, int64(len(h[k])))
		for _, v := range h[k] {
			dst = putBytes(dst, []byte(v))
		}
	}
	return dst
}

// hostile variants of a valid encoding
func hostile(rng *rand.Rand, valid []byte, n int) [][]byte {
	out := [][]byte{valid}
	for i := 0; i < n; i++ {
		b := append([]byte{}, valid...)
		switch rng.Intn(5) {
		case 0:
			if len(b) > 0 {
				b = b[:rng.Intn(len(b))]
			}
		case 1:
			if len(b) > 0 {
				b[rng.Intn(min(len(b), 24))] = byte(pick(rng, 0, 1, 2, 0x7f, 0x80, 0xfe, 0xff))
			}
		case 2:
			b = append(b, []byte(randBytes(rng, 1+rng.Intn(6)))...)
		case 3:
			b = []byte(randBytes(rng, rng.Intn(30)))
		case 4:
			// a varint at or above 2^63 right after the first field
			pos := min(len(b), 1+rng.Intn(3))
			v := []byte{0xff, 0xff, 0xff, 0xff, 0xff, 0xff, 0xff, 0xff, byte(pick(rng, 0x7f, 0xff, 0x80)), byte(pick(rng, 0, 1, 2, 0x7f))}
			b = append(append(append([]byte{}, b[:pos]...), v...), b[pos:]...)
		}
		out = append(out, b)
	}
	return out
}

func engineCodecs(rng *rand.Rand, n int, tier string, o *Out) {
	id := 0
	nh := 8
	if tier == "thorough" {
		nh = 40
	}
	for c := 0; c < n; c++ {
		// ---- thrift application headers ----
		m := genMap(rng, 65535, pick(rng, 0, 0, 1, 2, 5, 30, 300))
		if rng.Intn(25) == 0 {
			m = map[string]string{"k": randBytes(rng, pick(rng, 65535, 65536))}
		}
		var buf bytes.Buffer
		err := thrift.WriteHeaders(&buf, m)
		enc := buf.Bytes()
		verdict := ""
		obs := []int64{1}
		order := sortedKVs(m)
		if err == nil {
			obs = putBytes([]int64{0}, enc)
			order = emittedOrder(enc[2:], 2, len(m))
			back, rerr := thrift.ReadHeaders(bytes.NewReader(enc))
			if rerr != nil {
				verdict = "ReadHeaders failed on WriteHeaders output: " + rerr.Error()
			} else if len(m) == 0 && back != nil {
				verdict = "empty header map did not decode to nil"
			} else if fmt.Sprint(sortedKVs(back)) != fmt.Sprint(sortedKVs(m)) {
				verdict = "thrift headers did not round-trip"
			}
		}
		in := putKVs(nil, order)
		o.Hist(fmt.Sprintf("thrift_w n=%d err=%v", min(len(m), 3), err != nil))
		o.Case("thrift_w", fmt.Sprintf("tw%d", id), in, obs, true, verdict)
		id++
		if err == nil {
			nhh := nh
			if len(enc) > 4000 {
				nhh = 2
			}
			for _, b := range hostile(rng, enc, nhh) {
				func() {
					defer func() {
						if r := recover(); r != nil {
							o.Case("thrift_r", fmt.Sprintf("tr%d", id), bytesIn(b), []int64{2}, true, fmt.Sprintf("thrift.ReadHeaders panicked: %v", r))
						}
					}()
					rd := bytes.NewReader(b)
					back, rerr := thrift.ReadHeaders(rd)
					obs := []int64{1}
					if rerr == nil {
						if back == nil {
							obs = []int64{0, 1, int64(len(b) - rd.Len())}
						} else {
							obs = putKVs([]int64{0, 0}, sortedKVs(back))
							obs = append(obs, int64(len(b)-rd.Len()))
						}
					}
					o.Hist(fmt.Sprintf("thrift_r err=%v", rerr != nil))
					o.Case("thrift_r", fmt.Sprintf("tr%d", id), bytesIn(b), obs, true, "")
				}()
				id++
				// the arg2 iterator over the same bytes
				func() {
					defer func() {
						if r := recover(); r != nil {
							o.Case("kviter", fmt.Sprintf("kv%d", id), bytesIn(b), []int64{2}, true, fmt.Sprintf("KeyValIterator panicked: %v", r))
						}
					}()
					var pairs [][2]string
					it, ierr := arg2.NewKeyValIterator(b)
					for ierr == nil {
						pairs = append(pairs, [2]string{string(it.Key()), string(it.Value())})
						it, ierr = it.Next()
					}
					obs := putKVs([]int64{b2i(ierr == io.EOF)}, pairs)
					verdict := ""
					if bytes.Equal(b, enc) {
						if ierr != io.EOF || fmt.Sprint(pairs) != fmt.Sprint(order) {
							verdict = "iterator over WriteHeaders output did not yield exactly the written pairs in order"
						}
					}
					o.Hist(fmt.Sprintf("kviter eof=%v pairs=%d", ierr == io.EOF, min(len(pairs), 3)))
					o.Case("kviter", fmt.Sprintf("kv%d", id), bytesIn(b), obs, true, verdict)
				}()
				id++
			}
		}

		// ---- overlapping decodes after failed ones: pooled readers must have one owner ----
		if err == nil && len(m) > 0 && c%3 == 0 {
			v := overlapDecode(enc, sortedKVs(m))
			o.Hist("thrift-overlap")
			o.Oracle("thrift-overlap", fmt.Sprintf("ov%d", id), true, fmt.Sprint(len(enc), c), v)
			id++
		}

		// ---- uvarint ----
		val := uint64(pick(rng, 0, 1, 127, 128, 16383, 16384, 1<<31, 1<<62))
		if rng.Intn(3) == 0 {
			val = rng.Uint64() >> uint(rng.Intn(64))
		}
		if val <= 1<<62 {
			wbuf := typed.NewWriteBufferWithSize(12)
			wbuf.WriteUvarint(val)
			vb := make([]byte, wbuf.BytesWritten())
			var tmp bytes.Buffer
			wbuf.FlushTo(&tmp)
			copy(vb, tmp.Bytes())
			verdict := ""
			rb := typed.NewReadBuffer(vb)
			if got := rb.ReadUvarint(); got != val || rb.BytesRemaining() != 0 {
				verdict = "uvarint did not round-trip"
			}
			o.Case("uvarint_w", fmt.Sprintf("uw%d", id), []int64{int64(val)}, bytesIn(vb), true, verdict)
			id++
		}
		{
			vb := []byte(randBytes(rng, rng.Intn(13)))
			if rng.Intn(2) == 0 {
				for i := range vb {
					vb[i] |= 0x80
				}
				vb = append(vb, byte(pick(rng, 0, 1, 2, 0x7f)))
			}
			rb := typed.NewReadBuffer(vb)
			got := rb.ReadUvarint()
			if got <= 1<<63-1 {
				o.Case("uvarint_r", fmt.Sprintf("ur%d", id), bytesIn(vb), []int64{int64(got), int64(len(vb) - rb.BytesRemaining()), b2i(rb.Err() != nil)}, true, "")
				id++
			}
		}

		// ---- HTTP request / response byte layer ----
		hdr := nethttp.Header{}
		nk := pick(rng, 0, 1, 2, 5)
		for i := 0; i < nk; i++ {
			k := fmt.Sprintf("X-K%d", i)
			if rng.Intn(3) == 0 {
				k = fmt.Sprintf("x-lower-%d", i) // non-canonical key set by direct assignment
			}
			for j := pick(rng, 1, 1, 2, 3); j > 0; j-- {
				hdr[k] = append(hdr[k], randBytes(rng, pick(rng, 0, 1, 10, 100)))
			}
		}
		big := rng.Intn(12) == 0
		if big {
			hdr["X-Big"] = []string{randBytes(rng, pick(rng, 9000, 9900, 9990, 10000, 12000))}
		}
		method := []string{"GET", "POST", "PUT", "DELETE", "PATCH", "", "M" + randBytes(rng, 3)}[rng.Intn(7)]
		u := fmt.Sprintf("http://h%d.example/p/%d?q=%d", rng.Intn(5), rng.Intn(1000), rng.Intn(9))
		if rng.Intn(6) == 0 {
			u = "/" + string(bytes.Repeat([]byte("a"), pick(rng, 120, 127, 128, 300, 16383, 16384)))
		}
		kind := rng.Intn(2)
		keys := sortedHeader(hdr)
		var arg2b []byte
		in = nil
		status := pick(rng, 200, 404, 500, 100, 999, 0, 65535)
		func() {
			defer func() {
				if r := recover(); r != nil {
					o.Oracle("http_w", fmt.Sprintf("hw%d", id), true, "panic", fmt.Sprintf("http writer panicked: %v", r))
				}
			}()
			mw := &memWritable{}
			if kind == 0 {
				pu, _ := url.Parse(u)
				req := &nethttp.Request{Method: method, URL: pu, Header: hdr}
				thttp.WriteRequest(mw, req)
				in = putBytes([]int64{0}, []byte(method))
				in = putBytes(in, []byte(pu.String()))
			} else {
				w, finish := thttp.ResponseWriter(mw)
				for k, v := range hdr {
					w.Header()[k] = v
				}
				w.WriteHeader(status)
				w.Write(nil)
				finish()
				in = append([]int64{1}, int64(status))
				in = putBytes(in, []byte(nethttp.StatusText(status)))
			}
			arg2b = append([]byte{}, mw.a2.Bytes()...)
		}()
		// recover the emitted key order from the bytes (one pair per value)
		if arg2b != nil {
			var emitted []string
			if !big {
				off := 0
				if kind == 0 {
					off = 1 + len(method)
				} else {
					off = 2
				}
				rb := typed.NewReadBuffer(arg2b[off:])
				l := rb.ReadUvarint()
				rb.SkipBytes(int(l))
				cnt := int(rb.ReadUint16())
				seen := map[string]bool{}
				for i := 0; i < cnt && rb.Err() == nil; i++ {
					k := rb.ReadLen16String()
					rb.ReadLen16String()
					if !seen[k] {
						seen[k] = true
						emitted = append(emitted, k)
					}
				}
				keys = emitted
			}
			if !big || len(hdr) == 1 {
				in = putHeader(in, hdr, keys)
				obs := putBytes(nil, arg2b)
				o.Hist(fmt.Sprintf("http_w kind=%d keys=%d", kind, len(keys)))
				o.Case("http_w", fmt.Sprintf("hw%d", id), in, obs, true, "")
				id++
			}
			// read back + hostile variants
			for vi, b := range hostile(rng, arg2b, nh) {
				func() {
					inr := append([]int64{int64(kind)}, bytesIn(b)...)
					defer func() {
						if r := recover(); r != nil {
							o.Hist("http_r panic")
							o.Case("http_r", fmt.Sprintf("hr%d", id), inr, []int64{2}, true, fmt.Sprintf("[c18:negative-length-panic] http decoder panicked on hostile bytes: %v", r))
						}
					}()
					mr := &memReadable{a2: b}
					var obs []int64
					verdict := ""
					if kind == 0 {
						req, rerr := thttp.ReadRequest(mr)
						if rerr != nil {
							if _, isURL := rerr.(*url.Error); isURL || (rerr.Error() != "buffer is too small") {
								return // net/http refused method or URL: library oracle, not modelled
							}
							obs = []int64{1}
						} else {
							rb := typed.NewReadBuffer(b)
							obs = putBytes([]int64{0}, []byte(rb.ReadLen8String())) // raw method bytes (net/http turns "" into GET)
							l := rb.ReadUvarint()
							obs = putBytes(obs, []byte(rb.ReadString(int(l)))) // raw url bytes (net/url re-serialisation is not compared)
							obs = putHeader(obs, req.Header, sortedHeader(req.Header))
							if vi == 0 && !big {
								if req.Method != method && !(method == "" && req.Method == "GET") {
									verdict = "HTTP method did not round-trip"
								}
								if fmt.Sprint(req.Header) != fmt.Sprint(hdr) && !(len(hdr) == 0 && len(req.Header) == 0) {
									verdict = "HTTP request headers did not round-trip exactly (keys, repeated values, order per key)"
								}
							}
						}
					} else {
						res, rerr := thttp.ReadResponse(mr)
						if rerr != nil {
							obs = []int64{1}
						} else {
							obs = []int64{0, int64(res.StatusCode)}
							rb := typed.NewReadBuffer(b)
							rb.ReadUint16()
							l := rb.ReadUvarint()
							obs = putBytes(obs, []byte(rb.ReadString(int(l))))
							obs = putHeader(obs, res.Header, sortedHeader(res.Header))
							if vi == 0 && !big {
								if res.StatusCode != status || fmt.Sprint(res.Header) != fmt.Sprint(hdr) && !(len(hdr) == 0 && len(res.Header) == 0) {
									verdict = "HTTP response status/headers did not round-trip exactly"
								}
							}
						}
					}
					o.Hist(fmt.Sprintf("http_r kind=%d err=%v", kind, obs[0] == 1))
					o.Case("http_r", fmt.Sprintf("hr%d", id), inr, obs, true, verdict)
				}()
				id++
			}
		}
	}
}

// gatedReader hands out the first `first` bytes, then blocks until released.
type gatedReader struct {
	data    []byte
	first   int
	pos     int
	gate    chan struct{}
	reached chan struct{}
	once    bool
}

func (g *gatedReader) Read(p []byte) (int, error) {
	if g.pos >= len(g.data) {
		return 0, io.EOF
	}
	if g.pos >= g.first && !g.once {
		g.once = true
		close(g.reached)
		<-g.gate
	}
	end := len(g.data)
	if g.pos < g.first {
		end = g.first
	}
	n := copy(p, g.data[g.pos:end])
	g.pos += n
	return n, nil
}

// overlapDecode: a failed decode, then decode A (blocked mid-stream) overlapping a complete
// decode B; both must return their own headers.
func overlapDecode(enc []byte, want [][2]string) string {
	old := runtime.GOMAXPROCS(1)
	gc := debug.SetGCPercent(-1)
	defer func() { runtime.GOMAXPROCS(old); debug.SetGCPercent(gc) }()
	thrift.ReadHeaders(bytes.NewReader([]byte{0, 1, 0})) // malformed: error path
	other := map[string]string{"other-key": "other-value", "k2": "v2"}
	var ob bytes.Buffer
	thrift.WriteHeaders(&ob, other)
	ga := &gatedReader{data: enc, first: 2, gate: make(chan struct{}), reached: make(chan struct{})}
	type res struct {
		m   map[string]string
		err error
	}
	ra := make(chan res, 1)
	go func() {
		m, err := thrift.ReadHeaders(ga)
		ra <- res{m, err}
	}()
	select {
	case <-ga.reached:
	case <-time.After(2 * time.Second):
		return "harness: gated reader not reached"
	}
	mb, errb := thrift.ReadHeaders(bytes.NewReader(ob.Bytes()))
	close(ga.gate)
	a := <-ra
	if errb != nil || !sameMap(mb, other) {
		return fmt.Sprintf("decode B, overlapping a blocked decode after a failed one, returned %v (err %v)", len(mb), errb)
	}
	if a.err != nil || fmt.Sprint(sortedKVs(a.m)) != fmt.Sprint(want) {
		return fmt.Sprintf("decode A, resumed after an overlapping decode, returned %d headers / err %v instead of its own %d headers: headers did not arrive exactly", len(a.m), a.err, len(want))
	}
	return ""
}
