package main

import (
	"bytes"
	"encoding/binary"
	"fmt"
	"math"
	"math/rand"
	"net"
	"sync"
	"time"

	tchannel "github.com/uber/tchannel-go"
	"github.com/uber/tchannel-go/raw"
)

func init() { engines["msgwire"] = engineMsgWire }

// dirtyPool hands out frames whose header was last used for an inbound frame carrying
// non-zero reserved bytes (legal peer input: receivers must ignore reserved bytes).
type dirtyPool struct {
	mu   sync.Mutex
	res1 byte
}

func (p *dirtyPool) Get() *tchannel.Frame {
	f := tchannel.NewFrame(tchannel.MaxFramePayloadSize)
	hdr := make([]byte, 16)
	hdr[1] = 16
	hdr[2] = 0xd0
	hdr[3] = p.res1
	for i := 8; i < 16; i++ {
		hdr[i] = p.res1
	}
	f.ReadBody(hdr, bytes.NewReader(nil))
	return f
}
func (p *dirtyPool) Release(f *tchannel.Frame) {}

// one exchange: real client channel -> raw listener.  The raw peer checks every frame it
// receives against the specification layout and answers with frames from its own encoder.
func engineMsgWire(rng *rand.Rand, n int, tier string, o *Out) {
	for c := 0; c < n; c++ {
		res1 := byte(pick(rng, 0, 0x55, 0xff, 1))
		arg2 := []byte(randBytes(rng, pick(rng, 0, 1, 100, 3000)))
		arg3 := []byte(randBytes(rng, pick(rng, 0, 1, 500, 70000, 140000)))
		resArg2 := []byte(randBytes(rng, pick(rng, 0, 5, 2000)))
		resArg3 := []byte(randBytes(rng, pick(rng, 0, 1, 300, 66000)))
		method := "m" + randBytes(rng, pick(rng, 0, 3, 40))
		service := fmt.Sprintf("svc%d", rng.Intn(10))
		csum := byte(pick(rng, 0, 1, 3))
		maxPayload := pick(rng, 65519, 65519, 1000, 100)
		verdict, cw := wireExchange(res1, service, method, arg2, arg3, resArg2, resArg3, csum, maxPayload)
		if cw != nil && verdict == "" {
			// callwire: the frames of the call req as the real reqResWriter emitted them vs the model
			// of reqResWriter (Model/CallWire.v call_frames); for a call req that is its own only
			// fragment additionally vs the complete-payload encoder written from the protocol
			// document (flags ttl tracing service~1 headers csumtype csum arg1~2 arg2~2 arg3~2).
			in, obs, ok := cw.modelCase(method, arg2, arg3)
			if ok {
				o.Hist(fmt.Sprintf("callwire frames=%d", len(cw.frames)))
				o.Case("callwire", fmt.Sprintf("cw%d", c), in, obs, true, cw.specVerdict(method, arg2, arg3))
			}
		}
		o.Hist(fmt.Sprintf("res1=%#x", res1))
		o.Hist(fmt.Sprintf("arg3len=%d", len(arg3)))
		if c < 2 {
			o.Sample(map[string]interface{}{"sub": "msgwire", "stale_reserved": res1, "arg2": len(arg2), "arg3": len(arg3), "resArg3": len(resArg3), "peerChecksum": csum})
		}
		o.Oracle("msgwire", fmt.Sprintf("w%d", c), true, fmt.Sprint(res1, len(arg2), len(arg3), len(resArg2), len(resArg3), csum, maxPayload, method), verdict)
	}
}

// callWire is what the raw peer saw of one call req: the frames as received and the fields
// of the first fragment parsed per the protocol document.
type callWire struct {
	id     uint32
	first  *rawCall
	frames [][]byte
}

// modelCase: input of run_callwire (mt id kind ttl span service headers a1 a2 a3) and the
// implementation's frames in the model's output encoding.  Span ids above MaxInt64 cannot
// travel as int64; such a case is skipped.
func (cw *callWire) modelCase(method string, arg2, arg3 []byte) (in, obs []int64, ok bool) {
	tr := cw.first.Tracing
	if len(tr) != 25 {
		return nil, nil, false
	}
	in = []int64{3, int64(cw.id), int64(cw.first.CsumType), int64(cw.first.TTL)}
	for i := 0; i < 3; i++ {
		v := binary.BigEndian.Uint64(tr[8*i:])
		if v > math.MaxInt64 {
			return nil, nil, false
		}
		in = append(in, int64(v))
	}
	in = append(in, int64(tr[24]))
	in = putBytes(in, []byte(cw.first.Service))
	in = putKVs(in, cw.first.Headers)
	in = putBytes(in, []byte(method))
	in = putBytes(in, arg2)
	in = putBytes(in, arg3)
	obs = []int64{0, int64(len(cw.frames))}
	for _, f := range cw.frames {
		obs = putBytes(obs, f)
	}
	return in, obs, true
}

// specVerdict: statement-level oracle for an unfragmented call req -- the payload must be
// byte-for-byte what an encoder written from the protocol document produces.
func (cw *callWire) specVerdict(method string, arg2, arg3 []byte) string {
	if len(cw.frames) != 1 {
		return ""
	}
	pc := cw.first
	ck := &rawCsum{typ: pc.CsumType}
	ck.add([]byte(method))
	ck.add(arg2)
	ck.add(arg3)
	want := []byte{0}
	want = append(want, rawCallReqHeader(pc.TTL, pc.Tracing, pc.Service, pc.Headers)...)
	want = append(want, pc.CsumType)
	want = append(want, ck.bytes()...)
	want = append(want, str2(method)...)
	want = append(want, str2(string(arg2))...)
	want = append(want, str2(string(arg3))...)
	if !bytes.Equal(rawFrameBytes(0x03, cw.id, want), cw.frames[0]) {
		return fmt.Sprintf("unfragmented call req frame differs from the specification encoder: got %d bytes, want %d", len(cw.frames[0]), 16+len(want))
	}
	return ""
}

func wireExchange(res1 byte, service, method string, arg2, arg3, resArg2, resArg3 []byte, csum byte, maxPayload int) (string, *callWire) {
	ln, err := net.Listen("tcp", "127.0.0.1:0")
	if err != nil {
		return "harness: listen: " + err.Error(), nil
	}
	defer ln.Close()
	verdictCh := make(chan string, 1)
	cwCh := make(chan *callWire, 1)
	go func() {
		conn, err := ln.Accept()
		if err != nil {
			verdictCh <- "harness: accept: " + err.Error()
			return
		}
		defer conn.Close()
		check := func(f *rawFrame) string {
			if f.Res1 != 0 || !bytes.Equal(f.Res8, make([]byte, 8)) {
				return fmt.Sprintf("[c06:stale-reserved-byte] outbound frame type %#x id %d carries non-zero reserved header bytes (offset 3 = %#x, offsets 8..15 = %x); the specification requires zero", f.Type, f.ID, f.Res1, f.Res8)
			}
			return ""
		}
		f, in, err := rawServerHandshake(conn)
		if err != nil {
			verdictCh <- "init req not conforming: " + err.Error()
			return
		}
		if v := check(f); v != "" {
			verdictCh <- v
			return
		}
		if in.Version != 2 || in.Params["host_port"] == "" || in.Params["process_name"] == "" {
			verdictCh <- fmt.Sprintf("init req: version %d params %v", in.Version, in.Params)
			return
		}
		var frags []*rawCall
		var rawFrames [][]byte
		var id uint32
		ck := &rawCsum{}
		for {
			f, err := readRawFrame(conn, 3*time.Second)
			if err != nil {
				verdictCh <- "reading call req frames: " + err.Error()
				return
			}
			if v := check(f); v != "" {
				verdictCh <- v
				return
			}
			want := byte(0x03)
			if len(frags) > 0 {
				want = 0x13
			}
			if f.Type != want {
				verdictCh <- fmt.Sprintf("frame %d of the call has type %#x, want %#x", len(frags), f.Type, want)
				return
			}
			pc, err := parseRawCall(f.Type, f.Payload)
			if err != nil {
				verdictCh <- "call req frame does not parse per the specification: " + err.Error()
				return
			}
			if len(frags) == 0 {
				id = f.ID
				ck.typ = pc.CsumType
				if pc.Service != service {
					verdictCh <- "service name differs on the wire"
					return
				}
				if pc.TTL == 0 || pc.TTL > 5000 {
					verdictCh <- fmt.Sprintf("ttl on the wire %d ms for a 5 s deadline", pc.TTL)
					return
				}
			} else if f.ID != id {
				verdictCh <- "continuation frame with a different id"
				return
			}
			for _, ch := range pc.Chunks {
				ck.add(ch)
			}
			if !bytes.Equal(ck.bytes(), pc.Csum) || pc.CsumType != ck.typ {
				verdictCh <- fmt.Sprintf("checksum of fragment %d does not match the independently computed one", len(frags))
				return
			}
			frags = append(frags, pc)
			rawFrames = append(rawFrames, rawFrameBytes(f.Type, f.ID, f.Payload))
			if pc.Flags&1 == 0 {
				break
			}
		}
		args := collectArgs(frags)
		if len(args) != 3 || string(args[0]) != method || !bytes.Equal(args[1], arg2) || !bytes.Equal(args[2], arg3) {
			verdictCh <- fmt.Sprintf("arguments reassembled per the specification differ from what was sent (%d args)", len(args))
			return
		}
		hdr := rawCallResHeader(0, frags[0].Tracing, [][2]string{{"as", "raw"}})
		for _, fr := range buildRawCallFrames(false, id, hdr, csum, [3][]byte{{}, resArg2, resArg3}, maxPayload) {
			conn.SetWriteDeadline(time.Now().Add(3 * time.Second))
			if _, err := conn.Write(fr); err != nil {
				verdictCh <- "harness: write res: " + err.Error()
				return
			}
		}
		cwCh <- &callWire{id: id, first: frags[0], frames: rawFrames}
		verdictCh <- ""
		// keep the connection open until the client is done
		readRawFrame(conn, 500*time.Millisecond)
	}()

	ch, err := tchannel.NewChannel("verif-wire-client", &tchannel.ChannelOptions{
		DefaultConnectionOptions: tchannel.ConnectionOptions{FramePool: &dirtyPool{res1: res1}},
	})
	if err != nil {
		return "harness: NewChannel: " + err.Error(), nil
	}
	defer ch.Close()
	ctx, cancel := tchannel.NewContext(5 * time.Second)
	defer cancel()
	call, err := ch.BeginCall(ctx, ln.Addr().String(), service, method, nil)
	var gotArg2, gotArg3 []byte
	if err == nil {
		gotArg2, gotArg3, _, err = raw.WriteArgs(call, arg2, arg3)
	}
	var v string
	select {
	case v = <-verdictCh:
	case <-time.After(6 * time.Second):
		v = "raw peer did not finish"
	}
	var cw *callWire
	select {
	case cw = <-cwCh:
	default:
	}
	if v != "" {
		return v, cw
	}
	if err != nil {
		return "client failed against a specification-conforming peer: " + err.Error(), cw
	}
	if !bytes.Equal(gotArg2, resArg2) || !bytes.Equal(gotArg3, resArg3) {
		return "client decoded different response arguments than the specification-conforming peer sent", cw
	}
	return "", cw
}
