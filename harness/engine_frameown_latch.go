package main

// frameown, directed family fo_latch (C12): frames handed to an exchange AFTER its error
// was latched.
//
// messageExchange.forwardPeerFrame prefers "recvCh has room" over "errCh is notified": a
// frame that arrives for an exchange whose error has been notified by stopExchanges is
// still queued when recvCh has room, and then belongs to the call (forwardPeerFrame returns
// nil, the reader loop must NOT release it); it is refused (returned error, released by the
// reader loop) only when recvCh is full, and from then on every later frame of the exchange
// is refused too (frameDropped).  Which select case queues the frame is random, so every
// scenario is repeated for several rounds.
//
// One round (real client with the tracking pool, raw spec-built peer; the client dials through
// foLatchConn, a net.Conn whose Write can be made to fail and whose Close blocks until the
// round lets it go):
//   1. the client calls; the peer answers with the first call res fragment of an F-fragment
//      response; the application reads arg2 and the beginning of arg3 from it,
//   2. (rounds 0,1,4,5) the application Close()s the connection gracefully (state leaves
//      Active, the outbound exchange stays registered; a draining connection answers pings),
//   3. the latch: the harness makes the connection's writes fail and the peer sends a ping; the
//      ping is answered (sendMessage queues the ping res), writeFrames' WriteOut fails =
//      connectionError = stopExchanges: the exchange's error is latched, the connection goes to
//      connectionClosed and writeFrames calls closeNetwork -- whose conn.Close() the harness
//      holds back, so the reader goroutine stays alive exactly as in the window between
//      stopExchanges and the completion of a real Close.  (Until the repair "a draining
//      connection answers ping requests" the latch was: ping on a non-active connection =
//      protocol error = stopExchanges; that ping is answered now.)
//   4. once Close has been entered the peer sends a continuation frames; the schedule point
//      conn.readFrames.handled tells the harness when the client has processed them (a closed
//      connection answers nothing, so there is no marker on the wire),
//   5. (optional) the application reads on into the next fragment (recvCh has room again),
//      the peer sends b more continuation frames,
//   6. the application reads the response to the end (data, then the latched error, or a
//      complete response when every fragment was queued); then Close is let go.
//
// Rounds alternate between the poisoning pool (a stale reference reads poison: caught by the
// poisoned-header log oracle and the data oracle) and a non-poisoning pool (a stale reference
// keeps working as with sync.Pool: caught as a second release).  On correct code the fate of
// every frame is deterministic and is compared with the model's prediction.

import (
	"bytes"
	"context"
	"fmt"
	"io"
	"io/ioutil"
	"math/rand"
	"net"
	"os"
	"strings"
	"sync"
	"sync/atomic"
	"time"

	tchannel "github.com/uber/tchannel-go"
)

// ---------------------------------------------------------------- logger that recognises poisoned headers

type foLatchSink struct {
	mu   sync.Mutex
	hits []string
}

// foLatchLog is a tchannel.Logger: every field carrying a frame header is checked for the
// poison pattern of released frames (zz_verif_c12.go: ID 0xDEADBEEF, type 0xEE).
type foLatchLog struct {
	sink   *foLatchSink
	fields tchannel.LogFields
	poison string
}

func (l *foLatchLog) note(msg string) {
	if l.poison == "" {
		return
	}
	l.sink.mu.Lock()
	l.sink.hits = append(l.sink.hits, fmt.Sprintf("%q (%s)", msg, l.poison))
	l.sink.mu.Unlock()
}
func (l *foLatchLog) Enabled(level tchannel.LogLevel) bool { return level >= tchannel.LogLevelInfo }
func (l *foLatchLog) Fatal(msg string)                     { l.note(msg) }
func (l *foLatchLog) Error(msg string)                     { l.note(msg) }
func (l *foLatchLog) Warn(msg string)                      { l.note(msg) }
func (l *foLatchLog) Infof(msg string, args ...interface{}) {
	l.note(msg)
}
func (l *foLatchLog) Info(msg string)                        { l.note(msg) }
func (l *foLatchLog) Debugf(msg string, args ...interface{}) {}
func (l *foLatchLog) Debug(msg string)                       {}
func (l *foLatchLog) Fields() tchannel.LogFields             { return l.fields }
func (l *foLatchLog) WithFields(fields ...tchannel.LogField) tchannel.Logger {
	n := &foLatchLog{sink: l.sink, poison: l.poison}
	n.fields = append(append(tchannel.LogFields{}, l.fields...), fields...)
	for _, f := range fields {
		switch h := f.Value.(type) {
		case tchannel.FrameHeader:
			if h.ID == 0xDEADBEEF {
				n.poison = "field " + f.Key + " = header of a released frame: " + h.String()
			}
		case *tchannel.FrameHeader:
			if h != nil && h.ID == 0xDEADBEEF {
				n.poison = "field " + f.Key + " = header of a released frame: " + h.String()
			}
		}
	}
	return n
}

// ---------------------------------------------------------------- the client's network connection

// foLatchConn is the client's net.Conn: once failWrites is set every Write fails (the
// connection's writeFrames then runs connectionError and closeNetwork); Close signals that it
// was called and blocks until release() -- reads keep working in between.
type foLatchConn struct {
	net.Conn
	failWrites  int32
	closeCalled chan struct{}
	allowClose  chan struct{}
	once, rel   sync.Once
}

func (c *foLatchConn) Write(b []byte) (int, error) {
	if atomic.LoadInt32(&c.failWrites) != 0 {
		return 0, fmt.Errorf("harness: injected write failure")
	}
	return c.Conn.Write(b)
}
func (c *foLatchConn) Close() error {
	c.once.Do(func() { close(c.closeCalled) })
	<-c.allowClose
	return c.Conn.Close()
}
func (c *foLatchConn) release() { c.rel.Do(func() { close(c.allowClose) }) }

// ---------------------------------------------------------------- one round

type foLatchParams struct {
	csum  byte
	maxP  int
	frags int // wanted number of response fragments
	a     int // continuation frames right after the latch
	b     int // -1: no second phase; else frames sent after the application popped one more fragment
	arg2  int
}

func (p foLatchParams) String() string {
	return fmt.Sprintf("csum=%d maxP=%d F=%d a=%d b=%d", p.csum, p.maxP, p.frags, p.a, p.b)
}

const foLatchWait = 4 * time.Second

// foLatchRound runs one round on connection number c / exchange key kc of the label list;
// graceful: the application Close()s the connection before the latch.
func foLatchRound(rng *rand.Rand, p foLatchParams, pool *foPool, c, kc int64, graceful bool, l *foLabels) (verdict, info string) {
	fail := func(f string, a ...interface{}) (string, string) { return "harness: " + fmt.Sprintf(f, a...), info }
	ln, err := net.Listen("tcp", "127.0.0.1:0")
	if err != nil {
		return fail("listen: %v", err)
	}
	defer ln.Close()
	sink := &foLatchSink{}
	var wc *foLatchConn
	cli, err := tchannel.NewChannel("cli", &tchannel.ChannelOptions{Logger: &foLatchLog{sink: sink},
		Dialer: func(ctx context.Context, network, hostPort string) (net.Conn, error) {
			nc, err := (&net.Dialer{}).DialContext(ctx, network, hostPort)
			if err != nil {
				return nil, err
			}
			wc = &foLatchConn{Conn: nc, closeCalled: make(chan struct{}), allowClose: make(chan struct{})}
			return wc, nil
		},
		DefaultConnectionOptions: tchannel.ConnectionOptions{FramePool: pool}})
	if err != nil {
		return fail("%v", err)
	}
	defer cli.Close()
	defer func() {
		if wc != nil {
			wc.release()
		}
	}()
	// frames the client's readFrames has dealt with completely (incl. the release, if any)
	var handled int64
	tchannel.VerifSetHook(func(name string, id uint32) {
		if name == "conn.readFrames.handled" {
			atomic.AddInt64(&handled, 1)
		}
	})
	defer tchannel.VerifSetHook(nil)
	waitHandled := func(n int64, what string) string {
		deadline := time.Now().Add(foLatchWait)
		for atomic.LoadInt64(&handled) < n {
			if time.Now().After(deadline) {
				return fmt.Sprintf("timeout waiting for %s (%d of %d frames handled by the client's reader)", what, atomic.LoadInt64(&handled), n)
			}
			time.Sleep(200 * time.Microsecond)
		}
		return ""
	}

	// the response
	resArg2 := foArg(rng, p.arg2)
	resArg3 := foArg(rng, (p.frags-1)*(p.maxP-12)+p.maxP/3)
	var frames [][]byte // built by the peer once it knows the call's id
	var cum []int       // cum[j] = arg3 bytes contained in fragments 0..j
	built := make(chan struct{})

	latch, latched, phaseB := make(chan struct{}), make(chan struct{}), make(chan struct{})
	sent1, sent2 := make(chan struct{}), make(chan struct{})
	quit := make(chan struct{}) // the application gave up on this round
	peerErr := make(chan error, 1)
	a, b := p.a, p.b
	go func() {
		peerErr <- func() error {
			conn, err := ln.Accept()
			if err != nil {
				return err
			}
			defer conn.Close()
			if _, _, err := rawServerHandshake(conn); err != nil {
				return fmt.Errorf("handshake: %v", err)
			}
			var id uint32
			for {
				f, err := readRawFrame(conn, foLatchWait)
				if err != nil {
					return fmt.Errorf("reading the call req: %v", err)
				}
				if f.Type != 0x03 && f.Type != 0x13 {
					continue
				}
				id = f.ID
				pc, err := parseRawCall(f.Type, f.Payload)
				if err != nil {
					return fmt.Errorf("call req does not parse: %v", err)
				}
				if pc.Flags&1 == 0 {
					break
				}
			}
			frames = buildRawCallFrames(false, id, rawCallResHeader(0, foTracing, nil), p.csum, [3][]byte{{}, resArg2, resArg3}, p.maxP)
			for j, fr := range frames {
				pc, err := parseRawCall(fr[2], fr[16:])
				if err != nil || len(pc.Chunks) == 0 {
					return fmt.Errorf("harness built an unparsable response fragment %d", j)
				}
				n := len(pc.Chunks[0])
				if j == 0 {
					if len(pc.Chunks) != 3 {
						return fmt.Errorf("first response fragment has %d chunks", len(pc.Chunks))
					}
					n = len(pc.Chunks[2])
					cum = append(cum, n)
				} else {
					cum = append(cum, cum[j-1]+n)
				}
			}
			F := len(frames)
			if a > F-1 {
				a = F - 1
			}
			if b > F-1-a {
				b = F - 1 - a
			}
			close(built)
			wr := func(bs []byte) error {
				conn.SetWriteDeadline(time.Now().Add(foLatchWait))
				_, err := conn.Write(bs)
				return err
			}
			if err := wr(frames[0]); err != nil {
				return err
			}
			select {
			case <-latch:
			case <-time.After(foLatchWait):
				return fmt.Errorf("application never armed the latch")
			}
			// the ping whose answer the client fails to write
			if err := wr(rawFrameBytes(0xd0, 9001, nil)); err != nil {
				return err
			}
			select {
			case <-latched:
			case <-quit:
				return nil
			case <-time.After(2 * foLatchWait):
				return fmt.Errorf("the client's exchanges were never stopped")
			}
			for j := 1; j <= a; j++ {
				if err := wr(frames[j]); err != nil {
					return err
				}
			}
			close(sent1)
			if b >= 0 {
				select {
				case <-phaseB:
				case <-quit:
					return nil
				case <-time.After(2 * foLatchWait):
					return fmt.Errorf("application never reached the second phase")
				}
				for j := a + 1; j <= a+b; j++ {
					if err := wr(frames[j]); err != nil {
						return err
					}
				}
				close(sent2)
			}
			conn.SetReadDeadline(time.Now().Add(foLatchWait))
			io.Copy(ioutil.Discard, conn)
			return nil
		}()
	}()
	waitFor := func(ch chan struct{}, what string) string {
		select {
		case <-ch:
			return ""
		case err := <-peerErr:
			peerErr <- err
			return fmt.Sprintf("raw peer stopped before %s: %v", what, err)
		case <-time.After(foLatchWait + time.Second):
			return "timeout waiting for " + what
		}
	}

	ctx, cancel := tchannel.NewContext(3 * foLatchWait)
	defer cancel()
	peer := cli.Peers().GetOrAdd(ln.Addr().String())
	conn, err := peer.GetConnection(ctx)
	if err != nil {
		return fail("connect: %v", err)
	}
	w0 := pool.count(siteW)
	call, err := peer.BeginCall(ctx, "svc", "echo", nil)
	if err != nil {
		return fail("BeginCall: %v", err)
	}
	if err := tchannel.NewArgWriter(call.Arg2Writer()).Write(foArg(rng, 10)); err != nil {
		return fail("arg2 write: %v", err)
	}
	if err := tchannel.NewArgWriter(call.Arg3Writer()).Write(foArg(rng, 30)); err != nil {
		return fail("arg3 write: %v", err)
	}
	var a2 []byte
	if err := tchannel.NewArgReader(call.Response().Arg2Reader()).Read(&a2); err != nil {
		return fail("arg2 read: %v", err)
	}
	arg3, err := call.Response().Arg3Reader()
	if err != nil {
		return fail("arg3 reader: %v", err)
	}
	if v := waitFor(built, "the response was built"); v != "" {
		return fail("%s", v)
	}
	F := len(frames)
	h0 := cum[0] / 2
	if h0 < 1 {
		return fail("first fragment carries %d bytes of arg3", cum[0])
	}
	got := make([]byte, h0)
	if _, err := io.ReadFull(arg3, got); err != nil {
		return fail("reading the head of arg3: %v", err)
	}
	nReq := pool.count(siteW) - w0

	// labels up to here: handshake, request, first response fragment
	l.local(c, 1)
	l.local(c, 0)
	l.newMex(kc, c, 2)
	l.writeFragments(kc, c, nReq)
	l.readFwd(c, kc, 0)
	l.fetch(kc, true, true)
	l.acc(kc)

	// (graceful close, then) the latch: the answer to the peer's ping cannot be written, the
	// connection fails and stops its exchanges; its Close of the network is held back, the peer
	// keeps streaming
	if wc == nil {
		return fail("the client did not dial through the harness")
	}
	if graceful {
		conn.Close()
	}
	atomic.StoreInt32(&wc.failWrites, 1)
	close(latch)
	select {
	case <-wc.closeCalled: // connectionError has run: exchanges stopped, state closed, closeNetwork entered
	case err := <-peerErr:
		peerErr <- err
		return fail("raw peer stopped before the latch: %v", err)
	case <-time.After(foLatchWait + time.Second):
		return fail("the connection was not closed after its writer failed (%d frames handled)", atomic.LoadInt64(&handled))
	}
	close(latched)
	if v := waitFor(sent1, "the frames after the latch were sent"); v != "" {
		return fail("%s", v)
	}
	if v := waitHandled(int64(2+a), "the frames after the latch were processed"); v != "" {
		return fail("%s", v)
	}
	l.readRel(c, false) // the ping req
	l.sendMsg(c)        // its answer, queued
	l.writeFail(c)      // writeFrames: WriteOut fails, the frame is released, the loop is left
	l.errN(kc)
	for j := 1; j <= a; j++ {
		l.readFwd(c, kc, 0)
	}

	popped := 0 // continuation fragments the application has started to read
	var readErr error
	if b >= 0 {
		// read on into the next fragment: the rest of fragment 0 and one more byte
		buf := make([]byte, cum[0]-h0+1)
		n, err := io.ReadFull(arg3, buf)
		got = append(got, buf[:n]...)
		if err != nil {
			// nothing was queued (impossible when forwardPeerFrame is right: a >= 1 and the queue
			// was empty): the reader has failed, the connection is going away
			readErr = err
			b = 0
			close(quit)
		} else {
			close(phaseB)
			if v := waitFor(sent2, "the frames of the second phase were sent"); v != "" {
				return fail("%s", v)
			}
			if v := waitHandled(int64(2+a+b), "the frames of the second phase were processed"); v != "" {
				return fail("%s", v)
			}
			popped = 1
			l.fetch(kc, true, true)
			l.acc(kc)
			for j := a + 1; j <= a+b; j++ {
				l.readFwd(c, kc, 0)
			}
		}
	}
	complete := false
	if readErr == nil {
		rest, err := ioutil.ReadAll(arg3)
		got = append(got, rest...)
		readErr = err
		if err == nil {
			readErr = arg3.Close()
			complete = readErr == nil
		}
	}
	cancel()

	// ---- oracle on what the application saw (from the statement: it never sees a frame that
	// was handed back, so: no poison, no gap, whole fragments only)
	consumed, sent := -1, a
	if b > 0 {
		sent += b
	}
	for j, n := range cum {
		if n == len(got) {
			consumed = j
		}
	}
	info = fmt.Sprintf("graceful=%v F=%d a=%d b=%d got=%d/%d consumed=%d complete=%v err=%v", graceful, F, a, b, len(got), len(resArg3), consumed, complete, readErr)
	switch {
	case hasPoison(got):
		verdict = "application read poison (contents of a released frame) from the response"
	case len(got) > len(resArg3) || !bytes.Equal(got, resArg3[:len(got)]):
		verdict = "response data differs from what the peer sent (gap or foreign bytes)"
	case !bytes.Equal(a2, resArg2):
		verdict = "response arg2 differs from what the peer sent"
	case complete && len(got) != len(resArg3):
		verdict = fmt.Sprintf("response reported complete after %d of %d bytes", len(got), len(resArg3))
	case consumed < 0:
		verdict = fmt.Sprintf("response data ends inside a fragment (%d bytes, fragment ends at %v) although every fragment sent was whole", len(got), cum)
	case consumed > sent:
		verdict = fmt.Sprintf("application consumed %d continuation fragments, the peer sent %d", consumed, sent)
	}
	sink.mu.Lock()
	if len(sink.hits) > 0 {
		verdict = fmt.Sprintf("library read a frame after handing it back: logged %s", strings.Join(sink.hits, "; "))
	}
	sink.mu.Unlock()

	// labels of the resumed read
	if consumed >= 0 {
		for j := popped + 1; j <= consumed; j++ {
			l.fetch(kc, true, true)
			l.acc(kc)
		}
	}
	if complete {
		l.closeLast(kc)
	} else {
		l.fetch(kc, true, true) // nothing queued, error latched: the reader fails
	}
	wc.release() // closeNetwork completes, the client's reader goroutine ends
	cli.Close()
	select {
	case err := <-peerErr:
		if err != nil && verdict == "" {
			verdict = "harness: raw peer: " + err.Error()
		}
	case <-time.After(foLatchWait + time.Second):
		if verdict == "" {
			verdict = "harness: raw peer did not finish"
		}
	}
	foSettle(10*time.Millisecond, 400*time.Millisecond, pool)
	return verdict, info
}

// ---------------------------------------------------------------- family

// number of frames released more than once
func (p *foPool) multiReleased() int {
	p.mu.Lock()
	defer p.mu.Unlock()
	n := 0
	for _, r := range p.recs {
		if len(r.rels) > 1 {
			n++
		}
	}
	return n
}

const foLatchRounds = 6

func foLatchFamily(top *rand.Rand, n int, o *Out, only string, tooMany func() bool) {
	nLatch := n / 10
	if nLatch < 12 {
		nLatch = 12
	}
	for i := 0; i < nLatch; i++ {
		rng := rand.New(rand.NewSource(top.Int63()))
		if only != "" && only != fmt.Sprintf("latch%d", i) || tooMany() {
			continue
		}
		p := foLatchParams{csum: byte(pick(rng, 0, 1, 3)), maxP: pick(rng, 120, 300, 1000, 4000), frags: 2 + rng.Intn(5),
			a: 1 + rng.Intn(4), b: pick(rng, -1, -1, 0, 1, 2), arg2: pick(rng, 0, 1, 20)}
		if i < 6 {
			// the corners first: one / two frames into an empty queue, overflow, late frame after a drop, late frame without
			p.a = []int{1, 2, 3, 3, 2, 1}[i]
			p.b = []int{-1, -1, -1, 1, 1, 2}[i]
			p.frags = []int{2, 3, 5, 6, 4, 6}[i]
		}
		pool := newFoPool("client")
		var l foLabels
		verdict, infos := "", []string{}
		for r := 0; r < foLatchRounds && verdict == ""; r++ {
			pool.mu.Lock()
			pool.noPoison = r%2 == 1
			pool.mu.Unlock()
			v, info := foLatchRound(rng, p, pool, int64(r+1), int64(100+r), r%4 < 2, &l)
			infos = append(infos, info)
			verdict = v
			if pool.multiReleased() > 0 {
				break // foJudge below names the frame
			}
		}
		cs, v := foJudge(false, pool)
		verdict = foMerge(v, verdict)
		o.Hist(fmt.Sprintf("latch a=%d b=%d", p.a, p.b))
		o.Hist(fmt.Sprintf("latch csum=%d", p.csum))
		if i < 1 {
			o.Sample(map[string]interface{}{"sub": "fo_latch", "params": p.String(), "rounds": infos, "frames": len(cs)})
		}
		if os.Getenv("FO_DEBUG") != "" {
			fmt.Fprintf(os.Stderr, "latch%d %s: %s | %s\n", i, p, strings.Join(infos, " | "), verdict)
		}
		in := append([]int64{0, 512}, l.v...)
		o.Case("frameown", fmt.Sprintf("latch%d", i), in, foObs(cs, verdict), true, verdict)
	}
}
