package main

// Sub-engine "hostile" of engine "cut" (property C05 a): the real fragmentingReader on HOSTILE
// fragment lists under arbitrary operation scripts, against the reader model
// (Model/FragWire.v run_fragr, the model the theorem C05_one_outcome is about).
//
// Fragment lists: valid three-argument layouts and random chunk structures, then mutated:
// more-fragments flags flipped, checksum fields forged, checksum types changed in the middle of
// a message, fragments dropped / duplicated / swapped / appended after the last one, fragments
// without chunks, extra empty chunks -- with the running checksums re-computed afterwards in
// most cases, so that the structural damage is not masked by a checksum error.  All fragments
// are parseable (known checksum type, checksum field of that type's size): they reach the reader
// through the real parseInboundFragment.  Scripts: protocol-following (Begin, reads, Close x3;
// helper reads) and random sequences of Begin / Read(n) / Close / helper.
//
// Oracle (from the statement of C05_one_outcome, computed independently of the model):
//   - no panic
//   - after the first error code (anything but nil and io.EOF) every operation returns that
//     code and no data
//   - the reader is Complete only if the fragments it consumed are a well-formed message whose
//     running checksums (computed here with hash/crc32) all match
//   - three helper reads that all succeed return exactly the arguments those fragments denote

import (
	"bytes"
	"fmt"
	"math/rand"
	"strings"

	tchannel "github.com/uber/tchannel-go"
)

func c05CkSize(t byte) int {
	if t == 0 {
		return 0
	}
	return 4
}

// c05Seal recomputes the running checksum fields (type of the first fragment)
func c05Seal(frs []*sfrag) {
	if len(frs) == 0 {
		return
	}
	var all []byte
	t0 := frs[0].ctype
	for _, f := range frs {
		for _, c := range f.chunks {
			all = append(all, c...)
		}
		ck := specChecksum(t0, all)
		if f.ctype == 2 || (t0 == 2 && f.ctype != 0) {
			ck = []byte{0, 0, 0, 0}
		}
		if len(ck) != c05CkSize(f.ctype) {
			ck = make([]byte, c05CkSize(f.ctype))
		}
		f.ck = ck
	}
}

func c05Split(rng *rand.Rand, a []byte) [][]byte {
	var out [][]byte
	for len(a) > 0 && rng.Intn(3) != 0 {
		k := rng.Intn(len(a) + 1)
		out = append(out, a[:k])
		a = a[k:]
	}
	return append(out, a)
}

// c05Layout: a valid fragment layout of three arguments
func c05Layout(rng *rand.Rand, ctype byte) ([]*sfrag, [3][]byte) {
	var args [3][]byte
	var chunksOf [][][]byte
	var cur [][]byte
	for ai := 0; ai < 3; ai++ {
		args[ai] = []byte(randBytes(rng, pick(rng, 0, 1, 2, 5, 9)))
		for pi, p := range c05Split(rng, args[ai]) {
			switch {
			case pi > 0:
				chunksOf = append(chunksOf, cur)
				cur = [][]byte{p}
			case ai == 0:
				cur = [][]byte{p}
			case rng.Intn(4) == 0:
				chunksOf = append(chunksOf, cur)
				cur = [][]byte{{}, p}
			default:
				cur = append(cur, p)
			}
		}
	}
	chunksOf = append(chunksOf, cur)
	var frs []*sfrag
	for i, cs := range chunksOf {
		frs = append(frs, &sfrag{more: i != len(chunksOf)-1, ctype: ctype, chunks: cs})
	}
	c05Seal(frs)
	return frs, args
}

func c05CloneFrag(f *sfrag) *sfrag {
	g := &sfrag{more: f.more, ctype: f.ctype, ck: append([]byte(nil), f.ck...)}
	for _, c := range f.chunks {
		g.chunks = append(g.chunks, append([]byte{}, c...))
	}
	return g
}

// c05Mutate applies one structural mutation; returns its name
func c05Mutate(rng *rand.Rand, frs []*sfrag) ([]*sfrag, string) {
	if len(frs) == 0 {
		return []*sfrag{{ctype: 0, chunks: [][]byte{{}}}}, "from-empty"
	}
	i := rng.Intn(len(frs))
	switch rng.Intn(12) {
	case 0:
		frs[i].more = !frs[i].more
		return frs, "flip-more"
	case 1:
		frs[len(frs)-1].more = true
		return frs, "more-on-last"
	case 2:
		frs[i].more = false
		return frs, "clear-more"
	case 3:
		out := append([]*sfrag{}, frs[:i]...)
		return append(out, frs[i+1:]...), "drop"
	case 4:
		out := append([]*sfrag{}, frs[:i+1]...)
		out = append(out, c05CloneFrag(frs[i]))
		return append(out, frs[i+1:]...), "duplicate"
	case 5:
		j := rng.Intn(len(frs))
		frs[i], frs[j] = frs[j], frs[i]
		return frs, "swap"
	case 6:
		extra, _ := c05Layout(rng, frs[0].ctype)
		return append(frs, extra...), "append-message"
	case 7:
		frs[i].chunks = nil
		return frs, "no-chunks"
	case 8:
		frs[i].chunks = append([][]byte{{}}, frs[i].chunks...)
		return frs, "extra-empty-chunk-front"
	case 9:
		frs[i].chunks = append(frs[i].chunks, []byte(randBytes(rng, rng.Intn(3))))
		return frs, "extra-chunk-back"
	case 10:
		frs[i].ctype = byte(pick(rng, 0, 1, 2, 3))
		return frs, "change-ctype"
	default:
		if len(frs[i].chunks) > 0 {
			k := rng.Intn(len(frs[i].chunks))
			frs[i].chunks[k] = []byte(randBytes(rng, rng.Intn(6)))
		}
		return frs, "change-data"
	}
}

func c05Script(rng *rand.Rand) ([]tchannel.VerifROp, string) {
	var ops []tchannel.VerifROp
	sizes := []int{0, 1, 1, 2, 3, 7, 100, 1000}
	switch rng.Intn(4) {
	case 0: // three helper reads
		for a := 0; a < 3; a++ {
			ops = append(ops, tchannel.VerifROp{Kind: 0, Last: a == 2}, tchannel.VerifROp{Kind: 3, N: 512})
		}
		return ops, "helpers"
	case 1: // Begin, reads past EOF, Close -- three (sometimes two or four) times
		n := pick(rng, 3, 3, 3, 2, 4)
		for a := 0; a < n; a++ {
			ops = append(ops, tchannel.VerifROp{Kind: 0, Last: a == n-1})
			for k := rng.Intn(5); k >= 0; k-- {
				ops = append(ops, tchannel.VerifROp{Kind: 1, N: sizes[rng.Intn(len(sizes))]})
			}
			ops = append(ops, tchannel.VerifROp{Kind: 1, N: 1000}, tchannel.VerifROp{Kind: 2})
		}
		return ops, "protocol"
	case 2: // protocol-like with the last flag at random places and stray operations
		for a := 0; a < 4; a++ {
			ops = append(ops, tchannel.VerifROp{Kind: 0, Last: rng.Intn(3) == 0})
			for k := rng.Intn(4); k > 0; k-- {
				ops = append(ops, tchannel.VerifROp{Kind: 1, N: sizes[rng.Intn(len(sizes))]})
			}
			if rng.Intn(5) != 0 {
				ops = append(ops, tchannel.VerifROp{Kind: 2})
			}
		}
		return ops, "stray-last"
	default:
		for k := 3 + rng.Intn(12); k > 0; k-- {
			switch rng.Intn(6) {
			case 0, 1:
				ops = append(ops, tchannel.VerifROp{Kind: 0, Last: rng.Intn(2) == 0})
			case 2, 3:
				ops = append(ops, tchannel.VerifROp{Kind: 1, N: sizes[rng.Intn(len(sizes))]})
			case 4:
				ops = append(ops, tchannel.VerifROp{Kind: 2})
			default:
				ops = append(ops, tchannel.VerifROp{Kind: 3, N: 512})
			}
		}
		return ops, "random"
	}
}

// c05Verified: is the fragment list a well-formed message whose running checksums verify?
func c05Verified(frs []*sfrag) string {
	if len(frs) == 0 {
		return "no fragment was consumed"
	}
	var all []byte
	t0 := frs[0].ctype
	for i, f := range frs {
		if len(f.chunks) == 0 {
			return fmt.Sprintf("fragment %d has no chunk", i)
		}
		if f.more != (i != len(frs)-1) {
			return fmt.Sprintf("fragment %d of %d has more-fragments flag %v", i, len(frs), f.more)
		}
		if f.ctype != t0 {
			return fmt.Sprintf("fragment %d has checksum type %d, the first one %d", i, f.ctype, t0)
		}
		for _, c := range f.chunks {
			all = append(all, c...)
		}
		if t0 == 2 || !bytes.Equal(f.ck, specChecksum(t0, all)) {
			return fmt.Sprintf("fragment %d: the checksum field does not verify", i)
		}
	}
	return ""
}

func c05RunHostile(frs []*sfrag, ops []tchannel.VerifROp) (obs []int64, verdict string) {
	var payloads [][]byte
	for _, f := range frs {
		payloads = append(payloads, f.payload())
	}
	p, o, state, released, finished := tchannel.VerifFragRead(payloads, ops)
	if p != nil {
		return []int64{1}, fmt.Sprintf("fragmentingReader panicked on parseable fragments: %v", p)
	}
	obs = append([]int64{0}, o...)
	obs = append(obs, int64(state), int64(released), b2i(finished))
	// walk the observation
	i := 0
	sticky := int64(0)
	var helperData [][]byte
	helperOK := 0
	for k, op := range ops {
		code := o[i]
		i++
		var data []byte
		if op.Kind == 1 || op.Kind == 3 {
			n := int(o[i])
			i++
			for j := 0; j < n; j++ {
				data = append(data, byte(o[i+j]))
			}
			i += n
		}
		if sticky != 0 {
			if code != sticky || len(data) > 0 {
				return obs, fmt.Sprintf("operation %d after the reader failed with code %d returned code %d and %d bytes", k, sticky, code, len(data))
			}
			continue
		}
		if code != 0 && code != 12 {
			sticky = code
		}
		if op.Kind == 3 && code == 0 {
			helperOK++
			helperData = append(helperData, data)
		}
	}
	if state == 4 {
		if released > len(frs) {
			return obs, fmt.Sprintf("%d fragments released, %d delivered", released, len(frs))
		}
		if v := c05Verified(frs[:released]); v != "" {
			return obs, fmt.Sprintf("the reader is Complete after %d of %d fragments, which are not a verified well-formed message: %s", released, len(frs), v)
		}
		if !finished {
			return obs, "the reader is Complete but doneReading was not called"
		}
		if len(ops) == 6 && helperOK == 3 {
			want := denoteSFrags(frs[:released])
			if len(want) != 3 || !bytes.Equal(want[0], helperData[0]) || !bytes.Equal(want[1], helperData[1]) || !bytes.Equal(want[2], helperData[2]) {
				return obs, fmt.Sprintf("three helper reads succeeded with arguments that are not what the %d verified fragments denote (%d arguments)", released, len(want))
			}
		}
	} else if len(ops) == 6 && helperOK == 3 {
		return obs, "three helper reads (the last one with last=true) succeeded but the reader is not Complete"
	}
	return obs, ""
}

func engineCutHostile(rng *rand.Rand, n int, tier string, o *Out) {
	count := 1500
	if tier != "quick" {
		count = 20000
	}
	for c := 0; c < count; c++ {
		ctype := byte(pick(rng, 0, 1, 3, 1, 3, 2))
		var frs []*sfrag
		if rng.Intn(4) == 0 {
			// random chunk structure
			for k := 1 + rng.Intn(4); k > 0; k-- {
				f := &sfrag{more: k > 1, ctype: ctype}
				for j := rng.Intn(4); j > 0; j-- {
					f.chunks = append(f.chunks, []byte(randBytes(rng, rng.Intn(5))))
				}
				frs = append(frs, f)
			}
		} else {
			frs, _ = c05Layout(rng, ctype)
		}
		muts := ""
		for k := pick(rng, 0, 1, 1, 1, 2, 3); k > 0; k-- {
			var name string
			frs, name = c05Mutate(rng, frs)
			muts += name + " "
		}
		if muts == "" {
			muts = "none "
		}
		reseal := rng.Intn(5) != 0
		if reseal {
			c05Seal(frs)
		} else {
			// parseable all the same: a checksum field of the type's size
			for _, f := range frs {
				if len(f.ck) != c05CkSize(f.ctype) {
					f.ck = []byte(randBytes(rng, c05CkSize(f.ctype)))
				}
			}
			if len(frs) > 0 && rng.Intn(2) == 0 {
				f := frs[rng.Intn(len(frs))]
				if len(f.ck) > 0 {
					f.ck[rng.Intn(len(f.ck))] ^= byte(1 + rng.Intn(255))
				}
			}
		}
		ops, kind := c05Script(rng)
		obs, verdict := c05RunHostile(frs, ops)
		if len(obs) > 3 && obs[len(obs)-3] == 4 {
			o.Hist("hostile:complete")
		}
		o.Hist("hostile:script=" + kind)
		o.Hist(fmt.Sprintf("hostile:resealed=%v", reseal))
		for _, m := range strings.Fields(muts) {
			o.Hist("hostile:mut " + m)
		}
		if c < 2 {
			o.Sample(map[string]interface{}{"sub": "hostile", "fragments": len(frs), "mutations": muts, "resealed": reseal, "script": kind, "ops": len(ops)})
		}
		if verdict != "" {
			verdict += fmt.Sprintf(" [mutations: %s resealed=%v script=%s]", muts, reseal, kind)
		}
		o.Case("fragr", fmt.Sprintf("h%d", c), rInput(frs, ops), obs, true, verdict)
	}
}
