package main

import (
	"bytes"
	"fmt"
	"math/rand"
	"net"
	"sync"
	"time"

	tchannel "github.com/uber/tchannel-go"
	"github.com/uber/tchannel-go/raw"
)

// Two small directed engines added after seeded defects were missed by the first
// version of the C05 and C16 checks.

func init() {
	engines["stallwrite"] = engineStallWrite
	engines["peeraddrace"] = enginePeerAddRace
}

// stallwrite (C05): the peer completes the handshake and then never reads; the request is
// much larger than the socket buffers and the connection's send queue.  The caller must
// get control back by its deadline (request direction stalled at an arbitrary offset).
func engineStallWrite(rng *rand.Rand, n int, tier string, o *Out) {
	for c := 0; c < n; c++ {
		deadline := time.Duration(pick(rng, 200, 300, 500)) * time.Millisecond
		size := pick(rng, 8, 24, 48) << 20
		sendBuf := pick(rng, 1, 4, 16)
		verdict := ""
		late := 0
		var took time.Duration
		for attempt := 0; attempt < 3; attempt++ {
			took = stallWriteOnce(deadline, size, sendBuf)
			if took < 0 {
				verdict = "harness: setup failed"
				break
			}
			if took <= deadline+400*time.Millisecond {
				break
			}
			late++
		}
		if late == 3 {
			verdict = fmt.Sprintf("caller with a %v deadline writing a %d MB request to a peer that never reads got control back after %v (3 of 3 runs)", deadline, size>>20, took)
		}
		if verdict == "harness: setup failed" {
			verdict = ""
		}
		o.Hist(fmt.Sprintf("stallwrite sendbuf=%d", sendBuf))
		if c == 0 {
			o.Sample(map[string]interface{}{"sub": "stallwrite", "deadline_ms": deadline.Milliseconds(), "request_mb": size >> 20, "send_buffer": sendBuf})
		}
		o.Oracle("stallwrite", fmt.Sprintf("sw%d", c), true, fmt.Sprint(c, deadline, size, sendBuf), verdict)
	}
}

func stallWriteOnce(deadline time.Duration, size, sendBuf int) time.Duration {
	ln, err := net.Listen("tcp", "127.0.0.1:0")
	if err != nil {
		return -1
	}
	defer ln.Close()
	stop := make(chan struct{})
	defer close(stop)
	go func() {
		conn, err := ln.Accept()
		if err != nil {
			return
		}
		defer conn.Close()
		if _, _, err := rawServerHandshake(conn); err != nil {
			return
		}
		<-stop // never read again
	}()
	ch, err := tchannel.NewChannel("stall-client", &tchannel.ChannelOptions{
		Logger:                   tchannel.NullLogger,
		DefaultConnectionOptions: tchannel.ConnectionOptions{SendBufferSize: sendBuf},
	})
	if err != nil {
		return -1
	}
	defer ch.Close()
	ctx, cancel := tchannel.NewContext(deadline)
	defer cancel()
	done := make(chan struct{})
	start := time.Now()
	go func() {
		defer close(done)
		raw.Call(ctx, ch, ln.Addr().String(), "svc", "m", []byte("a2"), bytes.Repeat([]byte("x"), size))
	}()
	select {
	case <-done:
	case <-time.After(deadline + 3*time.Second):
	}
	return time.Since(start)
}

// peeraddrace (C16): concurrent PeerList.Add of the same new host:port on one list, then
// Remove: the peer must leave the root list (one list entry = one reference).
func enginePeerAddRace(rng *rand.Rand, n int, tier string, o *Out) {
	srv, err := tchannel.NewChannel("addrace-server", &tchannel.ChannelOptions{Logger: tchannel.NullLogger})
	if err != nil {
		panic(err)
	}
	defer srv.Close()
	if err := srv.ListenAndServe("127.0.0.1:0"); err != nil {
		panic(err)
	}
	for c := 0; c < n; c++ {
		ch, err := tchannel.NewChannel(fmt.Sprintf("addrace-%d", c), &tchannel.ChannelOptions{Logger: tchannel.NullLogger})
		if err != nil {
			panic(err)
		}
		s := NewSched()
		adders := 2 + rng.Intn(3)
		hp := srv.PeerInfo().HostPort
		list := ch.Peers()
		useSub := rng.Intn(2) == 0
		if useSub {
			list = ch.GetSubChannel("svc", tchannel.Isolated).Peers()
		}
		s.ParkAt("peerlist.Add.afterRootAdd")
		var wg sync.WaitGroup
		for i := 0; i < adders; i++ {
			wg.Add(1)
			go func() { defer wg.Done(); list.Add(hp) }()
		}
		// on a correct tree only one adder can be inside Add (the list lock): wait for the
		// first, give the others a moment to arrive if they can, then let everybody go
		s.WaitArrived("peerlist.Add.afterRootAdd", 1, 2*time.Second)
		s.WaitArrived("peerlist.Add.afterRootAdd", adders, 150*time.Millisecond)
		s.ReleaseAll()
		wg.Wait()
		s.Close()
		verdict := ""
		// one list entry = one reference
		if p, ok := ch.IntrospectState(&tchannel.IntrospectionOptions{IncludeEmptyPeers: true}).RootPeers[hp]; !ok {
			verdict = "peer added to a list is not in the root list"
		} else if p.SCCount != 1 {
			verdict = fmt.Sprintf("after %d concurrent Add(%s) on one list the peer is referenced by 1 list entry but its reference count is %d", adders, hp, p.SCCount)
		}
		if err := list.Remove(hp); err != nil && verdict == "" {
			verdict = "Remove of the added peer failed: " + err.Error()
		}
		// the peer's last connection goes away while no list references it: it must leave the root list
		if verdict == "" {
			ctx, cancel := tchannel.NewContext(time.Second)
			conn, err := ch.Connect(ctx, hp)
			cancel()
			if err == nil {
				conn.Close()
				deadline := time.Now().Add(2 * time.Second)
				for time.Now().Before(deadline) {
					if _, ok := ch.IntrospectState(&tchannel.IntrospectionOptions{IncludeEmptyPeers: true}).RootPeers[hp]; !ok {
						break
					}
					time.Sleep(5 * time.Millisecond)
				}
				if p, ok := ch.IntrospectState(&tchannel.IntrospectionOptions{IncludeEmptyPeers: true}).RootPeers[hp]; ok {
					verdict = fmt.Sprintf("the peer's last connection was removed while no peer list references it, but it stays in the root list (reference count %d)", p.SCCount)
				}
			}
		}
		ch.Close()
		o.Hist(fmt.Sprintf("peeraddrace adders=%d sub=%v", adders, useSub))
		if c == 0 {
			o.Sample(map[string]interface{}{"sub": "peeraddrace", "adders": adders, "subchannel_list": useSub})
		}
		o.Oracle("peeraddrace", fmt.Sprintf("ar%d", c), true, fmt.Sprint(c, adders, useSub), verdict)
	}
}
