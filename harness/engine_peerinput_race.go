package main

import (
	"bytes"
	"fmt"
	"net"
	"strings"
	"sync"
	"time"
)

// peerinput, forced-schedule part (C03): the one way found (by the relay model, theorem
// C03_relay_reuse_unguarded_refuted) in which a re-used id is ADMITTED while a tombstone
// collection for it is still pending -- two goroutines of the relay race on one call:
//
//	reader of the caller's connection: a CANCEL for call X is looked up (timer stopped, item copy
//	    held) -- parked at relay.nonCallReq.afterGet by the schedule controller in the child;
//	reader of the backend's connection: non-final call res frames for X are forwarded until the
//	    caller (who does not read) has a full send queue: failRelayItem finds the timer already
//	    stopped, entombs X and schedules the collection (by id, 3s);
//	the first reader is released: cancel forwarded, finishRelayItem deletes the TOMBSTONE;
//	the caller re-uses X: no item, admitted; it stays in flight;
//	the stale collection fires: it must not touch the new call.
//
// Both peers are raw TCP peers of this harness (the backend is registered with the relay's
// RelayHost by the harness), the relay runs in a child process with role "relays".

func c03xCmd(ch *child, mu *sync.Mutex, line string) string {
	mu.Lock()
	defer mu.Unlock()
	fmt.Fprintf(ch.stdin, "%s\n", line)
	ch.stdin.Flush()
	res := make(chan string, 1)
	go func() {
		l, err := ch.out.ReadString('\n')
		if err != nil {
			l = "EOF"
		}
		res <- strings.TrimSpace(l)
	}()
	select {
	case l := <-res:
		return l
	case <-time.After(5 * time.Second):
		return "TIMEOUT"
	}
}

// c03xRun: "" = the property held; infeasible = the forced schedule could not be followed
// (never a failure).
func c03xRun() (verdict string, outcome string) {
	const desc = "forced schedule: CANCEL of call id=7777 parked after its lookup in the relay, the backend's non-final call res frames fill the non-reading caller's send queue (call failed + entombed), cancel released (tombstone deleted early), call req id=7777 re-used and in flight, wait 3.7s"
	ch, err := startChild("relays")
	if err != nil {
		return "", "infeasible: " + err.Error()
	}
	defer ch.stop()
	var mu sync.Mutex
	// the raw backend
	ln, err := net.Listen("tcp", "127.0.0.1:0")
	if err != nil {
		return "", "infeasible: " + err.Error()
	}
	defer ln.Close()
	type beConn struct {
		conn net.Conn
		reqs chan uint32
		pong chan uint32
	}
	beCh := make(chan *beConn, 4)
	go func() {
		for {
			conn, err := ln.Accept()
			if err != nil {
				return
			}
			if _, _, err := rawServerHandshake(conn); err != nil {
				conn.Close()
				continue
			}
			b := &beConn{conn: conn, reqs: make(chan uint32, 16), pong: make(chan uint32, 16)}
			beCh <- b
			go func() {
				defer conn.Close()
				for {
					f, err := readRawFrame(conn, time.Minute)
					if err != nil {
						return
					}
					switch f.Type {
					case 0x03:
						b.reqs <- f.ID
					case 0xd1:
						b.pong <- f.ID
					case 0xd0:
						writeRawFrame(conn, 0xd1, f.ID, nil)
					}
				}
			}()
		}
	}()
	if r := c03xCmd(ch, &mu, "addsvc rawsvc "+ln.Addr().String()); r != "OK" {
		return "", "infeasible: addsvc: " + r
	}
	// the caller: handshake, then it never reads again
	caller, err := net.DialTimeout("tcp", ch.hp, 2*time.Second)
	if err != nil {
		return "", "infeasible: " + err.Error()
	}
	defer caller.Close()
	if tc, ok := caller.(*net.TCPConn); ok {
		tc.SetReadBuffer(4096)
	}
	if _, err := rawClientHandshake(caller); err != nil {
		return "", "infeasible: " + err.Error()
	}
	const id = 7777
	mkReq := func() [][]byte {
		hdr := rawCallReqHeader(c03rLongTTL, zeroTracing, "rawsvc", [][2]string{{"as", "raw"}, {"cn", "rawpeer"}})
		return buildRawCallFrames(true, id, hdr, 0, [3][]byte{[]byte("m"), []byte("a2"), []byte("a3")}, 65519)
	}
	for _, f := range mkReq() {
		caller.Write(f)
	}
	var be *beConn
	var did uint32
	select {
	case be = <-beCh:
	case <-time.After(3 * time.Second):
		return "", "infeasible: the relay did not connect to the backend"
	}
	select {
	case did = <-be.reqs:
	case <-time.After(3 * time.Second):
		return "", "infeasible: the call req was not relayed"
	}
	if did == id {
		return "", "infeasible: id clash"
	}
	// park the caller-side reader right after it looked the cancel's item up
	if r := c03xCmd(ch, &mu, fmt.Sprintf("park relay.nonCallReq.afterGet %d", id)); r != "OK" {
		return "", "infeasible: park: " + r
	}
	caller.Write(rawFrameBytes(0xc0, id, append(append([]byte{0, 0, 0, 0}, zeroTracing...), str2("changed my mind")...)))
	if r := c03xCmd(ch, &mu, fmt.Sprintf("waitarrived relay.nonCallReq.afterGet %d 3000", id)); r != "ARRIVED true" {
		return "", "infeasible: the cancel did not reach the schedule point: " + r
	}
	// the backend floods non-final response frames: the caller's queue fills, the call is failed
	resHdr := rawCallResHeader(0, zeroTracing, nil)
	first := append(append([]byte{1}, resHdr...), 0) // flags=more, csum none
	first = append(first, 0, 0, 0, 0)                // arg1 empty (closed), arg2 starts empty
	chunk := bytes.Repeat([]byte("r"), 60000)
	cont := append([]byte{1, 0, byte(len(chunk) >> 8), byte(len(chunk))}, chunk...) // flags=more, csum none, one chunk
	be.conn.SetWriteDeadline(time.Now().Add(10 * time.Second))
	if _, err := be.conn.Write(rawFrameBytes(0x04, did, first)); err != nil {
		return "", "infeasible: backend write: " + err.Error()
	}
	frame := rawFrameBytes(0x14, did, cont)
	for i := 0; i < 700; i++ {
		if _, err := be.conn.Write(frame); err != nil {
			return "", "infeasible: backend write: " + err.Error()
		}
	}
	writeRawFrame(be.conn, 0xd0, 424242, nil)
	select {
	case <-be.pong:
	case <-time.After(8 * time.Second):
		return "", "infeasible: the relay did not work through the backend's frames"
	}
	flooded := time.Now()
	if !ch.alive() {
		return "[c03:process-died] the process hosting the relay exited during the response flood: " + lastLines(ch.stderr.String()), "died"
	}
	// the cancel goes on with its stale copy of the item
	if r := c03xCmd(ch, &mu, fmt.Sprintf("release relay.nonCallReq.afterGet %d", id)); r != "RELEASED true" {
		return "", "infeasible: release: " + r
	}
	time.Sleep(100 * time.Millisecond)
	// the id is re-used and stays in flight (the backend never answers)
	for _, f := range mkReq() {
		caller.Write(f)
	}
	admitted := false
	select {
	case <-be.reqs:
		admitted = true
	case <-time.After(time.Second):
	}
	for time.Now().Before(flooded.Add(c03rTombTTL + c03rGCSlack)) {
		if !ch.alive() {
			break
		}
		time.Sleep(100 * time.Millisecond)
	}
	outcome = "re-use dropped"
	if admitted {
		outcome = "re-use admitted"
	}
	if !ch.alive() {
		time.Sleep(30 * time.Millisecond)
		return "[c03:tombstone-collection-deletes-live-item] the process hosting the relay exited when a stale tombstone collection fired (" + desc + "; " + outcome + "): " + lastLines(ch.stderr.String()) + c03xTrace(ch.stderr.String()), outcome + ", died"
	}
	if v := c03rProbe(ch); v != "" {
		return "after '" + desc + "': " + v, outcome
	}
	return "", outcome
}

// c03xTrace: the library functions of the panicking goroutine, innermost first
func c03xTrace(stderr string) string {
	out := ""
	n := 0
	for _, l := range strings.Split(stderr, "\n") {
		if i := strings.Index(l, "tchannel-go."); i >= 0 && !strings.HasPrefix(l, "\t") {
			fn := l[i+len("tchannel-go."):]
			if j := strings.LastIndex(fn, "("); j > 0 {
				fn = fn[:j]
			}
			out += " <- " + fn
			if n++; n == 4 {
				break
			}
		}
	}
	return out
}
